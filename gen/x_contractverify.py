"""Translators for the two on-chain acceptance functions around the quorum test (C07: "a VAA the node considers complete is accepted
on chain and an incomplete one is not").

  ethereum/contracts/Messages.sol      verifyVM            -> sol_verifyVM
  alephium/contracts/governance.ral    parseAndVerifyVAA   -> ral_parse_and_verify

Both function bodies are parsed statement by statement (declarations, if / else-if / else, return, assert!, the signature loop) and
turned into one Gallina boolean expression over the quantities the statements read: the guardian count n of the set the VAA names, the
signature count k of the VAA, the set index of the VAA and the current one, expiry time and block time, and one oracle bit for "every
signature verifies" (the loop / verifySignatures are C06's subject, not translated here).  Nothing is matched against a remembered
text of the function: where the quorum test stands — under which conditions it is evaluated at all — is read from the tree on every run.
A statement or an operand the translator does not understand raises Broken (the tie is reported as lost)."""
import re
from extract import rd, Broken

TARGET = "ExtractedContractVerify"
HEADER = "From Coq Require Import ZArith Bool.\nFrom WH Require Import gen.Extracted.\nOpen Scope Z_scope.\n\n"


# ------------------------------------------------------------------------------------------------ lexing / parsing (both languages)
TOK = re.compile(r'\s*(?:(\d+)|("(?:[^"\\]|\\.)*")|([A-Za-z_]\w*(?:!(?!=))?)|(&&|\|\||==|!=|<=|>=|\+\+|[-+*/<>!()\[\]{},.;=]))')


def lex(s, what):
    out, i = [], 0
    s = s.rstrip()
    while i < len(s):
        m = TOK.match(s, i)
        if not m or m.end() == i:
            raise Broken("%s: cannot tokenize at %r" % (what, s[i:i + 30]))
        if m.group(1) is not None:
            out.append(("num", m.group(1)))
        elif m.group(2) is not None:
            out.append(("str", m.group(2)))
        elif m.group(3) is not None:
            out.append(("id", m.group(3)))
        else:
            out.append(("op", m.group(4)))
        i = m.end()
    return out


class P:
    """recursive descent over a token list; expressions become tuples"""
    def __init__(self, toks, what):
        self.t, self.i, self.what = toks, 0, what

    def peek(self, k=0):
        return self.t[self.i + k] if self.i + k < len(self.t) else ("eof", "")

    def eat(self, kind=None, val=None):
        tk = self.peek()
        if (kind and tk[0] != kind) or (val is not None and tk[1] != val):
            raise Broken("%s: expected %s %s, found %r" % (self.what, kind or "", val or "", tk[1]))
        self.i += 1
        return tk

    def at(self, val):
        return self.peek() == ("op", val)

    def at_id(self, val):
        return self.peek() == ("id", val)

    # precedence: || < && < comparison < + - < * / < unary < postfix
    def expr(self):
        e = self.conj()
        while self.at("||"):
            self.eat()
            e = ("or", e, self.conj())
        return e

    def conj(self):
        e = self.cmp()
        while self.at("&&"):
            self.eat()
            e = ("and", e, self.cmp())
        return e

    def cmp(self):
        e = self.add()
        if self.peek()[0] == "op" and self.peek()[1] in ("==", "!=", "<", "<=", ">", ">="):
            op = self.eat()[1]
            e = ("cmp", op, e, self.add())
        return e

    def add(self):
        e = self.mul()
        while self.peek()[0] == "op" and self.peek()[1] in ("+", "-", "++"):
            op = self.eat()[1]
            e = ("bin", op, e, self.mul())
        return e

    def mul(self):
        e = self.unary()
        while self.peek()[0] == "op" and self.peek()[1] in ("*", "/"):
            op = self.eat()[1]
            e = ("bin", op, e, self.unary())
        return e

    def unary(self):
        if self.at("!"):
            self.eat()
            return ("not", self.unary())
        if self.at("-"):
            self.eat()
            return ("neg", self.unary())
        return self.postfix()

    def postfix(self):
        tk = self.peek()
        if tk == ("op", "("):
            self.eat()
            e = self.expr()
            self.eat("op", ")")
        elif tk[0] == "num":
            self.eat()
            e = ("num", int(tk[1]))
        elif tk[0] == "str":
            self.eat()
            e = ("str", tk[1])
        elif tk[0] == "id":
            self.eat()
            e = ("id", tk[1])
        else:
            raise Broken("%s: unexpected %r in an expression" % (self.what, tk[1]))
        while True:
            if self.at("."):
                self.eat()
                e = ("member", e, self.eat("id")[1])
            elif self.at("("):
                self.eat()
                args = []
                while not self.at(")"):
                    args.append(self.expr())
                    if self.at(","):
                        self.eat()
                self.eat("op", ")")
                e = ("call", e, tuple(args))
            elif self.at("["):
                self.eat()
                ix = self.expr()
                self.eat("op", "]")
                e = ("index", e, ix)
            else:
                return e


def canon(e):
    k = e[0]
    if k == "num":
        return str(e[1])
    if k == "str":
        return e[1]
    if k == "id":
        return e[1]
    if k == "member":
        return canon(e[1]) + "." + e[2]
    if k == "call":
        return canon(e[1]) + "(" + ",".join(canon(a) for a in e[2]) + ")"
    if k == "index":
        return canon(e[1]) + "[" + canon(e[2]) + "]"
    if k == "not":
        return "!" + canon(e[1])
    if k == "neg":
        return "-" + canon(e[1])
    if k in ("and", "or"):
        return "(" + canon(e[1]) + {"and": "&&", "or": "||"}[k] + canon(e[2]) + ")"
    if k == "cmp":
        return "(" + canon(e[2]) + e[1] + canon(e[3]) + ")"
    if k == "bin":
        return "(" + canon(e[2]) + e[1] + canon(e[3]) + ")"
    raise Broken("canon: %r" % (e,))


def subst(e, env):
    """replace local names by the expressions they were bound to"""
    k = e[0]
    if k == "id":
        return env.get(e[1], e)
    if k in ("num", "str"):
        return e
    if k == "member":
        return ("member", subst(e[1], env), e[2])
    if k == "call":
        return ("call", e[1] if e[1][0] == "id" else subst(e[1], env), tuple(subst(a, env) for a in e[2]))
    if k == "index":
        return ("index", subst(e[1], env), subst(e[2], env))
    if k in ("not", "neg"):
        return (k, subst(e[1], env))
    if k in ("and", "or"):
        return (k, subst(e[1], env), subst(e[2], env))
    if k in ("cmp", "bin"):
        return (k, e[1], subst(e[2], env), subst(e[3], env))
    raise Broken("subst: %r" % (e,))


CMPZ = {"==": "(%s =? %s)", "!=": "negb (%s =? %s)", "<": "(%s <? %s)", "<=": "(%s <=? %s)", ">": "(%s >? %s)", ">=": "(%s >=? %s)"}


class Tr:
    """expression -> (Gallina text, 'Z' | 'bool'); symbols: canonical text -> (name, type); calls: function name -> Gallina function on Z"""
    def __init__(self, symbols, calls, what):
        self.sym, self.calls, self.what, self.used = symbols, calls, what, set()

    def tr(self, e):
        c = canon(e)
        if c in self.sym:
            self.used.add(self.sym[c][0])
            return self.sym[c]
        k = e[0]
        if k == "num":
            return (str(e[1]), "Z")
        if k == "id" and e[1] in ("true", "false"):
            return (e[1], "bool")
        if k == "not":
            a, t = self.tr(e[1])
            self.want(t, "bool", e)
            return ("negb %s" % self.par(a), "bool")
        if k in ("and", "or"):
            a, ta = self.tr(e[1])
            b, tb = self.tr(e[2])
            self.want(ta, "bool", e[1])
            self.want(tb, "bool", e[2])
            return ("(%s %s %s)" % (a, {"and": "&&", "or": "||"}[k], b), "bool")
        if k == "cmp":
            a, ta = self.tr(e[2])
            b, tb = self.tr(e[3])
            if ta == "bool" and tb == "bool" and e[1] in ("==", "!="):
                s = "Bool.eqb %s %s" % (self.par(a), self.par(b))
                return (s if e[1] == "==" else "negb (%s)" % s, "bool")
            self.want(ta, "Z", e[2])
            self.want(tb, "Z", e[3])
            return (CMPZ[e[1]] % (a, b), "bool")
        if k == "bin" and e[1] in "+-*/":
            a, ta = self.tr(e[2])
            b, tb = self.tr(e[3])
            self.want(ta, "Z", e[2])
            self.want(tb, "Z", e[3])
            return ("(%s %s %s)" % (a, e[1], b), "Z")       # `/` on unsigned integers = floor division = Z.div on non-negative operands
        if k == "call" and e[1][0] == "id" and e[1][1] in self.calls and len(e[2]) == 1:
            a, ta = self.tr(e[2][0])
            self.want(ta, "Z", e[2][0])
            return ("(%s %s)" % (self.calls[e[1][1]], self.par(a)), "Z")
        raise Broken("%s: operand `%s` is not one the translator knows" % (self.what, c[:120]))

    def want(self, t, w, e):
        if t != w:
            raise Broken("%s: `%s` used as %s" % (self.what, canon(e)[:80], w))

    @staticmethod
    def par(s):
        return s if re.fullmatch(r'[\w.]+|\(.*\)', s) else "(%s)" % s


def func_body(src, sig_re, what):
    m = re.search(sig_re, src)
    if not m:
        raise Broken("%s: function not found" % what)
    i = src.index("{", m.end() - 1)
    depth = 0
    for j in range(i, len(src)):
        if src[j] == "{":
            depth += 1
        elif src[j] == "}":
            depth -= 1
            if depth == 0:
                return src[i + 1:j]
    raise Broken("%s: unbalanced braces" % what)


def nocomment(s):
    s = re.sub(r'/\*.*?\*/', ' ', s, flags=re.S)
    return re.sub(r'//[^\n]*', ' ', s)


# ------------------------------------------------------------------------------------------------ Solidity: verifyVM
SOL_TYPES = ("bool", "string", "uint", "uint8", "uint16", "uint32", "uint64", "uint256", "bytes32", "address", "Structs")


def sol_block(p):
    """statements up to the closing brace (not consumed) -> list"""
    out = []
    while not p.at("}") and p.peek()[0] != "eof":
        out.append(sol_stmt(p))
    return out


def sol_stmt(p):
    if p.at_id("if"):
        p.eat()
        p.eat("op", "(")
        c = p.expr()
        p.eat("op", ")")
        th = sol_branch(p)
        el = None
        if p.at_id("else"):
            p.eat()
            el = [sol_stmt(p)] if p.at_id("if") else sol_branch(p)
        return ("if", c, th, el)
    if p.at_id("return"):
        p.eat()
        e = p.expr() if not p.at("(") else None
        if e is None:
            p.eat("op", "(")
            vals = [p.expr()]
            while p.at(","):
                p.eat()
                vals.append(p.expr())
            p.eat("op", ")")
            e = vals[0]
        p.eat("op", ";")
        return ("return", e)
    if p.at_id("require"):
        p.eat()
        p.eat("op", "(")
        c = p.expr()
        while p.at(","):
            p.eat()
            p.expr()
        p.eat("op", ")")
        p.eat("op", ";")
        return ("assert", c)
    if p.at("("):
        # (bool a, string memory b) = call(...);
        p.eat()
        names = []
        while not p.at(")"):
            last = None
            while p.peek()[0] == "id":
                last = p.eat()[1]
            names.append(last)
            if p.at(","):
                p.eat()
        p.eat("op", ")")
        p.eat("op", "=")
        e = p.expr()
        p.eat("op", ";")
        return ("lettuple", names, e)
    if p.peek()[0] == "id" and p.peek()[1] in SOL_TYPES:
        # TYPE[.Name] [memory] name = expr;
        last = None
        while p.peek()[0] == "id" or p.at("."):
            tk = p.eat()
            if tk[0] == "id":
                last = tk[1]
        p.eat("op", "=")
        e = p.expr()
        p.eat("op", ";")
        return ("let", last, e)
    raise Broken("verifyVM: statement starting with %r is not understood" % (p.peek()[1],))


def sol_branch(p):
    if p.at("{"):
        p.eat()
        b = sol_block(p)
        p.eat("op", "}")
        return b
    return [sol_stmt(p)]


def emit_block(stmts, rest, env, tr, lang):
    """Gallina boolean for: run stmts, then `rest` (already Gallina, or None when falling off the end is an error)"""
    if not stmts:
        if rest is None:
            raise Broken("%s: a path reaches the end of the function without a result" % tr.what)
        return rest
    s, tail = stmts[0], stmts[1:]
    k = s[0]
    if k == "let":
        env2 = dict(env)
        env2[s[1]] = subst(s[2], env)
        return emit_block(tail, rest, env2, tr, lang)
    if k == "assign":
        env2 = dict(env)
        env2[s[1]] = ("id", "?reassigned:" + s[1])
        return emit_block(tail, rest, env2, tr, lang)
    if k == "lettuple":
        c = canon(subst(s[2], env))
        if c not in tr.sym:
            raise Broken("%s: tuple result of `%s` is not known" % (tr.what, c[:100]))
        env2 = dict(env)
        env2[s[1][0]] = ("id", "?sym:" + c)
        return emit_block(tail, rest, env2, tr, lang)
    if k == "return":
        if lang == "ral":
            return "true"
        a, t = tr.tr(subst(s[1], env))
        tr.want(t, "bool", s[1])
        return a
    if k == "assert":
        a, t = tr.tr(subst(s[1], env))
        tr.want(t, "bool", s[1])
        return "(if %s then %s else false)" % (a, emit_block(tail, rest, env, tr, lang))
    if k == "sigloop":
        tr.used.add("sigs_ok")
        return "(if sigs_ok then %s else false)" % emit_block(tail, rest, env, tr, lang)
    if k == "if":
        a, t = tr.tr(subst(s[1], env))
        tr.want(t, "bool", s[1])
        after = emit_block(tail, rest, env, tr, lang) if (tail or rest is not None) else None
        th = emit_block(s[2], after, env, tr, lang)
        el = emit_block(s[3], after, env, tr, lang) if s[3] is not None else after
        if el is None:
            raise Broken("%s: a path reaches the end of the function without a result" % tr.what)
        return "(if %s then %s else %s)" % (a, th, el)
    raise Broken("%s: statement kind %s" % (tr.what, k))


def x_sol_verifyvm():
    src = nocomment(rd("ethereum/contracts/Messages.sol"))
    body = func_body(src, r'function\s+verifyVM\s*\([^)]*\)[^{]*\{', "Messages.sol verifyVM")
    p = P(lex(body, "verifyVM"), "verifyVM")
    stmts = sol_block(p)
    if p.peek()[0] != "eof":
        raise Broken("verifyVM: trailing text")
    gs = "getGuardianSet(vm.guardianSetIndex)"
    vs = "verifySignatures(vm.hash,vm.signatures,%s)" % gs
    sym = {
        "vm.signatures.length": ("k", "Z"),
        gs + ".keys.length": ("n", "Z"),
        "vm.guardianSetIndex": ("vidx", "Z"),
        "getCurrentGuardianSetIndex()": ("curidx", "Z"),
        gs + ".expirationTime": ("exptime", "Z"),
        "block.timestamp": ("now", "Z"),
        vs: ("sigs_valid", "bool"),
        "?sym:" + vs: ("sigs_valid", "bool"),
    }
    tr = Tr(sym, {"quorum": "sol_quorum"}, "Messages.sol verifyVM")
    g = emit_block(stmts, None, {}, tr, "sol")
    if "k" not in tr.used or "n" not in tr.used:
        raise Broken("Messages.sol verifyVM: the translated function reads no signature count / guardian count at all")
    out = ("(* Messages.sol verifyVM, statement by statement: n = keys of the set the VM names, k = signatures of the VM, vidx / curidx = set index of\n"
           "   the VM / current index, exptime / now = expiry of that set / block time, sigs_valid = result of verifySignatures *)\n"
           "Definition sol_verifyVM (n k vidx curidx exptime now : Z) (sigs_valid : bool) : bool :=\n  %s.\n" % g)
    return out, {"statements": len(stmts), "reads": sorted(tr.used)}


# ------------------------------------------------------------------------------------------------ Ralph: parseAndVerifyVAA
def ral_block(p):
    out = []
    while not p.at("}") and p.peek()[0] != "eof":
        out.append(ral_stmt(p))
    return out


def ral_stmt(p):
    if p.at_id("assert!"):
        p.eat()
        p.eat("op", "(")
        c = p.expr()
        p.eat("op", ",")
        p.expr()
        p.eat("op", ")")
        return ("assert", c)
    if p.at_id("let"):
        p.eat()
        if p.at_id("mut"):
            p.eat()
        if p.at("("):
            raise Broken("parseAndVerifyVAA: tuple binding is not understood")
        name = p.eat("id")[1]
        p.eat("op", "=")
        return ("let", name, p.expr())
    if p.at_id("if"):
        p.eat()
        p.eat("op", "(")
        c = p.expr()
        p.eat("op", ")")
        p.eat("op", "{")
        th = ral_block(p)
        p.eat("op", "}")
        el = None
        if p.at_id("else"):
            p.eat()
            if p.at_id("if"):
                el = [ral_stmt(p)]
            else:
                p.eat("op", "{")
                el = ral_block(p)
                p.eat("op", "}")
        return ("if", c, th, el)
    if p.at_id("for"):
        p.eat()
        p.eat("op", "(")
        p.eat("id", "let")
        if p.at_id("mut"):
            p.eat()
        iv = p.eat("id")[1]
        p.eat("op", "=")
        init = p.expr()
        p.eat("op", ";")
        cond = p.expr()
        p.eat("op", ";")
        sv = p.eat("id")[1]
        p.eat("op", "=")
        step = p.expr()
        p.eat("op", ")")
        p.eat("op", "{")
        body = ral_block(p)
        p.eat("op", "}")
        if not (init == ("num", 0) and sv == iv and canon(step) == "(%s+1)" % iv and cond[0] == "cmp" and cond[1] == "<" and cond[2] == ("id", iv)):
            raise Broken("parseAndVerifyVAA: signature loop header `%s; %s; %s = %s` is not `i = 0; i < count; i = i + 1`" % (canon(init), canon(cond), sv, canon(step)))
        if not any(b[0] == "assert" and "ethEcRecover!" in canon(b[1]) for b in body):
            raise Broken("parseAndVerifyVAA: the loop does not assert an ethEcRecover! result")
        return ("sigloop", cond[3], body)
    if p.at_id("return"):
        p.eat()
        p.expr()
        while p.at(","):
            p.eat()
            p.expr()
        return ("return", None)
    if p.peek()[0] == "id" and p.peek(1) == ("op", "="):
        name = p.eat()[1]
        p.eat()
        p.expr()
        return ("assign", name)
    raise Broken("parseAndVerifyVAA: statement starting with %r is not understood" % (p.peek()[1],))


def x_ral_parse_and_verify():
    src = nocomment(rd("alephium/contracts/governance.ral"))
    body = func_body(src, r'fn\s+parseAndVerifyVAA\s*\(\s*data\s*:\s*ByteVec\s*,\s*isGovernanceVAA\s*:\s*Bool\s*\)[^{]*\{', "governance.ral parseAndVerifyVAA")
    p = P(lex(body, "parseAndVerifyVAA"), "parseAndVerifyVAA")
    stmts = ral_block(p)
    if p.peek()[0] != "eof":
        raise Broken("parseAndVerifyVAA: trailing text")
    vidx = "u256From4Byte!(byteVecSlice!(data,1,5))"
    sym = {
        "byteVecSlice!(data,0,1)": ("ver", "Z"),
        "Version": ("version_const", "Z"),
        vidx: ("vidx", "Z"),
        "guardianSetIndexes[1]": ("curidx", "Z"),
        "u256From1Byte!(byteVecSlice!(data,5,6))": ("k", "Z"),
        "u256From1Byte!(byteVecSlice!(getGuardiansInfo(%s),0,1))" % vidx: ("n", "Z"),
        "isGovernanceVAA": ("gov", "bool"),
    }
    tr = Tr(sym, {}, "governance.ral parseAndVerifyVAA")
    # the loop runs over exactly the signature count
    def loops(ss, env):
        for s in ss:
            if s[0] == "let":
                env = dict(env)
                env[s[1]] = subst(s[2], env)
            elif s[0] == "sigloop":
                a, _ = tr.tr(subst(s[1], env))
                if a != "k":
                    raise Broken("parseAndVerifyVAA: the signature loop runs to `%s`, not to the signature count" % canon(s[1]))
            elif s[0] == "if":
                loops(s[2], env)
                if s[3]:
                    loops(s[3], env)
    loops(stmts, {})
    g = emit_block(stmts, None, {}, tr, "ral")
    if "k" not in tr.used or "n" not in tr.used or "sigs_ok" not in tr.used:
        raise Broken("governance.ral parseAndVerifyVAA: the translated function reads no signature count / guardian count / signature loop")
    out = ("(* governance.ral parseAndVerifyVAA, statement by statement (true = no assert fails): ver / version_const = first byte / the contract's\n"
           "   Version, vidx / curidx = set index of the VAA / guardianSetIndexes[1], n = guardian count of the set the VAA names, k = signature\n"
           "   count byte, gov = isGovernanceVAA, sigs_ok = every iteration of the signature loop passes its asserts *)\n"
           "Definition ral_parse_and_verify (ver version_const vidx curidx n k : Z) (gov sigs_ok : bool) : bool :=\n  %s.\n" % g)
    return out, {"statements": len(stmts), "reads": sorted(tr.used)}


EXTRACTORS = [("sol_verifyvm", x_sol_verifyvm), ("ral_parse_and_verify", x_ral_parse_and_verify)]
