"""Extractors for the Alephium watcher (C08 / C09): constants, comparison shapes and the presence of the filters the
properties rely on, read from node/pkg/alephium/{watcher,reobserve,client,utils}.go on every run."""
import re
from extract import rd, Broken

CMP = {">": ">?", ">=": ">=?", "==": "=?", "<": "<?", "<=": "<=?"}


def func_body(src, header_re, what):
    m = re.search(header_re, src, re.M)
    if not m:
        raise Broken("%s: function header not found" % what)
    i = src.index("{\n", m.end())
    depth = 0
    j = i
    while j < len(src):
        c = src[j]
        if c == '"':
            j = src.index('"', j + 1)
        elif c == '`':
            j = src.index('`', j + 1)
        elif c == "/" and src[j + 1] == "/":
            j = src.index("\n", j)
            continue
        elif c == "{":
            depth += 1
        elif c == "}":
            depth -= 1
            if depth == 0:
                return src[i:j + 1]
        j += 1
    raise Broken("%s: unbalanced braces" % what)


def x_alph_confirm():
    src = rd("node/pkg/alephium/watcher.go")
    bt = re.search(r'^const BlockTimeMs\s*=\s*(\d+)\s*$', src, re.M)
    mc = re.search(r'^const MinimalConsistencyLevel uint8\s*=\s*(\d+)\s*$', src, re.M)
    if not bt or not mc:
        raise Broken("watcher.go: BlockTimeMs / MinimalConsistencyLevel constants not found")
    u = rd("node/pkg/alephium/utils.go")
    wi = re.search(r'^const WormholeMessageEventIndex\s*=\s*(-?\d+)\s*$', u, re.M)
    tp = re.search(r'^const TransferTokenPayloadId\s*=\s*(\d+)\s*$', u, re.M)
    ap = re.search(r'^const AttestTokenPayloadId\s*=\s*(\d+)\s*$', u, re.M)
    if not wi or not tp or not ap:
        raise Broken("utils.go: WormholeMessageEventIndex / payload id constants not found")
    for fn, cst in (("IsAttestTokenVAA", "AttestTokenPayloadId"), ("IsTransferTokenVAA", "TransferTokenPayloadId")):
        if not re.search(r'func \(w \*WormholeMessage\) %s\(\) bool \{\s*return len\(w\.payload\) > 0 && w\.payload\[0\] == %s\s*\}' % (fn, cst), u):
            raise Broken("utils.go: %s is not `len(payload) > 0 && payload[0] == %s`" % (fn, cst))
    if not re.search(r'func maxUint8\(a, b uint8\) uint8 \{\s*if a > b \{\s*return a\s*\}\s*return b\s*\}', u):
        raise Broken("utils.go: maxUint8 is not max")
    ic = func_body(src, r'^func isEventConfirmed\(', "isEventConfirmed")
    m = re.search(r'consistencyLevel := event\.msg\.consistencyLevel\s*\n\s*if eventBlockHeader\.Height\+int32\(consistencyLevel\) (>=|>|<=|<|==) currentHeight \{'
                  r'[^}]*?return false\s*\}\s*'
                  r'duration := getConfirmationDuration\(isMainnet, event\.msg\.IsTransferTokenVAA\(\), consistencyLevel\)\s*\n'
                  r'\s*if eventBlockHeader\.Timestamp\+duration (>=|>|<=|<|==) currentTs \{[^}]*?return false\s*\}\s*return true\s*\}', ic, re.S)
    if not m:
        raise Broken("isEventConfirmed: shape (height test, duration, time test, return true) not found")
    gd = func_body(src, r'^func getConfirmationDuration\(', "getConfirmationDuration")
    g = re.search(r'\{\s*if isMainnet && isTransferTokenVAA \{\s*return int64\(maxUint8\(eventConsistencyLevel, MinimalConsistencyLevel\)\) \* BlockTimeMs\s*\}\s*'
                  r'return int64\(eventConsistencyLevel\) \* BlockTimeMs\s*\}$', gd, re.S)
    if not g:
        raise Broken("getConfirmationDuration: shape not found")
    out = ("Definition alph_block_time_ms : Z := %s.\nDefinition alph_min_cl : Z := %s.\nDefinition alph_wm_event_index : Z := %s.\n"
           "Definition alph_transfer_payload_id : Z := %s.\nDefinition alph_attest_payload_id : Z := %s.\n"
           "(* isEventConfirmed: `if Height+int32(level) %s currentHeight { return false }` (sum = the int32 sum) *)\n"
           "Definition alph_height_short (sum cur : Z) : bool := sum %s cur.\n"
           "(* isEventConfirmed: `if Timestamp+duration %s currentTs { return false }` (sum = the int64 sum) *)\n"
           "Definition alph_time_short (sum now : Z) : bool := sum %s now.\n"
           "(* getConfirmationDuration *)\n"
           "Definition alph_duration (mainnet transfer : bool) (cl : Z) : Z :=\n"
           "  if (mainnet && transfer)%%bool then Z.max cl alph_min_cl * alph_block_time_ms else cl * alph_block_time_ms.\n"
           % (bt.group(1), mc.group(1), wi.group(1), tp.group(1), ap.group(1), m.group(1), CMP[m.group(1)], m.group(2), CMP[m.group(2)]))
    return out, {"BlockTimeMs": int(bt.group(1)), "MinimalConsistencyLevel": int(mc.group(1)), "height_test": m.group(1), "time_test": m.group(2)}


def x_alph_poll():
    src = rd("node/pkg/alephium/watcher.go")
    fe = func_body(src, r'^func \(w \*Watcher\) fetchEvents\(', "fetchEvents")
    if not re.search(r'if \*count == fromIndex \{\s*continue\s*\}', fe):
        raise Broken("fetchEvents: `if *count == fromIndex { continue }` not found")
    m = re.search(r'fromIndex = events\.NextStart\s*\n\s*if events\.NextStart (>=|>|<=|<|==) \*count \{\s*break\s*\}', fe)
    if not m:
        raise Broken("fetchEvents: page loop exit (`fromIndex = events.NextStart; if events.NextStart <op> *count { break }`) not found")
    if not re.search(r'events, err := client\.GetContractEvents\(ctx, contractAddress, fromIndex, w\.chainIndex\.FromGroup\)', fe):
        raise Broken("fetchEvents: page request from fromIndex not found")
    hu = func_body(src, r'^func \(w \*Watcher\) handleUnconfirmedEvents\(', "handleUnconfirmedEvents")
    a = re.search(r'unconfirmed, err := w\.toUnconfirmedEvent\(&contractEvent\)\s*\n\s*if err != nil \{\s*\n\s*logger\.\w+\([^\n]*\)\s*\n\s*(return nil, err|continue)\s*\n\s*\}', hu)
    if not a:
        raise Broken("handleUnconfirmedEvents: handling of an unconvertible event not found")
    out = ("(* fetchEvents page loop: `if events.NextStart %s *count { break }` *)\n"
           "Definition alph_page_exit (next count : Z) : bool := next %s count.\n"
           "(* handleUnconfirmedEvents on an unconvertible event: `%s` *)\n"
           "Definition alph_unconv_aborts : bool := %s.\n"
           % (m.group(1), CMP[m.group(1)], a.group(1), "true" if a.group(1).startswith("return") else "false"))
    return out, {"page_exit": m.group(1), "unconvertible": a.group(1)}


def x_alph_filters():
    """the filters of the polling path: event index test, attestation validation (skip on error, comparison with the token
    contract's answer), sender filter before the send on msgChan"""
    src = rd("node/pkg/alephium/watcher.go")
    hu = func_body(src, r'^func \(w \*Watcher\) handleUnconfirmedEvents\(', "handleUnconfirmedEvents")
    v = re.search(r'if unconfirmed\.msg\.IsAttestTokenVAA\(\) \{.*?if err = w\.validateAttestToken\(ctx, unconfirmed\.msg\); err != nil \{\s*\n\s*logger\.\w+\([^\n]*\)\s*\n\s*continue\s*\n\s*\}', hu, re.S)
    if not v:
        raise Broken("handleUnconfirmedEvents: attestation validation (validateAttestToken, skip on error) not found")
    tu = func_body(src, r'^func \(w \*Watcher\) toUnconfirmedEvent\(', "toUnconfirmedEvent")
    if not re.search(r'if event\.EventIndex != WormholeMessageEventIndex \{\s*return nil,', tu):
        raise Broken("toUnconfirmedEvent: event index test not found")
    hc = func_body(src, r'^func \(w \*Watcher\) handleConfirmedEvents\(', "handleConfirmedEvents")
    if not re.search(r'case WormholeMessageEventIndex:\s*\n\s*if !e\.event\.msg\.senderId\.equalWith\(w\.tokenBridgeContractId\) \{\s*\n[^\n]*\n\s*continue\s*\n\s*\}\s*\n\s*w\.msgChan <- ', hc):
        raise Broken("handleConfirmedEvents: sender filter before the send on msgChan not found")
    va = func_body(src, r'^func \(w \*Watcher\) validateAttestToken\(', "validateAttestToken")
    in_order(va, [r'tokenInfo, err := parseAttestToken\(msg\.payload\)\s*if err != nil \{\s*return err\s*\}',
                  r'tokenInfoFromChain, err := w\.client\.GetTokenInfo\(ctx, tokenInfo\.TokenId\)\s*if err != nil \{\s*return err\s*\}'], "validateAttestToken")
    if not re.search(r'if \*tokenInfo != \*tokenInfoFromChain \{\s*return fmt\.Errorf', va):
        raise Broken("validateAttestToken: comparison with the on-chain token info not found")
    out = ("(* polling-path filters verified against the source: toUnconfirmedEvent index test, validateAttestToken comparison, "
           "skip of invalid attestations, sender filter in handleConfirmedEvents *)\n"
           "Definition alph_polling_filters_checked : bool := true.\n")
    return out, {"checked": ["toUnconfirmedEvent", "validateAttestToken", "handleUnconfirmedEvents", "handleConfirmedEvents"]}


def x_alph_tokeninfo():
    src = rd("node/pkg/alephium/client.go")
    b = func_body(src, r'^func \(c \*Client\) GetTokenInfo\(', "GetTokenInfo")
    if not re.search(r'if tokenId == ALPHTokenId \{\s*return &ALPHTokenInfo, nil\s*\}', b):
        raise Broken("GetTokenInfo: ALPH special case not found")
    if not re.search(r'if len\(result\.Results\) != 3 \{\s*return nil,', b):
        raise Broken("GetTokenInfo: result count test not found")
    names = ["symbolResult", "nameResult", "decimalsResult"]
    tests = []
    for i, n in enumerate(names):
        m = re.search(r'%s := result\.Results\[%d\]\s*\n\s*if (\w+)\.CallContractSucceeded == nil \|\| len\(%s\.CallContractSucceeded\.Returns\) != 1 \{\s*return nil,' % (n, i, n), b)
        if not m:
            raise Broken("GetTokenInfo: shape test of %s not found" % n)
        if m.group(1) not in names:
            raise Broken("GetTokenInfo: nil test of %s names unknown variable %s" % (n, m.group(1)))
        tests.append(names.index(m.group(1)))
    if not re.search(r'symbolBs, err := toByteVec\(symbolResult\.CallContractSucceeded\.Returns\[0\]\).*?name, err := toByteVec\(nameResult\.CallContractSucceeded\.Returns\[0\]\).*?'
                     r'decimals, err := toUint8\(decimalsResult\.CallContractSucceeded\.Returns\[0\]\)', b, re.S):
        raise Broken("GetTokenInfo: conversions of the three returns not found")
    u = rd("node/pkg/alephium/utils.go")
    ai = re.search(r'var ALPHTokenInfo TokenInfo = TokenInfo\{\s*TokenId:\s*ALPHTokenId,\s*Decimals:\s*(\d+),\s*Symbol:\s*"(\w+)",\s*Name:\s*"(\w+)",\s*\}', u)
    if not ai:
        raise Broken("utils.go: ALPHTokenInfo not found")
    out = ("(* GetTokenInfo: index of the call result whose CallContractSucceeded is nil-tested before results 0, 1, 2 are dereferenced *)\n"
           "Definition alph_tokinfo_tests : nat * nat * nat := (%d, %d, %d)%%nat.\nDefinition alph_native_decimals : Z := %s.\n" % (tests[0], tests[1], tests[2], ai.group(1)))
    return out, {"nil_tests": tests, "alph": [int(ai.group(1)), ai.group(2), ai.group(3)]}


def x_alph_reobserve():
    src = rd("node/pkg/alephium/reobserve.go")
    ho = func_body(src, r'^func \(w \*Watcher\) handleObsvRequest\(', "handleObsvRequest")
    order = [r'txStatus, err := client\.GetTransactionStatus\(ctx, txId\)', r'if txStatus\.Confirmed == nil \{', r'blockHash := txStatus\.Confirmed\.BlockHash',
             r'events, err := w\.getGovernanceEventsByTxId\(ctx, logger, client, w\.governanceContractAddress, blockHash, txId\)',
             r'isCanonical, err := client\.IsBlockInMainChain\(ctx, blockHash\)', r'if !\*isCanonical \{', r'currentHeight, err := w\.client\.GetCurrentHeight\(ctx, w\.chainIndex\)',
             r'for _, event := range events \{', r'w\.handleGovernanceMessages\(logger, confirmed\)']
    v = rd("node/pkg/vaa/structs.go")
    cid = re.search(r'^\s*ChainIDAlephium ChainID = (\d+)\s*$', v, re.M)
    if not cid:
        raise Broken("vaa/structs.go: ChainIDAlephium not found")
    rq = re.search(r'case req := <-w\.obsvReqC:\s*\n\s*if req\.ChainId != uint32\(vaa\.ChainIDAlephium\) \{\s*\n[^\n]*\n\s*continue\s*\}\s*'
                    r'if len\(req\.TxHash\) != (\d+) \{\s*\n[^\n]*\n\s*continue\s*\}\s*txId := hex\.EncodeToString\(req\.TxHash\[0:\1\]\)', ho)
    if not rq:
        raise Broken("handleObsvRequest: chain id / tx hash length tests not found")
    pos = 0
    for pat in order:
        m = re.compile(pat).search(ho, pos)
        if not m:
            raise Broken("handleObsvRequest: step `%s` not found in order" % pat)
        pos = m.end()
    old = re.search(r'for _, event := range events \{\s*\n\s*if event\.header\.Height\+int32\(event\.confirmations\) (<=|<) \*currentHeight \{', ho)
    new = re.search(r'now := time\.Now\(\)\.UnixMilli\(\)\s*\n(?:[^\n]*\n)*?\s*for _, event := range events \{\s*\n\s*if isEventConfirmed\(logger, event\.unconfirmed, event\.header, now, \*currentHeight, w\.isMainnet\) \{', ho)
    if new:
        wall, hop = "true", "<="
    elif old:
        wall, hop = "false", old.group(1)
    else:
        raise Broken("handleObsvRequest: confirmation test of re-observed events not understood")
    ge = func_body(src, r'^func \(w \*Watcher\) getGovernanceEventsByTxId\(', "getGovernanceEventsByTxId")
    loop = re.search(r'for _, event := range events\.Events \{(.*?)header, err := client\.GetBlockHeader\(ctx, event\.BlockHash\)', ge, re.S)
    if not loop:
        raise Broken("getGovernanceEventsByTxId: loop head / header fetch not found")
    pre = loop.group(1)
    if not re.search(r'if event\.EventIndex != WormholeMessageEventIndex \{\s*continue\s*\}', pre):
        raise Broken("getGovernanceEventsByTxId: event index filter not found")
    conds = " ".join(re.findall(r'if ([^{]*)\{\s*continue\s*\}', pre))
    addr = bool(re.search(r'event\.ContractAddress != address', conds))
    blk = bool(re.search(r'event\.BlockHash != blockHash', conds))
    rest = ge[loop.end():]
    if not re.search(r'msg, err := ToWormholeMessage\(event\.Fields, txId\)\s*\n\s*if err != nil \{\s*return nil, err\s*\}\s*'
                     r'if msg\.IsAttestTokenVAA\(\) \{\s*if err = w\.validateAttestToken\(ctx, msg\); err != nil \{\s*\n[^\n]*\n\s*continue\s*\}\s*\}', rest, re.S):
        raise Broken("getGovernanceEventsByTxId: conversion / attestation validation not found")
    hg = func_body(src, r'^func \(w \*Watcher\) handleGovernanceMessages\(', "handleGovernanceMessages")
    if not re.search(r'if !wormholeMsg\.senderId\.equalWith\(w\.tokenBridgeContractId\) \{\s*\n[^\n]*\n\s*continue\s*\}\s*w\.msgChan <- ', hg, re.S):
        raise Broken("handleGovernanceMessages: sender filter before the send on msgChan not found")
    out = ("(* getGovernanceEventsByTxId skips events of other contracts / of blocks other than the one the tx is confirmed in *)\n"
           "Definition alph_reobs_addr_filter : bool := %s.\nDefinition alph_reobs_block_filter : bool := %s.\n"
           "(* handleObsvRequest applies isEventConfirmed (height and wall clock); otherwise only `Height+level %s currentHeight` *)\n"
           "Definition alph_reobs_wallclock : bool := %s.\nDefinition alph_reobs_height_ok (sum cur : Z) : bool := sum %s cur.\n"
           "(* handleObsvRequest handles only requests for chain id vaa.ChainIDAlephium with a tx hash of this many bytes *)\n"
           "Definition alph_chain_id : Z := %s.\nDefinition alph_txid_len : Z := %s.\n"
           % ("true" if addr else "false", "true" if blk else "false", hop, wall, CMP[hop], cid.group(1), rq.group(1)))
    return out, {"address_filter": addr, "block_filter": blk, "wallclock": wall == "true", "chain_id": int(cid.group(1)), "txid_len": int(rq.group(1))}


def in_order(body, pats, what):
    pos = 0
    for pat in pats:
        m = re.compile(pat, re.S).search(body, pos)
        if not m:
            raise Broken("%s: `%s` not found (in order)" % (what, pat))
        pos = m.end()


def x_alph_process():
    """shape of the event loop (handleEvents_ / handleEvents) and of fetchEvents' initialisation and hand-over: the model's
    process_block / add_event / step are written after exactly this shape"""
    src = rd("node/pkg/alephium/watcher.go")
    he = func_body(src, r'^func \(w \*Watcher\) handleEvents_\(', "handleEvents_")
    in_order(he, [
        r'pendingEvents := map\[string\]\*UnconfirmedEventsPerBlock\{\}',
        r'process := func\(height int32\) error \{\s*now := time\.Now\(\)\.UnixMilli\(\)',
        r'confirmedEvents := make\(\[\]\*ConfirmedEvent, 0\)\s*for blockHash, blockEvents := range pendingEvents \{',
        r'isCanonical, err := isBlockInMainChain\(blockHash\)\s*if err != nil \{[^}]*?return err\s*\}',
        r'if blockEvents\.header == nil \{\s*blockHeader, err := getBlockHeader\(blockHash\)\s*if err != nil \{[^}]*?return err\s*\}\s*blockEvents\.header = blockHeader\s*\}',
        r'remain := make\(\[\]\*UnconfirmedEvent, 0\)',
        r'for _, event := range blockEvents\.events \{\s*if !isEventConfirmed\(logger, event, blockEvents\.header, now, height, w\.isMainnet\) \{\s*remain = append\(remain, event\)\s*continue\s*\}',
        r'if !\*isCanonical \{\s*logger\.\w+\([^\n]*\)\s*continue\s*\}',
        r'confirmedEvents = append\(confirmedEvents, &ConfirmedEvent\{\s*event:\s*event,\s*header:\s*blockEvents\.header,\s*\}\)\s*\}',
        r'if len\(remain\) == 0 \{\s*delete\(pendingEvents, blockHash\)\s*\} else \{\s*blockEvents\.events = remain\s*\}\s*\}',
        r'if len\(pendingEvents\) == 0 \{\s*w\.DisableBlockPoller\(\)\s*\}',
        r'if len\(confirmedEvents\) == 0 \{\s*return nil\s*\}',
        r'if err := handler\(logger, confirmedEvents\); err != nil \{[^}]*?return err\s*\}\s*return nil\s*\}',
        r'case events := <-eventsC:\s*if len\(events\) != 0 \{\s*w\.EnableBlockPoller\(\)\s*\}',
        r'for _, event := range events \{\s*blockHash := event\.BlockHash\s*if lst, ok := pendingEvents\[blockHash\]; ok \{\s*lst\.events = append\(lst\.events, event\)\s*\} else \{'
        r'\s*pendingEvents\[blockHash\] = &UnconfirmedEventsPerBlock\{\s*events: \[\]\*UnconfirmedEvent\{event\},\s*\}\s*\}\s*\}',
        r'case height := <-heightC:\s*if err := process\(height\); err != nil \{\s*errC <- err\s*return\s*\}',
    ], "handleEvents_")
    hw = func_body(src, r'^func \(w \*Watcher\) handleEvents\(', "handleEvents")
    in_order(hw, [r'return client\.IsBlockInMainChain\(ctx, hash\)', r'return client\.GetBlockHeader\(ctx, hash\)',
                  r'w\.handleEvents_\(ctx, logger, isBlockInMainChain, getBlockHeader, w\.handleConfirmedEvents, errC, eventsC, heightC\)'], "handleEvents")
    fe = func_body(src, r'^func \(w \*Watcher\) fetchEvents\(', "fetchEvents")
    in_order(fe, [
        r'contractAddress := w\.governanceContractAddress',
        r'currentEventCount, err := client\.GetContractEventsCount\(ctx, contractAddress\)\s*if err != nil \{[^}]*?errC <- err\s*return\s*\}',
        r'fromIndex := \*currentEventCount',
        r'case <-eventTick\.C:\s*count, err := client\.GetContractEventsCount\(ctx, contractAddress\)\s*if err != nil \{[^}]*?errC <- err\s*return\s*\}',
        r'unconfirmedEvents := make\(\[\]\*UnconfirmedEvent, 0\)\s*for \{',
        r'if err != nil \{[^}]*?errC <- err\s*return\s*\}',
        r'unconfirmed, err := w\.handleUnconfirmedEvents\(ctx, logger, events\)',
        r'unconfirmedEvents = append\(unconfirmedEvents, unconfirmed\.\.\.\)',
        r'eventsC <- unconfirmedEvents',
    ], "fetchEvents")
    hu = func_body(src, r'^func \(w \*Watcher\) handleUnconfirmedEvents\(', "handleUnconfirmedEvents")
    in_order(hu, [r'unconfirmedEvents := make\(\[\]\*UnconfirmedEvent, 0\)\s*for _, event := range events\.Events \{\s*contractEvent := event',
                  r'\} else \{[^}]*?\}\s*unconfirmedEvents = append\(unconfirmedEvents, unconfirmed\)\s*\}\s*return unconfirmedEvents, nil'], "handleUnconfirmedEvents")
    fh = func_body(src, r'^func \(w \*Watcher\) _fetchHeight\(', "_fetchHeight")
    in_order(fh, [r'enabled := w\.blockPollerEnabled\.Load\(\)\s*if !enabled \{\s*continue\s*\}', r'latestHeight, err := getCurrentHeight\(\)\s*if err != nil \{[^}]*?errC <- err\s*return\s*\}',
                  r'heightC <- \*latestHeight'], "_fetchHeight")
    rn = func_body(src, r'^func \(w \*Watcher\) Run\(', "Run")
    in_order(rn, [r'go w\.fetchEvents\(ctx, logger, w\.client, errC, eventsC\)', r'go w\.handleObsvRequest\(ctx, logger, w\.client\)', r'go w\.fetchHeight\(ctx, logger, w\.client, errC, heightC\)',
                  r'go w\.handleEvents\(ctx, logger, w\.client, errC, eventsC, heightC\)', r'case err := <-errC:\s*return err'], "Run")
    out = ("(* shape of handleEvents_ / fetchEvents / _fetchHeight / Run verified against the source (see gen/x_alph.py x_alph_process) *)\n"
           "Definition alph_event_loop_shape_checked : bool := true.\n")
    return out, {"checked": ["handleEvents_", "handleEvents", "fetchEvents", "handleUnconfirmedEvents", "_fetchHeight", "Run"]}


EXTRACTORS = [("alph_confirm", x_alph_confirm), ("alph_poll", x_alph_poll), ("alph_filters", x_alph_filters), ("alph_tokeninfo", x_alph_tokeninfo), ("alph_reobserve", x_alph_reobserve), ("alph_process", x_alph_process)]
