"""Contract-side layouts: Messages.sol parseVM (sequential reads) and governance.ral parseAndVerifyVAA (absolute slices)."""
import re
from extract import rd, Broken, parse_expr, gallina

SOL_W = {"Uint8": 1, "Uint16": 2, "Uint32": 4, "Uint64": 8, "Bytes32": 32}
SOL_F = {"vm.version": "FVersion", "vm.guardianSetIndex": "FGsIndex", "uint256 signersLen": "FNumSigs",
         "vm.signatures[i].guardianIndex": "FSigIndex", "vm.signatures[i].r": "FSigR", "vm.signatures[i].s": "FSigS",
         "vm.signatures[i].v": "FSigV", "vm.timestamp": "FTimestamp", "vm.nonce": "FNonce",
         "vm.emitterChainId": "FEChain", "vm.targetChainId": "FTChain", "vm.emitterAddress": "FEAddr",
         "vm.sequence": "FSeq", "vm.consistencyLevel": "FCL"}

def x_sol_parsevm():
    src = rd("ethereum/contracts/Messages.sol")
    try:
        pv = src[src.index("function parseVM"):src.index("function quorum")]
    except ValueError:
        raise Broken("Messages.sol: parseVM .. quorum not found")
    tok = re.compile(
        r'(?P<read>(?P<lhs>vm\.[\w\[\]\.]+|uint256 signersLen) = encodedVM\.to(?P<ty>\w+)\(index\)(?P<plus> \+ \d+)?;\s*index \+= (?P<adv>\d+);)'
        r'|(?P<loop>for \(uint i = 0; i < signersLen; i\+\+\) \{)'
        r'|(?P<hash>bytes memory body = encodedVM\.slice\(index, encodedVM\.length - index\);\s*vm\.hash = (?P<hexpr>[^;]+);)'
        r'|(?P<payload>vm\.payload = encodedVM\.slice\(index, encodedVM\.length - index\);)'
        r'|(?P<req>require\(vm\.version == (?P<ver>\d+),)'
        r'|(?P<init>uint index = 0;)'
        r'|(?P<other>(?:vm\.\w+[^;=]*=[^;]*encodedVM[^;]*;)|index \+= \d+;|index = [^;]+;)')
    header, sig, body = [], [], []
    phase = "header"
    hash_after = None
    double = None
    ver = None
    payload_rest = False
    vplus = 0
    depth_loop_end = None
    pos_loop_end = None
    for m in tok.finditer(pv):
        if pos_loop_end is not None and m.start() > pos_loop_end and phase == "sig":
            phase = "body"
        if m.group("read"):
            ty = m.group("ty")
            if ty not in SOL_W:
                raise Broken("parseVM: unknown reader to%s" % ty)
            if SOL_W[ty] != int(m.group("adv")):
                raise Broken("parseVM: %s read as %s (%d bytes) but index advanced by %s" % (m.group("lhs"), ty, SOL_W[ty], m.group("adv")))
            f = SOL_F.get(m.group("lhs"))
            if f is None:
                raise Broken("parseVM: unknown target %s" % m.group("lhs"))
            if m.group("plus"):
                if f != "FSigV":
                    raise Broken("parseVM: unexpected constant added to %s" % m.group("lhs"))
                vplus = int(m.group("plus").strip(" +"))
            {"header": header, "sig": sig, "body": body}[phase].append((f, SOL_W[ty]))
        elif m.group("loop"):
            if phase != "header":
                raise Broken("parseVM: signature loop in unexpected position")
            phase = "sig"
            # find matching close brace
            d = 0
            for i in range(m.end() - 1, len(pv)):
                if pv[i] == '{':
                    d += 1
                elif pv[i] == '}':
                    d -= 1
                    if d == 0:
                        pos_loop_end = i
                        break
        elif m.group("hash"):
            if phase == "sig" and pos_loop_end is not None and m.start() > pos_loop_end:
                phase = "body"
            if phase != "body":
                raise Broken("parseVM: body hash taken before the end of the signature loop")
            hash_after = len(body)
            h = re.sub(r'\s+', '', m.group("hexpr"))
            if h == "keccak256(abi.encodePacked(keccak256(body)))":
                double = True
            elif h == "keccak256(body)":
                double = False
            else:
                raise Broken("parseVM: hash expression %r not understood" % h)
        elif m.group("payload"):
            payload_rest = True
        elif m.group("req"):
            ver = int(m.group("ver"))
        elif m.group("other"):
            raise Broken("parseVM: statement not understood: %r" % m.group("other"))
    if hash_after is None or ver is None or not payload_rest or not sig:
        raise Broken("parseVM: missing hash / version require / payload slice / signature loop")
    fmt = lambda L: "[" + "; ".join("(%s, %d%%nat)" % fw for fw in L) + "]"
    out = ("Definition sol_version_required : Z := %d.\n"
           "Definition sol_header_layout : layout := %s.\n"
           "Definition sol_sig_layout : layout := %s.\n"
           "Definition sol_body_layout : layout := %s.\n"
           "(* number of body fields already consumed when `body = slice(index, length - index)` is taken *)\n"
           "Definition sol_hash_after_body_fields : nat := %d%%nat.\n"
           "Definition sol_hash_double_keccak : bool := %s.\n"
           "Definition sol_sig_v_plus : Z := %d.\n" % (ver, fmt(header), fmt(sig), fmt(body), hash_after, "true" if double else "false", vplus))
    return out, {"header": header, "sig": sig, "body": body, "hash_after": hash_after, "double": double}

def nat_expr(s, var=None):
    e = parse_expr(s)
    return gallina(e, "Nat.div", {var: "n"} if var else None)

def x_ral_parsevaa():
    src = rd("alephium/contracts/governance.ral")
    try:
        fn = src[src.index('pub fn parseAndVerifyVAA'):src.index('pub fn parseAndVerifyGovernanceVAAGeneric')]
    except ValueError:
        raise Broken("governance.ral: parseAndVerifyVAA not found")
    mver = re.search(r'const Version = #([0-9a-fA-F]{2})\b', src)
    mvs = re.search(r'assert!\(byteVecSlice!\(data, (\d+), (\d+)\) == Version,', fn)
    if not mver or not mvs:
        raise Broken("governance.ral: Version constant / version assert not found")
    sl = {}
    for m in re.finditer(r'let (?:mut )?(\w+) = (?:u256From(\d+)Byte!\()?byteVecSlice!\((\w+), ([^,]+), ((?:size!\(\w+\))|[^)]+)\)\)?', fn):
        sl[m.group(1)] = (m.group(2), m.group(3), m.group(4).strip(), m.group(5).strip())
    need = ["guardianSetIndex", "signatureSize", "body", "guardianIndex", "signature", "recId", "emitterChainId",
            "targetChainId", "emitterAddress", "sequence", "payload"]
    for n in need:
        if n not in sl:
            raise Broken("governance.ral parseAndVerifyVAA: slice for %s not found" % n)
    def fixed(name, base, width=None):
        w, b, fr, to = sl[name]
        if b != base:
            raise Broken("%s sliced from %s, expected %s" % (name, b, base))
        if not (re.fullmatch(r'\d+', fr) and re.fullmatch(r'\d+', to)):
            raise Broken("%s: non-constant slice bounds %s,%s" % (name, fr, to))
        if width is not None and (w is None or int(w) != width or int(to) - int(fr) != width):
            raise Broken("%s: u256From%sByte over [%s,%s) (expected %d bytes)" % (name, w, fr, to, width))
        return int(fr), int(to)
    gsi = fixed("guardianSetIndex", "data", 4)
    ssz = fixed("signatureSize", "data", 1)
    w, b, fr, to = sl["body"]
    if b != "data" or to != "size!(data)":
        raise Broken("body slice is not data[.., size!(data))")
    extra = set(re.findall(r'[A-Za-z_]\w*', fr)) - {"signatureSize"}
    if extra:
        raise Broken("governance.ral parseAndVerifyVAA: body slice starts at `%s`, which depends on %s and not only on the signature count" % (fr, sorted(extra)))
    body_from = nat_expr(fr, "signatureSize")
    if not re.search(r'let hash = keccak256!\(keccak256!\(body\)\)', fn):
        raise Broken("hash is not keccak256!(keccak256!(body))")
    moff = re.search(r'let mut offset = (\d+)', fn)
    mstride = re.search(r'offset = offset \+ (\d+)', fn)
    mlast = re.search(r'let mut lastGuardianIndex = (-?\d+)', fn)
    mcmp = re.search(r'assert!\(guardianIndexI256 (>|>=) lastGuardianIndex,', fn)
    if not (moff and mstride and mlast and mcmp):
        raise Broken("signature loop: offset init / stride / lastGuardianIndex / comparison not found")
    w, b, fr, to = sl["guardianIndex"]
    if (w, b, fr, to) != ("1", "data", "offset", "offset + 1"):
        raise Broken("guardianIndex slice is %r" % ((w, b, fr, to),))
    w, b, fr, to = sl["signature"]
    if (b, fr, to) != ("data", "offset + 1", "offset + 66"):
        raise Broken("signature slice is %r" % ((b, fr, to),))
    mrec = re.search(r'let recId = u256From1Byte!\(byteVecSlice!\(signature, (\d+), (\d+)\)\) \+ (\d+)', fn)
    if not mrec:
        raise Broken("recId expression not found")
    ech = fixed("emitterChainId", "body", 2)
    tch = fixed("targetChainId", "body", 2)
    ead = fixed("emitterAddress", "body")
    sq = fixed("sequence", "body", 8)
    w, b, fr, to = sl["payload"]
    if b != "body" or to != "size!(body)" or not re.fullmatch(r'\d+', fr):
        raise Broken("payload slice is not body[k, size!(body))")
    if not re.search(r'return emitterChainId, targetChainId, emitterAddress, sequence, payload', fn):
        raise Broken("return tuple changed")
    out = ("Definition ral_version_byte : Z := %d.\n"
           "Definition ral_version_slice : nat * nat := (%d, %d)%%nat.\n"
           "Definition ral_gsidx_slice : nat * nat := (%d, %d)%%nat.\n"
           "Definition ral_numsigs_slice : nat * nat := (%d, %d)%%nat.\n"
           "Definition ral_body_from (n : nat) : nat := (%s)%%nat.\n"
           "Definition ral_sig_offset0 : nat := %s%%nat.\nDefinition ral_sig_stride : nat := %s%%nat.\n"
           "Definition ral_sig_index_rel : nat * nat := (0, 1)%%nat.\nDefinition ral_sig_data_rel : nat * nat := (1, 66)%%nat.\n"
           "Definition ral_recid_slice : nat * nat := (%s, %s)%%nat.\nDefinition ral_recid_plus : Z := %s.\n"
           "Definition ral_last_index_init : Z := %s.\nDefinition ral_index_strict : bool := %s.\n"
           "Definition ral_echain_slice : nat * nat := (%d, %d)%%nat.\nDefinition ral_tchain_slice : nat * nat := (%d, %d)%%nat.\n"
           "Definition ral_eaddr_slice : nat * nat := (%d, %d)%%nat.\nDefinition ral_seq_slice : nat * nat := (%d, %d)%%nat.\n"
           "Definition ral_payload_from : nat := %s%%nat.\n"
           % (int(mver.group(1), 16), int(mvs.group(1)), int(mvs.group(2)), gsi[0], gsi[1], ssz[0], ssz[1], body_from,
              moff.group(1), mstride.group(1), mrec.group(1), mrec.group(2), mrec.group(3), mlast.group(1),
              "true" if mcmp.group(1) == ">" else "false", ech[0], ech[1], tch[0], tch[1], ead[0], ead[1], sq[0], sq[1], fr))
    return out, {"slices": {k: list(v) for k, v in sl.items()}}

EXTRACTORS = [("sol_parsevm", x_sol_parsevm), ("ral_parsevaa", x_ral_parsevaa)]
