"""Extractors for the signing digest and for the Keccak-256 the node links against.

signing_digest      node/pkg/vaa/structs.go SigningMsg: how many times, and of what, the body is hashed
sha3_legacy_params  the golang.org/x/crypto version named by node/go.mod (module cache): rate / output length / domain byte of
                    sha3.NewLegacyKeccak256, the 24 round constants of keccakf.go, and that go-ethereum's crypto.Keccak256 /
                    Keccak256Hash (the functions SigningMsg calls) are that hash
Both go to coq/gen/ExtractedKeccak.v (a file of its own), used by props/C04.v.
"""
import os, re, subprocess
from extract import rd, Broken, REPO

TARGET = "ExtractedKeccak"
HEADER = ("From Coq Require Import List NArith Strings.Byte.\nImport ListNotations.\n")


def strip_comments(s):
    return re.sub(r'//[^\n]*|/\*.*?\*/', '', s, flags=re.S)


def func_body(src, header_re, what):
    m = re.search(header_re + r'\s*\{', src)
    if not m:
        raise Broken("%s not found" % what)
    i = m.end()
    depth = 1
    j = i
    while j < len(src) and depth:
        if src[j] == '{':
            depth += 1
        elif src[j] == '}':
            depth -= 1
        j += 1
    if depth:
        raise Broken("%s: unbalanced braces" % what)
    return strip_comments(src[i:j - 1]).strip()


def x_signing_digest():
    src = rd("node/pkg/vaa/structs.go")
    sb = func_body(src, r'func \(v \*VAA\) signingBody\(\) \[\]byte', "structs.go signingBody()")
    if not re.fullmatch(r'return v\.serializeBody\(\)', sb):
        raise Broken("signingBody(): body is not `return v.serializeBody()` but %r" % sb[:120])
    body = func_body(src, r'func \(v \*VAA\) SigningMsg\(\) common\.Hash', "structs.go SigningMsg()")
    m = re.fullmatch(r'hash := (.+?)\s*\n\s*return hash', body, re.S) or re.fullmatch(r'return (.+)', body, re.S)
    if not m:
        raise Broken("SigningMsg(): not of the shape `hash := E; return hash` / `return E`: %r" % body[:160])
    e = re.sub(r'\s+', '', m.group(1))
    depth = 0
    while True:
        k = re.fullmatch(r'crypto\.Keccak256Hash\((.+)\)', e)
        if not k:
            break
        depth += 1
        e = k.group(1)
        b = re.fullmatch(r'(.+)\.Bytes\(\)', e)
        if b:
            e = b.group(1)
    if e not in ("v.signingBody()", "v.serializeBody()"):
        raise Broken("SigningMsg(): innermost hashed expression is %r, expected v.signingBody() under nested crypto.Keccak256Hash(..) calls" % e[:120])
    if depth == 0:
        raise Broken("SigningMsg(): the signing body is not hashed at all")
    expr = "b"
    for _ in range(depth):
        expr = "keccak (%s)" % expr if expr != "b" else "keccak b"
    out = ("(* structs.go SigningMsg: %s *)\n"
           "Definition go_signing_hash_depth : nat := %d%%nat.\n"
           "Definition go_signing_digest (keccak : list byte -> list byte) (b : list byte) : list byte := %s.\n"
           % (re.sub(r'\s+', ' ', m.group(1)).replace("*)", "* )"), depth, expr))
    return out, {"expr": re.sub(r'\s+', ' ', m.group(1)), "hash_depth": depth}


def modcache():
    p = os.environ.get("GOMODCACHE")
    if p and os.path.isdir(p):
        return p
    try:
        r = subprocess.run(["go", "env", "GOMODCACHE"], capture_output=True, text=True, timeout=60,
                           env=dict(os.environ, GOFLAGS="-mod=mod", GOPROXY="off", GOTOOLCHAIN="local"))
        p = r.stdout.strip()
        if p and os.path.isdir(p):
            return p
    except Exception:
        pass
    p = os.path.expanduser("~/go/pkg/mod")
    if os.path.isdir(p):
        return p
    raise Broken("Go module cache not found")


def modversion(gomod, path):
    # a replace directive wins
    m = re.search(r'^\s*(?:replace\s+)?%s(?:\s+v\S+)?\s*=>\s*(\S+)\s+(v\S+)' % re.escape(path), gomod, re.M)
    if m:
        return m.group(1), m.group(2)
    m = re.search(r'^\s*(?:require\s+)?%s\s+(v\S+)' % re.escape(path), gomod, re.M)
    if not m:
        raise Broken("node/go.mod does not name a version of %s" % path)
    return path, m.group(1)


def escape_mod(p):
    return re.sub(r'[A-Z]', lambda c: "!" + c.group(0).lower(), p)


def x_sha3_legacy_params():
    gomod = rd("node/go.mod")
    mc = modcache()
    xp, xv = modversion(gomod, "golang.org/x/crypto")
    gp, gv = modversion(gomod, "github.com/ethereum/go-ethereum")
    xdir = os.path.join(mc, escape_mod(xp) + "@" + xv, "sha3")
    gfile = os.path.join(mc, escape_mod(gp) + "@" + gv, "crypto", "crypto.go")
    def rdabs(p):
        try:
            return open(p).read()
        except OSError as e:
            raise Broken("cannot read %s: %s" % (p, e))
    hashes = rdabs(os.path.join(xdir, "hashes.go"))
    m = re.search(r'func NewLegacyKeccak256\(\) hash\.Hash \{\s*return &state\{rate: (\w+), outputLen: (\w+), dsbyte: (\w+)\}\s*\}', hashes)
    if not m:
        raise Broken("x/crypto %s sha3/hashes.go: NewLegacyKeccak256 is not `return &state{rate: R, outputLen: L, dsbyte: D}`" % xv)
    def lit(tok):
        if re.fullmatch(r'0[xX][0-9a-fA-F]+|\d+', tok):
            return int(tok, 0)
        c = re.search(r'\b%s\s*=\s*(0[xX][0-9a-fA-F]+|\d+)\b' % re.escape(tok), hashes + rdabs(os.path.join(xdir, "sha3.go")))
        if not c:
            raise Broken("x/crypto sha3: constant %s not resolved" % tok)
        return int(c.group(1), 0)
    rate, outlen, ds = lit(m.group(1)), lit(m.group(2)), lit(m.group(3))
    kf = rdabs(os.path.join(xdir, "keccakf.go"))
    r = re.search(r'var rc = \[24\]uint64\{(.*?)\}', kf, re.S)
    if not r:
        raise Broken("x/crypto %s sha3/keccakf.go: `var rc = [24]uint64{..}` not found" % xv)
    rcs = [int(x, 16) for x in re.findall(r'0[xX]([0-9a-fA-F]+)', strip_comments(r.group(1)))]
    if len(rcs) != 24:
        raise Broken("keccakf.go: %d round constants" % len(rcs))
    sp = rdabs(os.path.join(xdir, "sha3.go"))
    if not re.search(r'd\.buf\[d\.rate-1\] \^= 0x80', sp) or not re.search(r'd\.buf = append\(d\.buf, (?:d\.)?dsbyte\)', sp):
        raise Broken("x/crypto %s sha3/sha3.go padAndPermute: `append(d.buf, dsbyte)` / `d.buf[d.rate-1] ^= 0x80` not found" % xv)
    g = rdabs(gfile)
    ks = func_body(g, r'func NewKeccakState\(\) KeccakState', "go-ethereum crypto.NewKeccakState")
    if not re.fullmatch(r'return sha3\.NewLegacyKeccak256\(\)\.\(KeccakState\)', ks):
        raise Broken("go-ethereum %s crypto.NewKeccakState is not sha3.NewLegacyKeccak256()" % gv)
    for fn, sig in (("Keccak256", r'func Keccak256\(data \.\.\.\[\]byte\) \[\]byte'), ("Keccak256Hash", r'func Keccak256Hash\(data \.\.\.\[\]byte\) \(h common\.Hash\)')):
        b = func_body(g, sig, "go-ethereum crypto." + fn)
        if not re.search(r'd := NewKeccakState\(\)', b) or not re.search(r'd\.Write\(b\)', b) or not re.search(r'd\.Read\(', b):
            raise Broken("go-ethereum %s crypto.%s: not NewKeccakState / Write / Read" % (gv, fn))
    out = ("(* golang.org/x/crypto %s sha3.NewLegacyKeccak256 (= go-ethereum %s crypto.Keccak256 / Keccak256Hash) *)\n"
           "Definition x_sha3_legacy_rate : nat := %d%%nat.\nDefinition x_sha3_legacy_outlen : nat := %d%%nat.\n"
           "Definition x_sha3_legacy_dsbyte : N := %d%%N.\nDefinition x_sha3_final_bit : N := 128%%N.\n"
           "Definition x_sha3_rc : list N := [%s]%%N.\n"
           % (xv, gv, rate, outlen, ds, "; ".join("0x%016X" % c for c in rcs)))
    return out, {"x_crypto": xv, "go_ethereum": gv, "rate": rate, "outputLen": outlen, "dsbyte": ds, "round_constants": 24}


EXTRACTORS = [("signing_digest", x_signing_digest), ("sha3_legacy_params", x_sha3_legacy_params)]
