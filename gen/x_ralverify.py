"""X11 — governance.ral `parseAndVerifyVAA` (and `getGuardiansInfo`, which it calls) translated IN FULL, statement by statement, into
Gallina functions over the combinators of coq/lib/Ralph.v and coq/lib/RalphLoop.v (module RalVerify of gen/ExtractedRalVerify.v).

The Ralph front end (lexer, recursive-descent parser, constants, literal printing, operator tables) is the one of gen/x_governance.py,
extended here with what this function needs: negative literals, `for (let mut i = a; i < b; i = i + 1) { .. }`, assignment to `mut`
locals, `toI256!`, `keccak256!`, `ethEcRecover!`, `blockTimeStamp!()`, `panic!`, calls of functions of the same contract, contract
fields.  Static types (U256 / I256 / ByteVec / Bool) are tracked so that an operation the combinators do not model (I256 arithmetic,
comparison of different types) is Broken, not silently mistranslated.

  * a block statement (`if` without `return` inside, `for`) becomes a term that returns the new values of the `mut` locals it assigns;
    the continuation re-binds them (`rcall blk (fun st => match st with [..] => rest | _ => None end)`);
  * the loop becomes `r_for fuel cond body state` (a Fixpoint on fuel, lib/RalphLoop.v) with state = loop variable :: assigned locals,
    cond / body emitted as Definitions of their own (captured variables are their parameters), fuel = an upper bound of the count;
  * `keccak256!` / `ethEcRecover!` are oracle parameters of every generated definition, `blockTimeStamp!()` and the contract
    fields read are parameters;
  * a failed assert!, a slice out of range, U256 overflow / underflow, `panic!` are None.
Nothing is matched against a remembered text: an unknown statement or operand raises Broken."""
import re
from extract import rd, Broken
import x_governance as G

TARGET = "ExtractedRalVerify"
HEADER = ("From Coq Require Import List ZArith Arith Bool Strings.Byte.\nFrom Coq Require Strings.String.\n"
          "From WH Require Import lib.Bytes.\nFrom WH Require lib.Ralph lib.RalphLoop.\nImport ListNotations.\nOpen Scope Z_scope.\n")
RAL = "alephium/contracts/governance.ral"
ORACLES = "(keccak256 : list byte -> list byte) (ethEcRecover : list byte -> list byte -> option (list byte)) "


# ------------------------------------------------------------------------------------------------ front end (extends x_governance.P)
class P2(G.P):
    def unary(self):
        if self.isop('-') and self.peek(1)[0] == 'num':
            self.eat()
            return ('num', -self.eat('num')[1])
        return super().unary()

    def stmt(self):
        if self.peek() == ('id', 'for'):
            start = self.i
            self.eat()
            self.eat('op', '(')
            self.eat('id', 'let')
            if self.peek() == ('id', 'mut'):
                self.eat()
            iv = self.eat('id')[1]
            self.eat('op', '=')
            init = self.expr()
            self.eat('op', ';')
            cond = self.expr()
            self.eat('op', ';')
            sv = self.eat('id')[1]
            self.eat('op', '=')
            step = self.expr()
            self.eat('op', ')')
            hdr = self.text(start, self.i)
            body = self.block()
            return ('for', iv, init, cond, sv, step, body, hdr)
        return super().stmt()


def ral_function2(src, name, what):
    """like x_governance.ral_function, with the extended parser: (params [(name, type)], return types, statements)"""
    m = re.search(r'\bfn %s\s*\(' % re.escape(name), src)
    if not m:
        raise Broken("%s: fn %s not found" % (what, name))
    d, j = 1, m.end()
    while d:
        if j >= len(src):
            raise Broken("%s: fn %s: unbalanced parentheses" % (what, name))
        d += {'(': 1, ')': -1}.get(src[j], 0)
        j += 1
    params = re.findall(r'(\w+)\s*:\s*([\w\[\]; ]+?)\s*(?:,|$)', src[m.end():j - 1].strip())
    k = src.index('{', j)
    rets = re.findall(r'\w+', src[j:k].replace('->', ''))
    d, e = 0, k
    while True:
        if e >= len(src):
            raise Broken("%s: fn %s: unbalanced braces" % (what, name))
        d += {'{': 1, '}': -1}.get(src[e], 0)
        e += 1
        if d == 0:
            break
    p = P2(G.lex(src[k:e]))
    body = p.block()
    if p.peek()[0] != 'eof':
        raise Broken("%s: fn %s: trailing text" % (what, name))
    return params, rets, body


def contract_fields(src, what):
    """`Contract Name(field: Type, mut field: [Type; n], ..)` -> {field or field[i]: type}"""
    m = re.search(r'\bContract\s+\w+\s*\(', src)
    if not m:
        raise Broken("%s: Contract header not found" % what)
    d, j = 1, m.end()
    while d:
        if j >= len(src):
            raise Broken("%s: Contract header: unbalanced parentheses" % what)
        d += {'(': 1, ')': -1}.get(src[j], 0)
        j += 1
    out = {}
    for f in src[m.end():j - 1].split(","):
        f = f.strip()
        if not f:
            continue
        mm = re.fullmatch(r'(?:mut\s+)?(\w+)\s*:\s*(?:(\w+)|\[\s*(\w+)\s*;\s*(\d+)\s*\])', f)
        if not mm:
            raise Broken("%s: Contract field `%s` not understood" % (what, f))
        if mm.group(2):
            out[mm.group(1)] = mm.group(2)
        else:
            for i in range(int(mm.group(4))):
                out["%s[%d]" % (mm.group(1), i)] = mm.group(3)
    return out


SCALAR = ("U256", "I256", "ByteVec", "Bool")
ARITH = {"+": "r_add", "-": "r_sub", "*": "r_mul", "/": "r_div"}
CMP = {"<": "r_lt", "<=": "r_le", ">": "r_gt", ">=": "r_ge"}


def gvar(text):
    return "v_" + re.sub(r'\W+', '_', text).strip('_')


def names_in(e):
    if e[0] == 'name':
        return {e[1]}
    out = set()
    for x in e[1:]:
        if isinstance(x, tuple):
            out |= names_in(x)
        elif isinstance(x, list):
            for y in x:
                if isinstance(y, tuple):
                    out |= names_in(y)
    return out


class Fn:
    """translation of one Ralph function of governance.ral"""
    def __init__(self, unit, fname):
        self.u, self.fname = unit, fname
        params, rets, body = ral_function2(unit.src, fname, RAL)
        self.decl = params
        self.rets = rets
        self.body = body
        for _, t in params:
            if t not in SCALAR:
                raise Broken("%s: parameter type %s" % (fname, t))
        for t in rets:
            if t not in SCALAR:
                raise Broken("%s: return type %s" % (fname, t))
        self.free = []            # (gallina name, ralph text, type) of the fields / clock values read, in order of discovery
        self.aux = []             # Definitions emitted before this function's (loop cond / body)
        self.nloop = 0
        self.calls = []
        self.asserts = 0
        self.oracles = set()

    # ---- names
    def freevar(self, text, ty):
        g = gvar(text)
        if all(x[0] != g for x in self.free):
            self.free.append((g, text, ty))
        return g

    # ---- expressions: (gallina text of type rv, static type)
    def ex(self, e, env, used):
        k = e[0]
        if k == 'num':
            return ("(r_num %s)" % (e[1] if e[1] >= 0 else "(%d)" % e[1]), "U256" if e[1] >= 0 else "I256")
        if k == 'hex':
            return (G.glit(e), "ByteVec")
        if k == 'name':
            n = e[1]
            if n in env:
                used.add(n)
                return ("(r_var %s)" % env[n][0], env[n][1])
            if n in ("true", "false"):
                return ("(Some (RBool %s))" % n, "Bool")
            if n in self.u.consts:
                self.u.used_consts.add(n)
                c = self.u.consts[n]
                return ("c_%s" % n, "ByteVec" if c[0] == 'hex' else "U256")
            if n in self.u.fields:
                return ("(r_var %s)" % self.freevar(n, self.u.fields[n]), self.u.fields[n])
            raise Broken("%s: name `%s` is neither a local, a constant nor a contract field" % (self.fname, n))
        if k == 'index':
            if e[1][0] == 'name':
                txt = "%s[%d]" % (e[1][1], e[2])
                if e[1][1] not in env and txt in self.u.fields:
                    return ("(r_var %s)" % self.freevar(txt, self.u.fields[txt]), self.u.fields[txt])
            raise Broken("%s: indexed operand `%s` is not a contract field" % (self.fname, G.callee_name(e[1])))
        if k == 'member':
            raise Broken("%s: member operand .%s" % (self.fname, e[2]))
        if k == 'not':
            a, t = self.ex(e[1], env, used)
            self.want(t, "Bool", "!")
            return ("(r_not %s)" % a, "Bool")
        if k == 'bin':
            op = e[1]
            a, ta = self.ex(e[2], env, used)
            b, tb = self.ex(e[3], env, used)
            if op in ARITH:
                if ta != "U256" or tb != "U256":
                    raise Broken("%s: `%s` on %s and %s (only U256 arithmetic is modelled)" % (self.fname, op, ta, tb))
                return ("(%s %s %s)" % (ARITH[op], a, b), "U256")
            if op == "++":
                self.want(ta, "ByteVec", op)
                self.want(tb, "ByteVec", op)
                return ("(r_concat %s %s)" % (a, b), "ByteVec")
            if op in CMP:
                if ta != tb or ta not in ("U256", "I256"):
                    raise Broken("%s: `%s` on %s and %s" % (self.fname, op, ta, tb))
                return ("(%s %s %s)" % (CMP[op], a, b), "Bool")
            if op in ("==", "!="):
                if ta != tb:
                    raise Broken("%s: `%s` on %s and %s" % (self.fname, op, ta, tb))
                return ("(%s %s %s)" % ("r_eq" if op == "==" else "r_ne", a, b), "Bool")
            if op in ("&&", "||"):
                self.want(ta, "Bool", op)
                self.want(tb, "Bool", op)
                return ("(%s %s %s)" % ("r_and" if op == "&&" else "r_or", a, b), "Bool")
            raise Broken("%s: operator %s" % (self.fname, op))
        if k == 'call' and e[1][0] == 'name':
            fn, args = e[1][1], e[2]
            av = [self.ex(a, env, used) for a in args]
            ts = [t for _, t in av]

            def sig(*want):
                if list(want) != ts:
                    raise Broken("%s: %s applied to (%s)" % (self.fname, fn, ", ".join(ts)))
            if fn == "size!":
                sig("ByteVec")
                return ("(r_size %s)" % av[0][0], "U256")
            if fn == "byteVecSlice!":
                sig("ByteVec", "U256", "U256")
                return ("(r_slice %s %s %s)" % (av[0][0], av[1][0], av[2][0]), "ByteVec")
            m = re.fullmatch(r'u256From(\d+)Byte!', fn)
            if m and m.group(1) in ("1", "2", "4", "8", "16", "32"):
                sig("ByteVec")
                return ("(r_u256from %s %s)" % (m.group(1), av[0][0]), "U256")
            m = re.fullmatch(r'u256To(\d+)Byte!', fn)
            if m and m.group(1) in ("1", "2", "4", "8", "16", "32"):
                sig("U256")
                return ("(r_u256to %s %s)" % (m.group(1), av[0][0]), "ByteVec")
            if fn == "toI256!":
                sig("U256")
                return ("(r_toI256 %s)" % av[0][0], "I256")
            if fn == "keccak256!":
                sig("ByteVec")
                self.oracles.add("keccak256")
                return ("(r_keccak keccak256 %s)" % av[0][0], "ByteVec")
            if fn == "ethEcRecover!":
                sig("ByteVec", "ByteVec")
                self.oracles.add("ethEcRecover")
                return ("(r_ecrecover ethEcRecover %s %s)" % (av[0][0], av[1][0]), "ByteVec")
            if fn == "blockTimeStamp!":
                sig()
                return ("(r_var %s)" % self.freevar("blockTimeStamp!()", "U256"), "U256")
            raise Broken("%s: call of `%s` inside an expression is not one the translator knows" % (self.fname, fn))
        raise Broken("%s: operand kind %s" % (self.fname, k))

    def want(self, t, w, op):
        if t != w:
            raise Broken("%s: operand of `%s` has type %s, expected %s" % (self.fname, op, t, w))

    # ---- statements
    @staticmethod
    def has_return(sts):
        for s in sts:
            if s[0] == 'return':
                return True
            if s[0] == 'if' and (Fn.has_return(s[2]) or Fn.has_return(s[3] or [])):
                return True
            if s[0] == 'for' and Fn.has_return(s[6]):
                return True
        return False

    @staticmethod
    def assigned(sts, env):
        """names of `env` assigned somewhere in sts (in order of first assignment); a name re-declared by `let` inside shadows"""
        out = []
        shadow = set()
        for s in sts:
            if s[0] == 'let':
                for n in s[1]:
                    shadow.add(n)
            elif s[0] == 'assign' and s[1][0] == 'name':
                n = s[1][1]
                if n in env and n not in shadow and n not in out:
                    out.append(n)
            elif s[0] == 'if':
                for n in Fn.assigned(s[2], env) + Fn.assigned(s[3] or [], env):
                    if n not in shadow and n not in out:
                        out.append(n)
            elif s[0] == 'for':
                for n in Fn.assigned(s[6], env):
                    if n not in shadow and n not in out:
                        out.append(n)
        return out

    def seq(self, sts, env, used, fin, top):
        """gallina term (option rres) for the statements `sts` followed by fin(env)"""
        if not sts:
            return fin(env)
        st, rest = sts[0], sts[1:]
        k = st[0]
        if k == 'let':
            names, e = st[1], st[2]
            if e[0] == 'call' and e[1][0] == 'name' and not e[1][1].endswith('!'):
                return self.call(names, e, rest, env, used, fin, top)
            if len(names) != 1:
                raise Broken("%s: tuple let from an expression" % self.fname)
            ge, t = self.ex(e, env, used)
            env2 = dict(env)
            env2[names[0]] = (gvar(names[0]), t)
            if top:
                self.order = [(a, b) for a, b in self.order if a != names[0]] + [(names[0], gvar(names[0]))]
            return "rlet %s (fun %s =>\n  %s)" % (ge, gvar(names[0]), self.seq(rest, env2, used, fin, top))
        if k == 'assert':
            self.asserts += 1
            ge, t = self.ex(st[1], env, used)
            self.want(t, "Bool", "assert!")
            return "rassert %s (\n  %s)" % (ge, self.seq(rest, env, used, fin, top))
        if k == 'assign':
            lhs, e = st[1], st[2]
            if lhs[0] != 'name' or lhs[1] not in env:
                raise Broken("%s: assignment to `%s`, which is not a local (state writes are not part of this function)" % (self.fname, G.callee_name(lhs)))
            ge, t = self.ex(e, env, used)
            if t != env[lhs[1]][1]:
                raise Broken("%s: `%s` of type %s assigned a %s" % (self.fname, lhs[1], env[lhs[1]][1], t))
            used.add(lhs[1])
            return "rlet %s (fun %s =>\n  %s)" % (ge, env[lhs[1]][0], self.seq(rest, env, used, fin, top))
        if k == 'return':
            # (statements after a return come from the enclosing block of an `if` whose branch returns: not reached)
            gs = [self.ex(e, env, used) for e in st[1]]
            if [t for _, t in gs] != self.rets:
                raise Broken("%s: returns (%s), declared (%s)" % (self.fname, ", ".join(t for _, t in gs), ", ".join(self.rets)))
            s = "Some ([%s], [%s])" % ("; ".join("ret_%d" % i for i in range(len(gs))),
                                        "; ".join('("%s"%%string, %s)' % (a, b) for a, b in getattr(self, "order", [])) if top else "")
            for i in reversed(range(len(gs))):
                s = "rlet %s (fun ret_%d =>\n  %s)" % (gs[i][0], i, s)
            return s
        if k == 'if':
            c, t = self.ex(st[1], env, used)
            self.want(t, "Bool", "if")
            th, el = st[2], st[3] or []
            if self.has_return(th) or self.has_return(el):
                # a branch leaves the function: both branches are followed by the rest of the function
                saved = list(getattr(self, "order", []))
                a = self.seq(th + rest, env, used, fin, top)
                self.order = list(saved)
                b = self.seq(el + rest, env, used, fin, top)
                return "rif %s\n  (%s)\n  (%s)" % (c, a, b)
            asg = self.assigned(th + el, env)
            for n in asg:
                used.add(n)
            blk_fin = lambda env_: "Some ([%s], [])" % "; ".join(env[n][0] for n in asg)
            a = self.seq(th, env, used, blk_fin, False)
            b = self.seq(el, env, used, blk_fin, False)
            return ("rcall (rif %s\n  (%s)\n  (%s)) (fun st => match st with [%s] =>\n  %s\n  | _ => None end)"
                    % (c, a, b, "; ".join(env[n][0] for n in asg), self.seq(rest, env, used, fin, top)))
        if k == 'for':
            return self.loop(st, rest, env, used, fin, top)
        if k == 'expr':
            e = st[1]
            if e[0] == 'call' and e[1] == ('name', 'panic!'):
                return "None"
            raise Broken("%s: expression statement `%s`" % (self.fname, st[-1][:80]))
        raise Broken("%s: statement kind %s" % (self.fname, k))

    def call(self, names, e, rest, env, used, fin, top):
        callee = e[1][1]
        if callee == self.fname:
            raise Broken("%s: recursive call" % self.fname)
        cf = self.u.function(callee)
        if len(e[2]) != len(cf.decl) or len(names) != len(cf.rets):
            raise Broken("%s: call of %s with %d arguments binding %d names" % (self.fname, callee, len(e[2]), len(names)))
        args = [self.ex(a, env, used) for a in e[2]]
        if [t for _, t in args] != [t for _, t in cf.decl]:
            raise Broken("%s: call of %s with (%s)" % (self.fname, callee, ", ".join(t for _, t in args)))
        self.calls.append(callee)
        self.oracles |= cf.oracles
        # the fields / clock values the callee reads are read by this function too
        extra = [self.freevar(text, ty) for _, text, ty in cf.free]
        env2 = dict(env)
        for n, t in zip(names, cf.rets):
            env2[n] = (gvar(n), t)
            if top:
                self.order = [(a, b) for a, b in self.order if a != n] + [(n, gvar(n))]
        s = ("rcall (ral_%s keccak256 ethEcRecover %s) (fun rets => match rets with [%s] =>\n  %s\n  | _ => None end)"
             % (callee, " ".join(["a%d" % i for i in range(len(args))] + extra), "; ".join(gvar(n) for n in names),
                self.seq(rest, env2, used, fin, top)))
        for i in reversed(range(len(args))):
            s = "rlet %s (fun a%d => %s)" % (args[i][0], i, s)
        return s

    def loop(self, st, rest, env, used, fin, top):
        _, iv, init, cond, sv, step, body, hdr = st
        what = "%s: loop `%s`" % (self.fname, hdr)
        if iv in env:
            raise Broken("%s: loop variable shadows a local" % what)
        if self.has_return(body):
            raise Broken("%s: return inside the loop" % what)
        if sv != iv or step != ('bin', '+', ('name', iv), ('num', 1)):
            raise Broken("%s: step is not `%s = %s + 1`" % (what, iv, iv))
        if cond[0] != 'bin' or cond[1] not in ('<', '<=') or cond[2] != ('name', iv):
            raise Broken("%s: condition is not `%s < bound` / `%s <= bound`" % (what, iv, iv))
        ginit, tinit = self.ex(init, env, used)
        if tinit != "U256":
            raise Broken("%s: initial value of type %s" % (what, tinit))
        asg = self.assigned(body, env)
        bound_names = names_in(cond[3])
        if iv in bound_names or any(n in bound_names for n in asg):
            raise Broken("%s: the bound reads a variable the loop assigns" % what)
        if iv in self.assigned(body, {iv: 1}):
            raise Broken("%s: the body assigns the loop variable" % what)
        gbound, tb = self.ex(cond[3], env, used)
        if tb != "U256":
            raise Broken("%s: bound of type %s" % (what, tb))
        self.nloop += 1
        base = "ral_%s_loop%d" % (self.fname, self.nloop)
        state = [iv] + asg
        envl = dict(env)
        envl[iv] = (gvar(iv), "U256")
        svars = "; ".join(envl[n][0] for n in state)
        # condition and body as definitions of their own: the outer variables they read become parameters
        ucond, ubody = set(), set()
        gc, tc = self.ex(cond, envl, ucond)
        step_fin = lambda env_: ("rlet %s (fun %s =>\n  Some ([%s], []))" % (self.ex(step, env_, ubody)[0], gvar(iv), svars))
        gb = self.seq(body, envl, ubody, step_fin, False)
        cap_c = [n for n in env if n in ucond and n not in state]
        cap_b = [n for n in env if n in ubody and n not in state]
        for n in cap_c + cap_b + asg:
            used.add(n)
        self.aux.append("(* %s fn %s: %s — condition; state = [%s] *)\nDefinition %s_cond (keccak256 : list byte -> list byte) (ethEcRecover : list byte -> list byte -> option (list byte)) %s(st : list rval) : rv :=\n  match st with [%s] => %s | _ => None end.\n"
                        % (RAL.split("/")[-1], self.fname, hdr, "; ".join(state), base, "".join("(%s : rval) " % env[n][0] for n in cap_c), svars, gc))
        self.aux.append("(* %s fn %s: %s — body, then the step; returns the new state *)\nDefinition %s_body (keccak256 : list byte -> list byte) (ethEcRecover : list byte -> list byte -> option (list byte)) %s(st : list rval) : option rres :=\n  match st with [%s] =>\n  %s\n  | _ => None end.\n"
                        % (RAL.split("/")[-1], self.fname, hdr, base, "".join("(%s : rval) " % env[n][0] for n in cap_b), svars, gb))
        self.loops.append({"header": hdr, "state": state, "cond_captures": cap_c, "body_captures": cap_b})
        after = "; ".join(["_"] + [env[n][0] for n in asg])
        return ("rlet %s (fun %s =>\n  rcall (r_for (r_fuel (r_var %s) %s) (%s_cond keccak256 ethEcRecover %s) (%s_body keccak256 ethEcRecover %s) [%s]) (fun st => match st with [%s] =>\n  %s\n  | _ => None end))"
                % (ginit, gvar(iv), gvar(iv), gbound, base, " ".join(env[n][0] for n in cap_c), base, " ".join(env[n][0] for n in cap_b), svars, after,
                   self.seq(rest, env, used, fin, top)))

    def translate(self):
        self.order = []
        self.loops = []
        env = {p: (gvar(p), t) for p, t in self.decl}

        def fin(_env):
            if self.rets:
                raise Broken("%s: a path reaches the end of the function without `return`" % self.fname)
            return "Some ([], [])"
        term = self.seq(self.body, env, set(), fin, True)
        self.term = term
        params = [gvar(p) for p, _ in self.decl] + [g for g, _, _ in self.free]
        doc = ", ".join("%s = %s" % (g, t) for g, t, _ in self.free)
        self.text = "".join(self.aux) + ("(* %s fn %s(%s) -> (%s), statement by statement; None = the VM aborts; fields / clock read: %s *)\n"
                                         "Definition ral_%s (keccak256 : list byte -> list byte) (ethEcRecover : list byte -> list byte -> option (list byte)) %s: option rres :=\n  %s.\n"
                                         % (RAL.split("/")[-1], self.fname, ", ".join("%s: %s" % d for d in self.decl), ", ".join(self.rets), doc or "none",
                                            self.fname, "".join("(%s : rval) " % g for g in params), term))
        return self


class Unit:
    def __init__(self):
        self.src = G.strip_comments(rd(RAL))
        self.consts = G.ral_consts(self.src, RAL)
        self.fields = contract_fields(self.src, RAL)
        self.used_consts = set()
        self.fns = {}
        self.emitted = []

    def function(self, name):
        if name not in self.fns:
            self.fns[name] = None     # cycle guard
            f = Fn(self, name).translate()
            self.fns[name] = f
            self.emitted.append(f)
        if self.fns[name] is None:
            raise Broken("%s: call cycle" % name)
        return self.fns[name]


def x_ral_verify_full():
    u = Unit()
    main = u.function("parseAndVerifyVAA")
    if [p for p, _ in main.decl] != ["data", "isGovernanceVAA"] or [t for _, t in main.decl] != ["ByteVec", "Bool"]:
        raise Broken("parseAndVerifyVAA parameters are %s" % main.decl)
    if main.rets != ["U256", "U256", "ByteVec", "U256", "ByteVec"]:
        raise Broken("parseAndVerifyVAA returns (%s)" % ", ".join(main.rets))
    if len(main.loops) != 1:
        raise Broken("parseAndVerifyVAA has %d loops" % len(main.loops))
    out = ["Module RalVerify.\nImport Coq.Strings.String WH.lib.Ralph WH.lib.RalphLoop.\n"
           "(* every definition takes the two oracles first: keccak256!(bytes) and ethEcRecover!(hash, signature) (None = the VM aborts) *)\n"]
    for n in sorted(u.used_consts):
        out.append("Definition c_%s : rv := %s.\n" % (n, G.glit(u.consts[n])))
    for f in u.emitted:
        out.append(f.text)
    # the entry point with a FIXED parameter list (whatever subset of the contract state the source reads today)
    fixed = ["guardianSetIndexes[1]", "guardianSets[1]", "guardianSetIndexes[0]", "blockTimeStamp!()", "previousGuardianSetExpirationTimeMS", "guardianSets[0]"]
    for _, text, _ in main.free:
        if text not in fixed:
            raise Broken("parseAndVerifyVAA reads `%s`, which is not part of the guardian-set state the model knows (%s)" % (text, ", ".join(fixed)))
    out.append("(* the entry point applied to the guardian-set state: parameters in a fixed order, whichever of them the source reads *)\n"
               "Definition ral_parseAndVerifyVAA_on %s%s: option rres :=\n  ral_parseAndVerifyVAA keccak256 ethEcRecover %s.\n"
               % (ORACLES, "".join("(%s : rval) " % g for g in ["v_data", "v_isGovernanceVAA"] + [gvar(t) for t in fixed]),
                  " ".join(["v_data", "v_isGovernanceVAA"] + [g for g, _, _ in main.free])))
    out.append("End RalVerify.\n")
    info = {"functions": {f.fname: {"params": [p for p, _ in f.decl], "reads": [t for _, t, _ in f.free], "calls": f.calls, "asserts": f.asserts,
                                    "loops": f.loops, "entries": [a for a, _ in f.order]} for f in u.emitted},
            "constants": {n: u.consts[n][1] for n in sorted(u.used_consts)}}
    return "".join(out), info


EXTRACTORS = [("ral_verify_full", x_ral_verify_full)]
