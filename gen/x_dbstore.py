"""Extractor for C16: what is logic in node/pkg/db/db.go around the engine: Open with default options, one Update
transaction with one Set per stored VAA, the Update error propagated to the caller."""
import re
from extract import rd, Broken


def x_db_store():
    db = rd("node/pkg/db/db.go")
    info = {}
    m = re.search(r'func Open\(path string\) \(\*Database, error\) \{(.*?)\n\}', db, re.S)
    if not m:
        raise Broken("db.go: func Open not found")
    o = m.group(1)
    # shapes understood: plain Open; Open tried once more; a loop of `attempts` tries with attempts = emptyLogFiles(path) + N
    # or a constant
    TAIL = r'\s*if err != nil \{\s*return nil, fmt\.Errorf\("failed to open database: %w", err\)\s*\}\s*return &Database\{\s*db: db,\s*\}, nil'
    OPTS = r'(badger\.DefaultOptions\(path\)[^\n]*?)'
    code_o = re.sub(r'//[^\n]*', '', o)
    m1 = re.fullmatch(r'\s*db, err := badger\.Open\(' + OPTS + r'\)\n' + TAIL + r'\s*', code_o)
    m2 = re.fullmatch(r'\s*db, err := badger\.Open\(' + OPTS + r'\)\n\s*if err != nil \{\s*db, err = badger\.Open\(' + OPTS + r'\)\s*\}\n' + TAIL + r'\s*', code_o)
    m3 = re.fullmatch(r'\s*(\w+) := ([^\n]+)\n\s*var db \*badger\.DB\n\s*var err error\n\s*for (\w+) := 0; \3 < \1; \3\+\+ \{\s*if db, err = badger\.Open\(' + OPTS
                      + r'\); err == nil \{\s*break\s*\}\s*\}\n' + TAIL + r'\s*', code_o)
    m4 = re.fullmatch(r'\s*var \(\s*db\s+\*badger\.DB\s*err\s+error\s*\)\s*for (\w+) := 0; \1 < (\w+); \1\+\+ \{\s*if db, err = badger\.Open\(' + OPTS
                      + r'\); err == nil \{\s*break\s*\}\s*\}\n' + TAIL + r'\s*', code_o)
    if m1:
        opts, attempts, how = m1.group(1), "1", "one attempt"
    elif m2:
        if m2.group(1) != m2.group(2):
            raise Broken("db.go: Open retries with different options")
        opts, attempts, how = m2.group(1), "2", "tried once more"
    elif m3:
        opts = m3.group(4)
        me = re.fullmatch(r'emptyLogFiles\(path\) \+ (\d+)', m3.group(2).strip())
        mc = re.fullmatch(r'(\d+)', m3.group(2).strip())
        if me:
            cnt = re.search(r'func emptyLogFiles\(path string\) int \{(.*?)\n\}', db, re.S)
            if not cnt or not re.search(r'ext == "\.mem" \|\| ext == "\.vlog"', cnt.group(1)) or not re.search(r'fi\.Size\(\) == 0 \{\s*n\+\+', cnt.group(1)) \
               or not re.search(r'os\.ReadDir\(path\)', cnt.group(1)):
                raise Broken("db.go: emptyLogFiles no longer counts the zero-length .mem and .vlog files of the directory")
            attempts, how = "empty_files + %s" % me.group(1), "one attempt per empty log file + %s" % me.group(1)
        elif mc:
            attempts, how = mc.group(1), "%s attempts" % mc.group(1)
        else:
            raise Broken("db.go: Open: number of attempts %r not understood" % m3.group(2))
    elif m4:
        opts = m4.group(3)
        mk = re.search(r'const %s = (\d+)' % re.escape(m4.group(2)), db)
        if not mk:
            raise Broken("db.go: Open: loop bound %s is not a numeric constant" % m4.group(2))
        attempts, how = mk.group(1), "%s attempts" % mk.group(1)
    else:
        raise Broken("db.go: Open is no longer `badger.Open(badger.DefaultOptions(path)...)` (once, once more, or in a loop of attempts) with the error returned")
    info["open_attempts"] = how
    info["open_options"] = opts
    default = opts == "badger.DefaultOptions(path)"
    sync = bool(re.search(r'\.WithSyncWrites\(true\)', opts))
    if re.search(r'WithInMemory\(true\)|WithReadOnly\(true\)', opts):
        raise Broken("db.go: Open uses an in-memory / read-only store: nothing survives a kill")
    m = re.search(r'func \(d \*Database\) StoreSignedVAA\(v \*vaa\.VAA\) error \{(.*?)\n\}', db, re.S)
    if not m:
        raise Broken("db.go: func StoreSignedVAA not found")
    b = m.group(1)
    code = re.sub(r'//[^\n]*', '', b)
    panics = bool(re.search(r'if len\(v\.Signatures\) == 0 \{\s*panic\(', code))
    if not re.search(r'b, _ := v\.Marshal\(\)', code):
        raise Broken("StoreSignedVAA: `b, _ := v.Marshal()` not found")
    if len(re.findall(r'\.Update\(', code)) != 1 or len(re.findall(r'txn\.Set\(', code)) != 1:
        raise Broken("StoreSignedVAA: expected exactly one d.db.Update with exactly one txn.Set")
    if re.search(r'\bgo\s+func|\bgo\s+d\.|NewWriteBatch|SetEntry|WithTTL|txn\.Delete', code):
        raise Broken("StoreSignedVAA: asynchronous / batched / expiring / deleting write not understood")
    mu = re.search(r'(err :?= |_ = |return |)d\.db\.Update\(func\(txn \*badger\.Txn\) error \{\s*if err := txn\.Set\(VaaIDFromVAA\(v\)\.Bytes\(\), b\); err != nil \{\s*return err\s*\}\s*return nil\s*\}\)', code)
    if not mu:
        raise Broken("StoreSignedVAA: `d.db.Update(func(txn) { if err := txn.Set(VaaIDFromVAA(v).Bytes(), b); err != nil { return err }; return nil })` not found")
    rest = code[mu.end():]
    if mu.group(1) == "return ":
        propagated = True
    elif mu.group(1).startswith("err") and re.fullmatch(r'\s*if err != nil \{\s*return fmt\.Errorf\("failed to commit tx: %w", err\)\s*\}\s*return nil\s*', rest):
        propagated = True
    elif mu.group(1) in ("_ = ", "") and re.fullmatch(r'\s*return nil\s*', rest):
        propagated = False
    else:
        raise Broken("StoreSignedVAA: what happens with the error of d.db.Update is not understood")
    info.update(panics_unsigned=panics, error_propagated=propagated, default_options=default, sync_writes=sync)
    out = "(* db.go: Open(%s); StoreSignedVAA: one Update, one Set, error %s *)\n" % (opts, "returned" if propagated else "DROPPED")
    out += "Definition db_store_panics_unsigned : bool := %s.\n" % ("true" if panics else "false")
    out += "Definition db_store_error_propagated : bool := %s.\n" % ("true" if propagated else "false")
    out += "Definition db_open_sync_writes : bool := %s.\n" % ("true" if sync else "false")
    out += "(* db.go Open: %s; empty_files = zero-length .mem / .vlog files in the directory *)\n" % how
    out += "Definition db_open_attempts (empty_files : Z) : Z := %s.\n" % attempts
    return out, info


EXTRACTORS = [("db_store", x_db_store)]
