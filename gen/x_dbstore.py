"""Extractor for C16: what is logic in node/pkg/db/db.go around the engine: Open with default options, one Update
transaction with one Set per stored VAA, the Update error propagated to the caller."""
import re
from extract import rd, Broken


def x_db_store():
    db = rd("node/pkg/db/db.go")
    info = {}
    m = re.search(r'func Open\(path string\) \(\*Database, error\) \{(.*?)\n\}', db, re.S)
    if not m:
        raise Broken("db.go: func Open not found")
    o = m.group(1)
    mo = re.search(r'db, err := badger\.Open\((badger\.DefaultOptions\(path\)[^\n]*)\)\n'
                   r'(\s*if err != nil \{\n(?:\s*//[^\n]*\n)*\s*db, err = badger\.Open\((badger\.DefaultOptions\(path\)[^\n]*)\)\n\s*\}\n)?'
                   r'\s*if err != nil \{\s*return nil, fmt\.Errorf\("failed to open database: %w", err\)\s*\}\s*return &Database\{\s*db: db,\s*\}, nil', o)
    if not mo:
        raise Broken("db.go: Open is no longer `badger.Open(badger.DefaultOptions(path)...)` (optionally tried once more) with the error returned")
    if mo.group(2) and mo.group(3) != mo.group(1):
        raise Broken("db.go: Open retries with different options")
    info["open_retries_once"] = bool(mo.group(2))
    opts = mo.group(1)
    info["open_options"] = opts
    default = opts == "badger.DefaultOptions(path)"
    sync = bool(re.search(r'\.WithSyncWrites\(true\)', opts))
    if re.search(r'WithInMemory\(true\)|WithReadOnly\(true\)', opts):
        raise Broken("db.go: Open uses an in-memory / read-only store: nothing survives a kill")
    m = re.search(r'func \(d \*Database\) StoreSignedVAA\(v \*vaa\.VAA\) error \{(.*?)\n\}', db, re.S)
    if not m:
        raise Broken("db.go: func StoreSignedVAA not found")
    b = m.group(1)
    code = re.sub(r'//[^\n]*', '', b)
    panics = bool(re.search(r'if len\(v\.Signatures\) == 0 \{\s*panic\(', code))
    if not re.search(r'b, _ := v\.Marshal\(\)', code):
        raise Broken("StoreSignedVAA: `b, _ := v.Marshal()` not found")
    if len(re.findall(r'\.Update\(', code)) != 1 or len(re.findall(r'txn\.Set\(', code)) != 1:
        raise Broken("StoreSignedVAA: expected exactly one d.db.Update with exactly one txn.Set")
    if re.search(r'\bgo\s+func|\bgo\s+d\.|NewWriteBatch|SetEntry|WithTTL|txn\.Delete', code):
        raise Broken("StoreSignedVAA: asynchronous / batched / expiring / deleting write not understood")
    mu = re.search(r'(err :?= |_ = |return |)d\.db\.Update\(func\(txn \*badger\.Txn\) error \{\s*if err := txn\.Set\(VaaIDFromVAA\(v\)\.Bytes\(\), b\); err != nil \{\s*return err\s*\}\s*return nil\s*\}\)', code)
    if not mu:
        raise Broken("StoreSignedVAA: `d.db.Update(func(txn) { if err := txn.Set(VaaIDFromVAA(v).Bytes(), b); err != nil { return err }; return nil })` not found")
    rest = code[mu.end():]
    if mu.group(1) == "return ":
        propagated = True
    elif mu.group(1).startswith("err") and re.fullmatch(r'\s*if err != nil \{\s*return fmt\.Errorf\("failed to commit tx: %w", err\)\s*\}\s*return nil\s*', rest):
        propagated = True
    elif mu.group(1) in ("_ = ", "") and re.fullmatch(r'\s*return nil\s*', rest):
        propagated = False
    else:
        raise Broken("StoreSignedVAA: what happens with the error of d.db.Update is not understood")
    info.update(panics_unsigned=panics, error_propagated=propagated, default_options=default, sync_writes=sync)
    out = "(* db.go: Open(%s); StoreSignedVAA: one Update, one Set, error %s *)\n" % (opts, "returned" if propagated else "DROPPED")
    out += "Definition db_store_panics_unsigned : bool := %s.\n" % ("true" if panics else "false")
    out += "Definition db_store_error_propagated : bool := %s.\n" % ("true" if propagated else "false")
    out += "Definition db_open_sync_writes : bool := %s.\n" % ("true" if sync else "false")
    return out, info


EXTRACTORS = [("db_store", x_db_store)]
