"""Translator for the VAA codec of node/pkg/vaa/structs.go: serializeBody, Marshal, Unmarshal are translated STATEMENT BY STATEMENT
into Gallina definitions (go_body, go_marshal, go_parse_sigs, go_unmarshal_with) over the types of WH.model.Vaa.  Field widths are
read from the Go type declarations (VAA / Signature structs, ChainID, Address, SignatureData), not assumed.  A statement the
translator does not know makes it raise Broken (it never skips one).  props/C05.v proves the generated definitions equal to the
hand model (`reflexivity`-style), so a change of field order, width, conversion or error path in the Go source changes a
definition a theorem is about — in addition to the differential comparison of the running code."""
import re
from extract import rd, Broken

TARGET = "ExtractedVaaCodec"
HEADER = ("From Coq Require Import List ZArith Bool Arith.\nFrom Coq Require Import Strings.Byte.\n"
          "From WH Require Import lib.Bytes gen.Extracted model.Vaa.\nImport ListNotations.\nOpen Scope Z_scope.\n")

FIELD = {"Version": "version", "GuardianSetIndex": "gsidx", "Nonce": "nonce", "EmitterChain": "echain", "TargetChain": "tchain",
         "EmitterAddress": "eaddr", "Sequence": "seq", "ConsistencyLevel": "cl", "Payload": "payload"}
ERR = [("guardian set index", "EGsIndex"), ("signature length", "ESigLen"), ("validator index", "ESigIndex"),
       ("failed to read signature [", "ESig"), ("timestamp", "ETimestamp"), ("nonce", "ENonce"), ("emitter chain", "EEChain"),
       ("to chain", "ETChain"), ("emitter address", "EEAddr"), ("sequence", "ESeq"), ("commitment", "ECL"), ("payload", "EPayload")]


def _types(src):
    """widths (bytes) of the Go types used by the codec, from the type block"""
    prim = {"uint8": 1, "byte": 1, "uint16": 2, "uint32": 4, "uint64": 8}
    named = {}
    for m in re.finditer(r'^\s*(\w+)\s+(uint8|uint16|uint32|uint64)\s*$', src, re.M):
        named[m.group(1)] = prim[m.group(2)]
    arr = {}
    for m in re.finditer(r'^\s*(\w+)\s+\[(\d+)\]byte\s*$', src, re.M):
        arr[m.group(1)] = int(m.group(2))
    def struct(name):
        m = re.search(r'^\s*%s struct \{(.*?)^\s*\}' % name, src, re.M | re.S)
        if not m:
            raise Broken("structs.go: struct %s not found" % name)
        out = {}
        for line in m.group(1).split("\n"):
            line = line.split("//")[0].strip()
            mm = re.fullmatch(r'(\w+)\s+(\S+)', line)
            if mm:
                out[mm.group(1)] = mm.group(2)
        return out
    return prim, named, arr, struct("VAA"), struct("Signature")


def _func(src, header_rx):
    m = re.search(header_rx, src, re.M)
    if not m:
        raise Broken("structs.go: %s not found" % header_rx)
    end = src.find("\n}\n", m.end())
    if end < 0:
        raise Broken("structs.go: end of %s not found" % header_rx)
    body = src[m.end():end]
    body = re.sub(r'//[^\n]*', '', body)
    return re.sub(r'\s+', ' ', body).strip()


class Cur:
    """consume a normalised function body statement by statement"""
    def __init__(self, text, what):
        self.t, self.what = text, what
    def eat(self, rx):
        m = re.match(rx + r'\s*', self.t)
        if not m:
            return None
        self.t = self.t[m.end():]
        return m
    def need(self, rx, descr):
        m = self.eat(rx)
        if not m:
            raise Broken("%s: expected %s at `%s`" % (self.what, descr, self.t[:90]))
        return m
    def done(self):
        if self.t.strip():
            raise Broken("%s: statement not understood: `%s`" % (self.what, self.t[:110]))


def x_vaa_codec():
    src = rd("node/pkg/vaa/structs.go")
    prim, named, arr, vaa, sig = _types(src)

    def width(t):
        if t in prim:
            return prim[t]
        if t in named:
            return named[t]
        raise Broken("structs.go: width of type %s unknown" % t)

    if vaa.get("Timestamp") != "time.Time" or vaa.get("Payload") != "[]byte" or vaa.get("Signatures") != "[]*Signature":
        raise Broken("structs.go: VAA.Timestamp / Payload / Signatures have unexpected types")
    if sig.get("Index") not in prim or arr.get(sig.get("Signature", "")) is None:
        raise Broken("structs.go: Signature struct has unexpected field types")
    sigw, addrw = arr[sig["Signature"]], arr.get(vaa.get("EmitterAddress", ""))
    if addrw is None:
        raise Broken("structs.go: VAA.EmitterAddress is not a fixed-size byte array")

    # ------------------------------------------------------------ writers
    def write_term(c, what, var, in_loop):
        """one write statement -> Gallina term (or None)"""
        m = c.eat(r'MustWrite\(buf, binary\.BigEndian, ([^;]+?)\)(?= |$)')
        if m:
            e = m.group(1).strip()
            mm = re.fullmatch(r'v\.(\w+)', e)
            if mm and mm.group(1) in FIELD and vaa.get(mm.group(1)) not in ("[]byte", None) and mm.group(1) != "EmitterAddress":
                return "be %d (%s v)" % (width(vaa[mm.group(1)]), FIELD[mm.group(1)])
            mm = re.fullmatch(r'(uint8|uint16|uint32|uint64)\(v\.Timestamp\.Unix\(\)\)', e)
            if mm:
                return "be %d (ts v)" % prim[mm.group(1)]
            mm = re.fullmatch(r'(uint8|uint16|uint32|uint64)\(len\(v\.Signatures\)\)', e)
            if mm:
                return "be %d (Z.of_nat (length (sigs v)))" % prim[mm.group(1)]
            if in_loop and e == var + ".Index":
                return "be %d (s_idx s)" % width(sig["Index"])
            raise Broken("%s: written expression `%s` not understood" % (what, e))
        m = c.eat(r'buf\.Write\(([^;]+?)\)(?= |$)')
        if m:
            e = m.group(1).strip()
            if e == "v.EmitterAddress[:]":
                return "eaddr v"
            if e == "v.Payload":
                return "payload v"
            if e == "v.serializeBody()":
                return "go_body v"
            if in_loop and e == var + ".Signature[:]":
                return "s_data s"
            raise Broken("%s: written bytes `%s` not understood" % (what, e))
        return None

    def writer(body, what):
        c = Cur(body, what)
        c.need(r'buf := new\(bytes\.Buffer\)', "`buf := new(bytes.Buffer)`")
        terms = []
        while True:
            t = write_term(c, what, None, False)
            if t is not None:
                terms.append(t)
                continue
            m = c.eat(r'for _, (\w+) := range v\.Signatures \{')
            if m:
                inner = []
                while True:
                    t = write_term(c, what, m.group(1), True)
                    if t is None:
                        break
                    inner.append(t)
                c.need(r'\}', "end of the signature loop")
                if not inner:
                    raise Broken("%s: empty signature loop" % what)
                terms.append("flat_map (fun s => %s) (sigs v)" % " ++ ".join(inner))
                continue
            break
        c.need(r'return buf\.Bytes\(\)(, nil)?', "`return buf.Bytes()`")
        c.done()
        if not terms:
            raise Broken("%s: nothing written" % what)
        return " ++ ".join(terms), len(terms)

    body_t, nb = writer(_func(src, r'^func \(v \*VAA\) serializeBody\(\) \[\]byte \{'), "serializeBody")
    marsh_t, nm = writer(_func(src, r'^func \(v \*VAA\) Marshal\(\) \(\[\]byte, error\) \{'), "Marshal")
    sb = _func(src, r'^func \(v \*VAA\) signingBody\(\) \[\]byte \{')
    if sb != "return v.serializeBody()":
        raise Broken("signingBody is not `return v.serializeBody()`: %s" % sb[:80])

    # ------------------------------------------------------------ the reader
    c = Cur(_func(src, r'^func Unmarshal\(data \[\]byte\) \(\*VAA, error\) \{'), "Unmarshal")

    def err_of(msg):
        for k, e in ERR:
            if k in msg:
                return e
        raise Broken("Unmarshal: error message `%s` not mapped to an error kind" % msg)

    c.need(r'if len\(data\) < minVAALength \{ return nil, fmt\.Errorf\("VAA is too short"\) \}', "the length floor")
    c.need(r'v := &VAA\{\}', "`v := &VAA{}`")
    c.need(r'v\.Version = data\[0\]', "`v.Version = data[0]`")
    c.need(r'if v\.Version != SupportedVAAVersion \{ return nil, fmt\.Errorf\("unsupported VAA version: %d", v\.Version\) \}', "the version test")
    c.need(r'reader := bytes\.NewReader\(data\[1:\]\)', "`reader := bytes.NewReader(data[1:])`")
    lines = ["  if (length data <? vaa_min_len)%nat then Err ETooShort else",
             "  match rd 1 ETooShort data with Err e => Err e | Ok (ver, l0) =>",
             "  if negb (unbe ver =? vaa_version) then Err EBadVersion else"]
    cur, n, binds, closes = "l0", 0, {"version": "unbe ver"}, 1
    order = []

    def fresh():
        nonlocal n
        n += 1
        return "fv%d" % n, "l%d" % n

    def emit_read(w, e, bindname, conv="unbe %s"):
        nonlocal cur, closes
        x, l = fresh()
        lines.append("  match rd %d %s %s with Err e => Err e | Ok (%s, %s) =>" % (w, e, cur, x, l))
        cur = l
        closes += 1
        if bindname:
            binds[bindname] = conv % x
        order.append((bindname or "-", w))
        return x

    sigs_done = False
    while True:
        m = c.eat(r'if err := binary\.Read\(reader, binary\.BigEndian, &v\.(\w+)\); err != nil \{ return nil, fmt\.Errorf\("([^"]*)", err\) \}')
        if m:
            f = m.group(1)
            if f not in FIELD or f in ("EmitterAddress", "Payload"):
                raise Broken("Unmarshal: binary.Read into v.%s not understood" % f)
            emit_read(width(vaa[f]), err_of(m.group(2)), FIELD[f])
            continue
        m = c.eat(r'lenSignatures, er := reader\.ReadByte\(\) if er != nil \{ return nil, fmt\.Errorf\("([^"]*)"\) \}')
        if m:
            nsx = emit_read(1, err_of(m.group(1)), None)
            c.need(r'v\.Signatures = make\(\[\]\*Signature, lenSignatures\)', "`v.Signatures = make([]*Signature, lenSignatures)`")
            c.need(r'for i := 0; i < int\(lenSignatures\); i\+\+ \{', "the signature loop")
            m1 = c.need(r'index, err := reader\.ReadByte\(\) if err != nil \{ return nil, fmt\.Errorf\("([^"]*)", i\) \}', "the index read")
            m2 = c.need(r'signature := \[(\d+)\]byte\{\} if n, err := reader\.Read\(signature\[:\]\); err != nil \|\| n != (\d+) \{ return nil, fmt\.Errorf\("([^"]*)", i, err\) \}', "the signature read")
            if int(m2.group(1)) != int(m2.group(2)) or int(m2.group(1)) != sigw:
                raise Broken("Unmarshal: signature buffer %s / test %s / type %d bytes disagree" % (m2.group(1), m2.group(2), sigw))
            c.need(r'v\.Signatures\[i\] = &Signature\{ Index: index, Signature: signature, \}', "the Signature literal")
            c.need(r'\}', "end of the signature loop")
            ps = ("Fixpoint go_parse_sigs (n : nat) (l : bytes) : res (list sig * bytes) :=\n  match n with\n  | O => Ok ([], l)\n  | S k =>\n"
                  "    match rd %d %s l with Err e => Err e | Ok (i, l1) =>\n    match rd %d %s l1 with Err e => Err e | Ok (d, l2) =>\n"
                  "    match go_parse_sigs k l2 with Err e => Err e | Ok (ss, l3) =>\n      Ok ({| s_idx := unbe i; s_data := d |} :: ss, l3) end end end\n  end.\n"
                  % (width(sig["Index"]), err_of(m1.group(1)), sigw, err_of(m2.group(3))))
            x, l = fresh()
            lines.append("  match go_parse_sigs (Z.to_nat (unbe %s)) %s with Err e => Err e | Ok (%s, %s) =>" % (nsx, cur, x, l))
            cur = l
            closes += 1
            binds["sigs"] = x
            sigs_done = True
            order.append(("sigs", sigw + 1))
            continue
        m = c.eat(r'unixSeconds := (uint8|uint16|uint32|uint64)\(0\) if err := binary\.Read\(reader, binary\.BigEndian, &unixSeconds\); err != nil \{ return nil, fmt\.Errorf\("([^"]*)", err\) \}')
        if m:
            emit_read(prim[m.group(1)], err_of(m.group(2)), "ts")
            c.need(r'v\.Timestamp = time\.Unix\(int64\(unixSeconds\), 0\)', "`v.Timestamp = time.Unix(int64(unixSeconds), 0)`")
            continue
        m = c.eat(r'emitterAddress := Address\{\} if n, err := reader\.Read\(emitterAddress\[:\]\); err != nil \|\| n != (\d+) \{ return nil, fmt\.Errorf\("([^"]*)", n, err\) \}')
        if m:
            if int(m.group(1)) != addrw:
                raise Broken("Unmarshal: emitter address test n != %s but the type has %d bytes" % (m.group(1), addrw))
            emit_read(addrw, err_of(m.group(2)), "eaddr", "%s")
            c.need(r'v\.EmitterAddress = emitterAddress', "`v.EmitterAddress = emitterAddress`")
            continue
        break
    m = c.need(r'payload := make\(\[\]byte, ([^)]+\)?)\) n, err := reader\.Read\(payload\) if err != nil \|\| n == 0 \{ return nil, fmt\.Errorf\("([^"]*)", n, err\) \}',
               "the payload read")
    pe = err_of(m.group(2))
    c.need(r'v\.Payload = payload\[:n\]', "`v.Payload = payload[:n]`")
    c.need(r'return v, nil', "`return v, nil`")
    c.done()
    if not sigs_done:
        raise Broken("Unmarshal: signature section not found")
    need = ["version", "gsidx", "sigs", "ts", "nonce", "echain", "tchain", "eaddr", "seq", "cl"]
    missing = [k for k in need if k not in binds]
    if missing:
        raise Broken("Unmarshal: fields never read: %s" % missing)
    lines.append("  let pl := match paycap with None => %s | Some k => firstn k %s end in" % (cur, cur))
    lines.append("  match pl with [] => Err %s | _ =>" % pe)
    lines.append("    Ok {| version := %s; gsidx := %s; sigs := %s; ts := %s; tns := 0; nonce := %s;" % tuple(binds[k] for k in ["version", "gsidx", "sigs", "ts", "nonce"]))
    lines.append("          echain := %s; tchain := %s; eaddr := %s; seq := %s; cl := %s; payload := pl |}" % tuple(binds[k] for k in ["echain", "tchain", "eaddr", "seq", "cl"]))
    lines.append("  end" + " end" * closes + ".")
    out = ("(* GENERATED by gen/x_vaacodec.py from node/pkg/vaa/structs.go (serializeBody, Marshal, Unmarshal), statement by statement *)\n"
           "Definition go_body (v : vaa) : bytes :=\n  %s.\n\n"
           "Definition go_marshal (v : vaa) : bytes :=\n  %s.\n\n"
           "%s\n"
           "Definition go_unmarshal_with (paycap : option nat) (data : bytes) : res vaa :=\n%s\n\n"
           "Definition go_unmarshal : bytes -> res vaa := go_unmarshal_with vaa_paycap.\n"
           % (body_t, marsh_t, ps, "\n".join(lines)))
    info = {"serializeBody_terms": nb, "marshal_terms": nm, "unmarshal_reads": ["%s:%d" % o for o in order],
            "signature_bytes": sigw, "address_bytes": addrw}
    return out, info


def x_vaa_verify():
    """(*VAA).VerifySignatures translated statement by statement: the guards in source order, the symbolic values of last_index and
    signing_addresses at each point; an indexing of `addresses` that is not preceded by the bounds test would be a panic and is refused"""
    src = rd("node/pkg/vaa/structs.go")
    c = Cur(_func(src, r'^func \(v \*VAA\) VerifySignatures\(addresses \[\]common\.Address\) bool \{'), "VerifySignatures")
    pre = None
    if c.eat(r'if len\(addresses\) < len\(v\.Signatures\) \{ return false \}'):
        pre = "if (length addrs <? length (sigs v))%nat then false else"
    c.need(r'h := v\.SigningMsg\(\)', "`h := v.SigningMsg()`")
    c.need(r'last_index := -1', "`last_index := -1`")
    c.need(r'signing_addresses := \[\]common\.Address\{\}', "`signing_addresses := []common.Address{}`")
    c.need(r'for _, sig := range v\.Signatures \{', "the loop over the signatures")
    last, seen = "last", "seen"
    lines, closes, have_bounds, have_addr, guards = [], 0, False, False, []
    while True:
        if c.eat(r'if int\(sig\.Index\) >= len\(addresses\) \{ return false \}'):
            lines.append("    if Z.of_nat (length addrs) <=? s_idx s then false else")
            have_bounds = True
            guards.append("bounds")
            continue
        if c.eat(r'if int\(sig\.Index\) <= last_index \{ return false \}'):
            lines.append("    if s_idx s <=? %s then false else" % last)
            guards.append("order")
            continue
        if c.eat(r'last_index = int\(sig\.Index\)'):
            last = "s_idx s"
            continue
        if c.eat(r'pubKey, err := crypto\.Ecrecover\(h\.Bytes\(\), sig\.Signature\[:\]\) if err != nil \{ return false \}'):
            c.need(r'addr := common\.BytesToAddress\(crypto\.Keccak256\(pubKey\[1:\]\)\[12:\]\)', "the address derivation")
            lines.append("    match recover h (s_data s) with")
            lines.append("    | None => false")
            lines.append("    | Some a =>")
            closes += 1
            have_addr = True
            guards.append("recover")
            continue
        if c.eat(r'if addr != addresses\[sig\.Index\] \{ return false \}'):
            if not have_bounds:
                raise Broken("VerifySignatures: addresses[sig.Index] is read without the preceding bounds test (index out of range panics)")
            if not have_addr:
                raise Broken("VerifySignatures: addr used before it is recovered")
            lines.append("      match nth_error addrs (Z.to_nat (s_idx s)) with")
            lines.append("      | None => false")
            lines.append("      | Some a' =>")
            lines.append("        if negb (bytes_eqb a a') then false else")
            closes += 1
            guards.append("position")
            continue
        if c.eat(r'for _, (\w+) := range signing_addresses \{ if \1 == addr \{ return false \} \}'):
            lines.append("        if existsb (bytes_eqb a) %s then false else" % seen)
            guards.append("duplicate")
            continue
        if c.eat(r'signing_addresses = append\(signing_addresses, addr\)'):
            seen = "%s ++ [a]" % seen
            continue
        break
    c.need(r'\}', "end of the loop")
    c.need(r'return true', "`return true`")
    c.done()
    lines.append("        go_verify_loop h addrs (%s) (%s) t" % (last, seen))
    lines.append("      " + " ".join(["end"] * closes))
    out = ("(* GENERATED by gen/x_vaacodec.py from VAA.VerifySignatures, statement by statement; [recover h sig] stands for\n"
           "   crypto.Ecrecover + Keccak256(pubKey[1:])[12:] (None = Ecrecover returned an error) *)\n"
           "Section GoVerify.\nVariable recover : bytes -> bytes -> option bytes.\nVariable keccak : bytes -> bytes.\n\n"
           "Fixpoint go_verify_loop (h : bytes) (addrs : list bytes) (last : Z) (seen : list bytes) (ss : list sig) : bool :=\n"
           "  match ss with\n  | [] => true\n  | s :: t =>\n%s\n  end.\n\n"
           "Definition go_verify_sigs (v : vaa) (addrs : list bytes) : bool :=\n  %s\n  go_verify_loop (digest keccak v) addrs (-1) [] (sigs v).\nEnd GoVerify.\n"
           % ("\n".join(lines), pre or ""))
    return out, {"guards_in_source_order": guards, "early_length_test": pre is not None}


EXTRACTORS = [("vaa_codec", x_vaa_codec), ("vaa_verify", x_vaa_verify)]
