"""Wiring of the guardian node (node/cmd/guardiand/node.go): which channel variable is handed to which component, in which
direction each component uses it (read from the component's own source), and which processor handler finally reads it.
Emits one Gallina record [extracted_wiring] into coq/gen/ExtractedWiring.v; coq/model/System.v states the wiring its network model
assumes ([system_wiring]) and proofs/SystemProofs.v proves the two equal by reflexivity.  A channel that is re-routed, a new writer
of a processor input, a handler reading another channel: the record changes (the lemma fails) or the anchor is gone (Broken)."""
import glob, os, re
from extract import rd, Broken, REPO

TARGET = "ExtractedWiring"
HEADER = ("From Coq Require Import List ZArith.\nImport ListNotations.\nOpen Scope Z_scope.\n\n"
          "(* components of one guardian node (node.go starts one of each; the two EVM watchers are instances of the same code) *)\n"
          "Inductive wcomp := WEthWatcher | WBscWatcher | WAlphWatcher | WP2P | WAdmin | WProcessor | WReobserve.\n"
          "(* per processor handler: the components that WRITE the channel the handler's select case READS;\n"
          "   per processor output channel: its writers and its readers; per chain: who reads the re-observation requests of that chain *)\n"
          "Record wiring := { w_message : list wcomp; w_setgs : list wcomp; w_inject : list wcomp; w_observation : list wcomp;\n"
          "                   w_inbound : list wcomp;\n"
          "                   w_gossip_out : list wcomp * list wcomp;       (* sendC: (writers, readers) *)\n"
          "                   w_reobs_out : list wcomp * list wcomp;        (* obsvReqSendC: (writers, readers) *)\n"
          "                   w_reobs_in : list wcomp * list wcomp;         (* obsvReqC: (writers, readers) *)\n"
          "                   w_chain_reobs : list (Z * list wcomp * list wcomp) }.   (* chainObsvReqC[chain]: (chain id, writers, readers) *)\n"
          "(* the downstream consumers of gossiped SignedVAAWithQuorum messages: how each hands the bytes to its gate *)\n"
          "Inductive wconsumer := CExplorerUnmarshalThenPush | CSpyPublishRawBytes.\n")

ORDER = ["WEthWatcher", "WBscWatcher", "WAlphWatcher", "WP2P", "WAdmin", "WProcessor", "WReobserve"]


def strip_comments(s):
    s = re.sub(r'/\*.*?\*/', '', s, flags=re.S)
    return re.sub(r'//[^\n]*', '', s)


def split_args(s):
    out, depth, cur = [], 0, ""
    for ch in s:
        if ch in "([{":
            depth += 1
        elif ch in ")]}":
            depth -= 1
        if ch == "," and depth == 0:
            out.append(cur.strip())
            cur = ""
        else:
            cur += ch
    if cur.strip():
        out.append(cur.strip())
    return out


def call_args(src, callee, nth=0):
    """argument list of the nth call of `callee(` in src (balanced parentheses)"""
    pos = [m.end() for m in re.finditer(re.escape(callee) + r'\(', src)]
    if len(pos) <= nth:
        raise Broken("node.go: call %s( #%d not found" % (callee, nth))
    i, depth = pos[nth], 1
    j = i
    while depth:
        if j >= len(src):
            raise Broken("node.go: unbalanced call of %s" % callee)
        if src[j] == "(":
            depth += 1
        elif src[j] == ")":
            depth -= 1
        j += 1
    return split_args(src[i:j - 1])


def formals(rel, fname):
    """[(name, type)] of func fname in file rel"""
    src = strip_comments(rd(rel))
    m = re.search(r'func (?:\([^)]*\) )?' + re.escape(fname) + r'\(', src)
    if not m:
        raise Broken("%s: func %s not found" % (rel, fname))
    i, depth = m.end(), 1
    j = i
    while depth:
        if src[j] == "(":
            depth += 1
        elif src[j] == ")":
            depth -= 1
        j += 1
    out = []
    for p in split_args(src[i:j - 1]):
        mm = re.match(r'(\w+)\s+(.+)$', p, re.S)
        if not mm:
            raise Broken("%s: parameter %r of %s not understood" % (rel, p, fname))
        out.append((mm.group(1), " ".join(mm.group(2).split())))
    return out


def pkg_src(reldir, only=None):
    files = sorted(glob.glob(os.path.join(REPO, reldir, "*.go")))
    txt = ""
    for f in files:
        if f.endswith("_test.go"):
            continue
        if only and os.path.basename(f) not in only:
            continue
        txt += strip_comments(open(f).read()) + "\n"
    if not txt:
        raise Broken("no Go source under %s" % reldir)
    return txt


def directions(src, expr):
    """how `expr` (e.g. `p.sendC`, `w.msgChan`, `sendC`) is used in src: set of 'r' / 'w'"""
    e = re.escape(expr)
    d = set()
    if re.search(r'(?<![\w.])' + e + r'\s*<-', src) or re.search(r'PostObservationRequest\(\s*' + e + r'\b', src):
        d.add("w")
    if re.search(r'<-\s*' + e + r'\b(?!\s*<-)', src) or re.search(r'range\s+' + e + r'\b', src):
        d.add("r")
    return d


def field_of(src, ctor_type, formal):
    """the struct field a constructor literal `&Type{ ... field: formal, ...}` stores the parameter in"""
    m = re.search(r'&' + re.escape(ctor_type) + r'\{(.*?)\n\t\}', src, re.S)
    if not m:
        raise Broken("constructor literal &%s{..} not found" % ctor_type)
    mm = re.search(r'(\w+):\s*' + re.escape(formal) + r'\s*,', m.group(1))
    if not mm:
        raise Broken("&%s{..}: no field initialised from parameter %s" % (ctor_type, formal))
    return mm.group(1)


def x_wiring():
    node = strip_comments(rd("node/cmd/guardiand/node.go"))
    # ---- the channel variables node.go creates
    chans = set(re.findall(r'\n\t(\w+) := make\(chan ', node))
    want = {"lockC", "setC", "sendC", "obsvC", "signedInC", "obsvReqC", "obsvReqSendC", "injectC"}
    if not want <= chans:
        raise Broken("node.go: expected channel variables %s, found %s" % (sorted(want), sorted(chans)))
    if not re.search(r'chainObsvReqC := make\(map\[vaa\.ChainID\]chan \*gossipv1\.ObservationRequest\)', node):
        raise Broken("node.go: chainObsvReqC map not found")
    chain_entries = re.findall(r'chainObsvReqC\[vaa\.(\w+)\] = make\(chan', node)
    structs = rd("node/pkg/vaa/structs.go")
    chain_id = {}
    for c in chain_entries:
        m = re.search(r'\b' + c + r' ChainID = (\d+)', structs)
        if not m:
            raise Broken("structs.go: constant %s not found" % c)
        chain_id[c] = int(m.group(1))

    # ---- the components: how each one is called, where its code lives, how a parameter is referred to inside
    comps = []   # (wcomp, actual args, formals, usage source text, formal -> expression used in that source)
    def add(name, args, fm, src, expr_of):
        if len(args) != len(fm):
            raise Broken("node.go: %s is called with %d arguments, its signature has %d" % (name, len(args), len(fm)))
        comps.append((name, args, fm, src, expr_of))

    p2p_src = pkg_src("node/pkg/p2p", only={"p2p.go"})
    add("WP2P", call_args(node, "p2p.Run"), formals("node/pkg/p2p/p2p.go", "Run"), p2p_src, lambda f: f)

    eth_src = pkg_src("node/pkg/ethereum")
    eth_formals = formals("node/pkg/ethereum/watcher.go", "NewEthWatcher")
    n_eth = len(re.findall(r'ethereum\.NewEthWatcher\(', node))
    if n_eth != 2:
        raise Broken("node.go: expected two NewEthWatcher instances (eth, bsc), found %d" % n_eth)
    for k in range(2):
        a = call_args(node, "ethereum.NewEthWatcher", k)
        nm = {'"eth"': "WEthWatcher", '"bsc"': "WBscWatcher"}.get(a[2])
        if nm is None:
            raise Broken("node.go: NewEthWatcher network name %r not understood" % a[2])
        add(nm, a, eth_formals, eth_src, lambda f: "w." + field_of(eth_src, "Watcher", f))

    alph_src = pkg_src("node/pkg/alephium")
    add("WAlphWatcher", call_args(node, "alephium.NewAlephiumWatcher"), formals("node/pkg/alephium/watcher.go", "NewAlephiumWatcher"),
        alph_src, lambda f: "w." + field_of(alph_src, "Watcher", f))

    proc_src = pkg_src("node/pkg/processor")
    proc_formals = formals("node/pkg/processor/processor.go", "NewProcessor")
    add("WProcessor", call_args(node, "processor.NewProcessor"), proc_formals, proc_src, lambda f: "p." + field_of(proc_src, "Processor", f))

    adm_src = pkg_src("node/cmd/guardiand", only={"adminserver.go"})
    add("WAdmin", call_args(node, "adminServiceRunnable"), formals("node/cmd/guardiand/adminserver.go", "adminServiceRunnable"),
        adm_src, lambda f: "s." + field_of(adm_src, "nodePrivilegedService", f))

    reo_src = pkg_src("node/cmd/guardiand", only={"reobserve.go"})
    add("WReobserve", call_args(node, "handleReobservationRequests"), formals("node/cmd/guardiand/reobserve.go", "handleReobservationRequests"),
        reo_src, lambda f: f)

    # ---- per channel variable: writers and readers
    use = {}    # channel expression in node.go -> {"w": set(comp), "r": set(comp)}
    info = {}
    for name, args, fm, src, expr_of in comps:
        for actual, (formal, typ) in zip(args, fm):
            if "chan" not in typ:
                continue
            if typ.startswith("map["):
                # the dispatcher writes into the per-chain channels it looks up in the map
                if not re.search(r'(\w+), ok := ' + re.escape(formal) + r'\[', src):
                    raise Broken("reobserve.go: lookup in %s not found" % formal)
                for c in chain_entries:
                    use.setdefault("%s[vaa.%s]" % (actual, c), {"w": set(), "r": set()})["w"].add(name)
                continue
            d = directions(src, expr_of(formal))
            if typ.startswith("chan<-"):
                d &= {"w"}
            if typ.startswith("<-chan"):
                d &= {"r"}
            if not d:
                raise Broken("%s: parameter %s (%s) is neither sent to nor received from" % (name, formal, expr_of(formal)))
            u = use.setdefault(actual, {"w": set(), "r": set()})
            for x in d:
                u[x].add(name)
            info["%s.%s" % (name, formal)] = actual + ":" + "".join(sorted(d))
    for v in want:
        if v not in use:
            raise Broken("node.go: channel %s is not passed to any component" % v)

    # ---- the processor's Run loop: which field each handler's select case reads
    pr = strip_comments(rd("node/pkg/processor/processor.go"))
    mrun = re.search(r'func \(p \*Processor\) Run\(ctx context\.Context\) error \{(.*?)\n\}\n', pr, re.S)
    if not mrun:
        raise Broken("processor.go: Run not found")
    cases = re.findall(r'case ([^\n]+):\n(.*?)(?=\n\t\tcase |\n\t\t\}\n)', mrun.group(1), re.S)
    handler_field = {}
    for head, blk in cases:
        mf = re.search(r'<-p\.(\w+)\b', head)
        calls = re.findall(r'p\.(handle\w+|gst\.Set)\(', blk)
        if mf and len(calls) == 1:
            handler_field[calls[0]] = mf.group(1)
    need = {"handleMessage": "w_message", "gst.Set": "w_setgs", "handleInjection": "w_inject", "handleObservation": "w_observation",
            "handleInboundSignedVAAWithQuorum": "w_inbound"}
    if set(need) - set(handler_field):
        raise Broken("processor.go: Run loop cases for %s not found" % sorted(set(need) - set(handler_field)))
    # field -> NewProcessor formal -> node.go variable
    pname, pargs, pfm, _, _ = [c for c in comps if c[0] == "WProcessor"][0]
    field_actual = {}
    for actual, (formal, typ) in zip(pargs, pfm):
        if "chan" in typ:
            field_actual[field_of(proc_src, "Processor", formal)] = actual

    def lst(s):
        return "[" + "; ".join(x for x in ORDER if x in s) + "]"

    rec = {}
    for h, fld in need.items():
        f = handler_field[h]
        if f not in field_actual:
            raise Broken("processor.go: handler %s reads p.%s, which NewProcessor does not initialise from a parameter" % (h, f))
        var = field_actual[f]
        if "WProcessor" not in use[var]["r"]:
            raise Broken("processor: channel %s is not read by the processor" % var)
        rec[fld] = lst(use[var]["w"])
        info[fld] = "%s <- %s" % (h, var)

    def pair(field, expect_writer_processor):
        var = field_actual.get(field)
        if var is None:
            raise Broken("processor.go: field %s is not initialised from a NewProcessor parameter" % field)
        if expect_writer_processor and "WProcessor" not in use[var]["w"]:
            raise Broken("processor: %s is not written by the processor" % field)
        return "(%s, %s)" % (lst(use[var]["w"]), lst(use[var]["r"]))
    rec["w_gossip_out"] = pair("sendC", True)
    rec["w_reobs_out"] = pair("obsvReqSendC", True)
    # obsvReqC: the variable p2p writes re-observation requests of peers into
    p2p_formals = [c for c in comps if c[0] == "WP2P"][0]
    var_in = [a for a, (f, t) in zip(p2p_formals[1], p2p_formals[2]) if f == "obsvReqC"]
    if not var_in:
        raise Broken("p2p.Run: parameter obsvReqC not found")
    rec["w_reobs_in"] = "(%s, %s)" % (lst(use[var_in[0]]["w"]), lst(use[var_in[0]]["r"]))
    chains = []
    for c in sorted(chain_entries, key=lambda c: chain_id[c]):
        # node.go hands chainObsvReqC[vaa.X] to the watcher of that chain
        u = use.get("chainObsvReqC[vaa.%s]" % c)
        if u is None:
            raise Broken("node.go: chainObsvReqC[vaa.%s] is created but never used" % c)
        chains.append("(%d, %s, %s)" % (chain_id[c], lst(u["w"]), lst(u["r"])))
    rec["w_chain_reobs"] = "[" + "; ".join(chains) + "]"

    # ---- downstream consumers of the signed-VAA gossip topic
    ex = strip_comments(rd("explorer-backend/main.go"))
    if not re.search(r'case (\w+) := <-signedInC:\s*(\w+), err := vaa\.Unmarshal\(\1\.Vaa\)\s*if err != nil \{[^}]*continue\s*\}\s*'
                     r'if err := vaaGossipConsumer\.Push\(\w+, \2, \1\.Vaa\)', ex):
        raise Broken("explorer-backend/main.go: `signedInC -> vaa.Unmarshal -> vaaGossipConsumer.Push(ctx, v, bytes)` not found")
    sp = strip_comments(rd("node/cmd/spy/spy.go"))
    if not re.search(r'case (\w+) := <-signedInC:.*?s\.Publish\(\1\.Vaa\)', sp, re.S):
        raise Broken("spy.go: `signedInC -> s.Publish(v.Vaa)` not found")
    cons = "Definition extracted_consumers : list wconsumer := [CExplorerUnmarshalThenPush; CSpyPublishRawBytes].\n"

    txt = ("Definition extracted_wiring : wiring :=\n  {| " +
           ";\n     ".join("%s := %s" % (k, rec[k]) for k in ["w_message", "w_setgs", "w_inject", "w_observation", "w_inbound", "w_gossip_out",
                                                               "w_reobs_out", "w_reobs_in", "w_chain_reobs"]) + " |}.\n" + cons)
    return txt, info


EXTRACTORS = [("wiring", x_wiring)]
