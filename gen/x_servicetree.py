"""X9 (C18 o C13): the service tree of the guardian node as `node/cmd/guardiand/node.go` builds it.

Read from the source on every run:
  * the `supervisor.New(ctx, logger, func(ctx) error {...}, opts...)` call of runNode: its options (WithPropagatePanic or not; the option's
    meaning is read from node/pkg/supervisor: the option sets `propagatePanic`, processSchedule installs its recover only `if !s.propagatePanic`);
  * the root runnable, statement by statement: every `supervisor.Run(ctx, "name", runnable)` / `supervisor.RunGroup(ctx, map{...})` in order, with
    the flag condition it sits under, whether its error makes the root return, the fallible constructors between them, Signal calls,
    `<-ctx.Done()`, the final return.  A statement that is not recognised breaks the extractor (the model would no longer follow the code);
  * per service: the function its runnable expression denotes (resolved through node.go's imports / local variables), whether that function
    recovers panics itself, the `go` statements reachable from it inside its own package (goroutines outside the supervisor's reach), whether
    those goroutines recover, whether it is handed `rootCtxCancel`, whether it signals healthy;
  * the goroutines runNode starts itself, next to the supervisor (`go handleReobservationRequests(...)`, the status server).
Emits coq/gen/ExtractedTree.v: the record types and `node_tree : ntree`."""
import glob, os, re
from extract import rd, Broken, REPO

TARGET = "ExtractedTree"
HEADER = ("From Coq Require Import List ZArith Bool String.\nImport ListNotations.\nOpen Scope Z_scope.\n\n"
          "(* one supervised service of the root runnable.  sv_id: its name as a number (the dn of the service is [sv_id]); sv_runnable: number of\n"
          "   the distinct runnable expression it is started with (two names with one runnable = one service function started twice);\n"
          "   sv_spawns: `go` statements reachable from its function inside its own package (goroutines the supervisor cannot see), of which\n"
          "   sv_spawns_guarded install a recover(); sv_recovers: the function (or a wrapper around it) recovers panics itself;\n"
          "   sv_root_cancel: it is handed rootCtxCancel; sv_healthy: it calls supervisor.Signal(ctx, SignalHealthy) *)\n"
          "Record service := { sv_id : Z; sv_name : string; sv_runnable : Z; sv_spawns : nat; sv_spawns_guarded : nat; sv_recovers : bool;\n"
          "                    sv_root_cancel : bool; sv_healthy : bool }.\n"
          "(* one statement of the root runnable *)\n"
          "Inductive rstmt :=\n"
          "| RRun (svs : list service) (ret_on_err : bool)   (* supervisor.Run / RunGroup: one new group; `if err != nil { return err }` or only logged *)\n"
          "| RCtor (what : string)                            (* a constructor that may fail: `x, err := ...; if err != nil { return err }` *)\n"
          "| RSignalHealthy | RSignalDone\n"
          "| RWaitCtx                                         (* <-ctx.Done() *)\n"
          "| RReturn (nil : bool).                            (* return nil / return an error *)\n"
          "(* nt_prog: the statements in order, each with the flag it is guarded by (None: unconditional); flags are numbered, nt_flags names them;\n"
          "   nt_unsupervised: goroutines runNode starts itself, outside the supervisor *)\n"
          "Record ntree := { nt_propagate : bool; nt_flags : list string; nt_prog : list (option nat * rstmt); nt_unsupervised : list string }.\n")


def strip_comments(s):
    """remove // and /* */ comments, aware of string / rune literals; line structure kept"""
    out, i, n = [], 0, len(s)
    while i < n:
        c = s[i]
        if c == '"' or c == "'":
            j = i + 1
            while j < n and s[j] != c and s[j] != "\n":
                j += 2 if s[j] == '\\' else 1
            out.append(s[i:j + 1])
            i = j + 1
        elif c == '`':
            j = s.find('`', i + 1)
            j = n - 1 if j < 0 else j
            out.append(s[i:j + 1])
            i = j + 1
        elif s.startswith("//", i):
            j = s.find("\n", i)
            i = n if j < 0 else j
        elif s.startswith("/*", i):
            j = s.find("*/", i + 2)
            j = n if j < 0 else j + 2
            out.append(re.sub(r'[^\n]', ' ', s[i:j]))
            i = j
        else:
            out.append(c)
            i += 1
    return "".join(out)


def balanced(s, i, op="(", cl=")"):
    """s[i] == op: index just after the matching closer (string literals skipped)"""
    assert s[i] == op, (s[i:i + 20], op)
    depth, j, n = 0, i, len(s)
    while j < n:
        c = s[j]
        if c == '"':
            j += 1
            while j < n and s[j] != '"':
                j += 2 if s[j] == '\\' else 1
        elif c == '`':
            j = s.index('`', j + 1)
        elif c == "'":
            j += 1
            while j < n and s[j] != "'":
                j += 2 if s[j] == '\\' else 1
        elif c in "([{":
            depth += 1
        elif c in ")]}":
            depth -= 1
            if depth == 0:
                if c != cl:
                    raise Broken("servicetree: unbalanced brackets near %r" % s[i:i + 40])
                return j + 1
        j += 1
    raise Broken("servicetree: unbalanced brackets near %r" % s[i:i + 40])


def split_args(s):
    out, cur, i = [], "", 0
    while i < len(s):
        c = s[i]
        if c in "([{":
            j = balanced(s, i, c, {"(": ")", "[": "]", "{": "}"}[c])
            cur += s[i:j]
            i = j
            continue
        if c == '"':
            j = i + 1
            while s[j] != '"':
                j += 2 if s[j] == '\\' else 1
            cur += s[i:j + 1]
            i = j + 1
            continue
        if c == ",":
            out.append(cur.strip())
            cur = ""
        else:
            cur += c
        i += 1
    if cur.strip():
        out.append(cur.strip())
    return out


def norm(s):
    return re.sub(r'\s+', '', s)


# ---------------------------------------------------------------- packages
class Pkg:
    """the non-test Go files of one directory: top-level functions / methods by name"""
    cache = {}

    def __init__(self, rel):
        self.rel = rel
        self.funcs = {}      # name -> list of (file, line, recv type or None, header, body)
        d = os.path.join(REPO, rel)
        files = sorted(f for f in glob.glob(os.path.join(d, "*.go")) if not f.endswith("_test.go"))
        if not files:
            raise Broken("servicetree: no Go files in %s" % rel)
        for f in files:
            src = strip_comments(open(f).read())
            for m in re.finditer(r'^func (\((\w+) \*?(\w+)\) )?(\w+)\(', src, re.M):
                try:
                    pe = balanced(src, m.end() - 1)
                    bi = src.index("{", pe)
                    # the result list may contain parentheses but no braces (no func-typed results with bodies here)
                    be = balanced(src, bi, "{", "}")
                except (ValueError, Broken):
                    continue
                self.funcs.setdefault(m.group(4), []).append(
                    dict(file=os.path.relpath(f, REPO), line=src.count("\n", 0, m.start()) + 1, recv=m.group(3), name=m.group(4),
                         header=src[m.start():bi], body=src[bi:be], bodyline=src.count("\n", 0, bi) + 1))

    @classmethod
    def get(cls, rel):
        key = (REPO, rel)
        if key not in cls.cache:
            cls.cache[key] = Pkg(rel)
        return cls.cache[key]

    def one(self, name, recv=None):
        c = [f for f in self.funcs.get(name, []) if recv is None or f["recv"] == recv]
        if len(c) != 1:
            raise Broken("servicetree: %d definitions of %s%s in %s" % (len(c), (recv + "." if recv else ""), name, self.rel))
        return c[0]

    def reach(self, entry_bodies):
        """functions of this package reachable by name from the given bodies (over-approximation: methods are matched by name only)"""
        seen, todo, out = set(), list(entry_bodies), []
        while todo:
            b = todo.pop()
            for nm in set(re.findall(r'(?<![\w"])(\w+)\(', b)):
                if nm in self.funcs and nm not in seen:
                    seen.add(nm)
                    for f in self.funcs[nm]:
                        out.append(f)
                        todo.append(f["body"])
        return out


def go_statements(label, body, line0=1):
    """(where, guarded) for every `go` statement of a body"""
    res = []
    for m in re.finditer(r'(?<![\w.])go\s+(func\s*\(|[\w.]+\()', body):
        guarded = False
        if m.group(1).startswith("func"):
            pe = balanced(body, m.end() - 1)
            bi = body.index("{", pe)
            be = balanced(body, bi, "{", "}")
            guarded = bool(re.search(r'\brecover\(\)', body[bi:be]))
            what = "go func"
        else:
            what = "go " + m.group(1)[:-1]
        res.append(("%s:%d %s" % (label, line0 + body.count("\n", 0, m.start()), what), guarded))
    return res


def analyse(entry, pkg, extra_bodies=()):
    """entry: function dict (the runnable's code); returns dict(recovers, spawns, guarded, healthy, where)"""
    bodies = [entry["body"]] + list(extra_bodies)
    reached = pkg.reach(bodies)
    spawns = []
    spawns += go_statements("%s %s" % (entry["file"], entry["name"]), entry["body"], entry["bodyline"])
    for i, b in enumerate(extra_bodies):
        spawns += go_statements("(wrapper/wrapped %d)" % i, b)
    for f in reached:
        if f["body"] is entry["body"]:
            continue
        spawns += go_statements("%s %s" % (f["file"], f["name"]), f["body"], f["bodyline"])
    children = sorted(set(re.findall(r'supervisor\.Run\(ctx, "([^"]+)"', " ".join([entry["body"]] + [f["body"] for f in reached]))))
    # the runnable recovers itself: a recover() in the entry function, or in a wrapper around it, outside every `go func` body
    def top_level(top):
        for m in reversed(list(re.finditer(r'(?<![\w.])go\s+func\s*\(', top))):
            pe = balanced(top, m.end() - 1)
            bi = top.index("{", pe)
            be = balanced(top, bi, "{", "}")
            top = top[:m.start()] + top[be:]
        return top
    recovers = any(re.search(r'\brecover\(\)', top_level(b)) for b in bodies)
    healthy = any(re.search(r'supervisor\.Signal\(ctx, supervisor\.SignalHealthy\)|(?<![\w.])Signal\(ctx, SignalHealthy\)', b) for b in bodies)
    spawns = sorted(set(spawns))
    return dict(recovers=recovers, spawns=[w for w, _ in spawns], guarded=sum(1 for _, g in spawns if g), healthy=healthy, children=children)


# ---------------------------------------------------------------- node.go
def imports_of(src):
    m = re.search(r'^import \((.*?)^\)', src, re.S | re.M)
    if not m:
        raise Broken("servicetree: node.go import block not found")
    imp = {}
    for line in m.group(1).split("\n"):
        mm = re.match(r'\s*(?:(\w+)\s+)?"([^"]+)"', line)
        if mm:
            path = mm.group(2)
            imp[mm.group(1) or path.rsplit("/", 1)[-1]] = path
    return imp


MODULE = "github.com/alephium/wormhole-fork/node/"
GUARDIAND = "node/cmd/guardiand"


def pkg_of(alias, imp):
    p = imp.get(alias)
    if p is None or not p.startswith(MODULE):
        raise Broken("servicetree: package %r of a runnable is not a package of this module" % alias)
    return Pkg.get("node/" + p[len(MODULE):])


def result_type(fn):
    """T for `func F(...) *T` / `(*T, error)`"""
    h = fn["header"]
    pe = balanced(h, h.index("(", h.index(fn["name"])))
    m = re.match(r'\s*\(?\s*\*?(\w+)', h[pe:])
    if not m:
        raise Broken("servicetree: result type of %s not recognised" % fn["name"])
    return m.group(1)


def resolve(expr, fn_src, upto, imp):
    """runnable expression -> (entry function dict, package, extra bodies, description)"""
    e = expr.strip()
    # func literal wrapper: analyse the literal, then the runnable it calls
    m = re.match(r'func\s*\(\s*\w*\s+context\.Context\s*\)\s*(?:\(\s*\w*\s*error\s*\)|error)\s*\{', e)
    if m:
        body = e[m.end() - 1:]
        inner = re.search(r'return\s+([\w.]+(?:\([^{}]*?\))?(?:\.\w+)?)\(\s*\w+\s*\)', body)
        if not inner:
            raise Broken("servicetree: func-literal runnable does not end in a call of a runnable: %r" % norm(e)[:80])
        entry, pkg, extra, desc = resolve(inner.group(1), fn_src, upto, imp)
        return entry, pkg, [body] + extra, "func literal around " + desc
    # pkg.Ctor(args).Method
    m = re.match(r'(\w+)\.(\w+)\(', e)
    if m and m.group(1) in imp:
        pe = balanced(e, m.end() - 1)
        rest = e[pe:].strip()
        pkg = pkg_of(m.group(1), imp)
        f = pkg.one(m.group(2))
        if rest == "":
            return f, pkg, [], "%s.%s(...)" % (m.group(1), m.group(2))       # a function returning the runnable closure
        mm = re.fullmatch(r'\.(\w+)', rest)
        if not mm:
            raise Broken("servicetree: runnable expression not recognised: %r" % norm(e)[:80])
        return pkg.one(mm.group(1), result_type(f)), pkg, [], "%s.%s(...).%s" % (m.group(1), m.group(2), mm.group(1))
    # variable.Method / variable: find the variable's definition before the call
    m = re.fullmatch(r'(\w+)(?:\.(\w+))?', e)
    if not m:
        raise Broken("servicetree: runnable expression not recognised: %r" % norm(e)[:80])
    var, meth = m.group(1), m.group(2)
    defs = list(re.finditer(r'(?<![\w.])%s(?:\s*,\s*\w+)*\s*:?=\s*(?:(\w+)\.)?(\w+)\(' % re.escape(var), fn_src[:upto]))
    if not defs:
        raise Broken("servicetree: definition of runnable variable %r not found in runNode" % var)
    d = defs[-1]
    if d.group(1):
        pkg = pkg_of(d.group(1), imp)
    else:
        pkg = Pkg.get(GUARDIAND)
    f = pkg.one(d.group(2))
    if meth:
        return pkg.one(meth, result_type(f)), pkg, [], "%s := %s%s(...); %s.%s" % (var, (d.group(1) + ".") if d.group(1) else "", d.group(2), var, meth)
    extra = []
    # a local constructor of a runnable: either a closure (its body is the runnable) or supervisor.GRPCServer(...)
    if re.search(r'return supervisor\.GRPCServer\(', f["body"]):
        extra.append(Pkg.get("node/pkg/supervisor").one("GRPCServer")["body"])
    return f, pkg, extra, "%s := %s(...)" % (var, d.group(2))


def supervisor_option_meaning():
    sup = strip_comments(rd("node/pkg/supervisor/supervisor.go"))
    proc = strip_comments(rd("node/pkg/supervisor/supervisor_processor.go"))
    if not re.search(r'WithPropagatePanic = func\(s \*supervisor\) \{\s*s\.propagatePanic = true\s*\}', sup):
        raise Broken("servicetree: supervisor.WithPropagatePanic no longer just sets propagatePanic")
    if not re.search(r'for _, o := range opts \{\s*o\(sup\)\s*\}', sup):
        raise Broken("servicetree: supervisor.New no longer applies its options")
    if len(re.findall(r'propagatePanic\s*=[^=]', sup + proc)) != 1:
        raise Broken("servicetree: propagatePanic is assigned in other places than the option")
    m = re.search(r'func \(s \*supervisor\) processSchedule\(', proc)
    body = proc[m.start():proc.index("\n}\n", m.start())] if m else ""
    if not re.search(r'go func\(\) \{\s*if !s\.propagatePanic \{\s*defer func\(\) \{\s*if rec := recover\(\); rec != nil \{\s*s\.pReq <- &processorRequest\{\s*died:', body):
        raise Broken("servicetree: processSchedule: `if !s.propagatePanic { defer recover -> died request }` not found")
    if len(re.findall(r'\brecover\(\)', proc + sup + strip_comments(rd("node/pkg/supervisor/supervisor_node.go")))) != 1:
        raise Broken("servicetree: the supervisor package recovers in other places than processSchedule")


def gstr(s):
    return '"%s"%%string' % s.replace('"', "'")


def x_supervisor_options():
    """the meaning of the option: read from node/pkg/supervisor (kept apart from the tree so that the tree is still extracted, and run on the real
    supervisor package, when only the option's implementation changes)"""
    supervisor_option_meaning()
    return ("(* node/pkg/supervisor: WithPropagatePanic sets propagatePanic and nothing else does; processSchedule recovers a runnable's panic only `if !s.propagatePanic`;\n"
            "   nothing else in the package recovers *)\nDefinition sup_option_means_no_recover : bool := true.\n"), {"propagate_option_means_no_recover": True}


def x_servicetree():
    src = strip_comments(rd("node/cmd/guardiand/node.go"))
    imp = imports_of(src)
    m = re.search(r'^func runNode\(', src, re.M)
    if not m:
        raise Broken("servicetree: func runNode not found")
    bi = src.index("{", balanced(src, m.end() - 1))
    fn = src[bi:balanced(src, bi, "{", "}")]
    news = [x for x in re.finditer(r'supervisor\.New\(', fn)]
    if len(news) != 1:
        raise Broken("servicetree: expected exactly one supervisor.New call in runNode, found %d" % len(news))
    if len(re.findall(r'supervisor\.New\(', src)) != 1:
        raise Broken("servicetree: supervisor.New is called outside runNode as well")
    n0 = news[0]
    nend = balanced(fn, n0.end() - 1)
    args = split_args(fn[n0.end():nend - 1])
    if len(args) < 3 or args[0] != "rootCtx":
        raise Broken("servicetree: supervisor.New(rootCtx, logger, root, opts...) shape not found")
    opts = args[3:]
    for o in opts:
        if o != "supervisor.WithPropagatePanic":
            raise Broken("servicetree: unknown supervisor option %r" % o)
    propagate = "supervisor.WithPropagatePanic" in opts
    root = args[2]
    mm = re.match(r'func\(ctx context\.Context\) error \{', root)
    if not mm:
        raise Broken("servicetree: the root runnable is not a func literal")
    body = root[mm.end():root.rindex("}")]
    # main waits for the root context after starting the supervisor and returns
    after = fn[nend:]
    if not re.match(r'\s*<-rootCtx\.Done\(\)\s*logger\.Info\([^\n]*\)\s*\}\s*$', after):
        raise Broken("servicetree: runNode no longer ends with `<-rootCtx.Done()` right after supervisor.New")
    root_off = n0.end() + fn[n0.end():].index(root)

    flags, services, prog, runnables = [], [], [], {}

    def flag_id(cond):
        c = cond.strip()
        mf = re.fullmatch(r'\*(\w+) != ""', c)
        if not mf:
            raise Broken("servicetree: condition %r around a service is not a flag test" % c)
        if mf.group(1) not in flags:
            flags.append(mf.group(1))
        return flags.index(mf.group(1))

    def service(name, expr, at):
        mn = re.fullmatch(r'"([^"]+)"', name.strip())
        if not mn:
            raise Broken("servicetree: service name %r is not a string literal" % name)
        entry, pkg, extra, desc = resolve(expr, fn, at, imp)
        a = analyse(entry, pkg, extra)
        key = norm(expr)
        if key not in runnables:
            runnables[key] = len(runnables) + 1
        sv = dict(id=len(services) + 1, name=mn.group(1), runnable=runnables[key], expr=desc, entry="%s:%d %s" % (entry["file"], entry["line"], entry["name"]),
                  spawns=a["spawns"], guarded=a["guarded"], recovers=a["recovers"], healthy=a["healthy"], children=a["children"],
                  root_cancel=bool(re.search(r'\brootCtxCancel\b', expr)))
        if any(s["name"] == sv["name"] for s in services):
            raise Broken("servicetree: service name %r used twice in the root runnable" % sv["name"])
        services.append(sv)
        return sv

    def run_stmt(call, kind, at):
        a = split_args(call)
        if a[0] != "ctx":
            raise Broken("servicetree: supervisor.%s not called with the root runnable's ctx" % kind)
        if kind == "Run":
            if len(a) != 3:
                raise Broken("servicetree: supervisor.Run(ctx, name, runnable) shape not found")
            return [service(a[1], a[2], at)]
        mg = re.fullmatch(r'map\[string\]supervisor\.Runnable\{(.*)\}', a[1].strip(), re.S) if len(a) == 2 else None
        if not mg:
            raise Broken("servicetree: supervisor.RunGroup(ctx, map[string]supervisor.Runnable{...}) shape not found")
        out = []
        for ent in split_args(mg.group(1)):
            k, _, v = ent.partition(":")
            out.append(service(k, v, at))
        if not out:
            raise Broken("servicetree: empty RunGroup")
        return out

    def block(text, off, cond):
        i = 0
        while True:
            ws = re.match(r'\s*', text[i:])
            i += ws.end()
            if i >= len(text):
                return
            rest = text[i:]
            m1 = re.match(r'if err := supervisor\.(Run|RunGroup)\(', rest)
            if m1:
                ce = balanced(rest, m1.end() - 1)
                m2 = re.match(r'\s*;\s*err != nil\s*\{', rest[ce:])
                if not m2:
                    raise Broken("servicetree: `if err := supervisor.Run(...); err != nil {` shape not found")
                bs = ce + m2.end() - 1
                be = balanced(rest, bs, "{", "}")
                blk = rest[bs + 1:be - 1]
                if re.fullmatch(r'\s*return err\s*', blk):
                    ret = True
                elif re.fullmatch(r'\s*logger\.\w+\((?:[^()]|\([^()]*\)|\(\([^()]*\)\))*\)\s*', blk):
                    ret = False
                else:
                    raise Broken("servicetree: error branch of a supervisor.Run not recognised: %r" % norm(blk)[:80])
                svs = run_stmt(rest[m1.end():ce - 1], m1.group(1), off + i)
                prog.append((cond, ("run", svs, ret)))
                i += be
                continue
            m1 = re.match(r'if ([^{;]+?) \{', rest)
            if m1 and not m1.group(1).startswith("err"):
                if cond is not None:
                    raise Broken("servicetree: nested conditions in the root runnable")
                bs = m1.end() - 1
                be = balanced(rest, bs, "{", "}")
                block(rest[bs + 1:be - 1], off + i + bs + 1, flag_id(m1.group(1)))
                i += be
                continue
            m1 = re.match(r'(\w+), err := ((?:\w+\.)?\w+)\(', rest)
            if m1:
                ce = balanced(rest, m1.end() - 1)
                m2 = re.match(r'\s*if err != nil \{', rest[ce:])
                if not m2:
                    raise Broken("servicetree: fallible constructor without `if err != nil {`")
                bs = ce + m2.end() - 1
                be = balanced(rest, bs, "{", "}")
                if not re.search(r'\breturn err\s*$', rest[bs + 1:be - 1].strip()):
                    raise Broken("servicetree: failing constructor %s does not make the root runnable return the error" % m1.group(2))
                prog.append((cond, ("ctor", m1.group(2))))
                i += be
                continue
            m1 = re.match(r'(\w+) := ((?:\w+\.)?\w+)\(', rest)
            if m1:
                i += balanced(rest, m1.end() - 1)        # an infallible constructor (processor.NewProcessor)
                continue
            m1 = re.match(r'logger\.\w+\(', rest)
            if m1:
                i += balanced(rest, m1.end() - 1)
                continue
            m1 = re.match(r'supervisor\.Signal\(ctx, supervisor\.Signal(Healthy|Done)\)', rest)
            if m1:
                prog.append((cond, ("signal", m1.group(1))))
                i += m1.end()
                continue
            m1 = re.match(r'<-ctx\.Done\(\)', rest)
            if m1:
                prog.append((cond, ("wait",)))
                i += m1.end()
                continue
            m1 = re.match(r'return (nil|err|ctx\.Err\(\)|fmt\.Errorf\([^\n]*\)|errors\.New\([^\n]*\))(?=\s)', rest + "\n")
            if m1:
                # returning ctx.Err() after the context is done counts as the context's error in the model only after a wait; keep it simple
                if m1.group(1) == "ctx.Err()":
                    raise Broken("servicetree: the root runnable returns ctx.Err(): not modelled")
                prog.append((cond, ("return", m1.group(1) == "nil")))
                i += m1.end()
                continue
            raise Broken("servicetree: statement of the root runnable not recognised: %r" % rest[:70].strip())

    block(body, root_off, None)
    if not prog or prog[-1][1][0] != "return" or prog[-1][0] is not None:
        raise Broken("servicetree: the root runnable does not end in an unconditional return")
    # goroutines runNode starts itself (outside the supervisor.New call)
    outside_src = fn[:n0.start()] + fn[nend:]
    unsup = [w.split(" ", 1)[1] for w, _ in go_statements("runNode", outside_src)]

    def gsv(s):
        return ("{| sv_id := %d; sv_name := %s; sv_runnable := %d; sv_spawns := %d; sv_spawns_guarded := %d; sv_recovers := %s; sv_root_cancel := %s; sv_healthy := %s |}"
                % (s["id"], gstr(s["name"]), s["runnable"], len(s["spawns"]), s["guarded"], "true" if s["recovers"] else "false",
                   "true" if s["root_cancel"] else "false", "true" if s["healthy"] else "false"))

    def gstmt(c, st):
        cg = "None" if c is None else "Some %d%%nat" % c
        k = st[0]
        if k == "run":
            g = "RRun [%s] %s" % ("; ".join(gsv(s) for s in st[1]), "true" if st[2] else "false")
        elif k == "ctor":
            g = "RCtor %s" % gstr(st[1])
        elif k == "signal":
            g = "RSignal" + st[1]
        elif k == "wait":
            g = "RWaitCtx"
        else:
            g = "RReturn %s" % ("true" if st[1] else "false")
        return "(%s, %s)" % (cg, g)

    out = "(* node/cmd/guardiand/node.go: supervisor.New(rootCtx, logger, func(ctx) error {...}%s) *)\n" % "".join(", " + o for o in opts)
    for s in services:
        out += "(* service %d %-12s = %s  [%s]; goroutines: %s *)\n" % (s["id"], s["name"], s["expr"], s["entry"], "; ".join(s["spawns"]) or "none")
    out += "Definition node_tree : ntree :=\n  {| nt_propagate := %s;\n     nt_flags := [%s];\n     nt_prog := [\n       %s];\n     nt_unsupervised := [%s] |}.\n" % (
        "true" if propagate else "false", "; ".join(gstr(f) for f in flags),
        ";\n       ".join(gstmt(c, st) for c, st in prog), "; ".join(gstr(u) for u in unsup))
    info = {"propagate": propagate, "flags": flags, "unsupervised": unsup,
            "services": [{k: s[k] for k in ("id", "name", "runnable", "expr", "entry", "spawns", "guarded", "recovers", "root_cancel", "healthy", "children")} for s in services],
            "program": [dict(flag=(None if c is None else flags[c]), op=st[0],
                             **({"names": [s["name"] for s in st[1]], "ret_on_err": st[2]} if st[0] == "run" else
                                {"what": st[1]} if st[0] in ("ctor", "signal") else {"nil": st[1]} if st[0] == "return" else {}))
                        for c, st in prog]}
    return out, info


EXTRACTORS = [("servicetree", x_servicetree), ("supervisor_options", x_supervisor_options)]
