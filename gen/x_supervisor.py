"""C18: node/pkg/supervisor anchors — the shapes of processDied, processGC, runGroup, signal, reset the model transcribes, and whether
a DONE node counts as restartable only after its goroutine has returned."""
import re
from extract import rd, Broken


def _func(src, header_rx):
    m = re.search(header_rx, src, re.M)
    if not m:
        return None
    end = src.find("\n}\n", m.end())
    return src[m.start():end + 3] if end >= 0 else None


def _need(body, rx, what):
    if not re.search(rx, body, re.S):
        raise Broken("supervisor: shape not found: " + what)


def x_supervisor():
    proc = rd("node/pkg/supervisor/supervisor_processor.go")
    node = rd("node/pkg/supervisor/supervisor_node.go")
    died = _func(proc, r'^func \(s \*supervisor\) processDied\(')
    gc = _func(proc, r'^func \(s \*supervisor\) processGC\(')
    sched = _func(proc, r'^func \(s \*supervisor\) processSchedule\(')
    kill = _func(proc, r'^func \(s \*supervisor\) processKill\(')
    loop = _func(proc, r'^func \(s \*supervisor\) processor\(')
    rung = _func(node, r'^func \(n \*node\) runGroup\(')
    sig = _func(node, r'^func \(n \*node\) signal\(')
    reset = _func(node, r'^func \(n \*node\) reset\(')
    fromctx = _func(node, r'^func fromContext\(')
    for nm, b in (("processDied", died), ("processGC", gc), ("processSchedule", sched), ("processKill", kill), ("processor", loop), ("runGroup", rung),
                  ("signal", sig), ("reset", reset), ("fromContext", fromctx)):
        if not b:
            raise Broken("supervisor: func %s not found" % nm)
    # iota order of the states (the harness reports numbers)
    _need(node, r'nodeStateNew nodeState = iota.*?nodeStateHealthy.*?nodeStateDead.*?nodeStateDone.*?nodeStateCanceled', "state constants in the order NEW, HEALTHY, DEAD, DONE, CANCELED")
    # processDied
    _need(died, r'n := s\.nodeByDN\(r\.dn\)', "processDied: node looked up by dn")
    _need(died, r'if n\.state == nodeStateDone && r\.err == nil \{[^}]*return\s*\}', "processDied: DONE and nil error: nothing happens")
    _need(died, r'if err := ctx\.Err\(\); err != nil && perr == err \{[^}]*n\.state = nodeStateCanceled\s*return\s*\}', "processDied: context error of a cancelled context: CANCELED")
    _need(died, r'n\.state = nodeStateDead.*?n\.ctxC\(\).*?if n\.parent != nil \{\s*for name := range n\.parent\.groupSiblings\(n\.name\) \{\s*if name == n\.name \{\s*continue\s*\}\s*'
                r'sibling := n\.parent\.children\[name\].*?sibling\.ctxC\(\)', "processDied: otherwise DEAD, own context and the group siblings' contexts cancelled")
    if died.index("nodeStateDone && r.err == nil") > died.index("n.state = nodeStateCanceled"):
        raise Broken("supervisor: processDied: order of the cases changed")
    # processGC
    _need(gc, r'case nodeStateCanceled:\s*curReady = true\s*case nodeStateDead:\s*curReady = true', "processGC: CANCELED and DEAD nodes are restartable")
    m = re.search(r'case nodeStateDone:\s*(?://[^\n]*\n\s*)*curReady = ([\w.]+)', gc)
    if not m or m.group(1) not in ("true", "cur.exited"):
        raise Broken("supervisor: processGC: `case nodeStateDone: curReady = ...` not recognised")
    needs_exit = m.group(1) == "cur.exited"
    if needs_exit:
        _need(died, r'n := s\.nodeByDN\(r\.dn\)\s*(?://[^\n]*\n\s*)*n\.exited = true', "processDied: n.exited = true right after the lookup")
        _need(reset, r'n\.exited = false', "reset: n.exited = false")
        if len(re.findall(r'\.exited\s*=[^=]', proc + node)) != 2:
            raise Broken("supervisor: node.exited is assigned in other places than processDied and reset")
    _need(gc, r'ready\[curDn\] = childrenReady && curReady', "processGC: a subtree is ready iff the node and all children's subtrees are")
    _need(gc, r'if cur\.state == nodeStateDead \|\| cur\.state == nodeStateCanceled \{\s*want\[cur\.dn\(\)\] = true\s*\}', "processGC: DEAD / CANCELED nodes are wanted")
    _need(gc, r'if want\[cur\.dn\(\)\] && ready\[cur\.dn\(\)\] \{[^{}]*if cur\.parent == nil \|\| cur\.parent\.ctx\.Err\(\) == nil \{\s*can\[cur\.dn\(\)\] = true\s*continue\s*\}',
          "processGC: wanted + ready + live parent context: restart, and do not descend")
    _need(gc, r'for dn := range can \{\s*n := s\.nodeByDN\(dn\).*?if n\.state == nodeStateDead \{\s*bo = n\.bo\.NextBackOff\(\)\s*\}.*?n\.reset\(\).*?time\.Sleep\(bo\)\s*s\.pReq <- &processorRequest\{\s*schedule:',
          "processGC: reset, then a goroutine that sleeps the back-off and offers the schedule request")
    # reset / runGroup / signal / fromContext / schedule / kill
    _need(reset, r'n\.state = nodeStateNew\s*(?:n\.exited = false\s*)?n\.children = make\(map\[string\]\*node\)\s*n\.groups = nil', "reset: state NEW, children and groups dropped")
    _need(reset, r'pCtx = n\.parent\.ctx.*?context\.WithCancel\(ctx\)', "reset: fresh context below the parent's")
    _need(rung, r'if n\.state != nodeStateNew \{\s*return fmt\.Errorf\("cannot run new runnable on non-NEW node"\)', "runGroup: only on a NEW node")
    _need(rung, r'if _, ok := n\.children\[name\]; ok \{\s*return fmt\.Errorf\("runnable %q already exists"', "runGroup: existing name rejected")
    _need(rung, r'n\.groups = append\(n\.groups, group\).*?go func\(\) \{\s*for name := range runnables \{\s*n\.sup\.pReq <- &processorRequest\{\s*schedule:', "runGroup: one new group, schedule requests offered by a goroutine")
    _need(sig, r'case SignalHealthy:\s*if n\.state != nodeStateNew \{\s*panic.*?n\.state = nodeStateHealthy.*?case SignalDone:\s*if n\.state != nodeStateHealthy \{\s*panic.*?n\.state = nodeStateDone', "signal: NEW -> HEALTHY -> DONE, panic otherwise")
    _need(fromctx, r'sup\.mu\.Lock\(\).*?return sup\.nodeByDN\(dnParent\), sup\.mu\.Unlock', "fromContext: lookup under the mutex")
    _need(sched, r'n := s\.nodeByDN\(r\.dn\)\s*go func\(\) \{.*?res := n\.runnable\(n\.ctx\).*?died: &processorRequestDied\{\s*dn:\s*r\.dn,\s*err: res,', "processSchedule: goroutine runs the runnable, then offers the died request")
    _need(kill, r'cancels = append\(cancels, cur\.ctxC\).*?for _, c := range cancels \{\s*c\(\)', "processKill: every node's context cancelled")
    _need(loop, r'case <-ctx\.Done\(\):.*?s\.processKill\(\).*?return', "processor: context done: processKill, exit")
    _need(loop, r'case r\.schedule != nil:\s*s\.processSchedule\(r\.schedule\)\s*markDirty\(\)\s*case r\.died != nil:\s*s\.processDied\(r\.died\)\s*markDirty\(\)',
          "processor: every schedule and every died request marks the tree dirty (the model runs the GC unconditionally)")
    _need(loop, r'case <-gc\.C:\s*if !clean \{\s*s\.processGC\(\)\s*\}\s*clean = true', "processor: GC tick runs processGC whenever the tree is dirty")
    out = ("(* supervisor_processor.go processGC: is a DONE node restartable only once its goroutine has returned (`curReady = cur.exited`)? *)\n"
           "Definition sup_done_ready_needs_exit : bool := %s.\n" % ("true" if needs_exit else "false"))
    return out, {"done_ready_needs_exit": needs_exit}


EXTRACTORS = [("supervisor", x_supervisor)]
