"""C11 — Go side of the Alephium event conversions (node/pkg/alephium/utils.go): constants, the range tests of the
narrowing conversions (as written in the source), field positions of ToWormholeMessage, timestamp split of
toMessagePublication, slices of parseAttestToken, contract id/address shapes."""
import re
from extract import rd, Broken

CONSTS = {"math.MaxUint8": 255, "math.MaxUint16": 65535, "math.MaxUint32": 4294967295, "math.MaxInt64": 9223372036854775807}

def func_body(src, header_re, what):
    m = re.search(header_re, src, re.M)
    if not m:
        raise Broken("utils.go: %s not found" % what)
    i = src.index("{", m.end() - 1)
    d = 0
    for j in range(i, len(src)):
        if src[j] == "{":
            d += 1
        elif src[j] == "}":
            d -= 1
            if d == 0:
                return src[i + 1:j]
    raise Broken("utils.go: %s: unbalanced braces" % what)

def konst(s):
    s = s.strip()
    if s in CONSTS:
        return CONSTS[s]
    if re.fullmatch(r'\d+', s):
        return int(s)
    if re.fullmatch(r'0x[0-9a-fA-F]+', s):
        return int(s, 16)
    raise Broken("constant %r not understood" % s)

OPS = {"<": "<?", "<=": "<=?", ">": ">?", ">=": ">=?", "==": "=?"}

def atom(a, var):
    a = a.strip()
    m = re.fullmatch(r'%s\.Cmp\(big\.NewInt\(([^)]+)\)\) (<=|<|>=|>|==) 0' % var, a)
    if m:
        return "(v %s %d)" % (OPS[m.group(2)], konst(m.group(1)))
    m = re.fullmatch(r'%s\.Sign\(\) (>=|>|==) 0' % var, a)
    if m:
        return "(v %s 0)" % OPS[m.group(1)]
    if re.fullmatch(r'%s\.IsUint64\(\)' % var, a):
        return "((0 <=? v) && (v <? 18446744073709551616))"
    m = re.fullmatch(r'%s\.Uint64\(\) (<=|<) ([\w.]+)' % var, a)
    if m:
        return "((Z.abs v mod 18446744073709551616) %s %d)" % (OPS[m.group(1)], konst(m.group(2)))
    raise Broken("range-test atom %r not understood" % a)

def range_test(src, fn, ty):
    body = func_body(src, r'^func %s\(field sdk\.Val\) \(\*%s, error\) \{' % (fn, ty), fn)
    m = re.search(r'(\w+), err := toU256\(field\)\s*if err != nil \{\s*return nil, err\s*\}\s*if (.+?) \{\s*v := %s\(\1\.Uint64\(\)\)\s*return &v, nil\s*\}\s*return nil, errors\.New' % ty, body, re.S)
    if not m:
        raise Broken("%s: shape `x, err := toU256(field); ..; if <test> { v := %s(x.Uint64()); return &v, nil }; return nil, error` not found" % (fn, ty))
    cond = " ".join(m.group(2).split())
    if "||" in cond or "!" in cond.replace("!=", ""):
        raise Broken("%s: range test %r is not a plain conjunction" % (fn, cond))
    atoms = [atom(a, m.group(1)) for a in cond.split("&&")]
    return " && ".join(atoms), cond

def x_alphconv():
    src = rd("node/pkg/alephium/utils.go")
    st = rd("node/pkg/vaa/structs.go")
    out = []
    info = {}
    def const(name):
        m = re.search(r'^const %s = (\d+)\s*$' % name, src, re.M)
        if not m:
            raise Broken("utils.go: const %s not found" % name)
        info[name] = int(m.group(1))
        return int(m.group(1))
    fsz = const("WormholeMessageFieldSize")
    alen = const("AttestTokenPayloadLength")
    hlen = const("HashLength")
    m = re.search(r'\bChainIDAlephium ChainID = (\d+)', st)
    if not m:
        raise Broken("structs.go: ChainIDAlephium not found")
    chain = int(m.group(1))
    info["ChainIDAlephium"] = chain
    out.append("Definition go_wm_field_size : nat := %d%%nat.\nDefinition go_attest_len : nat := %d%%nat.\nDefinition go_hash_length : nat := %d%%nat.\n"
               "Definition go_chain_id_alephium : Z := %d.\n" % (fsz, alen, hlen, chain))
    # narrowing conversions
    t8, c8 = range_test(src, "toUint8", "uint8")
    t16, c16 = range_test(src, "toUint16", "uint16")
    info["toUint8_test"] = c8
    info["toUint16_test"] = c16
    out.append("(* toUint8: `if %s { v := uint8(value.Uint64()) ..` *)\nDefinition go_uint8_test (v : Z) : bool := %s.\n"
               "(* toUint16: `if %s { v := uint16(value.Uint64()) ..` *)\nDefinition go_uint16_test (v : Z) : bool := %s.\n" % (c8, t8, c16, t16))
    b64 = func_body(src, r'^func toUint64\(field sdk\.Val\) \(\*uint64, error\) \{', "toUint64")
    if not re.search(r'(\w+), err := toU256\(field\)\s*if err != nil \{\s*return nil, err\s*\}\s*if \1\.IsUint64\(\) \{\s*v := \1\.Uint64\(\)\s*return &v, nil\s*\}\s*return nil, errors\.New', b64, re.S):
        raise Broken("toUint64: shape `if x.IsUint64() { v := x.Uint64(); return &v, nil }; return nil, error` not found")
    bu = func_body(src, r'^func toU256\(field sdk\.Val\) \(\*big\.Int, error\) \{', "toU256")
    m = re.search(r'SetString\(field\.ValU256\.Value, (\d+)\)', bu)
    if not m or not re.search(r'if field\.ValU256 == nil \{\s*return nil', bu) or not re.search(r'if field\.ValU256\.Type != "U256" \{\s*return nil', bu):
        raise Broken("toU256: nil test / type test / SetString(value, base) not found")
    info["u256_base"] = int(m.group(1))
    out.append("Definition go_u256_base : Z := %s.\n" % m.group(1))
    b32 = func_body(src, r'^func toByte32\(field sdk\.Val\) \(\*Byte32, error\) \{', "toByte32")
    m = re.search(r'if len\(bytes\) != (\d+) \{\s*return nil', b32)
    if not m:
        raise Broken("toByte32: length test not found")
    out.append("Definition go_byte32_len : nat := %s%%nat.\n" % m.group(1))
    # ToWormholeMessage: which converter reads which field
    wm = func_body(src, r'^func ToWormholeMessage\(fields \[\]sdk\.Val, txId string\) \(\*WormholeMessage, error\) \{', "ToWormholeMessage")
    if not re.search(r'if len\(fields\) != WormholeMessageFieldSize \{\s*return nil', wm):
        raise Broken("ToWormholeMessage: field count test not found")
    reads = re.findall(r'(\w+), err := (to\w+)\(fields\[(\d+)\]\)', wm)
    info["reads"] = reads
    want = {"emitter": "toByte32", "targetChainId": "toUint16", "sequence": "toUint64", "nonceBytes": "toByteVec",
            "payload": "toByteVec", "consistencyLevel": "toUint8"}
    got = {v: (c, int(i)) for v, c, i in reads}
    if [v for v, _, _ in reads] != list(want):
        raise Broken("ToWormholeMessage: fields are read as %s (expected order %s)" % ([v for v, _, _ in reads], list(want)))
    for v, c in want.items():
        if got[v][0] != c:
            raise Broken("ToWormholeMessage: %s converted by %s (expected %s)" % (v, got[v][0], c))
    m = re.search(r'if len\(nonceBytes\) != (\d+) \{\s*return nil', wm)
    if not m or not re.search(r'nonce := binary\.BigEndian\.Uint32\(nonceBytes\)', wm):
        raise Broken("ToWormholeMessage: nonce size test / big-endian read not found")
    nonce_len = int(m.group(1))
    lit = re.search(r'return &WormholeMessage\{(.*?)\}, nil', wm, re.S)
    if not lit:
        raise Broken("ToWormholeMessage: result literal not found")
    assigns = dict(re.findall(r'(\w+):\s*(\*?\w+),', lit.group(1)))
    wanta = {"txId": "txId", "senderId": "*emitter", "targetChainId": "*targetChainId", "nonce": "nonce", "payload": "payload",
             "Sequence": "*sequence", "consistencyLevel": "*consistencyLevel"}
    if assigns != wanta:
        raise Broken("ToWormholeMessage: result literal is %s" % assigns)
    out.append("(* ToWormholeMessage: index of the event field each message component is read from *)\n"
               "Definition go_wm_idx_sender : nat := %d%%nat.\nDefinition go_wm_idx_target : nat := %d%%nat.\nDefinition go_wm_idx_seq : nat := %d%%nat.\n"
               "Definition go_wm_idx_nonce : nat := %d%%nat.\nDefinition go_wm_idx_payload : nat := %d%%nat.\nDefinition go_wm_idx_cl : nat := %d%%nat.\n"
               "Definition go_wm_nonce_len : nat := %d%%nat.\n"
               % (got["emitter"][1], got["targetChainId"][1], got["sequence"][1], got["nonceBytes"][1], got["payload"][1], got["consistencyLevel"][1], nonce_len))
    # toMessagePublication
    mp = func_body(src, r'^func \(w \*WormholeMessage\) toMessagePublication\(header \*sdk\.BlockHeaderEntry\) \*common\.MessagePublication \{', "toMessagePublication")
    m1 = re.search(r'second := header\.Timestamp / (\d+)', mp)
    m2 = re.search(r'milliSecond := header\.Timestamp % (\d+)', mp)
    m3 = re.search(r'ts := time\.Unix\(int64\(second\), int64\(milliSecond\)\*int64\(time\.(\w+)\)\)', mp)
    if not (m1 and m2 and m3):
        raise Broken("toMessagePublication: timestamp split not found")
    unit = {"Millisecond": 1000000, "Microsecond": 1000, "Nanosecond": 1, "Second": 1000000000}.get(m3.group(1))
    if unit is None:
        raise Broken("toMessagePublication: unit time.%s not understood" % m3.group(1))
    lit = re.search(r'return &common\.MessagePublication\{(.*?)\n\t\}', mp, re.S)
    if not lit:
        raise Broken("toMessagePublication: result literal not found")
    assigns = dict((k, " ".join(v.split())) for k, v in re.findall(r'(\w+):\s*([^\n]+),\n', lit.group(1) + "\n"))
    wantm = {"TxHash": "ethCommon.HexToHash(w.txId)", "Timestamp": "ts", "Nonce": "w.nonce", "Sequence": "w.Sequence",
             "ConsistencyLevel": "w.consistencyLevel", "EmitterChain": "vaa.ChainIDAlephium", "TargetChain": "vaa.ChainID(w.targetChainId)",
             "EmitterAddress": "vaa.Address(w.senderId)", "Payload": "w.payload"}
    if assigns != wantm:
        raise Broken("toMessagePublication: result literal is %s" % assigns)
    info["ts"] = [int(m1.group(1)), int(m2.group(1)), m3.group(1)]
    out.append("(* toMessagePublication: second := ts / %s; milli := ts %% %s; time.Unix(second, milli * time.%s) *)\n"
               "Definition go_ts_div : Z := %s.\nDefinition go_ts_rem : Z := %s.\nDefinition go_ts_nsec_mul : Z := %d.\n"
               % (m1.group(1), m2.group(1), m3.group(1), m1.group(1), m2.group(1), unit))
    # parseAttestToken
    pa = func_body(src, r'^func parseAttestToken\(payload \[\]byte\) \(\*TokenInfo, error\) \{', "parseAttestToken")
    if not re.search(r'if len\(payload\) != AttestTokenPayloadLength \{\s*return nil', pa):
        raise Broken("parseAttestToken: length test not found")
    a = re.search(r'copy\(tokenId\[:\], payload\[(\d+):(\d+)\]\)', pa)
    b = re.search(r'tokenChainId := binary\.BigEndian\.Uint16\(payload\[(\d+):(\d+)\]\)', pa)
    c = re.search(r'if tokenChainId != uint16\(vaa\.ChainIDAlephium\) \{\s*return nil', pa)
    d = re.search(r'decimals := payload\[(\d+)\]', pa)
    e = re.search(r'symbolBytes := payload\[(\d+):(\d+)\]', pa)
    f = re.search(r'nameBytes := payload\[(\d+):(\d+)\]', pa)
    g = re.search(r'TokenId:\s*tokenId,\s*Decimals:\s*decimals,\s*Symbol:\s*bytesToString\(symbolBytes\),\s*Name:\s*bytesToString\(nameBytes\),', pa)
    if not (a and b and c and d and e and f and g):
        raise Broken("parseAttestToken: slices / chain test / result literal not found")
    if int(b.group(2)) - int(b.group(1)) != 2:
        raise Broken("parseAttestToken: Uint16 read over %s bytes" % (int(b.group(2)) - int(b.group(1))))
    out.append("Definition go_attest_tokenid : nat * nat := (%s, %s)%%nat.\nDefinition go_attest_chain : nat * nat := (%s, %s)%%nat.\n"
               "Definition go_attest_decimals_at : nat := %s%%nat.\nDefinition go_attest_symbol : nat * nat := (%s, %s)%%nat.\n"
               "Definition go_attest_name : nat * nat := (%s, %s)%%nat.\n"
               % (a.group(1), a.group(2), b.group(1), b.group(2), d.group(1), e.group(1), e.group(2), f.group(1), f.group(2)))
    bt = func_body(src, r'^func bytesToString\(bs \[\]byte\) string \{', "bytesToString")
    if not re.search(r'return string\(bytes\.Trim\(bs, "\\u0000"\)\)', bt):
        raise Broken("bytesToString: `string(bytes.Trim(bs, \"\\u0000\"))` not found")
    # contract id / address
    ci = func_body(src, r'^func ToContractId\(address string\) \(Byte32, error\) \{', "ToContractId")
    m = re.search(r'contractId := base58\.Decode\(address\)\s*if len\(contractId\) != (\d+) \{\s*return byte32,[^\n]*\n\s*\}\s*copy\(byte32\[:\], contractId\[(\d+):\]\)', ci)
    if not m:
        raise Broken("ToContractId: decode / length test / copy not found")
    ca = func_body(src, r'^func ToContractAddress\(contractId string\) \(\*string, error\) \{', "ToContractAddress")
    m2 = re.search(r'b, err := HexToFixedSizeBytes\(contractId, (\d+)\)\s*if err != nil \{\s*return nil, err\s*\}\s*bytes := \[\]byte\{0x([0-9a-fA-F]{2})\}\s*bytes = append\(bytes, b\[:\]\.\.\.\)\s*address := base58\.Encode\(bytes\)', ca)
    if not m2:
        raise Broken("ToContractAddress: hex decode / prefix byte / base58 encode not found")
    out.append("Definition go_contract_addr_len : nat := %s%%nat.\nDefinition go_contract_id_from : nat := %s%%nat.\n"
               "Definition go_contract_hex_bytes : nat := %s%%nat.\nDefinition go_contract_addr_prefix : Z := %d.\n"
               % (m.group(1), m.group(2), m2.group(1), int(m2.group(2), 16)))
    return "".join(out), info

EXTRACTORS = [("alphconv", x_alphconv)]
