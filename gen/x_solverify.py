"""Statement-by-statement translator for the VAA entry points of ethereum/contracts/Messages.sol:

    parseVM, verifySignatures, verifyVM, parseAndVerifyVM          ->  src_parseVM, src_verifySignatures, src_verifyVM, src_parseAndVerifyVM
    Structs.sol  (Signature, GuardianSet, VM)                      ->  Records + zero values + field setters

into Gallina over lib/Bytes.v and lib/SolRt.v (coq/gen/ExtractedSolVerify.v).  Nothing is matched against a remembered text of the
functions: every statement is parsed (lexer / expression parser of gen/x_contractverify.py) and translated by its form:

  * local declarations, assignments to locals and to struct fields / array elements (`vm.signatures[i].r = ..` = functional update, an
    index outside the array reverts), `x += e`
  * `for (uint i = 0; i < n; i++) { .. }` = a Fixpoint on fuel = n (the translator checks that the body assigns neither i nor anything n
    reads); variables the body assigns are carried through; an early `return` leaves the loop with the function's result
  * `require(c, ..)` false = revert = None; `if / else if / else`; `return (a, b)`; named return variables (zero-initialised, returned
    when the end of the body is reached)
  * uintN `+ - * /` are CHECKED (Solidity ^0.8: overflow / underflow / division by zero panics = None), widths from the declared types
    (`encodedVM.toUint8(index) + 27` is a uint8 addition and reverts above 255; `index += 32` is a uint256 addition)
  * `b.toUint8/16/32/64(i)`, `b.toBytes32(i)`, `b.slice(i, n)` = BytesLib's bounds `require` (read from BytesLib.sol) then the bytes;
    `a[i]` out of bounds = revert; `new T[](n)`; `.length`; `keccak256(..)`, `abi.encodePacked(one bytes32 / bytes value)`, `ecrecover`
    = functions of the environment record (oracles); `a && b` / `a || b` with a right operand that can revert = `if a then b else false`
    / `if a then true else b` (short circuit); `getGuardianSet`, `getCurrentGuardianSetIndex`, `block.timestamp` = the
    environment; `quorum` = sol_quorum of gen/Extracted.v; calls among the four functions = calls of the translated functions.

A statement, operand or type outside this subset raises Broken (the tie is reported as lost)."""
import re
from extract import rd, Broken
import x_contractverify as CV

TARGET = "ExtractedSolVerify"
HEADER = ("From Coq Require Import String.\nFrom Coq Require Import List ZArith Bool Arith.\nFrom Coq Require Import Strings.Byte.\n"
          "From WH Require Import lib.Bytes lib.SolRt gen.Extracted.\nImport ListNotations.\nOpen Scope Z_scope.\n\n")

MSG = "ethereum/contracts/Messages.sol"
STRUCTS = ("Signature", "GuardianSet", "VM")
FUNCS = ("parseVM", "verifySignatures", "verifyVM", "parseAndVerifyVM")


# ------------------------------------------------------------------------------------------------ types
def ty_uint(bits):
    return ("uint", bits)


def parse_type(toks, what):
    """toks: list of identifier / op tokens of a type (without memory / calldata); returns the type"""
    t = [x for x in toks if x not in ("memory", "calldata", "storage")]
    arr = False
    if len(t) >= 2 and t[-2:] == ["[", "]"]:
        arr, t = True, t[:-2]
    if len(t) == 3 and t[0] == "Structs" and t[1] == ".":
        if t[2] not in STRUCTS:
            raise Broken("%s: struct %s is not one the translator knows" % (what, t[2]))
        base = ("struct", t[2])
    elif len(t) == 1:
        n = t[0]
        m = re.fullmatch(r'uint(\d*)', n)
        if m:
            base = ty_uint(int(m.group(1) or 256))
        elif n in ("bool", "bytes", "bytes32", "address", "string"):
            base = (n,)
        else:
            raise Broken("%s: type %s is not one the translator knows" % (what, n))
    else:
        raise Broken("%s: type %r is not understood" % (what, " ".join(t)))
    return ("array", base) if arr else base


def gty(t):
    k = t[0]
    if k in ("uint", "lit"):
        return "Z"
    if k == "bool":
        return "bool"
    if k in ("bytes", "bytes32", "address"):
        return "(list byte)"
    if k == "string":
        return "string"
    if k == "struct":
        return t[1]
    if k == "array":
        return "(list %s)" % gty(t[1])
    if k == "tuple":
        return "(%s)" % " * ".join(gty(x) for x in t[1])
    raise Broken("type %r" % (t,))


def gzero(t):
    k = t[0]
    if k == "uint":
        return "0"
    if k == "bool":
        return "false"
    if k == "bytes":
        return "[]"
    if k == "bytes32":
        return "zero_bytes32"
    if k == "address":
        return "zero_address"
    if k == "string":
        return '""%string'
    if k == "struct":
        return "zero_" + t[1]
    if k == "array":
        return "[]"
    raise Broken("zero of %r" % (t,))


# ------------------------------------------------------------------------------------------------ Structs.sol
def read_structs():
    src = CV.nocomment(rd("ethereum/contracts/Structs.sol"))
    out = {}
    for name in STRUCTS:
        m = re.search(r'struct\s+%s\s*\{([^}]*)\}' % name, src)
        if not m:
            raise Broken("Structs.sol: struct %s not found" % name)
        fields = []
        for decl in m.group(1).split(";"):
            decl = decl.strip()
            if not decl:
                continue
            toks = re.findall(r'[A-Za-z_]\w*|\[|\]|\.', decl)
            if len(toks) < 2:
                raise Broken("Structs.sol %s: field `%s` not understood" % (name, decl))
            tt = toks[:-1]
            if tt and tt[0] in STRUCTS:
                tt = ["Structs", "."] + tt
            fields.append((toks[-1], parse_type(tt, "Structs.sol " + name)))
        if not fields:
            raise Broken("Structs.sol: struct %s has no fields" % name)
        out[name] = fields
    return out


def x_structs():
    st = read_structs()
    out = ["(* Structs.sol, field by field (uintN = Z, bytes / bytes32 / address = list byte, T[] = list T); zero_T = the value of a fresh memory\n"
           "   variable; set_T_f = assignment to one field *)\n"]
    for name in STRUCTS:
        fs = st[name]
        out.append("Record %s := { %s }.\n" % (name, "; ".join("%s_%s : %s" % (name, f, gty(t)) for f, t in fs)))
        out.append("Definition zero_%s : %s := {| %s |}.\n" % (name, name, "; ".join("%s_%s := %s" % (name, f, gzero(t)) for f, t in fs)))
        for f, t in fs:
            out.append("Definition set_%s_%s (x : %s) (r : %s) : %s := {| %s |}.\n" % (
                name, f, gty(t), name, name, "; ".join("%s_%s := %s" % (name, g, "x" if g == f else "%s_%s r" % (name, g)) for g, _ in fs)))
        out.append("\n")
    out.append("(* what the translated functions take from outside: the two precompiles / builtins as oracles, the contract's state and the block *)\n"
               "Record SolEnv := { e_keccak256 : list byte -> list byte; e_ecrecover : list byte -> Z -> list byte -> list byte -> list byte;\n"
               "                   e_getGuardianSet : Z -> GuardianSet; e_curidx : Z; e_now : Z }.\n")
    return "".join(out), {"structs": {n: [f for f, _ in st[n]] for n in STRUCTS}}


# ------------------------------------------------------------------------------------------------ BytesLib bounds
BL_W = {"toUint8": 1, "toUint16": 2, "toUint32": 4, "toUint64": 8, "toBytes32": 32}


def check_byteslib():
    """the reading primitives of lib/SolRt.v assume `require(_bytes.length >= _start + w)` in front of each reader, `slice` its two requires"""
    src = CV.nocomment(rd("ethereum/contracts/libraries/external/BytesLib.sol"))
    if not re.search(r'pragma\s+solidity\s*>=\s*0\.8', src):
        raise Broken("BytesLib.sol: not a Solidity >= 0.8 source (checked arithmetic is assumed)")
    for fn, w in BL_W.items():
        m = re.search(r'function\s+%s\s*\(\s*bytes memory _bytes\s*,\s*uint256 _start\s*\)[^{]*\{\s*require\(\s*_bytes\.length\s*>=\s*_start\s*\+\s*(\d+)\s*,' % fn, src)
        if not m or int(m.group(1)) != w:
            raise Broken("BytesLib.sol %s: bounds require `_bytes.length >= _start + %d` not found" % (fn, w))
    m = re.search(r'function\s+slice\s*\(\s*bytes memory _bytes\s*,\s*uint256 _start\s*,\s*uint256 _length\s*\)[^{]*\{\s*'
                  r'require\(\s*_length \+ 31 >= _length\s*,[^;]*;\s*require\(\s*_bytes\.length >= _start \+ _length\s*,', src)
    if not m:
        raise Broken("BytesLib.sol slice: the two bounds requires were not found")
    msrc = CV.nocomment(rd(MSG))
    if not re.search(r'pragma\s+solidity\s*\^\s*0\.8', msrc):
        raise Broken("Messages.sol: not a Solidity ^0.8 source (checked arithmetic is assumed)")
    if not re.search(r'using\s+BytesLib\s+for\s+bytes\s*;', msrc):
        raise Broken("Messages.sol: `using BytesLib for bytes` not found")
    if re.search(r'\bunchecked\b', msrc):
        raise Broken("Messages.sol: an `unchecked` block is not understood")


# ------------------------------------------------------------------------------------------------ parsing
TYPE_START = re.compile(r'uint\d*|bool|bytes|bytes32|address|string|Structs')


class SP(CV.P):
    """expression parser of x_contractverify plus `new T[](n)`"""
    def postfix(self):
        if self.at_id("new"):
            self.eat()
            tt = []
            while not self.at("["):
                tt.append(self.eat()[1])
            self.eat("op", "[")
            self.eat("op", "]")
            self.eat("op", "(")
            n = self.expr()
            self.eat("op", ")")
            return ("new", parse_type(tt, self.what), n)
        return CV.P.postfix(self)

    def type_tokens(self):
        """a type in a declaration: ids, dots, [], memory — up to (not including) the declared name"""
        tt = []
        while True:
            tk = self.peek()
            nx = self.peek(1)
            if tk[0] == "id" and (nx == ("op", "=") or nx == ("op", ",") or nx == ("op", ")") or nx == ("op", ";")):
                return tt
            if tk[0] == "id" or tk in (("op", "."), ("op", "["), ("op", "]")):
                tt.append(self.eat()[1])
            else:
                raise Broken("%s: declaration not understood near %r" % (self.what, tk[1]))


def block(p):
    out = []
    while not p.at("}") and p.peek()[0] != "eof":
        out.append(stmt(p))
    return out


def branch(p):
    if p.at("{"):
        p.eat()
        b = block(p)
        p.eat("op", "}")
        return b
    return [stmt(p)]


def stmt(p):
    if p.at_id("if"):
        p.eat()
        p.eat("op", "(")
        c = p.expr()
        p.eat("op", ")")
        th = branch(p)
        el = None
        if p.at_id("else"):
            p.eat()
            el = [stmt(p)] if p.at_id("if") else branch(p)
        return ("if", c, th, el)
    if p.at_id("return"):
        p.eat()
        vals = []
        if p.at("("):
            # a parenthesised tuple or a parenthesised expression: parse as a list
            p.eat()
            vals.append(p.expr())
            while p.at(","):
                p.eat()
                vals.append(p.expr())
            p.eat("op", ")")
        elif not p.at(";"):
            vals.append(p.expr())
        p.eat("op", ";")
        return ("return", vals)
    if p.at_id("require"):
        p.eat()
        p.eat("op", "(")
        c = p.expr()
        if p.at(","):
            p.eat()
            p.expr()
        p.eat("op", ")")
        p.eat("op", ";")
        return ("require", c)
    if p.at_id("for"):
        p.eat()
        p.eat("op", "(")
        tt = p.type_tokens()
        iv = p.eat("id")[1]
        p.eat("op", "=")
        init = p.expr()
        p.eat("op", ";")
        cond = p.expr()
        p.eat("op", ";")
        sv = p.eat("id")[1]
        p.eat("op", "++")
        p.eat("op", ")")
        p.eat("op", "{")
        body = block(p)
        p.eat("op", "}")
        if not (parse_type(tt, p.what) == ty_uint(256) and init == ("num", 0) and sv == iv and cond[0] == "cmp" and cond[1] == "<" and cond[2] == ("id", iv)):
            raise Broken("%s: loop header is not `for (uint %s = 0; %s < bound; %s++)`" % (p.what, iv, iv, iv))
        return ("for", iv, cond[3], body)
    if p.at("("):
        # (T a, T b) = e;   or   (a, b) = e;
        p.eat()
        items = []
        while True:
            if p.peek()[0] == "id" and p.peek(1) in (("op", ","), ("op", ")")):
                items.append((None, p.eat()[1]))
            else:
                tt = p.type_tokens()
                items.append((parse_type(tt, p.what), p.eat("id")[1]))
            if p.at(","):
                p.eat()
                continue
            break
        p.eat("op", ")")
        p.eat("op", "=")
        e = p.expr()
        p.eat("op", ";")
        return ("tuple", items, e)
    tk = p.peek()
    if tk[0] == "id" and TYPE_START.fullmatch(tk[1]) and p.peek(1) != ("op", "=") and not (p.peek(1) == ("op", "+")):
        # a declaration `T [memory] name = e;` (a use of a variable would continue with `=`, `.`, `[`, `+=`): decide by scanning for a name before `=`
        save = p.i
        try:
            tt = p.type_tokens()
            name = p.eat("id")[1]
            t = parse_type(tt, p.what)
            if not tt:
                raise Broken("no type")
            p.eat("op", "=")
            e = p.expr()
            p.eat("op", ";")
            return ("decl", t, name, e)
        except Broken:
            p.i = save
    # assignment: lvalue = e;  lvalue += e;
    lv = p.postfix()
    if p.at("+") and p.peek(1) == ("op", "="):
        p.eat()
        p.eat()
        e = p.expr()
        p.eat("op", ";")
        return ("assign", lv, ("bin", "+", lv, e))
    if p.at("-") and p.peek(1) == ("op", "="):
        p.eat()
        p.eat()
        e = p.expr()
        p.eat("op", ";")
        return ("assign", lv, ("bin", "-", lv, e))
    if p.at("="):
        p.eat()
        e = p.expr()
        p.eat("op", ";")
        return ("assign", lv, e)
    raise Broken("%s: statement starting with %r is not understood" % (p.what, tk[1]))


def header(src, fn):
    m = re.search(r'function\s+%s\s*\(([^)]*)\)([^{]*)\{' % fn, src)
    if not m:
        raise Broken("Messages.sol: function %s not found" % fn)
    def plist(s, what):
        out = []
        for d in s.split(","):
            d = d.strip()
            if not d:
                continue
            toks = re.findall(r'[A-Za-z_]\w*|\[|\]|\.', d)
            if len(toks) < 2:
                raise Broken("%s: parameter `%s` not understood" % (what, d))
            out.append((toks[-1], parse_type(toks[:-1], what)))
        return out
    params = plist(m.group(1), fn)
    r = re.search(r'returns\s*\(([^)]*)\)', m.group(2))
    rets = plist(r.group(1), fn) if r else []
    if not rets:
        raise Broken("%s: no (named) return values" % fn)
    return params, rets


def func_ast(src, fn):
    body = CV.func_body(src, r'function\s+%s\s*\([^)]*\)[^{]*\{' % fn, "Messages.sol " + fn)
    p = SP(CV.lex(body, fn), "Messages.sol " + fn)
    ss = block(p)
    if p.peek()[0] != "eof":
        raise Broken("Messages.sol %s: trailing text" % fn)
    return ss


# ------------------------------------------------------------------------------------------------ translation
def assigned(stmts, acc=None):
    """root variable names assigned (not declared) in the statements, in order of first assignment"""
    acc = [] if acc is None else acc
    def root(lv):
        while lv[0] in ("member", "index"):
            lv = lv[1]
        if lv[0] != "id":
            raise Broken("assignment target %s" % CV.canon(lv))
        return lv[1]
    for s in stmts:
        if s[0] == "assign":
            r = root(s[1])
            if r not in acc:
                acc.append(r)
        elif s[0] == "tuple":
            for t, n in s[1]:
                if t is None and n not in acc:
                    acc.append(n)
        elif s[0] == "if":
            assigned(s[2], acc)
            if s[3]:
                assigned(s[3], acc)
        elif s[0] == "for":
            assigned(s[3], acc)
    return acc


def declared(stmts):
    out = set()
    for s in stmts:
        if s[0] == "decl":
            out.add(s[2])
        elif s[0] == "tuple":
            out |= {n for t, n in s[1] if t is not None}
    return out


def free_ids(e, acc):
    k = e[0]
    if k == "id":
        acc.add(e[1])
    elif k in ("member",):
        free_ids(e[1], acc)
    elif k == "call":
        if e[1][0] == "member":
            free_ids(e[1][1], acc)
        for a in e[2]:
            free_ids(a, acc)
    elif k == "index":
        free_ids(e[1], acc)
        free_ids(e[2], acc)
    elif k in ("not", "neg"):
        free_ids(e[1], acc)
    elif k in ("and", "or"):
        free_ids(e[1], acc)
        free_ids(e[2], acc)
    elif k in ("cmp", "bin"):
        free_ids(e[2], acc)
        free_ids(e[3], acc)
    elif k == "new":
        free_ids(e[2], acc)
    return acc


class Fn:
    """translation of one function"""
    def __init__(self, name, sigs, structs):
        self.name, self.sigs, self.structs = name, sigs, structs
        self.what = "Messages.sol " + name
        self.tmp = 0
        self.loops = []     # texts of the loop Fixpoints
        self.nloop = 0
        self.rets = sigs[name][1]
        self.rty = self.rets[0][1] if len(self.rets) == 1 else ("tuple", [t for _, t in self.rets])
        self.stats = {"statements": 0, "loops": 0, "requires": 0, "reads": 0, "checked_ops": 0, "oracles": set(), "calls": set()}

    def fresh(self):
        self.tmp += 1
        return "t%d" % self.tmp

    @staticmethod
    def v(n):
        return "v_" + n

    # ---- expressions: returns (binds, text, type); binds = [(name, option-valued text)]
    def ex(self, e, env):
        k = e[0]
        if k == "num":
            return [], str(e[1]), ("lit",)
        if k == "str":
            return [], e[1] + "%string", ("string",)
        if k == "id":
            if e[1] in ("true", "false"):
                return [], e[1], ("bool",)
            if e[1] not in env:
                raise Broken("%s: `%s` is not a variable in scope" % (self.what, e[1]))
            return [], self.v(e[1]), env[e[1]]
        if k == "new":
            b, a, t = self.ex(e[2], env)
            self.isint(t, e[2])
            return b, "(sol_new %s %s)" % (gzero(e[1]), a), ("array", e[1])
        if k == "member":
            if CV.canon(e) == "block.timestamp" and "block" not in env:
                self.stats["oracles"].add("block.timestamp")
                return [], "(e_now E)", ty_uint(256)
            b, a, t = self.ex(e[1], env)
            if e[2] == "length" and t[0] in ("bytes", "array"):
                return b, "(Z.of_nat (length %s))" % a, ty_uint(256)
            if t[0] == "struct":
                for f, ft in self.structs[t[1]]:
                    if f == e[2]:
                        return b, "(%s_%s %s)" % (t[1], f, a), ft
            raise Broken("%s: member `%s` is not understood" % (self.what, CV.canon(e)))
        if k == "index":
            b1, a, t = self.ex(e[1], env)
            b2, i, ti = self.ex(e[2], env)
            if t[0] != "array":
                raise Broken("%s: `%s` indexes something that is not an array" % (self.what, CV.canon(e)))
            self.isint(ti, e[2])
            x = self.fresh()
            return b1 + b2 + [(x, "sol_nth %s %s" % (a, i))], x, t[1]
        if k == "not":
            b, a, t = self.ex(e[1], env)
            self.want(t, "bool", e[1])
            return b, "(negb %s)" % a, ("bool",)
        if k in ("and", "or"):
            b1, a, ta = self.ex(e[1], env)
            b2, c, tb = self.ex(e[2], env)
            self.want(ta, "bool", e[1])
            self.want(tb, "bool", e[2])
            if b2:
                # short-circuit evaluation: the right operand (which can revert) is evaluated only when the left one does not decide
                x = self.fresh()
                right = self.wrap(b2, "Some %s" % c)
                if k == "and":
                    return b1 + [(x, "(if %s then %s else Some false)" % (a, right))], x, ("bool",)
                return b1 + [(x, "(if %s then Some true else %s)" % (a, right))], x, ("bool",)
            return b1, "(%s %s %s)" % (a, "&&" if k == "and" else "||", c), ("bool",)
        if k == "cmp":
            b1, a, ta = self.ex(e[2], env)
            b2, c, tb = self.ex(e[3], env)
            op = e[1]
            if self.intlike(ta) and self.intlike(tb):
                return b1 + b2, CV.CMPZ[op] % (a, c), ("bool",)
            if op in ("==", "!="):
                if ta[0] in ("bytes", "bytes32", "address") and ta == tb:
                    s = "bytes_eqb %s %s" % (a, c)
                elif ta == ("bool",) and tb == ("bool",):
                    s = "Bool.eqb %s %s" % (a, c)
                else:
                    raise Broken("%s: comparison `%s` between %s and %s" % (self.what, CV.canon(e)[:80], ta[0], tb[0]))
                return b1 + b2, ("(%s)" if op == "==" else "(negb (%s))") % s, ("bool",)
            raise Broken("%s: comparison `%s` is not understood" % (self.what, CV.canon(e)[:80]))
        if k == "bin":
            b1, a, ta = self.ex(e[2], env)
            b2, c, tb = self.ex(e[3], env)
            self.isint(ta, e[2])
            self.isint(tb, e[3])
            if ta[0] == "lit" and tb[0] == "lit":
                raise Broken("%s: constant expression `%s`" % (self.what, CV.canon(e)))
            bits = max(ta[1] if ta[0] == "uint" else 0, tb[1] if tb[0] == "uint" else 0)
            x = self.fresh()
            self.stats["checked_ops"] += 1
            op = e[1]
            if op == "+":
                call = "add_chk %d %s %s" % (bits, a, c)
            elif op == "-":
                call = "sub_chk %s %s" % (a, c)
            elif op == "*":
                call = "mul_chk %d %s %s" % (bits, a, c)
            elif op == "/":
                call = "div_chk %s %s" % (a, c)
            else:
                raise Broken("%s: operator %s" % (self.what, op))
            return b1 + b2 + [(x, call)], x, ty_uint(bits)
        if k == "call":
            return self.call(e, env)
        raise Broken("%s: expression `%s` is not understood" % (self.what, CV.canon(e)[:80]))

    def call(self, e, env):
        f, args = e[1], e[2]
        c = CV.canon(f)
        if f[0] == "member" and f[2] in BL_W and len(args) == 1:
            b1, a, t = self.ex(f[1], env)
            b2, i, ti = self.ex(args[0], env)
            if t != ("bytes",):
                raise Broken("%s: `%s` reads from something that is not `bytes`" % (self.what, CV.canon(e)[:80]))
            self.isint(ti, args[0])
            x = self.fresh()
            self.stats["reads"] += 1
            w = BL_W[f[2]]
            if f[2] == "toBytes32":
                return b1 + b2 + [(x, "toBytes32 %s %s" % (a, i))], x, ("bytes32",)
            return b1 + b2 + [(x, "toUint %d %s %s" % (w, a, i))], x, ty_uint(8 * w)
        if f[0] == "member" and f[2] == "slice" and len(args) == 2:
            b1, a, t = self.ex(f[1], env)
            b2, i, ti = self.ex(args[0], env)
            b3, n, tn = self.ex(args[1], env)
            if t != ("bytes",):
                raise Broken("%s: `%s` slices something that is not `bytes`" % (self.what, CV.canon(e)[:80]))
            self.isint(ti, args[0])
            self.isint(tn, args[1])
            x = self.fresh()
            self.stats["reads"] += 1
            return b1 + b2 + b3 + [(x, "sol_slice %s %s %s" % (a, i, n))], x, ("bytes",)
        if c == "abi.encodePacked" and len(args) == 1:
            b, a, t = self.ex(args[0], env)
            if t[0] not in ("bytes32", "bytes"):
                raise Broken("%s: abi.encodePacked of a %s value is not understood" % (self.what, t[0]))
            return b, a, ("bytes",)          # the packed encoding of one bytes32 / bytes value is the value's bytes
        if c == "keccak256" and len(args) == 1:
            b, a, t = self.ex(args[0], env)
            if t[0] not in ("bytes32", "bytes"):
                raise Broken("%s: keccak256 of a %s value is not understood" % (self.what, t[0]))
            self.stats["oracles"].add("keccak256")
            return b, "(e_keccak256 E %s)" % a, ("bytes32",)
        if c == "ecrecover" and len(args) == 4:
            bs, xs = [], []
            for a, wt in zip(args, (("bytes32",), ty_uint(8), ("bytes32",), ("bytes32",))):
                b, x, t = self.ex(a, env)
                if t != wt:
                    raise Broken("%s: ecrecover argument `%s` has type %s" % (self.what, CV.canon(a), t[0]))
                bs += b
                xs.append(x)
            self.stats["oracles"].add("ecrecover")
            return bs, "(e_ecrecover E %s)" % " ".join(xs), ("address",)
        if c == "getGuardianSet" and len(args) == 1:
            b, a, t = self.ex(args[0], env)
            self.isint(t, args[0])
            self.stats["oracles"].add("getGuardianSet")
            return b, "(e_getGuardianSet E %s)" % a, ("struct", "GuardianSet")
        if c == "getCurrentGuardianSetIndex" and not args:
            self.stats["oracles"].add("getCurrentGuardianSetIndex")
            return [], "(e_curidx E)", ty_uint(32)
        if c == "quorum" and len(args) == 1:
            b, a, t = self.ex(args[0], env)
            self.isint(t, args[0])
            self.stats["calls"].add("quorum")
            return b, "(sol_quorum %s)" % a, ty_uint(256)
        if f[0] == "id" and f[1] in self.sigs:
            params, rets = self.sigs[f[1]]
            if len(args) != len(params):
                raise Broken("%s: call `%s` has %d arguments" % (self.what, c, len(args)))
            bs, xs = [], []
            for a, (pn, pt) in zip(args, params):
                b, x, t = self.ex(a, env)
                if t != pt:
                    raise Broken("%s: argument `%s` of %s has type %s" % (self.what, CV.canon(a), c, t[0]))
                bs += b
                xs.append(x)
            x = self.fresh()
            self.stats["calls"].add(f[1])
            rt = rets[0][1] if len(rets) == 1 else ("tuple", [t for _, t in rets])
            return bs + [(x, "src_%s E %s" % (f[1], " ".join(xs)))], x, rt
        raise Broken("%s: call `%s` is not one the translator knows" % (self.what, CV.canon(e)[:100]))

    @staticmethod
    def intlike(t):
        return t[0] in ("uint", "lit")

    def isint(self, t, e):
        if not self.intlike(t):
            raise Broken("%s: `%s` used as an integer" % (self.what, CV.canon(e)[:80]))

    def want(self, t, w, e):
        if t[0] != w:
            raise Broken("%s: `%s` used as %s" % (self.what, CV.canon(e)[:80], w))

    def fits(self, src, dst, e):
        """implicit conversion on assignment"""
        if dst[0] == "uint" and src[0] == "lit":
            return
        if dst[0] == "uint" and src[0] == "uint" and src[1] <= dst[1]:
            return
        if src == dst:
            return
        raise Broken("%s: `%s` of type %s assigned to a %s" % (self.what, CV.canon(e)[:80], src, dst))

    @staticmethod
    def wrap(binds, inner):
        for x, t in reversed(binds):
            inner = "dox %s <- %s;\n%s" % (x, t, inner)
        return inner

    # ---- lvalues: functional update; returns (binds, root name, new root value text)
    def store(self, lv, val, vt, env, e):
        if lv[0] == "id":
            if lv[1] not in env:
                raise Broken("%s: assignment to `%s`, which is not in scope" % (self.what, lv[1]))
            self.fits(vt, env[lv[1]], e)
            return [], lv[1], val
        if lv[0] == "member":
            b, cur, t = self.ex(lv[1], env)
            if t[0] != "struct":
                raise Broken("%s: assignment to `%s`" % (self.what, CV.canon(lv)))
            ft = dict(self.structs[t[1]]).get(lv[2])
            if ft is None:
                raise Broken("%s: struct %s has no field %s" % (self.what, t[1], lv[2]))
            self.fits(vt, ft, e)
            if lv[1][0] == "id" and lv[1][1] in self.refs:
                raise Broken("%s: assignment through the memory reference `%s`" % (self.what, lv[1][1]))
            b2, root, nv = self.store(lv[1], "(set_%s_%s %s %s)" % (t[1], lv[2], val, cur), t, env, e)
            return b + b2, root, nv
        if lv[0] == "index":
            b1, arr, t = self.ex(lv[1], env)
            b2, i, ti = self.ex(lv[2], env)
            if t[0] != "array":
                raise Broken("%s: assignment to `%s`" % (self.what, CV.canon(lv)))
            self.isint(ti, lv[2])
            self.fits(vt, t[1], e)
            x = self.fresh()
            b3, root, nv = self.store(lv[1], x, t, env, e)
            return b1 + b2 + [(x, "sol_upd %s %s %s" % (arr, i, val))] + b3, root, nv
        raise Broken("%s: assignment target `%s`" % (self.what, CV.canon(lv)))

    # ---- statements (continuation passing: `k(env)` is the text of what follows; `ret(text)` wraps a returned value)
    def seq(self, stmts, env, k, ret):
        if not stmts:
            return k(env)
        s, tail = stmts[0], stmts[1:]
        self.stats["statements"] += 1
        kind = s[0]
        nxt = lambda env2: self.seq(tail, env2, k, ret)
        if kind == "decl":
            _, t, name, e = s
            if name in env:
                raise Broken("%s: `%s` declared twice" % (self.what, name))
            b, a, et = self.ex(e, env)
            self.fits(et, t, e)
            if t[0] == "struct" and e[0] in ("index", "id", "member"):
                self.refs.add(name)          # a memory reference: reads only
            env2 = dict(env)
            env2[name] = t
            return self.wrap(b, "let %s := %s in\n%s" % (self.v(name), a, nxt(env2)))
        if kind == "assign":
            _, lv, e = s
            b, a, et = self.ex(e, env)
            b2, root, nv = self.store(lv, a, et, env, e)
            return self.wrap(b + b2, "let %s := %s in\n%s" % (self.v(root), nv, nxt(env)))
        if kind == "tuple":
            _, items, e = s
            b, a, et = self.ex(e, env)
            if et[0] != "tuple" or len(et[1]) != len(items):
                raise Broken("%s: tuple assignment from `%s`" % (self.what, CV.canon(e)[:80]))
            env2 = dict(env)
            names = []
            for (t, n), vt in zip(items, et[1]):
                if t is None:
                    if n not in env:
                        raise Broken("%s: assignment to `%s`, which is not in scope" % (self.what, n))
                    self.fits(vt, env[n], e)
                else:
                    if n in env:
                        raise Broken("%s: `%s` declared twice" % (self.what, n))
                    self.fits(vt, t, e)
                    env2[n] = t
                names.append(self.v(n))
            return self.wrap(b, "let '(%s) := %s in\n%s" % (", ".join(names), a, nxt(env2)))
        if kind == "require":
            b, a, t = self.ex(s[1], env)
            self.want(t, "bool", s[1])
            self.stats["requires"] += 1
            return self.wrap(b, "if %s then\n%s\nelse None" % (a, nxt(env)))
        if kind == "return":
            vals = s[1]
            if len(vals) != len(self.rets):
                raise Broken("%s: return of %d values" % (self.what, len(vals)))
            bs, xs = [], []
            for v, (_, rt) in zip(vals, self.rets):
                b, a, t = self.ex(v, env)
                self.fits(t, rt, v)
                bs += b
                xs.append(a)
            return self.wrap(bs, ret(xs[0] if len(xs) == 1 else "(%s)" % ", ".join(xs)))
        if kind == "if":
            _, c, th, el = s
            b, a, t = self.ex(c, env)
            self.want(t, "bool", c)
            tht = self.seq(th, env, lambda _e: nxt(env), ret)
            elt = self.seq(el, env, lambda _e: nxt(env), ret) if el is not None else nxt(env)
            return self.wrap(b, "if %s then\n%s\nelse\n%s" % (a, tht, elt))
        if kind == "for":
            return self.loop(s, env, nxt, ret)
        raise Broken("%s: statement kind %s" % (self.what, kind))

    def loop(self, s, env, nxt, ret):
        _, iv, bound, body = s
        if iv in env:
            raise Broken("%s: loop variable `%s` shadows a variable" % (self.what, iv))
        carried = [n for n in assigned(body) if n in env]
        asg = set(assigned(body))
        if iv in asg:
            raise Broken("%s: the loop body assigns its counter `%s`" % (self.what, iv))
        fb = free_ids(bound, set())
        if fb & asg:
            raise Broken("%s: the loop body assigns `%s`, which the loop bound reads" % (self.what, ", ".join(sorted(fb & asg))))
        unknown = [n for n in assigned(body) if n not in env and n not in declared(body)]
        if unknown:
            raise Broken("%s: the loop body assigns `%s`, which is not in scope" % (self.what, unknown[0]))
        bb, bt, bty = self.ex(bound, env)
        self.isint(bty, bound)
        self.nloop += 1
        self.stats["loops"] += 1
        lname = "src_%s_loop%d" % (self.name, self.nloop)
        params = [n for n in env]             # every variable in scope is passed; the carried ones come back
        cty = "unit" if not carried else " * ".join(gty(env[n]) for n in carried)
        ctuple = "tt" if not carried else ", ".join(self.v(n) for n in carried)
        cpat = "tt" if not carried else ("(%s)" % ctuple if len(carried) > 1 else ctuple)
        env_in = dict(env)
        env_in[iv] = ty_uint(256)
        again = "%s E fuel' (%s + 1) %s" % (lname, self.v(iv), " ".join(self.v(n) for n in params))
        # inside the loop: a return leaves with inl, the end of the body goes round again
        btxt = self.seq(body, env_in, lambda _e: again, lambda x: "Some (inl %s)" % x)
        self.loops.append(
            "(* loop %d of %s: `for (uint %s = 0; %s < %s; %s++)`; fuel = remaining iterations; inl = the function returned inside the loop,\n"
            "   inr = the loop ended with these values of (%s) *)\n"
            "Fixpoint %s (E : SolEnv) (fuel : nat) (%s : Z) %s {struct fuel} : option (%s + (%s)) :=\n"
            "  match fuel with\n  | O => Some (inr %s)\n  | S fuel' =>\n%s\n  end.\n" % (
                self.nloop, self.name, iv, iv, CV.canon(bound), iv, ", ".join(carried) or "nothing",
                lname, self.v(iv), " ".join("(%s : %s)" % (self.v(n), gty(env[n])) for n in params), gty(self.rty), cty,
                "(%s)" % ctuple if len(carried) > 1 else ctuple, indent(btxt, 4)))
        call = "%s E (Z.to_nat %s) 0 %s" % (lname, bt, " ".join(self.v(n) for n in params))
        after = nxt(env)
        # a `return` inside the loop returned at the top level of the function: the caller's `ret` is applied to it
        return self.wrap(bb, "match %s with\n| None => None\n| Some (inl r) => %s\n| Some (inr %s) =>\n%s\nend" % (call, ret("r"), cpat, after))

    def function(self, ast):
        params, rets = self.sigs[self.name]
        env = {}
        for n, t in params + rets:
            if n in env:
                raise Broken("%s: name `%s` used twice in the header" % (self.what, n))
            env[n] = t
        self.refs = set()
        rv = [self.v(n) for n, _ in rets]
        end = "Some %s" % (rv[0] if len(rv) == 1 else "(%s)" % ", ".join(rv))
        body = self.seq(ast, env, lambda _e: end, lambda x: "Some %s" % x)
        zeros = "".join("  let %s := %s in\n" % (self.v(n), gzero(t)) for n, t in rets)
        text = "".join(self.loops)
        text += "Definition src_%s (E : SolEnv) %s : option %s :=\n%s%s.\n" % (
            self.name, " ".join("(%s : %s)" % (self.v(n), gty(t)) for n, t in params), gty(self.rty), zeros, indent(body, 2))
        return text


def indent(t, n):
    return "\n".join(" " * n + l for l in t.split("\n"))


def translate(fn):
    check_byteslib()
    structs = read_structs()
    src = CV.nocomment(rd(MSG))
    sigs = {f: header(src, f) for f in FUNCS}
    ast = func_ast(src, fn)
    F = Fn(fn, sigs, structs)
    text = F.function(ast)
    info = dict(F.stats)
    info["oracles"] = sorted(info["oracles"])
    info["calls"] = sorted(info["calls"])
    return ("(* Messages.sol %s, statement by statement (gen/x_solverify.py); None = the call reverts *)\n" % fn) + text, info


def x_parsevm():
    text, info = translate("parseVM")
    if info["loops"] != 1 or info["reads"] < 10 or "keccak256" not in info["oracles"]:
        raise Broken("Messages.sol parseVM: the translated function has %d loops, %d reads, oracles %s (a signature loop, the field reads and the hash are expected)"
                     % (info["loops"], info["reads"], info["oracles"]))
    return text, info


def x_verifysignatures():
    text, info = translate("verifySignatures")
    if info["loops"] != 1 or "ecrecover" not in info["oracles"]:
        raise Broken("Messages.sol verifySignatures: no loop / no ecrecover in the translated function")
    return text, info


def x_verifyvm():
    text, info = translate("verifyVM")
    if "verifySignatures" not in info["calls"] or "quorum" not in info["calls"]:
        raise Broken("Messages.sol verifyVM: the translated function does not call verifySignatures / quorum")
    return text, info


def x_parseandverifyvm():
    text, info = translate("parseAndVerifyVM")
    if info["calls"] != ["parseVM", "verifyVM"]:
        raise Broken("Messages.sol parseAndVerifyVM: calls %s, expected parseVM and verifyVM" % info["calls"])
    return text, info


EXTRACTORS = [("sol_src_structs", x_structs), ("sol_src_parsevm", x_parsevm), ("sol_src_verifysignatures", x_verifysignatures),
              ("sol_src_verifyvm", x_verifyvm), ("sol_src_parseandverifyvm", x_parseandverifyvm)]
