"""C11 — contract side: the attestation payload built by token_bridge.ral attestToken and the WormholeMessage event
(declaration + emit) of governance.ral."""
import re
from extract import rd, Broken

def ral_fn(src, name, what):
    m = re.search(r'\bfn %s\s*\((.*?)\)\s*->\s*\([^)]*\)\s*\{' % name, src, re.S)
    if not m:
        raise Broken("%s: fn %s not found" % (what, name))
    i = m.end() - 1
    d = 0
    for j in range(i, len(src)):
        if src[j] == "{":
            d += 1
        elif src[j] == "}":
            d -= 1
            if d == 0:
                return m.group(1), src[i + 1:j]
    raise Broken("%s: fn %s: unbalanced braces" % (what, name))

def x_ral_attest():
    tb = rd("alephium/contracts/token_bridge/token_bridge.ral")
    cs = rd("alephium/contracts/token_bridge/token_bridge_constants.ral")
    gv = rd("alephium/contracts/governance.ral")
    params, body = ral_fn(tb, "attestToken", "token_bridge.ral")
    ptypes = dict((n, t) for n, t in re.findall(r'(\w+)\s*:\s*(\w+)', params))
    m = re.search(r'enum PayloadId \{(.*?)\}', cs, re.S)
    if not m:
        raise Broken("token_bridge_constants.ral: enum PayloadId not found")
    pid = dict(re.findall(r'(\w+)\s*=\s*#([0-9a-fA-F]{2})\b', m.group(1)))
    if "AttestToken" not in pid:
        raise Broken("enum PayloadId: AttestToken not found")
    sizes = re.findall(r'assert!\(size!\((\w+)\) == (\d+),', body)
    m = re.search(r'let payload =(.*?)\n\s*\n', body, re.S)
    if not m:
        raise Broken("attestToken: `let payload = … ++ …` not found")
    parts = [p.strip() for p in " ".join(m.group(1).split()).split("++")]
    g = []
    ranges = []
    used = []
    for p in parts:
        mm = re.fullmatch(r'PayloadId\.(\w+)', p)
        if mm:
            if mm.group(1) not in pid:
                raise Broken("attestToken: unknown PayloadId.%s" % mm.group(1))
            g.append("[x%s]" % pid[mm.group(1)].lower())
            continue
        mm = re.fullmatch(r'u256To(\d+)Byte!\((\w+)\)', p)
        if mm:
            g.append("Bytes.be %s%%nat %s" % (mm.group(1), mm.group(2)))
            ranges.append((mm.group(2), int(mm.group(1))))
            used.append(mm.group(2))
            continue
        if re.fullmatch(r'\w+', p) and ptypes.get(p) == "ByteVec":
            g.append(p)
            used.append(p)
            continue
        raise Broken("attestToken: payload part %r not understood" % p)
    bytevars = ["localTokenId", "symbol", "name"]
    numvars = ["localChainId", "decimals"]
    if sorted(used) != sorted(bytevars + numvars):
        raise Broken("attestToken: payload uses %s (expected %s)" % (used, bytevars + numvars))
    if ptypes.get("decimals") != "U256":
        raise Broken("attestToken: decimals is not a U256 parameter")
    szmap = dict((n, int(k)) for n, k in sizes)
    for v in bytevars + ["nonce"]:
        if v not in szmap:
            raise Broken("attestToken: no size assertion for %s" % v)
    m = re.search(r'governance\.publishWormholeMessage\{[^}]*\}\(\s*(\w+),\s*(\d+),\s*nextSendSequence\(\),\s*nonce,\s*payload,\s*consistencyLevel\s*\)', body)
    if not m:
        raise Broken("attestToken: publishWormholeMessage(payer, <target>, nextSendSequence(), nonce, payload, consistencyLevel) not found")
    target = int(m.group(2))
    # event declaration and emit: a node reports the event's fields in the order of the emit's arguments, typed by the
    # declaration; the position of each publishWormholeMessage parameter in the emit is what the model uses
    ev = re.search(r'event WormholeMessage\(([^)]*)\)', gv)
    if not ev:
        raise Broken("governance.ral: event WormholeMessage not found")
    fields = re.findall(r'(\w+)\s*:\s*(\w+)', ev.group(1))
    want = ["sender", "targetChainId", "sequence", "nonce", "payload", "consistencyLevel"]
    for n, t in fields:
        if t not in ("ByteVec", "U256"):
            raise Broken("event WormholeMessage: field %s has type %s" % (n, t))
    pparams, pbody = ral_fn(gv, "publishWormholeMessage", "governance.ral")
    ppt = dict(re.findall(r'(\w+)\s*:\s*(\w+)', pparams))
    pnames = [n for n, _ in re.findall(r'(\w+)\s*:\s*(\w+)', pparams)]
    if pnames != ["payer", "targetChainId", "sequence", "nonce", "payload", "consistencyLevel"]:
        raise Broken("publishWormholeMessage parameters are %s" % pnames)
    em = re.search(r'emit WormholeMessage\(([^\n]*)\)\s*\n', pbody)
    if not em:
        raise Broken("publishWormholeMessage: emit not found")
    args = [a.strip() for a in em.group(1).split(",")]
    argname = {"callerContractId!()": "sender"}
    names = [argname.get(a, a) for a in args]
    if sorted(names) != sorted(want) or len(args) != len(fields):
        raise Broken("emit WormholeMessage(%s): arguments are not exactly the caller id and the five message parameters" % em.group(1))
    for (dn, dt), n in zip(fields, names):
        at = "ByteVec" if n == "sender" else ppt.get(n)
        if at != dt:
            raise Broken("emit WormholeMessage: %s (%s) passed for the declared field %s: %s" % (n, at, dn, dt))
    out = ("(* token_bridge.ral attestToken: let payload = %s *)\n"
           "Definition ral_attest_payload (localTokenId : list byte) (localChainId decimals : Z) (symbol name : list byte) : list byte :=\n"
           "  (%s)%%list.\n"
           "(* u256ToNByte! aborts unless the value fits N bytes *)\n"
           "Definition ral_attest_u256_ranges (localChainId decimals : Z) : list (Z * nat) := [%s].\n"
           "(* assert!(size!(x) == n, ..) *)\n"
           "Definition ral_attest_size_asserts (localTokenId symbol name nonce : list byte) : list (nat * nat) := [%s].\n"
           "Definition ral_attest_target_chain : Z := %d.\n"
           "(* governance.ral: event WormholeMessage(%s), emitted as (%s); true = U256 (reported as a decimal string), false = ByteVec (hex string) *)\n"
           "Definition ral_event_is_u256 : list bool := [%s].\n"
           % (" ++ ".join(parts), " ++ ".join(g), "; ".join("(%s, %d%%nat)" % r for r in ranges),
              "; ".join("(length %s, %d%%nat)" % (v, szmap[v]) for v in bytevars + ["nonce"]), target,
              ", ".join("%s: %s" % f for f in fields), ", ".join(args), "; ".join("true" if t == "U256" else "false" for _, t in fields)))
    for n in want:
        out += "Definition ral_ev_idx_%s : nat := %d%%nat.\n" % (n, names.index(n))
    return out, {"payload": parts, "payload_id": pid["AttestToken"].lower(), "sizes": szmap, "event": names,
                 "types": [t for _, t in fields], "target": target}

EXTRACTORS = [("ral_attest", x_ral_attest)]
