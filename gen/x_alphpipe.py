"""Extractor for the composed Alephium pipeline (coq/model/AlphPipeline.v, C08 / C09 / C11): WHERE the conversion of an
event's raw fields is applied and WHAT is handed to the signer, read from node/pkg/alephium/{watcher,reobserve,client,utils}.go.

 * polling path: handleUnconfirmedEvents converts every fetched event (toUnconfirmedEvent = index test, then
   ToWormholeMessage(event.Fields, event.TxId)) BEFORE any sender test; the sender test sits in handleConfirmedEvents,
   directly in front of `w.msgChan <- e.event.msg.toMessagePublication(e.header)`;
 * re-observation path: getGovernanceEventsByTxId converts with the REQUEST's tx id after the index / address / block
   filters and the header fetch (an error aborts the request); handleGovernanceMessages converts again
   (`ToWormholeMessage(e.Fields, e.txId)`, an error aborts the hand-over), filters on the sender and sends
   `wormholeMsg.toMessagePublication(e.header)`;
 * validateAttestToken: which components of the parsed payload are compared with GetTokenInfo's answer;
 * GetTokenInfo: how the answer is assembled (token id of the request, toUint8 decimals, bytesToString symbol / name) and the
   native token's constant answer.
The definitions go to a file of their own (coq/gen/ExtractedAlphPipe.v)."""
import re
from extract import rd, Broken
from x_alph import func_body, in_order

TARGET = "ExtractedAlphPipe"
HEADER = ("From Coq Require Import List ZArith Arith Bool Strings.Byte.\nFrom WH Require Import lib.Bytes.\nImport ListNotations.\nOpen Scope Z_scope.\n")


def gbytes_lit(s):
    return "(map byte_of_Z [%s])" % "; ".join(str(c) for c in s.encode("utf-8"))


def x_alph_pipe_order():
    """polling path: every fetched event is converted BEFORE any sender test (C09's mechanism 'conversion of every fetched event
    before the sender filter'); the sender test sits in handleConfirmedEvents in front of the send"""
    w = rd("node/pkg/alephium/watcher.go")
    u = rd("node/pkg/alephium/utils.go")
    info = {}
    # ---- polling path: conversion, then (much later) the sender filter, then the hand-over expression
    tu = func_body(w, r'^func \(w \*Watcher\) toUnconfirmedEvent\(', "toUnconfirmedEvent")
    in_order(tu, [r'if event\.EventIndex != WormholeMessageEventIndex \{\s*return nil,',
                  r'msg, err := ToWormholeMessage\(event\.Fields, event\.TxId\)\s*if err != nil \{\s*return nil, err\s*\}',
                  r'return &UnconfirmedEvent\{event, msg\}, err'], "toUnconfirmedEvent")
    hu = func_body(w, r'^func \(w \*Watcher\) handleUnconfirmedEvents\(', "handleUnconfirmedEvents")
    in_order(hu, [r'for _, event := range events\.Events \{\s*contractEvent := event\s*unconfirmed, err := w\.toUnconfirmedEvent\(&contractEvent\)',
                  r'if unconfirmed\.msg\.IsAttestTokenVAA\(\) \{',
                  r'w\.validateAttestToken\(ctx, unconfirmed\.msg\)',
                  r'unconfirmedEvents = append\(unconfirmedEvents, unconfirmed\)'], "handleUnconfirmedEvents")
    if re.search(r'senderId|tokenBridgeContractId|equalWith', hu):
        raise Broken("handleUnconfirmedEvents: a sender test appears before / inside the conversion loop (the model converts every fetched event before any sender filter)")
    if re.search(r'senderId|tokenBridgeContractId|equalWith', tu):
        raise Broken("toUnconfirmedEvent: a sender test appears inside the conversion")
    fe = func_body(w, r'^func \(w \*Watcher\) fetchEvents\(', "fetchEvents")
    if re.search(r'senderId|tokenBridgeContractId|equalWith|\.Fields', fe):
        raise Broken("fetchEvents: inspects event fields / senders itself")
    hc = func_body(w, r'^func \(w \*Watcher\) handleConfirmedEvents\(', "handleConfirmedEvents")
    in_order(hc, [r'for _, e := range confirmed \{', r'switch e\.event\.EventIndex \{\s*case WormholeMessageEventIndex:',
                  r'if !e\.event\.msg\.senderId\.equalWith\(w\.tokenBridgeContractId\) \{\s*\n[^\n]*\n\s*continue\s*\}',
                  r'w\.msgChan <- e\.event\.msg\.toMessagePublication\(e\.header\)\s*default:\s*return fmt\.Errorf'], "handleConfirmedEvents")
    if len(re.findall(r'msgChan <-', w)) != 1:
        raise Broken("watcher.go: expected exactly one send on msgChan (in handleConfirmedEvents)")
    he = func_body(w, r'^func \(w \*Watcher\) handleEvents_\(', "handleEvents_")
    if re.search(r'\.msg\s*=|ToWormholeMessage|\.Fields', he):
        raise Broken("handleEvents_: touches the converted message / the raw fields of a pending event")
    if not re.search(r'func \(b Byte32\) equalWith\(v Byte32\) bool \{\s*return bytes\.Equal\(b\[:\], v\[:\]\)\s*\}', u):
        raise Broken("utils.go: Byte32.equalWith is not bytes.Equal")
    info["polling"] = "index test; ToWormholeMessage(event.Fields, event.TxId); attestation validation; ...; sender filter; msgChan <- msg.toMessagePublication(header)"

    out = ("(* polling path: every fetched event is converted (index test, ToWormholeMessage(event.Fields, event.TxId)) before any sender\n"
           "   filter; the filter and `w.msgChan <- e.event.msg.toMessagePublication(e.header)` are in handleConfirmedEvents *)\n"
           "Definition alph_pipe_convert_before_filter : bool := true.\n")
    return out, info


def x_alph_pipeline():
    w = rd("node/pkg/alephium/watcher.go")
    ro = rd("node/pkg/alephium/reobserve.go")
    u = rd("node/pkg/alephium/utils.go")
    cl = rd("node/pkg/alephium/client.go")
    info = {}

    # ---- polling path: what is converted and what is handed over
    tu = func_body(w, r'^func \(w \*Watcher\) toUnconfirmedEvent\(', "toUnconfirmedEvent")
    in_order(tu, [r'msg, err := ToWormholeMessage\(event\.Fields, event\.TxId\)\s*if err != nil \{\s*return nil, err\s*\}',
                  r'return &UnconfirmedEvent\{event, msg\}, err'], "toUnconfirmedEvent")
    hc = func_body(w, r'^func \(w \*Watcher\) handleConfirmedEvents\(', "handleConfirmedEvents")
    if not re.search(r'w\.msgChan <- e\.event\.msg\.toMessagePublication\(e\.header\)', hc) or len(re.findall(r'msgChan <-', w)) != 1:
        raise Broken("handleConfirmedEvents: `w.msgChan <- e.event.msg.toMessagePublication(e.header)` (the only send in watcher.go) not found")
    he = func_body(w, r'^func \(w \*Watcher\) handleEvents_\(', "handleEvents_")
    if re.search(r'\.msg\s*=|ToWormholeMessage|\.Fields', he):
        raise Broken("handleEvents_: touches the converted message / the raw fields of a pending event")
    if not re.search(r'func \(b Byte32\) equalWith\(v Byte32\) bool \{\s*return bytes\.Equal\(b\[:\], v\[:\]\)\s*\}', u):
        raise Broken("utils.go: Byte32.equalWith is not bytes.Equal")
    info["polling"] = "ToWormholeMessage(event.Fields, event.TxId) kept with the event; msgChan <- msg.toMessagePublication(header)"

    # ---- re-observation path
    ge = func_body(ro, r'^func \(w \*Watcher\) getGovernanceEventsByTxId\(', "getGovernanceEventsByTxId")
    in_order(ge, [r'events, err := client\.GetEventsByTxId\(ctx, txId\)\s*if err != nil \{\s*return nil, err\s*\}',
                  r'for _, event := range events\.Events \{',
                  r'header, err := client\.GetBlockHeader\(ctx, event\.BlockHash\)\s*if err != nil \{\s*return nil, err\s*\}',
                  r'msg, err := ToWormholeMessage\(event\.Fields, txId\)\s*if err != nil \{\s*return nil, err\s*\}',
                  r'if msg\.IsAttestTokenVAA\(\) \{\s*if err = w\.validateAttestToken\(ctx, msg\); err != nil \{',
                  r'contractEvent := event\s*reobservedEvents = append\(reobservedEvents, &reobservedEvent\{\s*&contractEvent,\s*msg\.consistencyLevel,\s*&UnconfirmedEvent\{\s*'
                  r'&sdk\.ContractEvent\{BlockHash: event\.BlockHash, TxId: txId, EventIndex: event\.EventIndex, Fields: event\.Fields\},\s*msg,\s*\},\s*header,\s*txId,\s*\}\)'],
             "getGovernanceEventsByTxId")
    if not re.search(r'type reobservedEvent struct \{\s*\*sdk\.ContractEventByTxId\s*confirmations\s+uint8\s*unconfirmed\s+\*UnconfirmedEvent\s*header\s+\*sdk\.BlockHeaderEntry\s*txId\s+string\s*\}', ro):
        raise Broken("reobserve.go: reobservedEvent struct changed")
    hg = func_body(ro, r'^func \(w \*Watcher\) handleGovernanceMessages\(', "handleGovernanceMessages")
    m = re.search(r'for _, e := range confirmed \{\s*wormholeMsg, err := ToWormholeMessage\(e\.Fields, e\.txId\)\s*if err != nil \{\s*\n[^\n]*\n\s*(return err|continue)\s*\}\s*'
                  r'if !wormholeMsg\.senderId\.equalWith\(w\.tokenBridgeContractId\) \{\s*\n[^\n]*\n\s*continue\s*\}\s*'
                  r'w\.msgChan <- wormholeMsg\.toMessagePublication\(e\.header\)\s*\}\s*return nil', hg)
    if not m:
        raise Broken("handleGovernanceMessages: re-conversion / sender filter / hand-over expression not found")
    if len(re.findall(r'msgChan <-', ro)) != 1:
        raise Broken("reobserve.go: expected exactly one send on msgChan (in handleGovernanceMessages)")
    ho = func_body(ro, r'^func \(w \*Watcher\) handleObsvRequest\(', "handleObsvRequest")
    in_order(ho, [r'txId := hex\.EncodeToString\(req\.TxHash\[0:32\]\)', r'w\.getGovernanceEventsByTxId\(ctx, logger, client, w\.governanceContractAddress, blockHash, txId\)',
                  r'isEventConfirmed\(logger, event\.unconfirmed, event\.header, now, \*currentHeight, w\.isMainnet\)', r'confirmed = append\(confirmed, event\)',
                  r'w\.handleGovernanceMessages\(logger, confirmed\)'], "handleObsvRequest")
    info["reobservation"] = "filters; header; ToWormholeMessage(event.Fields, txId of the request); attestation validation; ...; ToWormholeMessage(e.Fields, e.txId) again (%s on error); sender filter; msgChan <- msg.toMessagePublication(header)" % m.group(1)

    # ---- validateAttestToken: what is compared
    fields = re.search(r'type TokenInfo struct \{\s*TokenId\s+Byte32\s*Decimals\s+uint8\s*Symbol\s+string\s*Name\s+string\s*\}', u)
    if not fields:
        raise Broken("utils.go: TokenInfo is not {TokenId Byte32; Decimals uint8; Symbol string; Name string}")
    va = func_body(w, r'^func \(w \*Watcher\) validateAttestToken\(', "validateAttestToken")
    in_order(va, [r'tokenInfo, err := parseAttestToken\(msg\.payload\)\s*if err != nil \{\s*return err\s*\}',
                  r'tokenInfoFromChain, err := w\.client\.GetTokenInfo\(ctx, tokenInfo\.TokenId\)\s*if err != nil \{\s*return err\s*\}'], "validateAttestToken")
    c = re.search(r'tokenInfoFromChain, err := [^\n]*\n\s*if err != nil \{\s*return err\s*\}\s*if (.+?) \{\s*return fmt\.Errorf\([^\n]*\)\s*\}\s*return nil\s*\}$', va, re.S)
    if not c:
        raise Broken("validateAttestToken: comparison with the token contract's answer not found")
    cond = " ".join(c.group(1).split())
    names = ["TokenId", "Decimals", "Symbol", "Name"]
    if cond == "*tokenInfo != *tokenInfoFromChain":
        cmpd = list(names)
    else:
        cmpd = []
        for part in cond.split("||"):
            part = part.strip()
            mm = re.fullmatch(r'tokenInfo\.(\w+) != tokenInfoFromChain\.\1', part) or re.fullmatch(r'tokenInfoFromChain\.(\w+) != tokenInfo\.\1', part)
            if not mm or mm.group(1) not in names:
                raise Broken("validateAttestToken: comparison %r not understood" % cond)
            cmpd.append(mm.group(1))
    info["attestation_compares"] = cmpd

    # ---- GetTokenInfo: how the answer is assembled
    b = func_body(cl, r'^func \(c \*Client\) GetTokenInfo\(', "GetTokenInfo")
    if not re.search(r'return &TokenInfo\{\s*TokenId:\s*tokenId,\s*Decimals:\s*\*decimals,\s*Symbol:\s*bytesToString\(symbolBs\),\s*Name:\s*bytesToString\(name\),\s*\}, nil', b):
        raise Broken("GetTokenInfo: result literal {tokenId, *decimals, bytesToString(symbolBs), bytesToString(name)} not found")
    ai = re.search(r'var ALPHTokenId Byte32\s*\nvar ALPHTokenInfo TokenInfo = TokenInfo\{\s*TokenId:\s*ALPHTokenId,\s*Decimals:\s*(\d+),\s*Symbol:\s*"([^"\\]*)",\s*Name:\s*"([^"\\]*)",\s*\}', u)
    if not ai:
        raise Broken("utils.go: ALPHTokenId (zero value) / ALPHTokenInfo not found")
    if re.search(r'ALPHTokenId\s*(=|\[)', u.replace("var ALPHTokenId Byte32", "").replace("TokenId:  ALPHTokenId", "").replace("TokenId: ALPHTokenId", "")):
        raise Broken("utils.go: ALPHTokenId is assigned somewhere (the model takes it as the zero Byte32)")
    info["native"] = [ai.group(2), ai.group(3)]

    out = ("(* handleGovernanceMessages converts the fields again before the hand-over; on an error it `%s` *)\n"
           "Definition alph_pipe_reobs_reconvert_aborts : bool := %s.\n"
           "(* validateAttestToken compares (TokenId, Decimals, Symbol, Name) of the parsed payload with GetTokenInfo's answer: `%s` *)\n"
           "Definition alph_pipe_attest_cmp : bool * bool * bool * bool := (%s).\n"
           "(* ALPHTokenInfo: the constant answer for the native token (ALPHTokenId = zero Byte32) *)\n"
           "Definition alph_native_symbol : list byte := %s.\nDefinition alph_native_name : list byte := %s.\n"
           % (m.group(1), "true" if m.group(1) == "return err" else "false", cond,
              ", ".join("true" if n in cmpd else "false" for n in names), gbytes_lit(ai.group(2)), gbytes_lit(ai.group(3))))
    return out, info


EXTRACTORS = [("alph_pipeline", x_alph_pipeline), ("alph_pipe_order", x_alph_pipe_order)]
