"""Constant extractors (Go sources)."""
import re
from extract import rd, Broken

def x_vaa_consts():
    src = rd("node/pkg/vaa/structs.go")
    m = re.search(r'\bminVAALength\s*=\s*(\d+)', src)
    v = re.search(r'\bSupportedVAAVersion\s*=\s*(0x[0-9a-fA-F]+|\d+)', src)
    if not m or not v:
        raise Broken("structs.go: minVAALength / SupportedVAAVersion not found")
    um = src[src.index("func Unmarshal("):src.index("func (v *VAA) signingBody")]
    if not re.search(r'if len\(data\) < minVAALength \{\s*return nil', um):
        raise Broken("Unmarshal: length floor test `len(data) < minVAALength` not found")
    if not re.search(r'if v\.Version != SupportedVAAVersion \{\s*return nil', um):
        raise Broken("Unmarshal: version test not found")
    p = re.search(r'payload := make\(\[\]byte, ([^)]+\)?)\)\s*\n\s*n, err := reader\.Read\(payload\)\s*\n\s*if err != nil \|\| n == 0 \{\s*return nil', um)
    if not p:
        raise Broken("Unmarshal: payload read shape (`payload := make([]byte, N); n, err := reader.Read(payload); if err != nil || n == 0`) not found")
    size = p.group(1).strip()
    if re.fullmatch(r'\d+', size):
        cap_ = "Some %s%%nat" % size
    elif size == "reader.Len()":
        cap_ = "None"
    else:
        raise Broken("Unmarshal: payload buffer size expression %r not understood" % size)
    out = ("Definition vaa_min_len : nat := %s%%nat.\nDefinition vaa_version : Z := %d.\n"
           "(* payload buffer of Unmarshal: Some n = fixed n-byte buffer, None = sized by the remaining input *)\n"
           "Definition vaa_paycap : option nat := %s.\n" % (m.group(1), int(v.group(1), 0), cap_))
    return out, {"minVAALength": int(m.group(1)), "version": int(v.group(1), 0), "payload_buffer": size}

EXTRACTORS = [("vaa_consts", x_vaa_consts)]
