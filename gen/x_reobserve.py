"""Extractor for C17: the re-observation dispatcher (node/cmd/guardiand/reobserve.go), the non-blocking post
(node/pkg/common/obsvReqSendC.go) and the wiring of the queues (node/cmd/guardiand/node.go)."""
import re
from extract import rd, Broken

UNIT = {"Nanosecond": 1, "Microsecond": 10**3, "Millisecond": 10**6, "Second": 10**9, "Minute": 60 * 10**9, "Hour": 3600 * 10**9}


def dur(n, unit):
    if unit not in UNIT:
        raise Broken("duration unit time.%s not understood" % unit)
    return int(n) * UNIT[unit]


def x_reobserve():
    src = rd("node/cmd/guardiand/reobserve.go")
    try:
        fn = src[src.index("func handleReobservationRequests("):]
    except ValueError:
        raise Broken("reobserve.go: handleReobservationRequests not found")
    info = {}
    # --- purge ticker and window
    m = re.search(r'ticker := clock\.Ticker\((\d+) ?\* ?time\.(\w+)\)', fn)
    if not m:
        raise Broken("reobserve.go: `ticker := clock.Ticker(N * time.Unit)` not found")
    period = dur(m.group(1), m.group(2))
    m = re.search(r'case <-ticker\.C:\s*now := clock\.Now\(\)\s*for r, t := range cache \{\s*if now\.Sub\(t\) (>=|>) (\d+) ?\* ?time\.(\w+) \{\s*delete\(cache, r\)\s*\}\s*\}', fn)
    if not m:
        raise Broken("reobserve.go: purge loop `for r, t := range cache { if now.Sub(t) > N*time.Unit { delete(cache, r) } }` not found")
    strict = m.group(1) == ">"
    window = dur(m.group(2), m.group(3))
    info.update(period_ns=period, window_ns=window, purge_cmp=m.group(1))
    # --- the request branch
    m = re.search(r'case req := <-obsvReqC:(.*)\n\t\t\}\n\t\}\n\}', fn, re.S)
    if not m:
        raise Broken("reobserve.go: `case req := <-obsvReqC:` branch not found")
    br = m.group(1)
    if not re.search(r'r := cachedRequest\{\s*chainId: vaa\.ChainID\(req\.ChainId\),\s*txHash:\s*hex\.EncodeToString\(req\.TxHash\),\s*\}', br):
        raise Broken("reobserve.go: cache key (vaa.ChainID(req.ChainId), hex.EncodeToString(req.TxHash)) not found")
    mdup = re.search(r'if _, ok := cache\[r\]; ok \{(?:[^{}]|\{[^{}]*\})*?continue\s*\}', br, re.S)
    if not mdup:
        raise Broken("reobserve.go: duplicate test `if _, ok := cache[r]; ok { ...; continue }` not found")
    rest = br[mdup.end():]
    mch = re.search(r'if channel, ok := chainObsvReqC\[r\.chainId\]; ok \{(.*)\} else \{', rest, re.S)
    if not mch:
        raise Broken("reobserve.go: `if channel, ok := chainObsvReqC[r.chainId]; ok { ... } else { ... }` not found")
    body = mch.group(1)
    # shapes understood: non-blocking select with default, or a plain (blocking) send; remember inside the send branch,
    # or unconditionally before / after the send
    sel = re.search(r'select \{\s*case channel <- req:(.*?)\n\t\t\t\t(?:default:)(.*?)\n\t\t\t\t\}', body, re.S)
    if sel:
        nonblocking = True
        in_branch = bool(re.search(r'cache\[r\] = clock\.Now\(\)', sel.group(1)))
        outside = body[:sel.start()] + body[sel.end():]
        before = bool(re.search(r'cache\[r\] = clock\.Now\(\)', body[:sel.start()]))
        after = bool(re.search(r'cache\[r\] = clock\.Now\(\)', body[sel.end():]))
        if re.search(r'channel <- req', outside):
            raise Broken("reobserve.go: a second send to the watcher queue outside the select")
        if re.search(r'cache\[r\] = clock\.Now\(\)', sel.group(2)):
            raise Broken("reobserve.go: the request is remembered in the default (queue full) branch")
    elif re.search(r'\n\s*channel <- req\n', body):
        nonblocking = False
        in_branch = False
        i = re.search(r'\n\s*channel <- req\n', body).start()
        before = bool(re.search(r'cache\[r\] = clock\.Now\(\)', body[:i]))
        after = bool(re.search(r'cache\[r\] = clock\.Now\(\)', body[i:]))
    else:
        raise Broken("reobserve.go: send to the watcher queue not found in a shape that is understood")
    if [in_branch, before, after].count(True) != 1:
        raise Broken("reobserve.go: `cache[r] = clock.Now()` expected exactly once around the send (found in-branch=%s before=%s after=%s)" % (in_branch, before, after))
    remember = "RememberOnSend" if (in_branch or (after and not nonblocking)) else ("RememberAlways")
    if after and nonblocking:
        remember = "RememberAlways"
    info.update(send_nonblocking=nonblocking, remember=remember)
    out = "(* reobserve.go: clock.Ticker(%s); purge when now.Sub(t) %s %s; send %s; %s *)\n" % (
        period, "(>)" if strict else "(>=)", window, "non-blocking (select/default)" if nonblocking else "BLOCKING", remember)
    out += "Definition reobs_period : Z := %d.\nDefinition reobs_window : Z := %d.\n" % (period, window)
    out += "Definition reobs_purge (age : Z) : bool := %s.\n" % ("Z.ltb reobs_window age" if strict else "Z.leb reobs_window age")
    out += "Definition reobs_send_nonblocking : bool := %s.\n" % ("true" if nonblocking else "false")
    out += "Definition reobs_remember_always : bool := %s.\n" % ("true" if remember == "RememberAlways" else "false")
    # --- PostObservationRequest
    c = rd("node/pkg/common/obsvReqSendC.go")
    m = re.search(r'const ObsvReqChannelSize = (\d+)', c)
    if not m:
        raise Broken("obsvReqSendC.go: const ObsvReqChannelSize not found")
    size = int(m.group(1))
    mp = re.search(r'func PostObservationRequest\(obsvReqSendC chan<- \*gossipv1\.ObservationRequest, req \*gossipv1\.ObservationRequest\) error \{(.*?)\n\}', c, re.S)
    if not mp:
        raise Broken("obsvReqSendC.go: PostObservationRequest not found")
    pb = mp.group(1)
    if re.fullmatch(r'\s*select \{\s*case obsvReqSendC <- req:\s*return nil\s*default:\s*return ErrChanFull\s*\}', pb):
        post_nb, post_atomic = True, True
    elif re.fullmatch(r'\s*obsvReqSendC <- req\s*return nil', pb):
        post_nb, post_atomic = False, True
    elif re.fullmatch(r'\s*if len\(obsvReqSendC\) >= cap\(obsvReqSendC\) \{\s*return ErrChanFull\s*\}\s*obsvReqSendC <- req\s*return nil', pb):
        # fullness test and send are two steps: a single caller never blocks, two callers racing for the last slot can
        post_nb, post_atomic = True, False
    else:
        raise Broken("obsvReqSendC.go: PostObservationRequest body is neither the select/default, a test of len/cap followed by a send, nor a plain send")
    out += "Definition obsv_req_channel_size : Z := %d.\nDefinition post_nonblocking : bool := %s.\n" % (size, "true" if post_nb else "false")
    out += "(* the fullness test and the send are one atomic step (select with default) *)\nDefinition post_atomic : bool := %s.\n" % ("true" if post_atomic else "false")
    info["post_atomic"] = post_atomic
    info.update(channel_size=size, post_nonblocking=post_nb)
    # --- wiring: the queues are made with these sizes, the callers use PostObservationRequest, never a raw send
    n = rd("node/cmd/guardiand/node.go")
    m = re.search(r'const observationRequestBufferSize = (\d+)', n)
    if not m:
        raise Broken("node.go: const observationRequestBufferSize not found")
    out += "Definition watcher_queue_size : Z := %s.\n" % m.group(1)
    info["watcher_queue_size"] = int(m.group(1))
    for pat, what in ((r'obsvReqC := make\(chan \*gossipv1\.ObservationRequest, common\.ObsvReqChannelSize\)', "obsvReqC capacity"),
                      (r'obsvReqSendC := make\(chan \*gossipv1\.ObservationRequest, common\.ObsvReqChannelSize\)', "obsvReqSendC capacity"),
                      (r'go handleReobservationRequests\(rootCtx, clock\.New\(\), logger, obsvReqC, chainObsvReqC\)', "dispatcher start")):
        if not re.search(pat, n):
            raise Broken("node.go: %s — shape not found" % what)
    if len(re.findall(r'chainObsvReqC\[vaa\.ChainID\w+\] = make\(chan \*gossipv1\.ObservationRequest, observationRequestBufferSize\)', n)) < 1:
        raise Broken("node.go: watcher queues made with observationRequestBufferSize not found")
    for rel in ("node/pkg/processor/cleanup.go", "node/cmd/guardiand/adminserver.go"):
        t = rd(rel)
        if re.search(r'obsvReqSendC <-', t):
            raise Broken("%s: raw (blocking) send on obsvReqSendC" % rel)
        if not re.search(r'common\.PostObservationRequest\((?:p|s)\.obsvReqSendC, ', t):
            raise Broken("%s: call of common.PostObservationRequest not found" % rel)
    return out, info


EXTRACTORS = [("reobserve", x_reobserve)]
