"""Extractors for extension X8 (C10): from the raw EVM log to the message handed to the signer.

evm_log_abi       node/pkg/ethereum/abi/abi.go: the LogMessagePublished entry of the ABI JSON (inputs in order: name, type,
                  indexed), the Go struct abigen fills, Parse/WatchLogMessagePublished = UnpackLog + `event.Raw = log`, a failing
                  UnpackLog ends the subscription (`return err`)
evm_log_unpack    go-ethereum (version named by node/go.mod, module cache) accounts/abi: what UnpackLog / toGoType /
                  lengthPrefixPointsTo / ReadInteger / ParseTopics check and in which order (the model's decoder is written over
                  these flags: e.g. this version reads a uint16 from the last two bytes of its word WITHOUT looking at the padding)
evm_log_literals  watcher.go / by_transaction.go / utils.go: the common.MessagePublication literal of BOTH paths field by field
                  (translated expression by expression), the pendingKey / pendingMessage literals, PadAddress
evm_log_sol       ethereum/contracts/Implementation.sol: the event declaration and the arguments of the `emit` in publishMessage
All go to coq/gen/ExtractedEvmLog.v (own file).  model/EvmLog.v is written over these definitions; proofs/EvmLogProofs.v proves
the fidelity theorems for the generated values (Nonce / Sequence swapped, TargetChain from another field, PadAddress padding on
the right, a timestamp in milliseconds, EmitterChain from another source on one path, the payload sliced: the generated
definitions change with the source and the theorems stop proving, while the harness shows the concrete message)."""
import json, os, re
from extract import rd, Broken

TARGET = "ExtractedEvmLog"
HEADER = ("From Coq Require Import List ZArith Bool Strings.Byte Strings.String.\nFrom WH Require Import lib.Bytes lib.EvmAbi.\n"
          "Import ListNotations.\nOpen Scope Z_scope.\n\n")

FLD = {"sender": "FSender", "targetChainId": "FTarget", "sequence": "FSeq", "nonce": "FNonce", "payload": "FPayload", "consistencyLevel": "FCl"}


def _aty(t):
    m = re.fullmatch(r'uint(\d+)', t)
    if m and int(m.group(1)) % 8 == 0 and 8 <= int(m.group(1)) <= 256:
        return "TUint %d" % int(m.group(1))
    if t == "address":
        return "TAddress"
    if t == "bytes":
        return "TBytes"
    raise Broken("LogMessagePublished: input type %r is not one the model knows (uintN, address, bytes)" % t)


def _inputs_gallina(inputs):
    out = []
    for name, typ, indexed in inputs:
        if name not in FLD:
            raise Broken("LogMessagePublished: unknown input name %r" % name)
        out.append("(%s, %s, %s)" % (FLD[name], _aty(typ), "true" if indexed else "false"))
    if sorted(n for n, _, _ in inputs) != sorted(FLD):
        raise Broken("LogMessagePublished: inputs %s are not exactly %s" % ([n for n, _, _ in inputs], sorted(FLD)))
    return "[" + "; ".join(out) + "]"


def _block(src, start, what, open_ch="{", close_ch="}"):
    i = src.find(open_ch, start)
    if i < 0:
        raise Broken("%s: no block found" % what)
    depth, j = 0, i
    while j < len(src):
        c = src[j]
        if c == open_ch:
            depth += 1
        elif c == close_ch:
            depth -= 1
            if depth == 0:
                return src[i:j + 1]
        j += 1
    raise Broken("%s: unbalanced block" % what)


# ---------------------------------------------------------------- abi.go
def x_evm_log_abi():
    src = rd("node/pkg/ethereum/abi/abi.go")
    m = re.search(r'const AbiABI = "((?:[^"\\]|\\.)*)"', src)
    if not m:
        raise Broken("abi.go: const AbiABI not found")
    try:
        abi = json.loads(json.loads('"' + m.group(1) + '"'))
    except ValueError as e:
        raise Broken("abi.go: AbiABI is not JSON: %s" % e)
    evs = [x for x in abi if x.get("type") == "event" and x.get("name") == "LogMessagePublished"]
    if len(evs) != 1:
        raise Broken("abi.go: %d LogMessagePublished events in the ABI" % len(evs))
    ev = evs[0]
    if ev.get("anonymous"):
        raise Broken("abi.go: LogMessagePublished is anonymous (no signature topic)")
    inputs = [(i["name"], i["type"], bool(i.get("indexed"))) for i in ev["inputs"]]
    sig = "LogMessagePublished(" + ",".join(t for _, t, _ in inputs) + ")"
    # the struct UnpackLog copies into (by field name = capitalised input name)
    sm = re.search(r'type AbiLogMessagePublished struct \{(.*?)\n\}', src, re.S)
    if not sm:
        raise Broken("abi.go: type AbiLogMessagePublished not found")
    fields = dict(re.findall(r'^\s*(\w+)\s+([\w\.\[\]]+)', sm.group(1), re.M))
    want = {"Sender": "common.Address", "TargetChainId": "uint16", "Sequence": "uint64", "Nonce": "uint32", "Payload": "[]byte",
            "ConsistencyLevel": "uint8", "Raw": "types.Log"}
    gotypes = {"address": "common.Address", "bytes": "[]byte"}
    for name, typ, _ in inputs:
        g = name[0].upper() + name[1:]
        if fields.get(g) != gotypes.get(typ, typ):
            raise Broken("abi.go: struct field %s has type %r, the ABI input %s has type %s" % (g, fields.get(g), name, typ))
    if fields != want:
        raise Broken("abi.go: AbiLogMessagePublished fields %s differ from %s" % (fields, want))
    # Parse / Watch
    pm = re.search(r'func \(_Abi \*AbiFilterer\) ParseLogMessagePublished\(log types\.Log\) \(\*AbiLogMessagePublished, error\) ', src)
    if not pm:
        raise Broken("abi.go: ParseLogMessagePublished not found")
    pb = _block(src, pm.end() - 1, "ParseLogMessagePublished")
    if not re.search(r'event := new\(AbiLogMessagePublished\)\s*\n\s*if err := _Abi\.contract\.UnpackLog\(event, "LogMessagePublished", log\); err != nil \{\s*\n\s*return nil, err\s*\n\s*\}\s*\n\s*event\.Raw = log\s*\n\s*return event, nil', pb):
        raise Broken("abi.go: ParseLogMessagePublished is not `UnpackLog(event, \"LogMessagePublished\", log)`; error -> (nil, err); event.Raw = log")
    wm = re.search(r'func \(_Abi \*AbiFilterer\) WatchLogMessagePublished\(', src)
    if not wm:
        raise Broken("abi.go: WatchLogMessagePublished not found")
    wb = _block(src, src.index(") (event.Subscription, error)", wm.end()), "WatchLogMessagePublished")
    if not re.search(r'_Abi\.contract\.WatchLogs\(opts, "LogMessagePublished", senderRule\)', wb):
        raise Broken("abi.go: WatchLogMessagePublished does not subscribe with WatchLogs(opts, \"LogMessagePublished\", ..)")
    if not re.search(r'case log := <-logs:\s*\n(?:\s*//[^\n]*\n)*\s*event := new\(AbiLogMessagePublished\)\s*\n\s*if err := _Abi\.contract\.UnpackLog\(event, "LogMessagePublished", log\); err != nil \{\s*\n\s*return err\s*\n\s*\}\s*\n\s*event\.Raw = log', wb):
        raise Broken("abi.go: WatchLogMessagePublished: `UnpackLog(..); err -> return err (the subscription ends); event.Raw = log` not found")
    out = ["(* abi.go, ABI JSON: event %s *)" % sig,
           "Definition evm_abi_lmp : list ainput := %s." % _inputs_gallina(inputs),
           "Definition evm_abi_lmp_sig : list byte := list_byte_of_string \"%s\"." % sig]
    return "\n".join(out) + "\n", {"signature": sig, "inputs": inputs}


# ---------------------------------------------------------------- go-ethereum accounts/abi (module cache)
def x_evm_log_unpack():
    from x_keccak import modcache, modversion, escape_mod
    gomod = rd("node/go.mod")
    gp, gv = modversion(gomod, "github.com/ethereum/go-ethereum")
    d = os.path.join(modcache(), escape_mod(gp) + "@" + gv, "accounts", "abi")

    def rdm(rel):
        try:
            return open(os.path.join(d, rel)).read()
        except OSError as e:
            raise Broken("go-ethereum %s: cannot read accounts/abi/%s: %s" % (gv, rel, e))
    base = rdm("bind/base.go")
    m = re.search(r'func \(c \*BoundContract\) UnpackLog\(out interface\{\}, event string, log types\.Log\) error ', base)
    if not m:
        raise Broken("bind/base.go: UnpackLog not found")
    ub = _block(base, m.end() - 1, "UnpackLog")
    p_sig = re.search(r'if log\.Topics\[0\] != c\.abi\.Events\[event\]\.ID \{\s*\n\s*return fmt\.Errorf\("event signature mismatch"\)', ub)
    p_data = re.search(r'if len\(log\.Data\) > 0 \{\s*\n\s*if err := c\.abi\.UnpackIntoInterface\(out, event, log\.Data\); err != nil \{\s*\n\s*return err', ub)
    p_top = re.search(r'return abi\.ParseTopics\(out, indexed, log\.Topics\[1:\]\)', ub)
    if not (p_sig and p_data and p_top and p_sig.start() < p_data.start() < p_top.start()):
        raise Broken("bind/base.go: UnpackLog is not `Topics[0] != ID -> error; if len(Data) > 0 { UnpackIntoInterface }; ParseTopics(Topics[1:])`")
    if len(re.findall(r'log\.Topics\b', ub)) != 2 or "len(log.Topics)" in ub:
        raise Broken("bind/base.go: UnpackLog touches log.Topics in another way than Topics[0] and Topics[1:] (the model's panic outcome on an empty topic list)")
    arg = rdm("argument.go")
    if not re.search(r'func \(arguments Arguments\) UnpackValues\(data \[\]byte\) \(\[\]interface\{\}, error\) \{\s*\n\s*nonIndexedArgs := arguments\.NonIndexed\(\)', arg) or \
       not re.search(r'for index, arg := range nonIndexedArgs \{\s*\n\s*marshalledValue, err := toGoType\(\(index\+virtualArgs\)\*32, arg\.Type, data\)', arg):
        raise Broken("argument.go: UnpackValues does not read argument i at (i+virtualArgs)*32 through toGoType")
    unp = rdm("unpack.go")
    tm = re.search(r'func toGoType\(index int, t Type, output \[\]byte\) \(interface\{\}, error\) ', unp)
    if not tm:
        raise Broken("unpack.go: toGoType not found")
    tb = _block(unp, tm.end() - 1, "toGoType")
    if not re.search(r'^\{\s*\n\s*if index\+32 > len\(output\) \{\s*\n\s*return nil, fmt\.Errorf\("abi: cannot marshal in to go type: length insufficient', tb):
        raise Broken("unpack.go: toGoType does not start with `if index+32 > len(output) { error }`")
    for pat, what in [(r'if t\.requiresLengthPrefix\(\) \{\s*\n\s*begin, length, err = lengthPrefixPointsTo\(index, output\)', "length-prefixed types go through lengthPrefixPointsTo(index, output)"),
                      (r'returnOutput = output\[index : index\+32\]', "static types read output[index : index+32]"),
                      (r'case IntTy, UintTy:\s*\n\s*return ReadInteger\(t, returnOutput\)(, nil)?', "integers through ReadInteger"),
                      (r'case AddressTy:\s*\n\s*return common\.BytesToAddress\(returnOutput\), nil', "addresses through common.BytesToAddress(word)"),
                      (r'case BytesTy:\s*\n\s*return output\[begin : begin\+length\], nil', "bytes = output[begin : begin+length]")]:
        if not re.search(pat, tb):
            raise Broken("unpack.go: toGoType: %s not found" % what)
    rm = re.search(r'func ReadInteger\(typ Type, b \[\]byte\) (\(interface\{\}, error\)|interface\{\}) ', unp)
    if not rm:
        raise Broken("unpack.go: ReadInteger not found")
    rb = _block(unp, rm.end() - 1, "ReadInteger")
    plain = all(re.search(p, rb) for p in [r'case 8:\s*\n\s*return b\[len\(b\)-1\]\n', r'case 16:\s*\n\s*return binary\.BigEndian\.Uint16\(b\[len\(b\)-2:\]\)\n',
                                           r'case 32:\s*\n\s*return binary\.BigEndian\.Uint32\(b\[len\(b\)-4:\]\)\n', r'case 64:\s*\n\s*return binary\.BigEndian\.Uint64\(b\[len\(b\)-8:\]\)\n'])
    checked = bool(re.search(r'errBadUint8|errBadUint16|IsUint64\(\)', rb))
    if plain == checked:
        raise Broken("unpack.go: ReadInteger is neither the unchecked low-bytes read nor the padding-checking one")
    lm = re.search(r'func lengthPrefixPointsTo\(index int, output \[\]byte\) \(start int, length int, err error\) ', unp)
    if not lm:
        raise Broken("unpack.go: lengthPrefixPointsTo not found")
    lb = _block(unp, lm.end() - 1, "lengthPrefixPointsTo")
    steps = [r'bigOffsetEnd := new\(big\.Int\)\.SetBytes\(output\[index : index\+32\]\)', r'bigOffsetEnd\.Add\(bigOffsetEnd, common\.Big32\)',
             r'if bigOffsetEnd\.Cmp\(outputLength\) > 0 \{', r'if bigOffsetEnd\.BitLen\(\) > 63 \{', r'lengthBig := new\(big\.Int\)\.SetBytes\(output\[offsetEnd-32 : offsetEnd\]\)',
             r'totalSize := new\(big\.Int\)\.Add\(bigOffsetEnd, lengthBig\)', r'if totalSize\.BitLen\(\) > 63 \{', r'if totalSize\.Cmp\(outputLength\) > 0 \{',
             r'start = int\(bigOffsetEnd\.Uint64\(\)\)', r'length = int\(lengthBig\.Uint64\(\)\)']
    pos = []
    for p in steps:
        mm = re.search(p, lb)
        if not mm:
            raise Broken("unpack.go: lengthPrefixPointsTo: `%s` not found" % p.replace("\\", ""))
        pos.append(mm.start())
    if pos != sorted(pos):
        raise Broken("unpack.go: lengthPrefixPointsTo: the offset / length checks are not in the order the model has them")
    top = rdm("topics.go")
    if not re.search(r'if len\(fields\) != len\(topics\) \{\s*\n\s*return errors\.New\("topic/field count mismatch"\)', top) or \
       not re.search(r'reconstr, err = toGoType\(0, arg\.Type, topics\[i\]\.Bytes\(\)\)', top):
        raise Broken("topics.go: parseTopicWithSetter is not `len(fields) != len(topics) -> error; toGoType(0, type, topic)`")
    out = ["(* go-ethereum %s accounts/abi: ReadInteger %s *)" % (gv, "reads the low bytes of the word and ignores the rest" if plain else "rejects a word whose padding is not zero"),
           "Definition evm_abi_uint_checks_padding : bool := %s." % ("false" if plain else "true"),
           "(* bind/base.go UnpackLog: Topics[0] (no length check) != event ID -> error; the data is unpacked only `if len(log.Data) > 0`; then ParseTopics(Topics[1:]) *)",
           "Definition evm_abi_empty_data_skips_unpack : bool := true."]
    return "\n".join(out) + "\n", {"go_ethereum": gv, "uint_padding_checked": not plain}


# ---------------------------------------------------------------- the MessagePublication / pendingKey literals and PadAddress
CASTS = {"uint8": "to_u8", "uint16": "to_u16", "uint32": "to_u32", "uint64": "to_u64", "vaa.ChainID": "to_u16"}
EVNUM = {"ev.Nonce": "x_nonce e", "ev.Sequence": "x_seq e", "ev.TargetChainId": "x_target e", "ev.ConsistencyLevel": "x_cl e"}


def _num(expr, chain_names, what):
    """a numeric field of the literal: an event field or the watcher's chain id, possibly under integer conversions"""
    expr = expr.strip()
    m = re.fullmatch(r'(uint8|uint16|uint32|uint64|vaa\.ChainID)\((.*)\)', expr)
    if m:
        return "%s (%s)" % (CASTS[m.group(1)], _num(m.group(2), chain_names, what))
    if expr in EVNUM:
        return EVNUM[expr]
    if expr in chain_names:
        return "chain"
    raise Broken("%s: expression %r not understood" % (what, expr))


def _ts(expr, what):
    expr = "".join(expr.split())
    forms = {"time.Unix(int64(blockTime),0)": "to_i64 bt",
             "time.UnixMilli(int64(blockTime))": "to_i64 bt / 1000",
             "time.Unix(int64(blockTime)/1000,0)": "Z.quot (to_i64 bt) 1000",
             "time.Unix(int64(blockTime*1000),0)": "to_i64 (to_u64 (bt * 1000))",
             "time.Unix(int64(blockTime)*1000,0)": "to_i64 (to_i64 bt * 1000)",
             "time.Unix(0,int64(blockTime))": "to_i64 bt / 1000000000"}
    if expr not in forms:
        raise Broken("%s: Timestamp expression %r not understood" % (what, expr))
    return forms[expr]


def _hash(expr, what):
    expr = expr.strip()
    forms = {"ev.Raw.TxHash": "tx", "ev.Raw.BlockHash": "bh", "l.TxHash": "tx", "l.BlockHash": "bh"}
    if expr not in forms:
        raise Broken("%s: hash expression %r not understood" % (what, expr))
    return forms[expr]


def _payload(expr, what):
    expr = "".join(expr.split())
    if expr == "ev.Payload":
        return "x_payload e"
    m = re.fullmatch(r'ev\.Payload\[(\d*):(\d*)\]', expr)
    if m:
        # a slice expression (out-of-range slicing panics in Go; the translation below does not model the panic)
        g = "x_payload e"
        if m.group(2):
            g = "firstn %s%%nat (%s)" % (m.group(2), g)
        if m.group(1):
            g = "skipn %s%%nat (%s)" % (m.group(1), g)
        return g
    raise Broken("%s: Payload expression %r not understood" % (what, expr))


def _split_fields(body, what):
    """`{ A: x, B: f(y, z), }` -> {A: 'x', B: 'f(y, z)'}"""
    inner = body.strip()[1:-1]
    parts, depth, cur = [], 0, ""
    for c in inner:
        if c in "([{":
            depth += 1
        elif c in ")]}":
            depth -= 1
        if c == "," and depth == 0:
            parts.append(cur)
            cur = ""
        else:
            cur += c
    if cur.strip():
        parts.append(cur)
    out = {}
    for p in parts:
        p = re.sub(r'//[^\n]*', '', p).strip()
        if not p:
            continue
        m = re.fullmatch(r'(\w+):\s*(.*)', p, re.S)
        if not m or m.group(1) in out:
            raise Broken("%s: field %r not understood" % (what, p))
        out[m.group(1)] = " ".join(m.group(2).split())
    return out


def _msg_literal(text, what, chain_names):
    ms = list(re.finditer(r'&common\.MessagePublication', text))
    if len(ms) != 1:
        raise Broken("%s: %d MessagePublication literals (expected 1)" % (what, len(ms)))
    f = _split_fields(_block(text, ms[0].end(), what), what)
    want = ["TxHash", "Timestamp", "Nonce", "Sequence", "EmitterChain", "TargetChain", "EmitterAddress", "Payload", "ConsistencyLevel"]
    if sorted(f) != sorted(want):
        raise Broken("%s: MessagePublication fields %s (expected %s)" % (what, sorted(f), sorted(want)))
    em = "".join(f["EmitterAddress"].split())
    if em != "PadAddress(ev.Sender)":
        raise Broken("%s: EmitterAddress expression %r not understood" % (what, f["EmitterAddress"]))
    g = ("{| xm_tx := %s; xm_ts := %s; xm_nonce := %s; xm_seq := %s; xm_chain := %s; xm_target := %s; xm_em := evm_pad_address (x_sender e); "
         "xm_payload := %s; xm_cl := %s |}" % (_hash(f["TxHash"], what), _ts(f["Timestamp"], what), _num(f["Nonce"], chain_names, what + " Nonce"),
                                            _num(f["Sequence"], chain_names, what + " Sequence"), _num(f["EmitterChain"], chain_names, what + " EmitterChain"),
                                            _num(f["TargetChain"], chain_names, what + " TargetChain"), _payload(f["Payload"], what),
                                            _num(f["ConsistencyLevel"], chain_names, what + " ConsistencyLevel")))
    return g, f


def x_evm_log_literals():
    w = rd("node/pkg/ethereum/watcher.go")
    lh = re.search(r'case ev := <-messageC:', w)
    if not lh:
        raise Broken("watcher.go: log handler `case ev := <-messageC:` not found")
    end = w.find("// Watch headers", lh.end())
    lhb = w[lh.end():end if end > 0 else len(w)]
    g_log, f_log = _msg_literal(lhb, "watcher.go log handler", ("w.chainID",))
    if not re.search(r'blockTime, err := w\.ethConn\.TimeOfBlockByHash\(timeout, ev\.Raw\.BlockHash\)', lhb):
        raise Broken("watcher.go log handler: block time is not that of ev.Raw.BlockHash")
    km = re.search(r'key := pendingKey', lhb)
    if not km:
        raise Broken("watcher.go log handler: `key := pendingKey{..}` not found")
    kf = _split_fields(_block(lhb, km.end(), "pendingKey literal"), "pendingKey literal")
    ksrc = {"message.TxHash": "xm_tx m", "message.EmitterAddress": "xm_em m", "message.Sequence": "xm_seq m", "ev.Raw.BlockHash": "bh", "ev.Raw.TxHash": "tx",
            "ev.Sequence": "x_seq e"}
    if sorted(kf) != ["BlockHash", "EmitterAddress", "Sequence", "TxHash"]:
        raise Broken("watcher.go: pendingKey fields %s (expected TxHash, BlockHash, EmitterAddress, Sequence)" % sorted(kf))
    for k, v in kf.items():
        if v not in ksrc:
            raise Broken("watcher.go: pendingKey.%s = %r not understood" % (k, v))
    pm = re.search(r'w\.pending\[key\] = &pendingMessage', lhb)
    if not pm:
        raise Broken("watcher.go log handler: `w.pending[key] = &pendingMessage{..}` not found")
    pf = _split_fields(_block(lhb, pm.end(), "pendingMessage literal"), "pendingMessage literal")
    if pf != {"message": "message", "height": "ev.Raw.BlockNumber"}:
        raise Broken("watcher.go: pendingMessage literal %s is not {message: message, height: ev.Raw.BlockNumber}" % pf)
    # by_transaction.go
    b = rd("node/pkg/ethereum/by_transaction.go")
    sigm = re.search(r'func MessageEventsForTransaction\(\s*ctx context\.Context,\s*ethConn Connector,\s*contract eth_common\.Address,\s*chainId vaa\.ChainID,\s*tx eth_common\.Hash\)', b)
    if not sigm:
        raise Broken("by_transaction.go: MessageEventsForTransaction(ctx, ethConn, contract, chainId, tx) not found")
    loop = re.search(r'for _, l := range receipt\.Logs ', b)
    if not loop:
        raise Broken("by_transaction.go: log loop not found")
    lb = _block(b, loop.end() - 1, "log loop")
    g_rc, f_rc = _msg_literal(lb, "by_transaction.go log loop", ("chainId",))
    if not re.search(r'ev, err := ethConn\.ParseLogMessagePublished\(\*l\)\s*\n\s*if err != nil \{\s*\n\s*return 0, nil, fmt\.Errorf\("failed to parse log', lb):
        raise Broken("by_transaction.go: `ev, err := ethConn.ParseLogMessagePublished(*l); err -> return 0, nil, error` not found")
    if not re.search(r'blockTime, err := ethConn\.TimeOfBlockByHash\(ctx, receipt\.BlockHash\)', b):
        raise Broken("by_transaction.go: block time is not that of receipt.BlockHash")
    if not re.search(r'msgs = append\(msgs, message\)', lb):
        raise Broken("by_transaction.go: msgs = append(msgs, message) not found")
    # the caller passes the watcher's own contract and chain id
    if not re.search(r'MessageEventsForTransaction\(timeout, w\.ethConn, w\.contract, w\.chainID, tx\)', w):
        raise Broken("watcher.go: MessageEventsForTransaction(timeout, w.ethConn, w.contract, w.chainID, tx) not found")
    c = rd("node/pkg/ethereum/connector.go")
    if not re.search(r'func \(e \*EthereumConnector\) ParseLogMessagePublished\(log ethTypes\.Log\) \(\*ethAbi\.AbiLogMessagePublished, error\) \{\s*\n\s*return e\.filterer\.ParseLogMessagePublished\(log\)', c) or \
       not re.search(r'return e\.filterer\.WatchLogMessagePublished\(&ethBind\.WatchOpts\{Context: timeout\}, sink, nil\)', c):
        raise Broken("connector.go: Parse / WatchLogMessagePublished are not the abigen filterer's")
    # utils.go
    u = rd("node/pkg/ethereum/utils.go")
    um = re.search(r'func PadAddress\(address common\.Address\) vaa\.Address ', u)
    if not um:
        raise Broken("utils.go: PadAddress not found")
    ub = _block(u, um.end() - 1, "PadAddress")
    pp = re.search(r'paddedAddress := common\.(LeftPadBytes|RightPadBytes)\(address\[:\], (\d+)\)\s*\n\s*addr := vaa\.Address\{\}\s*\n\s*copy\(addr\[:\], paddedAddress\)\s*\n\s*return addr', ub)
    if not pp:
        raise Broken("utils.go: PadAddress is not `padded := common.Left/RightPadBytes(address[:], n); addr := vaa.Address{}; copy(addr[:], padded); return addr`")
    pad = "left_pad" if pp.group(1) == "LeftPadBytes" else "right_pad"
    out = ["(* utils.go PadAddress: common.%s(address[:], %s), copied into a vaa.Address *)" % (pp.group(1), pp.group(2)),
           "Definition evm_pad_address (a : bytes) : bytes := copy32 (%s %s%%nat a)." % (pad, pp.group(2)),
           "(* watcher.go log handler: %s *)" % "; ".join("%s: %s" % kv for kv in f_log.items()),
           "Definition evm_msg_of_log (chain : Z) (tx bh : bytes) (bt : Z) (e : xev) : xmsg :=\n  %s." % g_log,
           "(* by_transaction.go MessageEventsForTransaction: %s *)" % "; ".join("%s: %s" % kv for kv in f_rc.items()),
           "Definition evm_msg_of_rcpt_log (chain : Z) (tx bh : bytes) (bt : Z) (e : xev) : xmsg :=\n  %s." % g_rc,
           "(* watcher.go: pendingKey{%s} *)" % ", ".join("%s: %s" % kv for kv in kf.items()),
           "Definition evm_key_of_log (m : xmsg) (tx bh : bytes) (e : xev) : xkey :=\n  {| xk_tx := %s; xk_bh := %s; xk_em := %s; xk_seq := %s |}."
           % (ksrc[kf["TxHash"]], ksrc[kf["BlockHash"]], ksrc[kf["EmitterAddress"]], ksrc[kf["Sequence"]])]
    return "\n".join(out) + "\n", {"log_path": f_log, "reobservation_path": f_rc, "pendingKey": kf, "pad": pp.group(1)}


# ---------------------------------------------------------------- Implementation.sol
def x_evm_log_sol():
    s = rd("ethereum/contracts/Implementation.sol")
    s = re.sub(r'//[^\n]*|/\*.*?\*/', '', s, flags=re.S)
    ds = re.findall(r'\bevent LogMessagePublished\(([^)]*)\)\s*;', s)
    if len(ds) != 1:
        raise Broken("Implementation.sol: %d declarations of event LogMessagePublished" % len(ds))
    inputs = []
    for p in ds[0].split(","):
        m = re.fullmatch(r'\s*(\w+)\s+(indexed\s+)?(\w+)\s*', p)
        if not m:
            raise Broken("Implementation.sol: event parameter %r not understood" % p)
        inputs.append((m.group(3), m.group(1), bool(m.group(2))))
    fm = re.search(r'function publishMessage\(\s*uint16 targetChainId,\s*uint32 nonce,\s*bytes memory payload,\s*uint8 consistencyLevel\s*\) public payable returns \(uint64 sequence\) ', s)
    if not fm:
        raise Broken("Implementation.sol: publishMessage(uint16 targetChainId, uint32 nonce, bytes memory payload, uint8 consistencyLevel) returns (uint64 sequence) not found")
    fb = _block(s, fm.end() - 1, "publishMessage")
    if not re.search(r'sequence = useSequence\(msg\.sender, targetChainId\);', fb):
        raise Broken("Implementation.sol: `sequence = useSequence(msg.sender, targetChainId)` not found")
    es = re.findall(r'\bemit LogMessagePublished\(([^)]*)\)\s*;', fb)
    if len(es) != 1 or len(re.findall(r'\bemit LogMessagePublished\b', s)) != 1:
        raise Broken("Implementation.sol: not exactly one `emit LogMessagePublished(..)` (in publishMessage)")
    srcs = {"msg.sender": "FSender", "targetChainId": "FTarget", "sequence": "FSeq", "nonce": "FNonce", "payload": "FPayload", "consistencyLevel": "FCl"}
    args = []
    for a in es[0].split(","):
        a = a.strip()
        if a not in srcs:
            raise Broken("Implementation.sol: emit argument %r not understood" % a)
        args.append(srcs[a])
    if len(args) != len(inputs):
        raise Broken("Implementation.sol: emit has %d arguments, the event %d parameters" % (len(args), len(inputs)))
    sig = "LogMessagePublished(" + ",".join(t for _, t, _ in inputs) + ")"
    out = ["(* Implementation.sol: event %s; emit LogMessagePublished(%s) *)" % (sig, ", ".join(x.strip() for x in es[0].split(","))),
           "Definition sol_lmp_decl : list ainput := %s." % _inputs_gallina(inputs),
           "(* the value each parameter of the event is given by the emit statement of publishMessage *)",
           "Definition sol_lmp_emit_args : list afld := [%s]." % "; ".join(args),
           "Definition sol_lmp_sig : list byte := list_byte_of_string \"%s\"." % sig]
    return "\n".join(out) + "\n", {"declaration": inputs, "emit": [x.strip() for x in es[0].split(",")]}


EXTRACTORS = [("evm_log_abi", x_evm_log_abi), ("evm_log_unpack", x_evm_log_unpack), ("evm_log_literals", x_evm_log_literals), ("evm_log_sol", x_evm_log_sol)]
