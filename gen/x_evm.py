"""Extractors for the EVM watcher (C10): constants, comparison operators and the ORDER of the tests of the per-head scan
and of the re-observation path, read from node/pkg/ethereum/{watcher,by_transaction}.go on every run.

The Gallina model (coq/model/EvmWatcher.v) is parameterised by what is emitted here, so the model follows the source:
swapping the timeout and depth tests, changing `<=` into `<`, dropping a filter or reading the head after the receipt
changes the generated definitions, and the theorems of props/C10.v (proved for the generated values) stop compiling.
"""
import re
from extract import rd, Broken

CMP = {"<=": "Z.leb a b", "<": "Z.ltb a b", ">=": "Z.geb a b", ">": "Z.gtb a b", "==": "Z.eqb a b"}


def _body(src, start, what):
    """text of the brace block that opens at the first '{' at or after `start`"""
    i = src.find("{", start)
    if i < 0:
        raise Broken("%s: no block found" % what)
    depth = 0
    j = i
    in_str = None
    while j < len(src):
        c = src[j]
        if in_str:
            if c == "\\" and in_str != "`":
                j += 2
                continue
            if c == in_str:
                in_str = None
        elif c in "\"`":
            in_str = c
        elif c == "/" and src[j + 1] == "/":
            j = src.index("\n", j)
            continue
        elif c == "{":
            depth += 1
        elif c == "}":
            depth -= 1
            if depth == 0:
                return src[i:j + 1]
        j += 1
    raise Broken("%s: unbalanced block" % what)


def _pos(text, pattern, what, required=True):
    m = re.search(pattern, text)
    if not m:
        if required:
            raise Broken("%s not found" % what)
        return None
    if len(re.findall(pattern, text)) != 1:
        raise Broken("%s occurs more than once" % what)
    return m


def x_evm_watcher():
    src = rd("node/pkg/ethereum/watcher.go")
    info = {}
    m = re.search(r'\bmaxWaitConfirmations:\s*(\d+)\s*,', src)
    if not m:
        raise Broken("NewEthWatcher: `maxWaitConfirmations: <n>,` not found")
    maxwait = int(m.group(1))
    info["maxWaitConfirmations"] = maxwait

    # ---------------------------------------------------------------- per-head scan
    m = re.search(r'for key, pLock := range w\.pending ', src)
    if not m:
        raise Broken("per-head scan `for key, pLock := range w.pending` not found")
    scan = _body(src, m.end() - 1, "per-head scan")
    # expected confirmations
    me = _pos(scan, r'var expectedConfirmations uint64\s*\n\s*if ([^{]+?) \{\s*\n\s*expectedConfirmations = uint64\(pLock\.message\.ConsistencyLevel\)\s*\n\s*\}',
              "scan: expectedConfirmations assignment")
    cond = " ".join(me.group(1).split())
    if cond == "w.waitForConfirmations && !ev.Safe":
        exp = "if wait && negb safe then cl else 0"
    elif cond == "w.waitForConfirmations":
        exp = "if wait then cl else 0"
    else:
        raise Broken("scan: expectedConfirmations condition %r not understood" % cond)
    info["expected_condition"] = cond
    mt = _pos(scan, r'if pLock\.height\+expectedConfirmations\+w\.maxWaitConfirmations (<=|<|>=|>) blockNumberU \{', "scan: abandonment-window test")
    mr = _pos(scan, r'if pLock\.height\+expectedConfirmations (<=|<|>=|>) blockNumberU \{', "scan: depth test")
    ml = _pos(scan, r'tx, err := w\.ethConn\.TransactionReceipt\(timeout, pLock\.message\.TxHash\)', "scan: receipt lookup")
    mo = _pos(scan, r'if tx == nil \|\| err == rpc\.ErrNoResult \|\| \(err != nil && err\.Error\(\) == "not found"\) \{', "scan: orphan test")
    ms = _pos(scan, r'if tx\.Status (!=|==) (\d+) \{', "scan: status test")
    mh = _pos(scan, r'if tx\.BlockHash (!=|==) key\.BlockHash \{', "scan: block-hash test")
    mf = _pos(scan, r'w\.msgChan <- pLock\.message', "scan: forward")
    if ms.group(1) != "!=" or mh.group(1) != "!=":
        raise Broken("scan: status / block-hash tests are expected in the `!=` (drop) form")
    status_ok = int(ms.group(2))
    # the two shapes of the transient-error branch
    m_old = re.search(r'\n\s*if err != nil \{\s*\n\s*logger\.Warn\("transaction could not be fetched"', scan)
    m_new = re.search(r'\n\s*if err != nil && err != rpc\.ErrNoResult && err\.Error\(\) != "not found" \{', scan)
    if bool(m_old) == bool(m_new):
        raise Broken("scan: transient-error branch: neither (or both) of the two known shapes found")
    mtr = m_old or m_new
    # every delete in the scan must be followed by continue or by the forward
    order = sorted([("timeout", mt.start()), ("depth", mr.start()), ("lookup", ml.start()), ("orphan", mo.start()),
                    ("status", ms.start()), ("transient", mtr.start()), ("hash", mh.start()), ("forward", mf.start())], key=lambda x: x[1])
    names = [n for n, _ in order]
    info["scan_order"] = names
    if names == ["timeout", "depth", "lookup", "orphan", "status", "transient", "hash", "forward"] and m_old:
        timeout_first, transient_first = True, False
        tb = _body(scan, mt.start(), "timeout block")
        if not re.search(r'delete\(w\.pending, key\)\s*\n\s*continue', tb):
            raise Broken("scan: timeout block does not delete+continue")
    elif names == ["depth", "lookup", "transient", "timeout", "orphan", "status", "hash", "forward"] and m_new:
        timeout_first, transient_first = False, True
        trb = _body(scan, mtr.start(), "transient block")
        if mt.start() - mtr.start() > len(trb):
            raise Broken("scan: abandonment-window test is not inside the transient-error branch")
        tb = _body(scan, mt.start(), "timeout block")
        if not re.search(r'delete\(w\.pending, key\)\s*\n\s*continue', tb):
            raise Broken("scan: timeout block does not delete+continue")
        if not re.search(r'continue\s*\n\s*\}$', trb):
            raise Broken("scan: transient-error branch does not end in continue")
    else:
        raise Broken("scan: order of tests %s is neither the original nor the repaired one" % names)
    # depth block must contain everything from the lookup to the forward
    db = _body(scan, mr.start(), "depth block")
    if not (mr.start() < ml.start() and mf.start() < mr.start() + len(db)):
        raise Broken("scan: lookup..forward are not inside the depth block")
    for nm, mm in (("orphan", mo), ("status", ms), ("hash", mh)):
        blk = _body(scan, mm.start(), nm + " block")
        if not re.search(r'delete\(w\.pending, key\)', blk) or not re.search(r'continue\s*\n\s*\}$', blk):
            raise Broken("scan: %s block does not delete and continue" % nm)
    if not re.search(r'delete\(w\.pending, key\)\s*\n\s*w\.msgChan <- pLock\.message', scan):
        raise Broken("scan: forward is not preceded by delete(w.pending, key)")
    if not re.search(r'blockNumberU := ev\.Number\.Uint64\(\)', src):
        raise Broken("scan: blockNumberU := ev.Number.Uint64() not found")

    # ---------------------------------------------------------------- the log handler: key, height, message fields
    lh = re.search(r'case ev := <-messageC:', src)
    if not lh:
        raise Broken("log handler `case ev := <-messageC:` not found")
    lhb = src[lh.end():src.find("// Watch headers", lh.end())]
    for pat, what in [
        (r'blockTime, err := w\.ethConn\.TimeOfBlockByHash\(timeout, ev\.Raw\.BlockHash\)', "block time of ev.Raw.BlockHash"),
        (r'key := pendingKey\{\s*TxHash:\s*message\.TxHash,\s*BlockHash:\s*ev\.Raw\.BlockHash,\s*EmitterAddress:\s*message\.EmitterAddress,\s*Sequence:\s*message\.Sequence,\s*\}', "pendingKey{TxHash, BlockHash, EmitterAddress, Sequence}"),
        (r'w\.pending\[key\] = &pendingMessage\{\s*message:\s*message,\s*height:\s*ev\.Raw\.BlockNumber,\s*\}', "pendingMessage{message, height: ev.Raw.BlockNumber}"),
        (r'TxHash:\s*ev\.Raw\.TxHash,\s*Timestamp:\s*time\.Unix\(int64\(blockTime\), 0\),\s*Nonce:\s*ev\.Nonce,\s*Sequence:\s*ev\.Sequence,\s*EmitterChain:\s*w\.chainID,\s*TargetChain:\s*vaa\.ChainID\(ev\.TargetChainId\),\s*EmitterAddress:\s*PadAddress\(ev\.Sender\),\s*Payload:\s*ev\.Payload,\s*ConsistencyLevel:\s*ev\.ConsistencyLevel,', "MessagePublication fields"),
        (r'w\.pendingMu\.Lock\(\)\s*\n\s*w\.pending\[key\]', "insertion under pendingMu"),
    ]:
        if not re.search(pat, lhb):
            raise Broken("log handler: %s not found" % what)

    # ---------------------------------------------------------------- nothing else touches msgChan / w.pending
    import glob as _glob, os as _os
    from extract import REPO as _REPO
    sends = writes = deletes = 0
    for f in sorted(_glob.glob(_os.path.join(_REPO, "node/pkg/ethereum/*.go"))):
        if f.endswith("_test.go"):
            continue
        t = open(f).read()
        sends += len(re.findall(r'\bmsgChan\s*<-', t))
        writes += len(re.findall(r'\.pending\[[^\]]+\]\s*=[^=]', t))
        deletes += len(re.findall(r'delete\(\s*w\.pending\b', t))
    if sends != 2:
        raise Broken("pkg/ethereum: %d sends on msgChan (expected 2: scan, re-observation)" % sends)
    if writes != 1:
        raise Broken("pkg/ethereum: %d assignments into w.pending (expected 1: the log handler)" % writes)
    if deletes != 5:
        raise Broken("pkg/ethereum: %d delete(w.pending, ..) (expected 5: timeout, orphan, failed, re-mined, forward)" % deletes)
    info["msgChan_sends"] = sends

    # ---------------------------------------------------------------- where the heads come from
    if not re.search(r'useFinalizedBlocks := \(w\.chainID == vaa\.ChainIDEthereum && \(!w\.unsafeDevMode\)\)', src):
        raise Broken("Run: `useFinalizedBlocks := (w.chainID == vaa.ChainIDEthereum && (!w.unsafeDevMode))` not found")
    if not re.search(r'w\.ethConn, err = NewBlockPollConnector\(ctx, baseConnector, [^\n]*?, useFinalizedBlocks\)', src):
        raise Broken("Run: NewBlockPollConnector(.., useFinalizedBlocks) not found")
    if not re.search(r'headerSubscription, err := w\.ethConn\.SubscribeForBlocks\(ctx, headSink\)', src):
        raise Broken("Run: heads are not taken from w.ethConn.SubscribeForBlocks")
    if not re.search(r'block, err := w\.ethConn\.getBlock\(timeout, logger, nil, false\)', src):
        raise Broken("getBlockNumber: w.ethConn.getBlock(timeout, logger, nil, false) not found")

    # ---------------------------------------------------------------- re-observation path
    m = re.search(r'case r := <-w\.obsvReqC:', src)
    if not m:
        raise Broken("re-observation: `case r := <-w.obsvReqC:` not found")
    end = src.find("go func() {", m.end())
    reobs = src[m.end():end if end > 0 else len(src)]
    ph = _pos(reobs, r'blockNumberU, err := w\.getBlockNumber\(logger, ctx\)', "re-observation: head read")
    pr = _pos(reobs, r'blockNumber, msgs, err := MessageEventsForTransaction\(timeout, w\.ethConn, w\.contract, w\.chainID, tx\)', "re-observation: receipt read")
    head_first = ph.start() < pr.start()
    me2 = _pos(reobs, r'var expectedConfirmations uint64\s*\n\s*if ([^{]+?) \{\s*\n\s*expectedConfirmations = uint64\(msg\.ConsistencyLevel\)\s*\n\s*\}',
               "re-observation: expectedConfirmations assignment")
    cond2 = " ".join(me2.group(1).split())
    if cond2 != "w.waitForConfirmations":
        raise Broken("re-observation: expectedConfirmations condition %r not understood" % cond2)
    mc = _pos(reobs, r'if blockNumber\+expectedConfirmations (<=|<|>=|>) blockNumberU \{', "re-observation: depth test")
    rb = _body(reobs, mc.start(), "re-observation depth block")
    if "w.msgChan <- msg" not in rb.split("} else {")[0]:
        raise Broken("re-observation: forward not in the true branch of the depth test")
    if len(re.findall(r'w\.msgChan <- ', src)) != 2:
        raise Broken("watcher.go: expected exactly two sends on msgChan (scan, re-observation)")
    zero = bool(re.search(r'if blockNumberU == 0 \{[^}]*?continue', reobs, re.S))
    info.update({"timeout_before_depth": timeout_first, "transient_before_orphan": transient_first, "depth_cmp": mr.group(1),
                 "window_cmp": mt.group(1), "status_ok": status_ok, "reobs_head_first": head_first, "reobs_cmp": mc.group(1),
                 "reobs_zero_head_guard": zero})
    out = []
    out.append("Definition evm_max_wait : Z := %d." % maxwait)
    out.append("(* scan: `if %s { expectedConfirmations = uint64(ConsistencyLevel) }` *)" % cond)
    out.append("Definition evm_expected (wait safe : bool) (cl : Z) : Z := %s." % exp)
    out.append("(* scan: `pLock.height+expectedConfirmations %s blockNumberU` *)" % mr.group(1))
    out.append("Definition evm_depth_reached (a b : Z) : bool := %s." % CMP[mr.group(1)])
    out.append("(* scan: `pLock.height+expectedConfirmations+w.maxWaitConfirmations %s blockNumberU` *)" % mt.group(1))
    out.append("Definition evm_window_passed (a b : Z) : bool := %s." % CMP[mt.group(1)])
    out.append("(* scan: receipt accepted iff NOT `tx.Status != %d` *)" % status_ok)
    out.append("Definition evm_status_ok (s : Z) : bool := Z.eqb s %d." % status_ok)
    out.append("(* scan: order of the tests in the source: %s *)" % " < ".join(names))
    out.append("Definition evm_timeout_before_depth : bool := %s." % ("true" if timeout_first else "false"))
    out.append("Definition evm_transient_before_orphan : bool := %s." % ("true" if transient_first else "false"))
    out.append("(* re-observation: getBlockNumber %s MessageEventsForTransaction *)" % ("precedes" if head_first else "FOLLOWS"))
    out.append("Definition evm_reobs_head_first : bool := %s." % ("true" if head_first else "false"))
    out.append("(* re-observation: `blockNumber+expectedConfirmations %s blockNumberU` *)" % mc.group(1))
    out.append("Definition evm_reobs_depth_reached (a b : Z) : bool := %s." % CMP[mc.group(1)])
    out.append("Definition evm_reobs_zero_head_guard : bool := %s." % ("true" if zero else "false"))
    return "\n".join(out) + "\n", info


def x_evm_by_tx():
    src = rd("node/pkg/ethereum/by_transaction.go")
    m = re.search(r'LogMessagePublishedTopic = eth_common\.HexToHash\("0x([0-9a-fA-F]{64})"\)', src)
    if not m:
        raise Broken("by_transaction.go: LogMessagePublishedTopic constant not found")
    topic = int(m.group(1), 16)
    f = re.search(r'func MessageEventsForTransaction\(', src)
    if not f:
        raise Broken("by_transaction.go: MessageEventsForTransaction not found")
    body = src[f.start():]
    pr = _pos(body, r'receipt, err := ethConn\.TransactionReceipt\(ctx, tx\)', "MessageEventsForTransaction: receipt lookup")
    ms = re.search(r'if receipt\.Status != (\d+) \{\s*\n\s*return 0, nil,', body)
    loop = re.search(r'for _, l := range receipt\.Logs ', body)
    if not loop:
        raise Broken("MessageEventsForTransaction: log loop not found")
    lb = _body(body, loop.end() - 1, "log loop")
    ma = re.search(r'if l\.Address != contract \{\s*\n\s*continue', lb)
    mt = re.search(r'if l\.Topics\[0\] != LogMessagePublishedTopic \{\s*\n\s*continue', lb)
    mp = _pos(lb, r'ev, err := ethConn\.ParseLogMessagePublished\(\*l\)', "log loop: parse")
    if ma and ma.start() > mp.start():
        raise Broken("log loop: address filter after the parse")
    if mt and mt.start() > mp.start():
        raise Broken("log loop: topic filter after the parse")
    if ma and mt and ma.start() > mt.start():
        raise Broken("log loop: topic filter precedes the address filter (panic behaviour differs from the model)")
    if ms and not (pr.start() < ms.start() < loop.start()):
        raise Broken("MessageEventsForTransaction: status test not between receipt lookup and log loop")
    if not re.search(r'return receipt\.BlockNumber\.Uint64\(\), msgs, nil', body):
        raise Broken("MessageEventsForTransaction: final return shape not found")
    info = {"topic": "0x" + m.group(1), "checks_status": bool(ms), "status_ok": int(ms.group(1)) if ms else None,
            "checks_address": bool(ma), "checks_topic": bool(mt)}
    out = ["(* LogMessagePublishedTopic = 0x%s *)" % m.group(1),
           "Definition evm_lmp_topic : Z := %d." % topic,
           "Definition evm_reobs_checks_status : bool := %s." % ("true" if ms else "false"),
           "Definition evm_reobs_status_ok (s : Z) : bool := Z.eqb s %d." % (int(ms.group(1)) if ms else 1),
           "Definition evm_reobs_checks_address : bool := %s." % ("true" if ma else "false"),
           "Definition evm_reobs_checks_topic : bool := %s." % ("true" if mt else "false")]
    return "\n".join(out) + "\n", info


def x_evm_poller():
    """poller.go: when a polled block is published, with which Safe flag, how often a failing poll is retried"""
    src = rd("node/pkg/ethereum/poller.go")
    f = re.search(r'func \(b \*BlockPollConnector\) pollBlocks\(', src)
    if not f:
        raise Broken("poller.go: pollBlocks not found")
    body = _body(src, f.end(), "pollBlocks")
    mg = _pos(body, r'latestBlock, err := b\.getBlock\(timeout, logger, nil, safe\)', "pollBlocks: getBlock(.., nil, safe)")
    me = _pos(body, r'if err != nil \{[^}]*?return lastBlock, fmt\.Errorf\(', "pollBlocks: error return keeps lastBlock")
    mc = _pos(body, r'if lastBlock\.Number\.Cmp\(latestBlock\.Number\) (>=|>|<=|<|==) 0 \{\s*\n(?:\s*//[^\n]*\n)*\s*return lastBlock, nil\s*\n\s*\}',
              "pollBlocks: `if lastBlock.Number.Cmp(latestBlock.Number) <op> 0 { return lastBlock, nil }`")
    ms = _pos(body, r'b\.blockFeed\.Send\(latestBlock\)\s*\n\s*return latestBlock, nil', "pollBlocks: publish latestBlock and return it")
    if not (mg.start() < me.start() < mc.start() < ms.start()):
        raise Broken("pollBlocks: statements are not in the order getBlock, error return, comparison, publish")
    r = re.search(r'func \(b \*BlockPollConnector\) run\(', src)
    if not r:
        raise Broken("poller.go: run not found")
    rb = _body(src, r.end(), "run")
    mp = _pos(rb, r'lastBlock, err = b\.pollBlocks\(ctx, logger, lastBlock, (true|false)\)', "run: pollBlocks call")
    ma = _pos(rb, r'for count := 0; count < (\d+); count\+\+ \{', "run: retry loop")
    if not re.search(r'enabled := b\.enabled\.Load\(\)\s*\n\s*if !enabled \{\s*\n\s*timer\.Reset\(b\.Delay\)\s*\n\s*continue', rb):
        raise Broken("run: `if !enabled { timer.Reset; continue }` not found")
    g = re.search(r'\nfunc getBlock\(', src)
    if not g:
        raise Broken("poller.go: getBlock not found")
    gb = _body(src, g.end(), "getBlock")
    if not re.search(r'Safe:\s*safe,', gb):
        raise Broken("getBlock: NewBlock{.. Safe: safe} not found")
    if not re.search(r'\} else if useFinalized \{\s*\n\s*if safe \{\s*\n\s*numStr = "safe"\s*\n\s*\} else \{\s*\n\s*numStr = "finalized"', gb) or 'numStr = "latest"' not in gb:
        raise Broken("getBlock: choice of latest / finalized / safe not found")
    op = mc.group(1)
    info = {"keep_if_last_cmp_latest": op, "safe_flag": mp.group(1), "attempts": int(ma.group(1))}
    out = ["(* pollBlocks: `if lastBlock.Number.Cmp(latestBlock.Number) %s 0 { return lastBlock, nil }` (big.Int: no wrap) *)" % op,
           "Definition evm_poll_not_newer (a b : Z) : bool := %s." % CMP[op],
           "(* run: `b.pollBlocks(ctx, logger, lastBlock, %s)`: the Safe flag of every published head *)" % mp.group(1),
           "Definition evm_poll_safe : bool := %s." % mp.group(1),
           "Definition evm_poll_attempts : Z := %d." % int(ma.group(1))]
    return "\n".join(out) + "\n", info


EXTRACTORS = [("evm_watcher", x_evm_watcher), ("evm_by_tx", x_evm_by_tx), ("evm_poller", x_evm_poller)]
