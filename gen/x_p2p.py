"""C03: gossip verifiers of node/pkg/p2p/p2p.go, heartbeat table of node/pkg/common/guardianset.go, guard order of
node/pkg/processor/observation.go.  Constants, comparison operators, operands and the presence of each guard are read from the
current source; everything else must have exactly the anchored shape (Broken otherwise)."""
import re
from extract import rd, Broken

# own generated file coq/gen/ExtractedP2P.v (logical name WH.gen.ExtractedP2P)
TARGET = "ExtractedP2P"
HEADER = "From Coq Require Import List ZArith Arith Bool Strings.Byte.\nImport ListNotations.\nOpen Scope Z_scope.\n"

DUR = {"time.Second": 10**9, "time.Minute": 60 * 10**9, "time.Hour": 3600 * 10**9, "time.Millisecond": 10**6}


def func_body(src, header_re, what):
    m = re.search(header_re, src, re.M)
    if not m:
        raise Broken("%s: function header not found" % what)
    i = src.index("{", m.end() - 1)
    depth, j, n = 0, i, len(src)
    instr = None
    while j < n:
        c = src[j]
        if instr:
            if c == "\\" and instr != "`":
                j += 2
                continue
            if c == instr:
                instr = None
        elif c in "\"`'":
            instr = c
        elif c == "/" and src[j + 1] == "/":
            j = src.index("\n", j)
            continue
        elif c == "{":
            depth += 1
        elif c == "}":
            depth -= 1
            if depth == 0:
                return src[i + 1:j]
        j += 1
    raise Broken("%s: unbalanced braces" % what)


def strip_comments(s):
    return re.sub(r'//[^\n]*', '', s)


def gbytes_lit(b):
    return "[" + "; ".join("x%02x" % c for c in b) + "]"


def go_string(lit, what):
    if not re.fullmatch(r'"(?:[^"\\]|\\.)*"', lit):
        raise Broken("%s: not a plain string literal: %r" % (what, lit))
    body = lit[1:-1]
    if "\\" in body:
        raise Broken("%s: escape sequences not supported: %r" % (what, lit))
    return body.encode()


CMP = {"<": "(%s <? %s)", "<=": "(%s <=? %s)", ">": "(%s >? %s)", ">=": "(%s >=? %s)", "==": "(%s =? %s)", "!=": "negb (%s =? %s)"}


def order(what, items):
    """items: [(label, position or None)] — positions that exist must be increasing"""
    last, lastl = -1, None
    for lab, pos in items:
        if pos is None:
            continue
        if pos < last:
            raise Broken("%s: `%s` now comes before `%s` (statement order changed)" % (what, lab, lastl))
        last, lastl = pos, lab


def x_p2p_verify():
    src = rd("node/pkg/p2p/p2p.go")
    info = {}
    # ---- prefixes
    pf = {}
    for var in ("heartbeatMessagePrefix", "signedObservationRequestPrefix"):
        m = re.search(r'^var %s = \[\]byte\(("[^\n]*")\)\s*$' % var, src, re.M)
        if not m:
            raise Broken("p2p.go: `var %s = []byte(\"...\")` not found" % var)
        pf[var] = go_string(m.group(1), var)
    info["hb_prefix"] = pf["heartbeatMessagePrefix"].decode()
    info["req_prefix"] = pf["signedObservationRequestPrefix"].decode()
    names = {"heartbeatMessagePrefix": "p2p_hb_prefix", "signedObservationRequestPrefix": "p2p_req_prefix"}
    # ---- digest functions: which bytes are hashed
    pre = {}
    for fn, key in (("heartbeatDigest", "hb"), ("signedObservationRequestDigest", "req")):
        body = strip_comments(func_body(src, r'^func %s\(b \[\]byte\) common\.Hash \{' % fn, fn)).strip()
        m = re.fullmatch(r'return ethcrypto\.Keccak256Hash\((.+)\)', body)
        if not m:
            raise Broken("%s: body is not a single `return ethcrypto.Keccak256Hash(..)`" % fn)
        arg = m.group(1).strip()
        ma = re.fullmatch(r'append\((\w+), b\.\.\.\)', arg)
        if ma and ma.group(1) in names:
            pre[key] = "%s ++ b" % names[ma.group(1)]
            info[key + "_preimage"] = "%s ++ payload" % ma.group(1)
            info[key + "_pre_hex"] = pf[ma.group(1)].hex()
        elif arg == "b":
            pre[key] = "b"
            info[key + "_preimage"] = "payload (no prefix)"
            info[key + "_pre_hex"] = ""
        else:
            raise Broken("%s: hashed expression %r not understood" % (fn, arg))
    out = []
    out.append("(* p2p.go: the two signing prefixes *)")
    out.append("Definition p2p_hb_prefix : list byte := %s.   (* %r *)" % (gbytes_lit(pf["heartbeatMessagePrefix"]), info["hb_prefix"]))
    out.append("Definition p2p_req_prefix : list byte := %s.   (* %r *)" % (gbytes_lit(pf["signedObservationRequestPrefix"]), info["req_prefix"]))
    out.append("(* heartbeatDigest / signedObservationRequestDigest: the byte string that is hashed and signed *)")
    out.append("Definition p2p_hb_preimage (b : list byte) : list byte := %s." % pre["hb"])
    out.append("Definition p2p_req_preimage (b : list byte) : list byte := %s." % pre["req"])

    def verifier(fn, header, key, field, digestfn, has_disable):
        body = strip_comments(func_body(src, header, fn))
        pos = {}
        m = re.search(r'envelopeAddr := common\.BytesToAddress\(s\.GuardianAddr\)\s*\n\s*idx, ok := gs\.KeyIndex\(envelopeAddr\)\s*\n\s*var pk common\.Address\s*\n', body)
        if not m:
            raise Broken("%s: `envelopeAddr := common.BytesToAddress(s.GuardianAddr); idx, ok := gs.KeyIndex(envelopeAddr); var pk common.Address` not found" % fn)
        pos["lookup"] = m.start()
        # membership guard
        if has_disable:
            g = re.search(r'if !ok \{\s*if !disableVerify \{\s*return nil, [^\n]*\n\s*\}\s*\} else \{\s*pk = gs\.Keys\[idx\]\s*\}', body)
            g0 = re.search(r'if ok \{\s*pk = gs\.Keys\[idx\]\s*\}', body)
        else:
            g = re.search(r'if !ok \{\s*return nil, [^\n]*\n\s*\} else \{\s*pk = gs\.Keys\[idx\]\s*\}', body)
            g0 = re.search(r'if ok \{\s*pk = gs\.Keys\[idx\]\s*\}', body)
        if g:
            member, pos["member"] = True, g.start()
        elif g0:
            member, pos["member"] = False, g0.start()
        else:
            raise Broken("%s: membership branch (`if !ok { return .. } else { pk = gs.Keys[idx] }`) not found" % fn)
        # digest
        d = re.search(r'digest := %s\(s\.%s\)' % (digestfn, field), body)
        if not d:
            raise Broken("%s: `digest := %s(s.%s)` not found" % (fn, digestfn, field))
        # floor guard (optional)
        fl = re.search(r'if ([^\n{]*?)\s*(<=|<|>=|>)\s*(\d+) \{\s*return nil, [^\n]*too short[^\n]*\n\s*\}', body)
        if fl:
            lhs = fl.group(1).strip()
            terms = [t.strip() for t in lhs.split("+")]
            gl = []
            for t in terms:
                mt = re.fullmatch(r'len\((\w+)\)', t)
                if mt and mt.group(1) in names:
                    gl.append("Z.of_nat (length %s)" % names[mt.group(1)])
                elif t == "len(s.%s)" % field:
                    gl.append("n")
                elif re.fullmatch(r'\d+', t):
                    gl.append(t)
                else:
                    raise Broken("%s: term %r of the length test not understood" % (fn, t))
            short = CMP[fl.group(2)] % ("(" + " + ".join(gl) + ")", fl.group(3))
            info[key + "_floor"] = "%s %s %s" % (lhs, fl.group(2), fl.group(3))
            pos["floor"] = fl.start()
        else:
            if "too short" in body:
                raise Broken("%s: length test present but not of the shape `if <sum of len()> < N { return nil, ..too short.. }`" % fn)
            short = "false"
            info[key + "_floor"] = "ABSENT"
        # recovery
        r = re.search(r'pubKey, err := ethcrypto\.Ecrecover\(digest\.Bytes\(\), s\.Signature\)\s*\n\s*if err != nil \{\s*return nil, [^\n]*\n\s*\}\s*\n\s*signerAddr := common\.BytesToAddress\(ethcrypto\.Keccak256\(pubKey\[1:\]\)\[12:\]\)', body)
        if not r:
            raise Broken("%s: Ecrecover over digest.Bytes() / signerAddr derivation not found" % fn)
        pos["recover"] = r.start()
        if d.start() > r.start():
            raise Broken("%s: digest computed after recovery" % fn)
        # signer guard (optional)
        if has_disable:
            sg = re.search(r'if (\w+) != (\w+) && !disableVerify \{\s*return nil, [^\n]*\n\s*\}', body)
        else:
            sg = re.search(r'if (\w+) != (\w+) \{\s*return nil, [^\n]*invalid signer[^\n]*\n\s*\}', body)
        sel = {"envelopeAddr": "envelope", "pk": "pk", "signerAddr": "signer"}
        if sg:
            if sg.group(1) not in sel or sg.group(2) not in sel:
                raise Broken("%s: signer comparison operands %s / %s not understood" % (fn, sg.group(1), sg.group(2)))
            cmp_l, cmp_r, signer_guard = sel[sg.group(1)], sel[sg.group(2)], True
            pos["signer"] = sg.start()
            info[key + "_signer_guard"] = "%s != %s" % (sg.group(1), sg.group(2))
        else:
            if "invalid signer" in body:
                raise Broken("%s: signer test present but not of the anchored shape" % fn)
            cmp_l, cmp_r, signer_guard = "pk", "signer", False
            info[key + "_signer_guard"] = "ABSENT"
        # unmarshal
        typ = "Heartbeat" if has_disable else "ObservationRequest"
        u = re.search(r'var h gossipv1\.%s\s*\n\s*err = proto\.Unmarshal\(s\.%s, &h\)\s*\n\s*if err != nil \{\s*return nil, [^\n]*\n\s*\}' % (typ, field), body)
        if not u:
            raise Broken("%s: proto.Unmarshal of the inner message not found" % fn)
        pos["unmarshal"] = u.start()
        store_key = None
        if has_disable:
            st = re.search(r'if err := gst\.SetHeartbeat\((\w+), from, &h\); err != nil \{\s*return nil, [^\n]*\n\s*\}', body)
            if not st or st.group(1) not in sel:
                raise Broken("%s: `gst.SetHeartbeat(<addr>, from, &h)` not found" % fn)
            store_key = sel[st.group(1)]
            pos["store"] = st.start()
            info["hb_store_key"] = st.group(1)
            # no other write to the table
            if len(re.findall(r'gst\.\w+\(', body)) != 1:
                raise Broken("%s: more than one call on gst" % fn)
        tail = body[max(pos.values()):]
        if not re.search(r'return &h, nil\s*$', tail.rstrip() + "\n"):
            raise Broken("%s: does not end with `return &h, nil`" % fn)
        nret = len(re.findall(r'\breturn\b', body))
        expect = 3 + (1 if member else 0) + (1 if fl else 0) + (1 if sg else 0) + (1 if has_disable else 0)
        if nret != expect:
            raise Broken("%s: %d return statements, %d expected from the recognised guards" % (fn, nret, expect))
        order(fn, [("lookup", pos["lookup"]), ("membership", pos["member"]), ("length floor", pos.get("floor")), ("recovery", pos["recover"]),
                   ("signer test", pos.get("signer")), ("unmarshal", pos["unmarshal"]), ("store", pos.get("store"))])
        info[key + "_member_guard"] = member
        o = []
        o.append("(* %s *)" % fn)
        o.append("Definition p2p_%s_member_guard : bool := %s.   (* `if !ok { return error }` present *)" % (key, "true" if member else "false"))
        o.append("Definition p2p_%s_too_short (n : Z) : bool := %s.   (* n = len(s.%s); source: %s *)" % (key, short, field, info[key + "_floor"]))
        o.append("Definition p2p_%s_signer_guard : bool := %s.   (* source: %s *)" % (key, "true" if signer_guard else "false", info[key + "_signer_guard"]))
        o.append("Definition p2p_%s_cmp_left (envelope pk signer : list byte) : list byte := %s." % (key, cmp_l))
        o.append("Definition p2p_%s_cmp_right (envelope pk signer : list byte) : list byte := %s." % (key, cmp_r))
        if store_key:
            o.append("Definition p2p_hb_store_key (envelope pk signer : list byte) : list byte := %s.   (* gst.SetHeartbeat(%s, from, &h) *)" % (store_key, info["hb_store_key"]))
        return o

    out += verifier("processSignedHeartbeat",
                    r'^func processSignedHeartbeat\(from peer\.ID, s \*gossipv1\.SignedHeartbeat, gs \*node_common\.GuardianSet, gst \*node_common\.GuardianSetState, disableVerify bool\) \(\*gossipv1\.Heartbeat, error\) \{',
                    "hb", "Heartbeat", "heartbeatDigest", True)
    out += verifier("processSignedObservationRequest",
                    r'^func processSignedObservationRequest\(s \*gossipv1\.SignedObservationRequest, gs \*node_common\.GuardianSet\) \(\*gossipv1\.ObservationRequest, error\) \{',
                    "req", "ObservationRequest", "signedObservationRequestDigest", False)

    # ---- the dispatch loop of Run (cannot be executed here: libp2p): shape only
    run = strip_comments(func_body(src, r'^func Run\(', "Run"))
    k = run.find("switch m := msg.Message.(type) {")
    if k < 0:
        raise Broken("Run: dispatch switch not found")
    sw = run[k:]
    hb = re.search(r'case \*gossipv1\.GossipMessage_SignedHeartbeat:\s*\n\s*s := m\.SignedHeartbeat\s*\n\s*gs := gst\.Get\(\)\s*\n\s*if gs == nil \{(?:[^{}]|\n)*?break\s*\n\s*\}\s*\n\s*if heartbeat, err := processSignedHeartbeat\(envelope\.GetFrom\(\), s, gs, gst, disableHeartbeatVerify\); err != nil \{', sw)
    if not hb:
        raise Broken("Run: heartbeat case (`gs := gst.Get(); if gs == nil { break }; processSignedHeartbeat(envelope.GetFrom(), s, gs, gst, disableHeartbeatVerify)`) not found")
    rq = re.search(r'case \*gossipv1\.GossipMessage_SignedObservationRequest:\s*\n\s*s := m\.SignedObservationRequest\s*\n\s*gs := gst\.Get\(\)\s*\n\s*if gs == nil \{(?:[^{}]|\n)*?break\s*\n\s*\}\s*\n\s*r, err := processSignedObservationRequest\(s, gs\)\s*\n\s*if err != nil \{', sw)
    if not rq:
        raise Broken("Run: observation-request case (`gs := gst.Get(); if gs == nil { break }; r, err := processSignedObservationRequest(s, gs); if err != nil {`) not found")
    rest = sw[rq.end():]
    dflt = rest.find("default:")
    if dflt < 0:
        raise Broken("Run: default case not found")
    case = rest[:dflt]
    # within the case: the error branch closes, then `} else {` ... `obsvReqC <- r`
    if len(re.findall(r'obsvReqC <- r\b', case)) != 1 or not re.search(r'\} else \{(?:[^{}]|\n)*obsvReqC <- r\s*\n\s*\}\s*$', case.rstrip() + "\n"):
        raise Broken("Run: `obsvReqC <- r` is not (only) in the else-branch of `if err != nil`")
    if case.index("obsvReqC <- r") < case.index("} else {"):
        raise Broken("Run: `obsvReqC <- r` before the else-branch")
    # the switch as a whole forwards a decoded request nowhere else
    if len(re.findall(r'obsvReqC <- ', sw)) != 1:
        raise Broken("Run: more than one send on obsvReqC inside the dispatch switch")
    if not re.search(r'case \*gossipv1\.GossipMessage_SignedObservation:\s*\n\s*obsvC <- m\.SignedObservation\s*\n', sw):
        raise Broken("Run: observation case (`obsvC <- m.SignedObservation`) not found")
    if not re.search(r'case \*gossipv1\.GossipMessage_SignedVaaWithQuorum:\s*\n\s*signedInC <- m\.SignedVaaWithQuorum\s*\n', sw):
        raise Broken("Run: signed-VAA case not found")
    out.append("(* Run: dispatch switch has the anchored shape (current set from gst.Get(), nil set => drop, request forwarded only when the verifier returned no error) *)")
    out.append("Definition p2p_dispatch_shape_ok : bool := true.")
    return "\n".join(out) + "\n", info


def x_gst_table():
    src = rd("node/pkg/common/guardianset.go")
    info = {}
    m = re.search(r'^const MaxNodesPerGuardian = (\d+)\s*$', src, re.M)
    if not m:
        raise Broken("guardianset.go: `const MaxNodesPerGuardian = N` not found")
    maxn = int(m.group(1))
    m = re.search(r'^const MaxStateAge = ([^\n]+)$', src, re.M)
    if not m:
        raise Broken("guardianset.go: MaxStateAge not found")
    md = re.fullmatch(r'\s*(?:(\d+)\s*\*\s*)?(time\.\w+)(?:\s*\*\s*(\d+))?\s*', m.group(1))
    if not md or md.group(2) not in DUR:
        raise Broken("guardianset.go: MaxStateAge expression %r not understood" % m.group(1))
    age = int(md.group(1) or 1) * int(md.group(3) or 1) * DUR[md.group(2)]
    info["MaxNodesPerGuardian"], info["MaxStateAge_ns"] = maxn, age
    # KeyIndex
    ki = strip_comments(func_body(src, r'^func \(g \*GuardianSet\) KeyIndex\(addr common\.Address\) \(int, bool\) \{', "KeyIndex"))
    if not re.fullmatch(r'\s*for n, k := range g\.Keys \{\s*if k == addr \{\s*return n, true\s*\}\s*\}\s*return -1, false\s*', ki):
        raise Broken("KeyIndex: first-match linear search shape not found")
    # SetHeartbeat
    sh = strip_comments(func_body(src, r'^func \(st \*GuardianSetState\) SetHeartbeat\(addr common\.Address, peerId peer\.ID, hb \*gossipv1\.Heartbeat\) error \{', "SetHeartbeat"))
    m = re.fullmatch(r'\s*st\.mu\.Lock\(\)\s*defer st\.mu\.Unlock\(\)\s*v, ok := st\.lastHeartbeats\[addr\]\s*if !ok \{\s*v = make\(map\[peer\.ID\]\*gossipv1\.Heartbeat\)\s*'
                     r'st\.lastHeartbeats\[addr\] = v\s*\}(?: else \{\s*if len\(v\) (>=|>|==|<=|<|!=) (\w+) \{\s*return fmt\.Errorf\([^\n]*\)\s*\}\s*\})?\s*'
                     r'v\[peerId\] = hb\s*if st\.updateC != nil \{\s*st\.updateC <- hb\s*\}\s*return nil\s*', sh)
    if not m:
        raise Broken("SetHeartbeat: shape (lookup; create inner map | cap test; v[peerId] = hb; notify; return nil) not found")
    if m.group(1):
        bound = m.group(2)
        if bound == "MaxNodesPerGuardian":
            b = "gst_max_nodes"
        elif re.fullmatch(r'\d+', bound):
            b = bound
        else:
            raise Broken("SetHeartbeat: cap bound %r not understood" % bound)
        cap = CMP[m.group(1)] % ("n", b)
        info["cap_test"] = "len(v) %s %s" % (m.group(1), bound)
    else:
        cap = "false"
        info["cap_test"] = "ABSENT"
    # Cleanup
    cl = strip_comments(func_body(src, r'^func \(st \*GuardianSetState\) Cleanup\(\) \{', "Cleanup"))
    m = re.fullmatch(r'\s*st\.mu\.Lock\(\)\s*defer st\.mu\.Unlock\(\)\s*for addr, v := range st\.lastHeartbeats \{\s*for peerId, hb := range v \{\s*ts := time\.Unix\(0, hb\.Timestamp\)\s*'
                     r'if time\.Since\(ts\) (>=|>) MaxStateAge \{\s*delete\(st\.lastHeartbeats\[addr\], peerId\)\s*\}\s*\}\s*\}\s*', cl)
    if not m:
        raise Broken("Cleanup: shape (delete entries with time.Since(time.Unix(0, hb.Timestamp)) > MaxStateAge) not found")
    exp = CMP[m.group(1)] % ("age", "gst_max_state_age")
    info["expiry_test"] = "time.Since(ts) %s MaxStateAge" % m.group(1)
    # no other writer of lastHeartbeats
    writers = re.findall(r'st\.lastHeartbeats\[[^\]]+\](?:\[[^\]]+\])? = |delete\(st\.lastHeartbeats', strip_comments(src))
    if len(writers) != 2:
        raise Broken("guardianset.go: %d writes to lastHeartbeats, 2 expected (SetHeartbeat, Cleanup)" % len(writers))
    out = ("(* guardianset.go *)\n"
           "Definition gst_max_nodes : Z := %d.\nDefinition gst_max_state_age : Z := %d.   (* ns *)\n"
           "(* SetHeartbeat, existing guardian key: `if %s { return error }` *)\n"
           "Definition gst_cap_reached (n : Z) : bool := %s.\n"
           "(* Cleanup: `if %s { delete }`, age = now - hb.Timestamp in ns *)\n"
           "Definition gst_expired (age : Z) : bool := %s.\n" % (maxn, age, info["cap_test"], cap, info["expiry_test"], exp))
    return out, info


def x_obs_guards():
    """handleObservation: the three authentication guards come before the first write to p.state.vaaSignatures"""
    src = strip_comments(rd("node/pkg/processor/observation.go"))
    body = func_body(src, r'^func \(p \*Processor\) handleObservation\(ctx context\.Context, m \*gossipv1\.SignedObservation\) \{', "handleObservation")
    w = re.search(r'p\.state\.vaaSignatures\[hash\](?:\.\w+(?:\[[^\]]+\])?)? = ', body)
    if not w:
        raise Broken("handleObservation: no write to p.state.vaaSignatures[hash] found")
    first_write = w.start()
    info = {}
    g1 = re.search(r'pk, err := crypto\.Ecrecover\(m\.Hash, m\.Signature\)\s*\n\s*if err != nil \{(?:[^{}]|\n)*?return\s*\n\s*\}', body)
    g2 = re.search(r'their_addr := common\.BytesToAddress\(m\.Addr\)\s*\n\s*signer_pk := common\.BytesToAddress\(crypto\.Keccak256\(pk\[1:\]\)\[12:\]\)\s*\n\s*if their_addr != signer_pk \{(?:[^{}]|\n)*?return\s*\n\s*\}', body)
    gsel = re.search(r'if p\.state\.vaaSignatures\[hash\] != nil && p\.state\.vaaSignatures\[hash\]\.gs != nil \{\s*gs = p\.state\.vaaSignatures\[hash\]\.gs\s*\} else \{\s*gs = p\.gs\s*\}', body)
    gnil = re.search(r'if gs == nil \{(?:[^{}]|\n)*?return\s*\n\s*\}', body)
    # after the equality guard their_addr and signer_pk are the same value: either may be looked up
    g3 = re.search(r'_, ok := gs\.KeyIndex\((their_addr|signer_pk)\)\s*\n\s*if !ok \{(?:[^{}]|\n)*?return\s*\n\s*\}', body)
    if g3 and g3.group(1) == 'signer_pk' and not (g2 and g2.start() < g3.start()):
        g3 = None
    flags = {"sig": g1, "addr": g2, "member": g3}
    for k, g in flags.items():
        info[k + "_guard"] = bool(g) and g.start() < first_write
    if not gsel:
        raise Broken("handleObservation: choice of the applicable set (entry snapshot, else p.gs) not found")
    if not gnil:
        raise Broken("handleObservation: nil guardian-set drop not found")
    out = ("(* observation.go handleObservation: guard present in front of the first write to p.state.vaaSignatures *)\n"
           "Definition obs_guard_signature : bool := %s.\nDefinition obs_guard_address : bool := %s.\nDefinition obs_guard_member : bool := %s.\n"
           % tuple("true" if info[k + "_guard"] else "false" for k in ("sig", "addr", "member")))
    return out, info



def x_p2p_loop():
    """the receive loop of p2p.Run around the dispatch switch (executed for real by harness/p2p_run): what happens to an
    envelope that does not decode, the own-peer-id (loopback) test in front of the switch, and which verification flag the
    heartbeat verifier is called with.  The loopback test and the flag are EXTRACTED (the model follows the source: a tree
    without the test makes the theorems about loopback envelopes unprovable); the rest must have the anchored shape."""
    src = rd("node/pkg/p2p/p2p.go")
    run = strip_comments(func_body(src, r'^func Run\(', "Run"))
    info = {}
    m = re.search(r'for \{\s*\n\s*envelope, err := sub\.Next\(ctx\)\s*\n\s*if err != nil \{\s*\n\s*return [^\n]*\n\s*\}', run)
    if not m:
        raise Broken("Run: receive loop head (`for { envelope, err := sub.Next(ctx); if err != nil { return .. }`) not found")
    loop = run[m.end():]
    k = loop.find("switch m := msg.Message.(type) {")
    if k < 0:
        raise Broken("Run: dispatch switch not found after sub.Next")
    head = loop[:k]
    # ---- undecodable envelope: continue (in front of the switch; before or after the loopback test, both skip the envelope)
    u = re.search(r'var msg gossipv1\.GossipMessage\s*\n\s*err = proto\.Unmarshal\(envelope\.Data, &msg\)\s*\n\s*if err != nil \{((?:[^{}]|\n)*?)\}', head)
    if not u or not re.search(r'\bcontinue\s*$', u.group(1).rstrip()):
        raise Broken("Run: `var msg; err = proto.Unmarshal(envelope.Data, &msg); if err != nil { ..; continue }` not found between sub.Next and the switch")
    if re.search(r'<-|gst\.|processSigned', u.group(1)):
        raise Broken("Run: the undecodable-envelope branch does more than log / count")
    rest = head[:u.start()] + head[u.end():]
    info["invalid"] = "continue"
    # ---- loopback test between decoding and the switch
    lb = re.search(r'if (?:envelope\.GetFrom\(\) == h\.ID\(\)|h\.ID\(\) == envelope\.GetFrom\(\)) \{((?:[^{}]|\n)*?)\}', rest)
    if lb:
        if not re.search(r'\bcontinue\s*$', lb.group(1).rstrip()):
            raise Broken("Run: the own-peer-id branch does not end in `continue`")
        if re.search(r'<-|gst\.|processSigned', lb.group(1)):
            raise Broken("Run: the own-peer-id branch does more than log / count")
        loopback = True
        other = rest[:lb.start()] + rest[lb.end():]
    else:
        if re.search(r'GetFrom\(\)\s*[!=]=|[!=]=\s*envelope\.GetFrom\(\)', rest):
            raise Broken("Run: a comparison on envelope.GetFrom() in front of the switch has an unknown shape")
        loopback = False
        other = rest
    info["loopback_guard"] = loopback
    # nothing else in front of the switch may send, verify or touch the guardian-set state
    if re.search(r'<-|gst\.|processSigned|\bcontinue\b|\bbreak\b|\breturn\b', other):
        raise Broken("Run: unexpected statement between envelope decoding and the dispatch switch")
    if not re.search(r'\bh, err := libp2p\.New\(', run):
        raise Broken("Run: `h, err := libp2p.New(` (the host whose ID the loopback test compares with) not found")
    # ---- the heartbeat verifier's arguments
    sw = loop[k:]
    calls = re.findall(r'processSignedHeartbeat\(([^()]*(?:\([^()]*\)[^()]*)*)\)', sw)
    if len(calls) != 1:
        raise Broken("Run: %d calls of processSignedHeartbeat in the switch, 1 expected" % len(calls))
    args = [a.strip() for a in calls[0].split(",")]
    if len(args) != 5 or args[:4] != ["envelope.GetFrom()", "s", "gs", "gst"]:
        raise Broken("Run: processSignedHeartbeat arguments %r not understood" % (args,))
    flag = {"disableHeartbeatVerify": "flag", "!disableHeartbeatVerify": "negb flag", "true": "true", "false": "false"}.get(args[4])
    if flag is None:
        raise Broken("Run: verification flag %r passed to processSignedHeartbeat not understood" % args[4])
    if not re.search(r'\bdisableHeartbeatVerify bool\b', src[:src.index("func Run(") + 900]):
        raise Broken("Run: parameter `disableHeartbeatVerify bool` not found")
    info["hb_disable_arg"] = args[4]
    out = ("(* p2p.Run receive loop: an envelope that does not decode is skipped (anchored); own-peer-id test in front of the switch: %s *)\n"
           "Definition p2p_loop_loopback_guard : bool := %s.\n"
           "(* processSignedHeartbeat(envelope.GetFrom(), s, gs, gst, %s): flag = Run's disableHeartbeatVerify parameter *)\n"
           "Definition p2p_loop_hb_disable (flag : bool) : bool := %s.\n"
           % ("present" if loopback else "ABSENT", "true" if loopback else "false", args[4], flag))
    return out, info


EXTRACTORS = [("p2p_verify", x_p2p_verify), ("gst_table", x_gst_table), ("obs_guards", x_obs_guards), ("p2p_loop", x_p2p_loop)]
