"""Constants and guard shapes of node/pkg/processor (cleanup.go, message.go, observation.go, processor.go)."""
import re
from extract import rd, Broken

DUR = {"time.Second": 10**9, "time.Minute": 60 * 10**9, "time.Hour": 3600 * 10**9, "time.Millisecond": 10**6}

def dur(expr):
    m = re.fullmatch(r'\s*(time\.\w+)\s*\*\s*(\d+)\s*|\s*(\d+)\s*\*\s*(time\.\w+)\s*', expr)
    if not m:
        raise Broken("duration expression %r not understood" % expr)
    unit = m.group(1) or m.group(4)
    k = int(m.group(2) or m.group(3))
    if unit not in DUR:
        raise Broken("duration unit %r" % unit)
    return k * DUR[unit]

def x_processor_consts():
    cl = rd("node/pkg/processor/cleanup.go")
    pr = rd("node/pkg/processor/processor.go")
    ms = rd("node/pkg/processor/message.go")
    m1 = re.search(r'settlementTime\s*=\s*([^\n]+)', cl)
    m2 = re.search(r'retryTime\s*=\s*([^\n]+)', cl)
    if not m1 or not m2:
        raise Broken("cleanup.go: settlementTime / retryTime not found")
    settle, retry = dur(m1.group(1)), dur(m2.group(1))
    mt = re.search(r'p\.cleanup = time\.NewTicker\(([^)]+)\)', pr)
    if not mt:
        raise Broken("processor.go: cleanup ticker not found")
    tick = dur(mt.group(1))
    # the Run loop's select: which channel feeds which handler (the model's op constructors, one atomic step each)
    mrun = re.search(r'func \(p \*Processor\) Run\(ctx context\.Context\) error \{(.*?)\n\}\n', pr, re.S)
    if not mrun:
        raise Broken("processor.go: Run not found")
    body = re.sub(r'//[^\n]*', '', mrun.group(1))
    cases = re.findall(r'case ([^\n]+):\n(.*?)(?=\n\t\tcase |\n\t\t\}\n)', body, re.S)
    got = []
    for head, blk in cases:
        calls = re.findall(r'p\.(handle\w+|gst\.Set)\(', blk)
        got.append((re.sub(r'\s+', ' ', head.strip()), tuple(calls)))
    want = [("<-ctx.Done()", ()), ("p.gs = <-p.setC", ("gst.Set",)), ("k := <-p.lockC", ("handleMessage",)), ("v := <-p.injectC", ("handleInjection",)),
            ("m := <-p.obsvC", ("handleObservation",)), ("m := <-p.signedInC", ("handleInboundSignedVAAWithQuorum",)), ("<-p.cleanup.C", ("handleCleanup",))]
    if sorted(got) != sorted(want):
        raise Broken("processor.go: Run loop select does not have the expected channel -> handler dispatch: %r" % (got,))
    if re.search(r'\bgo\s+(func|p\.)', body):
        raise Broken("processor.go: Run loop spawns goroutines; the model assumes one atomic step per handler")
    # the switch of handleCleanup, in source order
    sw = cl[cl.index("switch {"):]
    cases = re.findall(r'\n\t\tcase ([^\n]+):\n', sw)
    want = [r'!s\.settled && delta > settlementTime',
            r's\.submitted && delta\.Hours\(\) >= (\d+)',
            r'!s\.submitted && \(\(s\.ourMsg != nil && s\.retryCount >= (\d+)(?: /\*.*?\*/)?\) \|\| \(s\.ourMsg == nil && s\.retryCount >= (\d+)(?: /\*.*?\*/)?\)\)',
            r'!s\.submitted && delta\.Minutes\(\) >= (\d+) && time\.Since\(s\.lastRetry\) >= retryTime']
    if len(cases) != 4:
        raise Broken("cleanup.go: expected 4 switch cases, found %d: %r" % (len(cases), cases))
    vals = []
    for c, w in zip(cases, want):
        mm = re.fullmatch(w, c.strip())
        if not mm:
            raise Broken("cleanup.go: switch case %r does not have the expected shape %r" % (c, w))
        vals += [int(x) for x in mm.groups()]
    hours, own_budget, nil_budget, minutes = vals
    # the late-VAA expiry in front of the switch
    if not re.search(r'if !s\.submitted && s\.ourVAA != nil && delta > settlementTime \{\s*(?://[^\n]*\n\s*)*if _, err := p\.db\.GetSignedVAABytes\(\*db\.VaaIDFromVAA\(s\.ourVAA\)\); err == nil \{', cl):
        raise Broken("cleanup.go: late-VAA expiry guard not found")
    # settle case: which guardian set, and is a missing one guarded?
    if not re.search(r'if s\.gs != nil \{\s*gs = s\.gs\s*\} else \{\s*gs = p\.gs\s*\}', cl):
        raise Broken("cleanup.go: settle case guardian-set choice not found")
    settle_blk = sw[:sw.index("case s.submitted")]
    guard = re.search(r'gs = p\.gs\s*\}\s*(?://[^\n]*\n\s*)*if gs == nil \{(?:\s*//[^\n]*)*\s*(break|continue)\s*\}', settle_blk) is not None
    # retry branch: order of effects
    rb = sw[sw.index("if s.ourMsg != nil {"):]
    if not re.search(r'ChainId: uint32\(s\.ourVAA\.EmitterChain\),\s*TxHash:\s*s\.txHash,', rb):
        raise Broken("cleanup.go: re-observation request fields")
    if not re.search(r'common\.PostObservationRequest\(p\.obsvReqSendC, req\)[^\n]*\n(?:[^\n]*\n){1,3}\s*p\.sendC <- s\.ourMsg\s*\n\s*s\.retryCount \+= 1\s*\n\s*s\.lastRetry = time\.Now\(\)', rb):
        raise Broken("cleanup.go: retry branch effects (post request, resend ourMsg, retryCount++, lastRetry=now)")
    nil_branch_uses_cur = re.search(r'wantSigs := CalculateQuorum\(len\(p\.gs\.Keys\)\)', rb) is not None
    # message.go
    mp = re.search(r'if existing, err = vaa\.Unmarshal\(vb\); err != nil \{', ms)
    if not mp:
        raise Broken("message.go: Unmarshal of the stored VAA not found")
    # body of the error branch up to its closing brace
    depth, j = 1, mp.end()
    while j < len(ms) and depth:
        depth += {"{": 1, "}": -1}.get(ms[j], 0)
        j += 1
    errblk = re.sub(r'//[^\n]*', '', ms[mp.end():j - 1])
    stored_panics = "panic(" in errblk
    if re.search(r'\b(return|continue|break)\b', errblk):
        raise Broken("message.go: the error branch of the stored-VAA decode leaves the handler; the model signs again instead")
    after = ms[j - 1:j + 80]
    if stored_panics:
        if not re.match(r'\}\s*if k\.Timestamp\.Sub\(existing\.Timestamp\) > settlementTime \{', after):
            raise Broken("message.go: settlement comparison not found after the stored-VAA decode")
    elif not re.match(r'\} else if k\.Timestamp\.Sub\(existing\.Timestamp\) > settlementTime \{', after):
        raise Broken("message.go: without a panic the settlement comparison must be the else-branch of the stored-VAA decode (existing would be nil)")
    if not re.search(r'if v\.EmitterAddress == p\.governanceEmitterAddress && v\.EmitterChain == p\.governanceChainId \{(?:[^}]|\n)*?return\s*\n\s*\}', ms):
        raise Broken("message.go: governance-emitter drop not found")
    # observation.go: the two quorum comparisons, the sets they are computed over, the verification call, the snapshot choice
    ob = rd("node/pkg/processor/observation.go")
    bc = rd("node/pkg/processor/broadcast.go")
    mq = re.search(r'quorum := CalculateQuorum\(len\(gs\.Keys\)\)(.*?)if len\(sigs\) (>=|>) quorum && !p\.state\.vaaSignatures\[hash\]\.submitted \{', ob, re.S)
    if not mq:
        raise Broken("observation.go: local quorum test `len(sigs) >= quorum && !submitted` over CalculateQuorum(len(gs.Keys)) not found")
    local_cmp = mq.group(2)
    mi = re.search(r'quorum := CalculateQuorum\(len\(p\.gs\.Keys\)\)\s*if len\(v\.Signatures\) (<|<=) quorum \{', ob)
    if not mi:
        raise Broken("observation.go: inbound quorum test `len(v.Signatures) < quorum` over CalculateQuorum(len(p.gs.Keys)) not found")
    inbound_cmp = mi.group(1)
    tail = ob[mi.end():]
    i1 = tail.find("if !v.VerifySignatures(p.gs.Keys) {")
    i2 = tail.find("_, err = p.db.GetSignedVAABytes(*db.VaaIDFromVAA(v))")
    i3 = tail.find("p.db.StoreSignedVAA(v)")
    if not (0 <= i1 < i2 < i3):
        raise Broken("observation.go: inbound path must verify the signatures against p.gs.Keys, then look the id up, then store")
    if not re.search(r'_, err = p\.db\.GetSignedVAABytes\(\*db\.VaaIDFromVAA\(v\)\)\s*if err == nil \{(?:[^}]|\n)*?return\s*\n\s*\} else if err != db\.ErrVAANotFound \{(?:[^}]|\n)*?return', tail):
        raise Broken("observation.go: inbound path must return when the id is already stored (or the lookup fails)")
    if not re.search(r'if p\.state\.vaaSignatures\[hash\] != nil && p\.state\.vaaSignatures\[hash\]\.gs != nil \{\s*gs = p\.state\.vaaSignatures\[hash\]\.gs\s*\} else \{\s*gs = p\.gs\s*\}', ob):
        raise Broken("observation.go: choice of the applicable guardian set (entry snapshot, else current) not found")
    if not re.search(r'p\.state\.vaaSignatures\[hash\]\.gs = p\.gs', bc) or not re.search(r'p\.state\.vaaSignatures\[hash\]\.ourVAA = v', bc):
        raise Broken("broadcast.go: snapshot of the current set together with ourVAA not found")
    if not re.search(r'for i, a := range gs\.Keys \{\s*s, ok := p\.state\.vaaSignatures\[hash\]\.signatures\[a\]', ob):
        raise Broken("observation.go: assembly loop over gs.Keys not found")
    out = ("(* observation.go: `if len(sigs) %s quorum && !submitted` *)\n"
           "Definition proc_local_quorum_reached (q n : Z) : bool := %s.\n"
           "(* observation.go (inbound): `if len(v.Signatures) %s quorum { return }` *)\n"
           "Definition proc_inbound_below_quorum (n q : Z) : bool := %s.\n"
           % (local_cmp, "(q <=? n)" if local_cmp == ">=" else "(q <? n)", inbound_cmp, "(n <? q)" if inbound_cmp == "<" else "(n <=? q)"))
    out += ("Definition ns_second : Z := 1000000000.\n"
           "Definition proc_settlement_ns : Z := %d.\nDefinition proc_retry_ns : Z := %d.\nDefinition proc_tick_ns : Z := %d.\n"
           "Definition proc_submitted_expiry_ns : Z := %d.\nDefinition proc_retry_after_ns : Z := %d.\n"
           "Definition proc_own_retry_budget : Z := %d.\nDefinition proc_nil_retry_budget : Z := %d.\n"
           "(* cleanup settle case: is a missing guardian set (neither snapshot nor current) guarded before len(gs.Keys)? *)\n"
           "Definition proc_cleanup_nil_gs_guarded : bool := %s.\n"
           "(* cleanup: the branch for never-observed entries dereferences the CURRENT set *)\n"
           "Definition proc_cleanup_nil_branch_uses_cur : bool := %s.\n"
           "(* handleMessage: Unmarshal failure of the stored copy panics? *)\n"
           "Definition proc_stored_unmarshal_failure_panics : bool := %s.\n"
           % (settle, retry, tick, hours * 3600 * 10**9, minutes * 60 * 10**9, own_budget, nil_budget,
              "true" if guard else "false", "true" if nil_branch_uses_cur else "false", "true" if stored_panics else "false"))
    return out, {"local_quorum_cmp": local_cmp, "inbound_quorum_cmp": inbound_cmp, "settlement_ns": settle, "retry_ns": retry, "tick_ns": tick, "hours": hours, "minutes": minutes,
                 "own_budget": own_budget, "nil_budget": nil_budget, "nil_gs_guarded": guard, "stored_unmarshal_panics": stored_panics}

EXTRACTORS = [("processor_consts", x_processor_consts)]
