#!/usr/bin/env python3
"""Extractors: read Go / Solidity / Ralph source text of /repo's working tree and regenerate coq/gen/Extracted.v.

Every extractor is anchored on one function / statement.  When the anchor's shape is no longer found the extractor
records itself as broken (the definition is then emitted from the last known shape *marked broken* so that the Coq
development still builds and the driver can go looking for a failing input); the driver reports
`tie_broken: extractor <name>` for every property that depends on it.
"""
import json, os, re, sys

REPO = os.environ.get("VERIF_REPO", "/repo")
VERIF = os.path.dirname(os.path.dirname(os.path.abspath(__file__)))

class Broken(Exception):
    pass

def rd(rel):
    try:
        return open(os.path.join(REPO, rel)).read()
    except OSError as e:
        raise Broken("cannot read %s: %s" % (rel, e))

# ---------------------------------------------------------------- arithmetic expressions
def tokenize(s):
    toks = re.findall(r'\s*(\d+|\w+!?|>>|<<|[-+*/()])', s)
    if ''.join(toks) != re.sub(r'\s+', '', s):
        raise Broken("cannot tokenize expression %r" % s)
    return toks

def parse_expr(s, shift_tight=False):
    # shift_tight: Go puts << and >> on the level of * and /; Solidity (and C) put them below + and -
    toks = tokenize(s)
    pos = [0]
    def peek():
        return toks[pos[0]] if pos[0] < len(toks) else None
    def eat():
        pos[0] += 1
        return toks[pos[0] - 1]
    def atom():
        t = eat()
        if t == '(':
            e = expr()
            if eat() != ')':
                raise Broken("expected ) in %r" % s)
            return e
        if re.fullmatch(r'\d+', t):
            return ('lit', int(t))
        if re.fullmatch(r'[A-Za-z_]\w*', t):
            return ('var', t)
        raise Broken("unexpected token %r in %r" % (t, s))
    def term():
        e = atom()
        while peek() in (('*', '/', '>>', '<<') if shift_tight else ('*', '/')):
            op = eat()
            e = (op, e, atom())
        return e
    def addsub():
        e = term()
        while peek() in ('+', '-'):
            op = eat()
            e = (op, e, term())
        return e
    def expr():   # shifts below + and - (not reached for Go: taken at term level there)
        e = addsub()
        while peek() in ('>>', '<<'):
            op = eat()
            e = (op, e, addsub())
        return e
    e = expr()
    if pos[0] != len(toks):
        raise Broken("trailing tokens in %r" % s)
    return e

def gallina(e, div, rename=None):
    k = e[0]
    if k == 'lit':
        return str(e[1])
    if k == 'var':
        return (rename or {}).get(e[1], e[1])
    a, b = gallina(e[1], div, rename), gallina(e[2], div, rename)
    if k == '/':
        return "(%s %s %s)" % (div, a, b)
    if k == '>>':
        return "(Z.shiftr %s %s)" % (a, b)
    if k == '<<':
        return "(Z.shiftl %s %s)" % (a, b)
    return "(%s %s %s)" % (a, k, b)

# ---------------------------------------------------------------- individual extractors
def x_quorum_go():
    src = rd("node/pkg/processor/quorum.go")
    m = re.search(r'func CalculateQuorum\((\w+) int\) int \{\s*return (.+?)\s*\}', src, re.S)
    if not m:
        raise Broken("CalculateQuorum: single-return shape not found")
    e = parse_expr(re.sub(r'//[^\n]*|/\*.*?\*/', '', m.group(2)), shift_tight=True)
    # Go int division truncates toward zero
    return "Definition go_quorum (n : Z) : Z := %s.\n" % gallina(e, "Z.quot", {m.group(1): "n"}), {"expr": m.group(2)}

def x_quorum_sol():
    src = re.sub(r'//[^\n]*|/\*.*?\*/', '', rd("ethereum/contracts/Messages.sol"), flags=re.S)   # comments are not code
    m = re.search(r'function quorum\(uint (\w+)\)[^{]*\{\s*return (.+?);\s*\}', src, re.S)
    if not m:
        raise Broken("Messages.sol quorum(): single-return shape not found")
    e = parse_expr(re.sub(r'//[^\n]*|/\*.*?\*/', '', m.group(2)))
    # the comparison in verifyVM
    m2 = re.search(r'if\s*\(\s*vm\.signatures\.length\s*(<|<=)\s*quorum\(guardianSet\.keys\.length\)\s*\)\s*\{\s*return \(false', src)
    if not m2:
        raise Broken("Messages.sol verifyVM: quorum comparison not found")
    # reject if len < quorum  <=> accept iff quorum <= len ; reject if len <= quorum <=> accept iff quorum < len
    acc = "Z.leb q k" if m2.group(1) == '<' else "Z.ltb q k"
    out = "Definition sol_quorum (n : Z) : Z := %s.\n" % gallina(e, "Z.div", {m.group(1): "n"})
    out += "(* Messages.sol verifyVM: `if (vm.signatures.length %s quorum(..)) return false` *)\n" % m2.group(1)
    out += "Definition sol_quorum_accepts (q k : Z) : bool := %s.\n" % acc
    return out, {"expr": m.group(2), "reject_if_len": m2.group(1)}

def x_quorum_ral():
    src = rd("alephium/contracts/governance.ral")
    m = re.search(r'let quorumSize = (.+)', src)
    if not m:
        raise Broken("governance.ral: `let quorumSize = ...` not found")
    formula = re.sub(r'//.*$', '', m.group(1)).strip()
    e = parse_expr(formula)
    vs = set(re.findall(r'[A-Za-z_]\w*', formula))
    if len(vs) != 1:
        raise Broken("governance.ral quorumSize: expected exactly one variable, got %s" % sorted(vs))
    m2 = re.search(r'assert!\(quorumSize (<=|<|>=|>) signatureSize', src)
    if not m2:
        raise Broken("governance.ral: quorum assert not found")
    acc = {"<=": "Z.leb q k", "<": "Z.ltb q k", ">=": "Z.geb q k", ">": "Z.gtb q k"}[m2.group(1)]
    out = "Definition ral_quorum (n : Z) : Z := %s.\n" % gallina(e, "Z.div", {vs.pop(): "n"})
    out += "(* governance.ral: assert!(quorumSize %s signatureSize, ..) *)\n" % m2.group(1)
    out += "Definition ral_quorum_accepts (q k : Z) : bool := %s.\n" % acc
    return out, {"expr": formula, "assert": m2.group(1)}

TARGETS = {}   # extractor name -> (file stem, header or None); default: Extracted

EXTRACTORS = [
    ("quorum_go", x_quorum_go),
    ("quorum_sol", x_quorum_sol),
    ("quorum_ral", x_quorum_ral),
]

def load_more():
    # further extractors live in sibling modules to keep this file readable
    here = os.path.dirname(os.path.abspath(__file__))
    sys.path.insert(0, here)
    import glob
    seen = {n for n, _ in EXTRACTORS}
    for f in sorted(glob.glob(os.path.join(here, "x_*.py"))):
        try:
            mod = __import__(os.path.basename(f)[:-3])
        except Exception as e:
            print("extract: cannot import %s: %r" % (f, e), file=sys.stderr)
            continue
        for n, fn in mod.EXTRACTORS:
            if n not in seen:
                seen.add(n)
                EXTRACTORS.append((n, fn))
                # a module may send its definitions to a file of its own (coq/gen/<TARGET>.v, logical name WH.gen.<TARGET>)
                # with its own import header, so that work in progress on one extractor cannot break the others' builds
                if getattr(mod, "TARGET", None):
                    TARGETS[n] = (mod.TARGET, getattr(mod, "HEADER", None))

def main():
    load_more()
    status = {}
    chunks = []
    fallback_path = os.path.join(VERIF, "gen", "fallback.json")
    fallback = json.load(open(fallback_path)) if os.path.exists(fallback_path) else {}
    for name, fn in EXTRACTORS:
        try:
            text, info = fn()
            status[name] = {"ok": True, "info": info}
        except Exception as e:  # Broken, or a bug in an extractor: either way that definition is not tied any more
            status[name] = {"ok": False, "error": ("" if isinstance(e, Broken) else "extractor crashed: ") + repr(e) if not isinstance(e, Broken) else str(e)}
            text = fallback.get(name)
            if text is None:
                text = "(* extractor %s broken and no fallback known *)\n" % name
        chunks.append("(* ---- extractor %s %s *)\n%s" % (name, "" if status[name]["ok"] else "[BROKEN: last known shape]", text))
    if os.environ.get("VERIF_WRITE_FALLBACK") == "1":
        fb = {}
        for (name, _), ch in zip(EXTRACTORS, chunks):
            if status[name]["ok"]:
                fb[name] = ch.split("\n", 1)[1]
        json.dump(fb, open(fallback_path, "w"), indent=1, sort_keys=True)
    gen_note = "(* GENERATED by /verif/gen/extract.py from /repo's working tree on every run. Do not edit. *)\n"
    hdr = (gen_note +
           "From Coq Require Import List ZArith Arith Bool Strings.Byte.\nFrom WH Require Import lib.Layout.\nImport ListNotations.\nOpen Scope Z_scope.\n\n")
    coqdir = os.environ.get("VERIF_COQ") or os.path.join(VERIF, "coq")
    files = {"Extracted": [hdr]}
    for (name, _), ch in zip(EXTRACTORS, chunks):
        stem, h = TARGETS.get(name, ("Extracted", None))
        if stem not in files:
            files[stem] = [gen_note + (h or hdr[len(gen_note):]) + "\n"]
        files[stem].append(ch)
    os.makedirs(os.path.join(coqdir, "gen"), exist_ok=True)
    for stem, parts in files.items():
        out = parts[0] + "\n".join(parts[1:])
        path = os.path.join(coqdir, "gen", stem + ".v")
        old = open(path).read() if os.path.exists(path) else None
        if old != out:
            open(path, "w").write(out)
    os.makedirs(os.path.join(VERIF, "build"), exist_ok=True)
    json.dump(status, open(os.path.join(os.path.dirname(coqdir) if os.environ.get("VERIF_COQ") else os.path.join(VERIF, "build"), "extract_status.json"), "w"), indent=1)
    return status

if __name__ == "__main__":
    sys.path.insert(0, os.path.dirname(os.path.abspath(__file__)))
    import extract as _self  # so that sibling modules share this module's Broken class
    st = _self.main()
    for k, v in st.items():
        print(k, "ok" if v["ok"] else "BROKEN: " + v["error"])
