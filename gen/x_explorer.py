"""C19: explorer-backend anchors (guardian-set store locking discipline, update shape, verifyVAA / Push / dedup shapes, queue size)."""
import os, re, subprocess
from extract import rd, Broken, parse_expr, gallina, REPO

FIELDS = ("gs.currentGuardianSetIndex", "gs.guardianSetLists")

def _methods(src):
    """yield (name, body_lines) for every func in the file (top-level, gofmt layout: closing brace in column 0)"""
    for m in re.finditer(r'^func (?:\((\w+) \*?\w+\) )?(\w+)\([^\n]*\{\n(.*?)^\}', src, re.S | re.M):
        yield m.group(2), m.group(3).split("\n")

def _unlocked_accesses(lines):
    """linear scan: a field access is 'locked' iff a gs.lock.Lock() precedes it with no intervening non-deferred Unlock.
    The scan is only trusted when every non-deferred Unlock sits at the indentation of its Lock (straight-line regions)."""
    held = False
    lock_indent = None
    bad = []
    for ln in lines:
        code = ln.split("//")[0]
        ind = len(code) - len(code.lstrip("\t"))
        if "gs.lock.Lock()" in code:
            held = True
            lock_indent = ind
            continue
        if "gs.lock.Unlock()" in code:
            if "defer" in code:
                continue
            if lock_indent is not None and ind != lock_indent:
                raise Broken("gst_data.go: Unlock() inside a nested block: locking discipline not understood by the extractor")
            held = False
            continue
        if any(f in code for f in FIELDS) and not held:
            bad.append(code.strip())
    return bad

def x_explorer_store():
    src = rd("explorer-backend/guardiansets/gst_data.go")
    unlocked = {}
    seen = set()
    for name, lines in _methods(src):
        seen.add(name)
        if name == "NewGuardianSets":
            continue   # the value is not shared yet
        bad = _unlocked_accesses(lines)
        if bad:
            unlocked[name] = bad
    for need in ("GetGuardianSet", "GetCurrentGuardianSet", "updateGuardianSets"):
        if need not in seen:
            raise Broken("gst_data.go: func %s not found" % need)
    if "updateGuardianSets" in unlocked:
        raise Broken("gst_data.go: updateGuardianSets accesses the store outside gs.lock: " + "; ".join(unlocked["updateGuardianSets"]))
    body = src[src.index("func (gs *GuardianSets) updateGuardianSets("):]
    body = body[:body.index("\n}\n")]
    shapes = [
        (r'if len\(guardianSets\) == 0 \{\s*return nil\s*\}', "empty batch returns before locking"),
        (r'maxGuardianSetIndex := guardianSets\[len\(guardianSets\)-1\]\.Index', "max index = index of the last element"),
        (r'if maxGuardianSetIndex <= uint32\(gs\.currentGuardianSetIndex\) \{\s*return nil\s*\}', "nothing new: return"),
        (r'index := 0\s*\n\s*for i, guardianSet := range guardianSets \{\s*if guardianSet\.Index == uint32\(gs\.currentGuardianSetIndex\)\+1 \{\s*index = i\s*break\s*\}\s*\}',
         "search of the first new element, default 0"),
    ]
    for rx, what in shapes:
        if not re.search(rx, body):
            raise Broken("updateGuardianSets: shape not found: " + what)
    wi = re.search(r'gs\.currentGuardianSetIndex = int\(maxGuardianSetIndex\)', body)
    wa = re.search(r'gs\.guardianSetLists = append\(gs\.guardianSetLists, guardianSets\[index:\]\.\.\.\)', body)
    if not wi or not wa:
        raise Broken("updateGuardianSets: the two writes (index, append) not found")
    get = src[src.index("func (gs *GuardianSets) GetGuardianSet("):]
    get = get[:get.index("\n}\n")]
    if not re.search(r'getGuardianSetsRange\(ctx, uint32\(\w+(?:\.\w+)?\+1\), uint32\(index\)\)', get):
        raise Broken("GetGuardianSet: fetch of the range current+1..index not found")
    if not re.search(r'gs\.updateGuardianSets\(guardianSets\)\s*\n\s*gs\.guardianSetC <- gs\.GetCurrentGuardianSet\(\)', get):
        raise Broken("GetGuardianSet: update + notification after the fetch not found")
    # getGuardianSetsRange: the requested range against what the contract has.  Getters.sol getGuardianSet(i) is a mapping read: an index
    # the contract does not have (yet) is answered with an EMPTY set, not with an error; the range is capped at the contract's current
    # index iff the function reads that index and lowers toIndex to it before the per-index loop
    try:
        rng = src[src.index("func (gs *GuardianSets) getGuardianSetsRange("):]
        rng = rng[:rng.index("\n}\n")]
    except ValueError:
        raise Broken("gst_data.go: func getGuardianSetsRange not found")
    call = re.search(r'return getGuardianSetsFromChain\(ctx, contract, fromIndex, toIndex\)', rng)
    if not call:
        raise Broken("getGuardianSetsRange: `return getGuardianSetsFromChain(ctx, contract, fromIndex, toIndex)` not found")
    mcur = re.search(r'(\w+), err := contract\.GetCurrentGuardianSetIndex\(', rng)
    capped = False
    if mcur and mcur.start() < call.start():
        v = mcur.group(1)
        mcap = re.search(r'if toIndex > %s \{\s*toIndex = %s\s*\}' % (v, v), rng)
        capped = bool(mcap and mcur.start() < mcap.start() < call.start())
        if not capped:
            raise Broken("getGuardianSetsRange: reads the contract's current index but `if toIndex > %s { toIndex = %s }` before the fetch not found" % (v, v))
    sol = rd("ethereum/contracts/Getters.sol")
    if not re.search(r'function getGuardianSet\(uint32 index\)[^{]*\{\s*return _state\.guardianSets\[index\];\s*\}', sol):
        raise Broken("Getters.sol: getGuardianSet is no longer the plain mapping read `return _state.guardianSets[index]` (what it answers for an unknown index is not known)")
    locked = not unlocked
    out = ("(* gst_data.go getGuardianSetsRange: is the fetched range capped at the contract's current guardian-set index? (Getters.sol getGuardianSet is a\n"
           "   plain mapping read: an index the contract does not have is answered with the empty set) *)\n"
           "Definition explorer_range_capped : bool := %s.\n" % ("true" if capped else "false"))
    out += ("(* gst_data.go: does every method read currentGuardianSetIndex / guardianSetLists under gs.lock? *)\n"
           "Definition explorer_reader_locked : bool := %s.\n"
           "(* updateGuardianSets: is the index written before the list is appended? *)\n"
           "Definition explorer_writer_index_first : bool := %s.\n" % ("true" if locked else "false", "true" if wi.start() < wa.start() else "false"))
    return out, {"reader_locked": locked, "unlocked_accesses": unlocked, "writer_index_first": wi.start() < wa.start(), "range_capped": capped}

def _modcache():
    try:
        r = subprocess.run(["go", "env", "GOMODCACHE"], capture_output=True, text=True, timeout=20)
        p = r.stdout.strip()
        if p:
            return p
    except Exception:
        pass
    return os.path.expanduser("~/go/pkg/mod")

def x_explorer_gate():
    src = rd("explorer-backend/processor/vaa_gossip_consumer.go")
    try:
        vf = src[src.index("func verifyVAA("):src.index("func (p *vaaGossipConsumer) Push(")]
        push = src[src.index("func (p *vaaGossipConsumer) Push("):]
    except ValueError:
        raise Broken("vaa_gossip_consumer.go: verifyVAA / Push not found")
    seq = [
        (r'func verifyVAA\(v \*vaa\.VAA, addresses \[\]ethCommon\.Address\) error \{', "signature"),
        (r'if addresses == nil \{\s*return errors\.New', "nil address list rejected"),
        (r'if len\(v\.Signatures\) == 0 \{\s*return errors\.New', "unsigned VAA rejected"),
        (r'quorum := processor\.CalculateQuorum\(len\(addresses\)\)', "quorum computed from the number of addresses"),
        (r'if len\(v\.Signatures\) < quorum \{\s*return errors\.New', "fewer signatures than quorum rejected"),
        (r'if !v\.VerifySignatures\(addresses\) \{\s*return errors\.New', "VerifySignatures against the addresses"),
        (r'\n\treturn nil\n\}', "accept"),
    ]
    pos = 0
    for rx, what in seq:
        m = re.compile(rx).search(vf, pos)
        if not m:
            raise Broken("verifyVAA: step not found (in order): " + what)
        pos = m.end()
    pseq = [
        (r'guardianSet, err := p\.guardianSets\.GetGuardianSet\(ctx, int\(v\.GuardianSetIndex\)\)\s*\n\s*if err != nil \{\s*return err\s*\}', "lookup of the set the VAA names"),
        (r'if err := verifyVAA\(v, guardianSet\.Keys\); err != nil \{[^}]*return err\s*\}', "verification against that set's keys"),
        (r'err = p\.deduplicator\.Apply\(ctx, v\.MessageID\(\), func\(\) error \{', "dedup by message id"),
        (r'select \{\s*case p\.messageQueue <- message:\s*return nil\s*default:\s*return fmt\.Errorf\(', "non-blocking enqueue"),
    ]
    pos = 0
    for rx, what in pseq:
        m = re.compile(rx).search(push, pos)
        if not m:
            raise Broken("Push: step not found (in order): " + what)
        pos = m.end()
    dd = rd("explorer-backend/deduplicator/deduplicator.go")
    if not re.search(r'if v, _ := d\.cache\.Get\(ctx, key\); v \{\s*return nil\s*\}\s*if err := fn\(\); err != nil \{\s*return err\s*\}\s*_ = d\.cache\.Set\(ctx, key, true',
                     dd):
        raise Broken("deduplicator.Apply: shape `seen? return; if fn() fails return err; mark` not found")
    mn = rd("explorer-backend/main.go")
    q = re.search(r'messageQueue := make\(chan \*processor\.Message, (\d+)\)', mn)
    if not q:
        raise Broken("main.go: messageQueue capacity not found")
    # which CalculateQuorum does the explorer link?  (go.mod pins a node module version; a replace directive would point into the tree)
    gm = rd("explorer-backend/go.mod")
    tree = rd("node/pkg/processor/quorum.go")
    rep = re.search(r'^\s*(?:replace\s+)?github\.com/alephium/wormhole-fork/node\s*=>\s*(\S+)', gm, re.M)
    if rep:
        p = os.path.normpath(os.path.join(REPO, "explorer-backend", rep.group(1), "pkg/processor/quorum.go"))
        linked_from = rep.group(1)
    else:
        m = re.search(r'github\.com/alephium/wormhole-fork/node (\S+)', gm)
        if not m:
            raise Broken("explorer-backend/go.mod: node module requirement not found")
        p = os.path.join(_modcache(), "github.com/alephium/wormhole-fork/node@%s/pkg/processor/quorum.go" % m.group(1))
        linked_from = m.group(1)
    try:
        linked = open(p).read()
    except OSError as e:
        raise Broken("cannot read the quorum.go the explorer links (%s): %s" % (p, e))
    rx = r'func CalculateQuorum\((\w+) int\) int \{\s*return (.+?)\s*\}'
    a, b = re.search(rx, linked, re.S), re.search(rx, tree, re.S)
    if not a or not b:
        raise Broken("CalculateQuorum: single-return shape not found (linked copy or tree)")
    ea = gallina(parse_expr(a.group(2)), "Z.quot", {a.group(1): "n"})
    eb = gallina(parse_expr(b.group(2)), "Z.quot", {b.group(1): "n"})
    if ea != eb:
        raise Broken("the node module linked by explorer-backend (%s) computes quorum as %s, the tree as %s" % (linked_from, a.group(2), b.group(2)))
    # ... and which VerifySignatures?  model/Vaa.v transcribes the tree's; the explorer runs the linked copy
    def _verify_text(path_or_src, is_path):
        try:
            src2 = open(path_or_src).read() if is_path else path_or_src
        except OSError as e:
            raise Broken("cannot read the structs.go the explorer links: %s" % e)
        m = re.search(r'func \(v \*VAA\) VerifySignatures\(addresses \[\]common\.Address\) bool \{.*?\n\}\n', src2, re.S)
        if not m:
            raise Broken("VerifySignatures not found (linked copy or tree)")
        return re.sub(r'\s+', ' ', re.sub(r'//[^\n]*', '', m.group(0))).strip()
    if _verify_text(os.path.join(os.path.dirname(os.path.dirname(p)), "vaa", "structs.go"), True) != _verify_text(rd("node/pkg/vaa/structs.go"), False):
        raise Broken("the node module linked by explorer-backend (%s) has a VerifySignatures that differs from the tree's (which model/Vaa.v transcribes)" % linked_from)
    out = ("(* main.go: capacity of the persistence queue *)\nDefinition explorer_queue_cap : nat := %s%%nat.\n" % q.group(1))
    return out, {"queue_cap": int(q.group(1)), "linked_node_module": linked_from, "linked_quorum_expr": a.group(2), "linked_VerifySignatures": "same text as node/pkg/vaa/structs.go"}

EXTRACTORS = [("explorer_store", x_explorer_store), ("explorer_gate", x_explorer_gate)]
