"""C15 — contract side and Go side of the governance payloads.

ral_governance : the Ralph functions that parse governance payloads (governance.ral, token_bridge_governance.ral,
                 token_bridge_factory.ral) are translated STATEMENT BY STATEMENT into Gallina functions over the
                 combinators of coq/lib/Ralph.v (module RalGov of gen/Extracted.v).  Free names (contract fields, values
                 returned by the envelope parser) become parameters; let-bound names, state writes and return values are
                 the entries of the returned environment.  Statements that cannot be translated must be on the
                 per-function list of statements known not to parse the payload, otherwise the extractor is Broken.
go_payloads    : the Serialize methods of node/pkg/vaa/payloads.go translated statement by statement into Gallina
                 functions (module GoPay), None = panic.
go_admin       : the validation guards of node/cmd/guardiand/adminserver.go (thresholds, in the order they are tested),
                 CreateGovernanceVAA's consistency level, MaxGuardianCount.
"""
import re
from extract import rd, Broken

# definitions of this module go to coq/gen/ExtractedGov.v (WH.gen.ExtractedGov), not to the shared Extracted.v
TARGET = "ExtractedGov"
HEADER = ("From Coq Require Import List ZArith Arith Bool Strings.Byte.\nFrom Coq Require Strings.String.\n"
          "From WH Require Import lib.Bytes.\nFrom WH Require lib.Ralph.\nImport ListNotations.\nOpen Scope Z_scope.\n")

# ======================================================================================================= Ralph front end
TOK = re.compile(r'\s*(?:(0x[0-9a-fA-F]+)|(\d+)|(#[0-9a-fA-F]*)|([A-Za-z_]\w*!?)|(\+\+|==|!=|>=|<=|&&|\|\||->|[-+*/()<>,!{}\[\]=.:;]))')


class Untranslatable(Exception):
    pass


def strip_comments(src):
    return re.sub(r'//[^\n]*', '', src)


def lex(s):
    toks = []
    pos = 0
    s = s.rstrip()
    while pos < len(s):
        m = TOK.match(s, pos)
        if not m or m.end() == pos:
            raise Broken("ralph: cannot tokenize at %r" % s[pos:pos + 40])
        if m.group(1):
            toks.append(('num', int(m.group(1), 16)))
        elif m.group(2):
            toks.append(('num', int(m.group(2))))
        elif m.group(3) is not None:
            toks.append(('hex', m.group(3)[1:]))
        elif m.group(4):
            toks.append(('id', m.group(4)))
        else:
            toks.append(('op', m.group(5)))
        pos = m.end()
    return toks


class P:
    """recursive descent parser for the statement / expression subset used by the governance parsers"""
    def __init__(self, toks):
        self.t = toks
        self.i = 0

    def peek(self, k=0):
        return self.t[self.i + k] if self.i + k < len(self.t) else ('eof', None)

    def eat(self, kind=None, val=None):
        tk = self.peek()
        if (kind and tk[0] != kind) or (val is not None and tk[1] != val):
            raise Broken("ralph: expected %s %s, found %r" % (kind, val, tk))
        self.i += 1
        return tk

    def isop(self, v, k=0):
        return self.peek(k) == ('op', v)

    # ---- expressions
    def expr(self):
        return self.or_()

    def or_(self):
        a = self.and_()
        while self.isop('||'):
            self.eat()
            a = ('bin', '||', a, self.and_())
        return a

    def and_(self):
        a = self.cmp()
        while self.isop('&&'):
            self.eat()
            a = ('bin', '&&', a, self.cmp())
        return a

    def cmp(self):
        a = self.add()
        if self.peek()[0] == 'op' and self.peek()[1] in ('==', '!=', '>', '>=', '<', '<='):
            op = self.eat()[1]
            a = ('bin', op, a, self.add())
        return a

    def add(self):
        a = self.mul()
        while self.peek()[0] == 'op' and self.peek()[1] in ('+', '-', '++'):
            op = self.eat()[1]
            a = ('bin', op, a, self.mul())
        return a

    def mul(self):
        a = self.unary()
        while self.peek()[0] == 'op' and self.peek()[1] in ('*', '/'):
            op = self.eat()[1]
            a = ('bin', op, a, self.unary())
        return a

    def unary(self):
        if self.isop('!'):
            self.eat()
            return ('not', self.unary())
        return self.postfix()

    def skip_braces(self):
        d = 0
        while True:
            tk = self.eat()
            if tk == ('op', '{'):
                d += 1
            elif tk == ('op', '}'):
                d -= 1
                if d == 0:
                    return
            elif tk[0] == 'eof':
                raise Broken("ralph: unbalanced braces")

    def postfix(self):
        tk = self.eat()
        if tk[0] == 'num':
            e = ('num', tk[1])
        elif tk[0] == 'hex':
            e = ('hex', tk[1])
        elif tk[0] == 'id':
            e = ('name', tk[1])
        elif tk == ('op', '('):
            e = self.expr()
            self.eat('op', ')')
        else:
            raise Broken("ralph: unexpected token %r in expression" % (tk,))
        while True:
            if self.isop('('):
                self.eat()
                args = []
                if not self.isop(')'):
                    args.append(self.expr())
                    while self.isop(','):
                        self.eat()
                        args.append(self.expr())
                self.eat('op', ')')
                e = ('call', e, args)
            elif self.isop('{') and e[0] in ('name', 'member'):
                # asset approvals `callee{payer -> ALPH: x}(args)`: only when a call follows
                save = self.i
                self.skip_braces()
                if not self.isop('('):
                    self.i = save
                    return e
            elif self.isop('.'):
                self.eat()
                e = ('member', e, self.eat('id')[1])
            elif self.isop('[') and self.peek(1)[0] == 'num' and self.isop(']', 2):
                self.eat()
                n = self.eat('num')[1]
                self.eat('op', ']')
                e = ('index', e, n)
            else:
                return e

    # ---- statements
    def block(self):
        self.eat('op', '{')
        out = []
        while not self.isop('}'):
            out.append(self.stmt())
        self.eat('op', '}')
        return out

    def stmt(self):
        start = self.i
        tk = self.peek()
        if tk == ('id', 'let'):
            self.eat()
            if self.peek() == ('id', 'mut'):
                self.eat()
            if self.isop('('):
                self.eat()
                names = [self.eat('id')[1]]
                while self.isop(','):
                    self.eat()
                    names.append(self.eat('id')[1])
                self.eat('op', ')')
            else:
                names = [self.eat('id')[1]]
            self.eat('op', '=')
            e = self.expr()
            st = ('let', names, e)
        elif tk == ('id', 'return'):
            self.eat()
            es = []
            if not self.isop('}'):
                es.append(self.expr())
                while self.isop(','):
                    self.eat()
                    es.append(self.expr())
            st = ('return', es)
        elif tk == ('id', 'if'):
            self.eat()
            self.eat('op', '(')
            c = self.expr()
            self.eat('op', ')')
            th = self.block()
            el = None
            if self.peek() == ('id', 'else'):
                self.eat()
                el = [self.stmt()] if self.peek() == ('id', 'if') else self.block()
            st = ('if', c, th, el)
        else:
            e = self.expr()
            if self.isop('='):
                self.eat()
                st = ('assign', e, self.expr())
            elif e[0] == 'call' and e[1] == ('name', 'assert!'):
                if len(e[2]) != 2:
                    raise Broken("ralph: assert! with %d arguments" % len(e[2]))
                st = ('assert', e[2][0])
            else:
                st = ('expr', e)
        return st + (self.text(start, self.i),)

    def text(self, a, b):
        def s(tk):
            return '#' + tk[1] if tk[0] == 'hex' else str(tk[1])
        return " ".join(s(tk) for tk in self.t[a:b])


def ral_function(src, name, what):
    """(params [(name, type)], return types, statements) of `fn name`"""
    m = re.search(r'\bfn %s\s*\(' % re.escape(name), src)
    if not m:
        raise Broken("%s: fn %s not found" % (what, name))
    d, j = 1, m.end()
    while d:
        if j >= len(src):
            raise Broken("%s: fn %s: unbalanced parentheses" % (what, name))
        d += {'(': 1, ')': -1}.get(src[j], 0)
        j += 1
    params = re.findall(r'(\w+)\s*:\s*([\w\[\]; ]+?)\s*(?:,|$)', src[m.end():j - 1].strip())
    k = src.index('{', j)
    rets = re.findall(r'\w+', src[j:k].replace('->', ''))
    d, e = 0, k
    while True:
        if e >= len(src):
            raise Broken("%s: fn %s: unbalanced braces" % (what, name))
        d += {'{': 1, '}': -1}.get(src[e], 0)
        e += 1
        if d == 0:
            break
    p = P(lex(src[k:e]))
    body = p.block()
    return params, rets, body


def ral_consts(src, what):
    """const NAME = literal ; enum E { A = literal ... } -> {name: ('num', n) | ('hex', h)}"""
    out = {}
    for m in re.finditer(r'^\s*const (\w+)\s*=\s*(0x[0-9a-fA-F]+|\d+|#[0-9a-fA-F]*)\s*$', src, re.M):
        v = m.group(2)
        out[m.group(1)] = ('hex', v[1:]) if v.startswith('#') else ('num', int(v, 0))
    for m in re.finditer(r'enum (\w+)\s*\{(.*?)\}', src, re.S):
        for e in re.finditer(r'(\w+)\s*=\s*(0x[0-9a-fA-F]+|\d+|#[0-9a-fA-F]*)', m.group(2)):
            v = e.group(2)
            out[m.group(1) + "." + e.group(1)] = ('hex', v[1:]) if v.startswith('#') else ('num', int(v, 0))
    return out


def glit(c):
    if c[0] == 'num':
        return "(r_num %d)" % c[1]
    return "(r_hex [%s])" % "; ".join("x" + c[1][i:i + 2].lower() for i in range(0, len(c[1]), 2))


BUILTINS = {"size!": ("r_size", 1), "byteVecSlice!": ("r_slice", 3), "byteVecToAddress!": ("r_addr", 1)}
BINOPS = {"+": "r_add", "-": "r_sub", "*": "r_mul", "/": "r_div", "++": "r_concat", "==": "r_eq", "!=": "r_ne", "<": "r_lt", "<=": "r_le",
          ">": "r_gt", ">=": "r_ge", "&&": "r_and", "||": "r_or"}
INPUT_CALLS = ("parseAndVerifyGovernanceVAA", "parseAndVerifyVAA")


class Tr:
    """translation of one Ralph function"""
    def __init__(self, fname, tag, consts, params, translated, skip_ok):
        self.fname, self.tag, self.consts, self.translated, self.skip_ok = fname, tag, consts, translated, skip_ok
        self.decl = [p for p, _ in params]
        self.params = []          # gallina parameter names, in order of discovery
        self.pdoc = []            # (gallina name, ralph text)
        self.locals = {}          # ralph name -> gallina variable
        self.order = []           # environment entries in binding order: (key, gallina var)
        self.poison = set()
        self.skipped = []
        self.action = None
        self.used_consts = set()
        self.calls = []
        self.noskip = False       # dry run of an if's branches: an untranslatable statement inside makes the whole `if` untranslatable

    def param(self, text):
        g = "v_" + re.sub(r'\W+', '_', text).strip('_')
        if g not in self.params:
            self.params.append(g)
            self.pdoc.append((g, text))
        return g

    def bind(self, name, key=None, prefix="v_"):
        g = prefix + re.sub(r'\W+', '_', name).strip('_')
        self.locals[name] = g
        key = key or name
        self.order = [(k, v) for k, v in self.order if k != key] + [(key, g)]
        return g

    def ex(self, e):
        k = e[0]
        if k == 'num':
            return "(r_num %d)" % e[1]
        if k == 'hex':
            return glit(e)
        if k == 'name':
            n = e[1]
            if n in self.poison:
                raise Untranslatable("uses %s" % n)
            if n in self.locals:
                return "(r_var %s)" % self.locals[n]
            if n in self.consts:
                self.used_consts.add(n)
                return "c_%s_%s" % (self.tag, n)
            if n.endswith('!'):
                raise Untranslatable("built-in %s" % n)
            return "(r_var %s)" % self.param(n)
        if k == 'member':
            if e[1][0] == 'name':
                full = e[1][1] + "." + e[2]
                if full in self.consts:
                    self.used_consts.add(full)
                    return "c_%s_%s" % (self.tag, full.replace(".", "_"))
            raise Untranslatable("member %s" % e[2])
        if k == 'index':
            if e[1][0] == 'name' and e[1][1] not in self.locals:
                txt = "%s[%d]" % (e[1][1], e[2])
                if txt in self.locals:
                    return "(r_var %s)" % self.locals[txt]
                return "(r_var %s)" % self.param(txt)
            raise Untranslatable("index")
        if k == 'not':
            return "(r_not %s)" % self.ex(e[1])
        if k == 'bin':
            return "(%s %s %s)" % (BINOPS[e[1]], self.ex(e[2]), self.ex(e[3]))
        if k == 'call':
            if e[1][0] == 'name':
                fn = e[1][1]
                if fn in BUILTINS and len(e[2]) == BUILTINS[fn][1]:
                    return "(%s %s)" % (BUILTINS[fn][0], " ".join(self.ex(a) for a in e[2]))
                m = re.fullmatch(r'u256From(\d+)Byte!', fn)
                if m and len(e[2]) == 1:
                    return "(r_u256from %s %s)" % (m.group(1), self.ex(e[2][0]))
                m = re.fullmatch(r'u256To(\d+)Byte!', fn)
                if m and len(e[2]) == 1:
                    return "(r_u256to %s %s)" % (m.group(1), self.ex(e[2][0]))
            raise Untranslatable("call of %s" % callee_name(e[1]))
        raise Untranslatable(k)

    def names_in(self, e):
        if e[0] == 'name':
            return {e[1]}
        out = set()
        for x in e[1:]:
            if isinstance(x, tuple):
                out |= self.names_in(x)
            elif isinstance(x, list):
                for y in x:
                    if isinstance(y, tuple):
                        out |= self.names_in(y)
        return out

    def skip(self, st, why):
        txt = st[-1]
        if not any(re.search(p, txt) for p in self.skip_ok):
            raise Broken("%s: statement `%s` cannot be translated (%s) and is not on the list of statements known not to parse the payload"
                         % (self.fname, txt[:160], why))
        self.skipped.append(txt)
        if st[0] == 'let':
            for n in st[1]:
                self.poison.add(n)
                self.locals.pop(n, None)

    def ret_env(self, rets):
        return "Some ([%s], [%s])" % ("; ".join(rets), "; ".join('("%s"%%string, %s)' % (k, v) for k, v in self.order))

    def stmts(self, sts, tail):
        """gallina term for the statement list `sts` followed by the continuation `tail` (list of statements)"""
        if not sts:
            if tail:
                return self.stmts(tail[0], tail[1:])
            return self.ret_env([])
        st, rest = sts[0], sts[1:]
        k = st[0]
        saved = (dict(self.locals), list(self.order), set(self.poison))
        try:
            if k == 'let':
                names, e = st[1], st[2]
                if e[0] == 'call' and callee_name(e[1]).split(".")[-1] in INPUT_CALLS:
                    # values handed over by the envelope parser: parameters of the generated function
                    if callee_name(e[1]).split(".")[-1] == "parseAndVerifyGovernanceVAA":
                        if len(e[2]) != 2 or e[2][1][0] != 'member':
                            raise Broken("%s: parseAndVerifyGovernanceVAA(vaa, ActionId.X) expected" % self.fname)
                        self.action = self.ex(e[2][1])
                    for n in names:
                        self.locals[n] = self.param(n)
                    return self.stmts(rest, tail)
                if e[0] == 'call' and callee_name(e[1]).split(".")[-1] in self.translated:
                    callee = callee_name(e[1]).split(".")[-1]
                    cps = self.translated[callee]
                    if len(e[2]) != len(cps["decl"]):
                        raise Broken("%s: call of %s with %d arguments" % (self.fname, callee, len(e[2])))
                    if cps["extra"]:
                        raise Untranslatable("callee %s reads state" % callee)
                    args = " ".join("v" for _ in e[2])
                    binds, argv = [], []
                    for i, a in enumerate(e[2]):
                        argv.append(self.ex(a))
                    self.calls.append(callee)
                    gs = [self.bind(n) for n in names]
                    inner = self.stmts(rest, tail)
                    call = "ral_%s %s" % (callee, " ".join("a%d" % i for i in range(len(argv))))
                    s = "rcall (%s) (fun rets => match rets with [%s] => %s | _ => None end)" % (call, "; ".join(gs), inner)
                    for i in reversed(range(len(argv))):
                        s = "rlet %s (fun a%d => %s)" % (argv[i], i, s)
                    return s
                if len(names) != 1:
                    raise Untranslatable("tuple let from %s" % callee_name(e[1]) if e[0] == 'call' else "tuple let")
                ge = self.ex(e)
                g = self.bind(names[0])
                return "rlet %s (fun %s =>\n  %s)" % (ge, g, self.stmts(rest, tail))
            if k == 'assert':
                return "rassert %s (\n  %s)" % (self.ex(st[1]), self.stmts(rest, tail))
            if k == 'assign':
                lhs, e = st[1], st[2]
                ge = self.ex(e)
                if lhs[0] == 'name' and lhs[1] in self.locals and not self.locals[lhs[1]].startswith("w_") and lhs[1] not in [d for d in self.params]:
                    g = self.bind(lhs[1])          # local `mut` variable: shadow
                    return "rlet %s (fun %s =>\n  %s)" % (ge, g, self.stmts(rest, tail))
                if lhs[0] == 'name':
                    key = lhs[1]
                elif lhs[0] == 'index' and lhs[1][0] == 'name':
                    key = "%s[%d]" % (lhs[1][1], lhs[2])
                else:
                    raise Untranslatable("assignment target")
                g = self.bind(key, key=key, prefix="w_")   # state write; later reads see the new value
                return "rlet %s (fun %s =>\n  %s)" % (ge, g, self.stmts(rest, tail))
            if k == 'return':
                ges = [self.ex(e) for e in st[1]]
                s = self.ret_env(["ret_%d" % i for i in range(len(ges))])
                for i in reversed(range(len(ges))):
                    s = "rlet %s (fun ret_%d =>\n  %s)" % (ges[i], i, s)
                return s
            if k == 'if':
                c = self.ex(st[1])
                st0 = (dict(self.locals), list(self.order), set(self.poison))
                old = self.noskip
                self.noskip = True
                try:
                    self.stmts(st[2], [])
                    self.locals, self.order, self.poison = dict(st0[0]), list(st0[1]), set(st0[2])
                    self.stmts(st[3] or [], [])
                finally:
                    self.noskip = old
                    self.locals, self.order, self.poison = dict(st0[0]), list(st0[1]), set(st0[2])
                th = self.stmts(st[2], [rest] + tail)
                self.locals, self.order, self.poison = dict(st0[0]), list(st0[1]), set(st0[2])
                el = self.stmts(st[3] or [], [rest] + tail)
                return "rif %s\n  (%s)\n  (%s)" % (c, th, el)
            if k == 'expr':
                raise Untranslatable("expression statement")
            raise Broken("%s: statement kind %s" % (self.fname, k))
        except Untranslatable as u:
            self.locals, self.order, self.poison = saved
            if self.noskip:
                raise
            self.skip(st, str(u))
            return self.stmts(rest, tail)


def callee_name(e):
    if e[0] == 'name':
        return e[1]
    if e[0] == 'member':
        return callee_name(e[1]) + "." + e[2]
    if e[0] == 'call':
        return callee_name(e[1]) + "(..)"
    return "?"


# function -> (file key, regexes of statements that may be left out: they do not parse the payload)
RAL_FUNCS = [
    ("parseContractUpgrade", "fac", []),
    ("parseAndVerifyGovernanceVAAGeneric", "gov", []),
    ("submitContractUpgrade", "gov", [r'^if \( prevStateHash == # \) \{ migrate!']),
    ("submitNewGuardianSet", "gov", [r'^updatePreviousGuardianSet \( \)$']),
    ("submitSetMessageFee", "gov", []),
    ("submitTransferFees", "gov", [r'^transferTokenFromSelf! \( byteVecToAddress! \( #00 \+\+ recipient \) , ALPH , amount \)$']),
    ("parseAndVerifyRegisterChain", "tb", []),
    ("upgradeContract", "tb", [r'^if \( prevStateHash == # \) \{ migrate!']),
    ("destroyUnexecutedSequenceContracts", "tb", [r'^let tokenBridgeForChainId = subContractId! \( Path \. TokenBridgeForChain \+\+ remoteChainIdBytes \)$',
                                                   r'^TokenBridgeForChain \( tokenBridgeForChainId \) \. destroyUnexecutedSequenceContracts \( paths \)$']),
    ("updateMinimalConsistencyLevel", "tb", []),
    ("updateRefundAddress", "tb", [r'^assert! \( isAssetAddress! \( newRefundAddress \) , ErrorCodes \. InvalidUpdateRefundAddressMessage \)$']),
]
RAL_FILES = {"gov": "alephium/contracts/governance.ral", "tb": "alephium/contracts/token_bridge/token_bridge_governance.ral",
             "fac": "alephium/contracts/token_bridge/token_bridge_factory.ral"}


def x_ral_governance():
    srcs = {k: strip_comments(rd(p)) for k, p in RAL_FILES.items()}
    consts = {k: ral_consts(s, RAL_FILES[k]) for k, s in srcs.items()}
    out = ["Module RalGov.\nImport Coq.Strings.String WH.lib.Ralph.\n"]
    info = {"functions": {}, "skipped": {}, "constants": {}}
    # constants
    for k in ("gov", "tb"):
        for n, c in sorted(consts[k].items()):
            out.append("Definition c_%s_%s : rv := %s.\n" % (k, n.replace(".", "_"), glit(c)))
            info["constants"]["%s.%s" % (k, n)] = c[1]
    # which module constant each file hands to the generic check
    for k in ("gov", "tb"):
        m = re.search(r'parseAndVerifyGovernanceVAAGeneric\(vaa, receivedSequence, (\w+), action\)', srcs[k])
        if not m or m.group(1) not in consts[k]:
            raise Broken("%s: parseAndVerifyGovernanceVAAGeneric(vaa, receivedSequence, <module constant>, action) not found" % RAL_FILES[k])
        out.append("(* %s: parseAndVerifyGovernanceVAAGeneric(vaa, receivedSequence, %s, action) *)\nDefinition ral_module_%s : rv := c_%s_%s.\n"
                   % (RAL_FILES[k].split("/")[-1], m.group(1), k, k, m.group(1)))
        info["constants"]["module_" + k] = m.group(1)
    translated = {}
    for fname, fk, skip_ok in RAL_FUNCS:
        params, rets, body = ral_function(srcs[fk], fname, RAL_FILES[fk])
        tr = Tr(fname, fk, consts[fk], params, translated, skip_ok)
        # the function's own parameters come first, in declared order
        for p, _ in params:
            tr.locals[p] = tr.param(p)
        term = tr.stmts(body, [])
        used = [g for g in tr.params if re.search(r'\b%s\b' % re.escape(g), term)]
        decl_used = [g for g, t in tr.pdoc if t in tr.decl and g in used]
        extra = [g for g in used if g not in decl_used]
        translated[fname] = {"decl": decl_used, "extra": extra}
        doc = ", ".join("%s = %s" % (g, t) for g, t in tr.pdoc if g in used)
        out.append("(* %s fn %s; parameters: %s%s *)\nDefinition ral_%s %s: option rres :=\n  %s.\n"
                   % (RAL_FILES[fk].split("/")[-1], fname, doc,
                      ("; left out (do not parse the payload): " + " | ".join(tr.skipped)) if tr.skipped else "",
                      fname, "".join("(%s : rval) " % g for g in decl_used + extra), term))
        if tr.action:
            out.append("Definition ral_action_%s : rv := %s.\n" % (fname, tr.action))
        info["functions"][fname] = {"params": [t for g, t in tr.pdoc if g in decl_used + extra], "action": tr.action, "calls": tr.calls,
                                    "entries": [k for k, _ in tr.order]}
        if tr.skipped:
            info["skipped"][fname] = tr.skipped
    # the upgrade entry points must hand the payload they got from the envelope parser to parseContractUpgrade
    for f in ("submitContractUpgrade", "upgradeContract"):
        if info["functions"][f]["calls"] != ["parseContractUpgrade"]:
            raise Broken("%s does not call parseContractUpgrade(payload)" % f)
    out.append("End RalGov.\n")
    return "".join(out), info


# ======================================================================================================= Go: payloads.go
GO_WIDTH = {"uint8": 1, "uint16": 2, "uint32": 4, "uint64": 8, "ChainID": 2, "byte": 1}


def go_func_body(src, header_re, what):
    m = re.search(header_re, src, re.M)
    if not m:
        raise Broken("%s not found" % what)
    i = src.index("{", m.end() - 1)
    d = 0
    for j in range(i, len(src)):
        if src[j] == "{":
            d += 1
        elif src[j] == "}":
            d -= 1
            if d == 0:
                return src[i + 1:j]
    raise Broken("%s: unbalanced braces" % what)


def x_go_payloads():
    src = rd("node/pkg/vaa/payloads.go")
    st = rd("node/pkg/vaa/structs.go")
    m = re.search(r'^\s*ChainID uint(\d+)\s*$', st, re.M)
    if not m:
        raise Broken("structs.go: `ChainID uintN` not found")
    width = dict(GO_WIDTH, ChainID=int(m.group(1)) // 8)
    out = ["Module GoPay.\n"]
    info = {"modules": {}, "serializers": {}}
    for name in ("CoreModule", "TokenBridgeModule"):
        m = re.search(r'^var %s = \[\]byte\{([^}]*)\}' % name, src, re.M)
        if not m:
            raise Broken("payloads.go: var %s not found" % name)
        bs = []
        for x in m.group(1).split(","):
            x = x.strip()
            if not x:
                continue
            v = int(x, 16) if x.lower().startswith("0x") else int(x, 10)   # `00` is a decimal/octal zero
            if not 0 <= v < 256:
                raise Broken("payloads.go: %s element %s" % (name, x))
            bs.append(v)
        out.append("Definition go_%s : list byte := [%s].\n" % (name, "; ".join("x%02x" % b for b in bs)))
        info["modules"][name] = bytes(bs).hex()
    # struct field types
    tb = re.search(r'^type \((.*?)^\)', src, re.S | re.M)
    if not tb:
        raise Broken("payloads.go: type block not found")
    structs = {}
    for m in re.finditer(r'(\w+) struct \{(.*?)\}', tb.group(1), re.S):
        structs[m.group(1)] = re.findall(r'^\s*(\w+)\s+([\w\[\]\.]+)\s*$', m.group(2), re.M)
    for m in re.finditer(r'^func \((\w) (Body\w+)\) Serialize\(\) \[\]byte \{', src, re.M):
        recv, ty = m.group(1), m.group(2)
        if ty not in structs:
            raise Broken("payloads.go: struct %s not found" % ty)
        ftypes = dict(structs[ty])
        body = go_func_body(src, r'^func \(%s %s\) Serialize\(\) \[\]byte \{' % (recv, ty), ty + ".Serialize")
        body = re.sub(r'//[^\n]*', '', body)
        # statements, with the two loop / if shapes recognised as single statements
        pos = 0
        parts = []
        guards = []
        started = finished = False
        pats = [
            ("start", r'buf := (?:new\(bytes\.Buffer\)|&bytes\.Buffer\{\})'),
            ("panic", r'if len\(%s\.(\w+)\) > (\d+) \{\s*panic\([^)]*\)\s*\}' % recv),
            ("pad", r'for i := 0; i < \((\d+) - len\(%s\.(\w+)\)\); i\+\+ \{\s*buf\.WriteByte\(0x00\)\s*\}' % recv),
            ("rangew", r'for _, (\w+) := range %s\.(\w+) \{\s*buf\.Write\(\1\[:\]\)\s*\}' % recv),
            ("rangem", r'for _, (\w+) := range %s\.(\w+) \{\s*MustWrite\(buf, binary\.BigEndian, \1\)\s*\}' % recv),
            ("wvar", r'buf\.Write\((CoreModule|TokenBridgeModule)\)'),
            ("wfield", r'buf\.Write\((?:\[\]byte\()?%s\.(\w+)\)?(?:\[:\])?\)' % recv),
            ("mlit", r'MustWrite\(buf, binary\.BigEndian, uint(\d+)\((0x[0-9a-fA-F]+|\d+)\)\)'),
            ("mlen", r'MustWrite\(buf, binary\.BigEndian, uint(\d+)\(len\(%s\.(\w+)\)\)\)' % recv),
            ("mconv", r'MustWrite\(buf, binary\.BigEndian, uint(\d+)\(%s\.(\w+)\)\)' % recv),
            ("mfield", r'MustWrite\(buf, binary\.BigEndian, %s\.(\w+)\)' % recv),
            ("ret", r'return buf\.Bytes\(\)'),
        ]
        while True:
            rest = body[pos:]
            if not rest.strip():
                break
            for kind, pat in pats:
                mm = re.match(r'\s*' + pat, rest)
                if mm:
                    break
            else:
                raise Broken("%s.Serialize: statement not understood: %r" % (ty, rest.strip()[:80]))
            pos += mm.end()
            g = mm.groups()
            if finished:
                raise Broken("%s.Serialize: statement after return" % ty)
            if kind == "start":
                started = True
                continue
            if kind == "panic":
                if ftypes.get(g[0]) != "string":
                    raise Broken("%s.Serialize: panic guard on %s" % (ty, g[0]))
                guards.append("(%s <? Z.of_nat (length %s))" % (g[1], g[0]))
                continue
            if not started:
                raise Broken("%s.Serialize: write before the buffer is created" % ty)
            if kind == "pad":
                parts.append("repeat x00 (%s - length %s)" % (g[0], g[1]))
            elif kind == "rangew":
                if ftypes.get(g[1]) != "[]common.Address":
                    raise Broken("%s.Serialize: range over %s of type %s" % (ty, g[1], ftypes.get(g[1])))
                parts.append("concat %s" % g[1])
            elif kind == "rangem":
                et = (ftypes.get(g[1]) or "")[2:]
                if et not in width:
                    raise Broken("%s.Serialize: range over %s of type %s" % (ty, g[1], ftypes.get(g[1])))
                parts.append("flat_map (be %d) %s" % (width[et], g[1]))
            elif kind == "wvar":
                parts.append("go_%s" % g[0])
            elif kind == "wfield":
                if ftypes.get(g[0]) not in ("[]byte", "string", "Address"):
                    raise Broken("%s.Serialize: Write of %s of type %s" % (ty, g[0], ftypes.get(g[0])))
                parts.append(g[0])
            elif kind == "mlit":
                parts.append("be %d %d" % (int(g[0]) // 8, int(g[1], 0)))
            elif kind == "mlen":
                parts.append("be %d (Z.of_nat (length %s))" % (int(g[0]) // 8, g[1]))
            elif kind == "mconv":
                parts.append("be %d %s" % (int(g[0]) // 8, g[1]))
            elif kind == "mfield":
                t = ftypes.get(g[0])
                if t not in width:
                    raise Broken("%s.Serialize: MustWrite of %s of type %s" % (ty, g[0], t))
                parts.append("be %d %s" % (width[t], g[0]))
            elif kind == "ret":
                finished = True
        if not finished:
            raise Broken("%s.Serialize: no `return buf.Bytes()`" % ty)
        gtype = {"[]byte": "list byte", "string": "list byte", "Address": "list byte", "[]common.Address": "list (list byte)", "[]uint64": "list Z"}
        args = []
        for f, t in structs[ty]:
            gt = gtype.get(t, "Z" if t in width else None)
            if gt is None:
                raise Broken("%s: field %s of type %s" % (ty, f, t))
            args.append("(%s : %s)" % (f, gt))
        expr = "(%s)%%list" % " ++ ".join(parts)
        if guards:
            expr = "if %s then None else Some %s" % (" || ".join(guards), expr)
        else:
            expr = "Some %s" % expr
        out.append("(* payloads.go %s.Serialize, statement by statement; None = panic *)\nDefinition ser_%s %s : option (list byte) :=\n  %s.\n"
                   % (ty, ty[4:], " ".join(args), expr))
        info["serializers"][ty] = {"fields": structs[ty], "parts": parts, "panic_if": guards}
    want = {"BodyUpdateMessageFee", "BodyTransferFee", "BodyContractUpgrade", "BodyGuardianSetUpgrade", "BodyTokenBridgeRegisterChain",
            "BodyTokenBridgeUpgradeContract", "BodyTokenBridgeDestroyContracts", "BodyTokenBridgeUpdateMinimalConsistencyLevel",
            "BodyTokenBridgeUpdateRefundAddress"}
    if set(info["serializers"]) != want:
        raise Broken("payloads.go: Serialize methods found for %s" % sorted(info["serializers"]))
    out.append("End GoPay.\n")
    return "".join(out), info


# ======================================================================================================= Go: adminserver.go
GO_MAX = {"math.MaxUint8": 255, "math.MaxUint16": 65535, "math.MaxUint32": 4294967295, "common.MaxGuardianCount": None}


def x_go_admin():
    src = rd("node/cmd/guardiand/adminserver.go")
    gv = rd("node/pkg/vaa/governance.go")
    gs = rd("node/pkg/common/guardianset.go")
    m = re.search(r'^const MaxGuardianCount = (\d+)\s*$', gs, re.M)
    if not m:
        raise Broken("guardianset.go: const MaxGuardianCount not found")
    maxg = int(m.group(1))
    body = go_func_body(gv, r'^func CreateGovernanceVAA\(', "CreateGovernanceVAA")
    lit = re.search(r'vaa := &VAA\{(.*?)\n\t\}', body, re.S)
    if not lit:
        raise Broken("CreateGovernanceVAA: VAA literal not found")
    assigns = dict((k, " ".join(v.split())) for k, v in re.findall(r'(\w+):\s*([^\n]+),\n', lit.group(1) + "\n"))
    want = {"Version": "SupportedVAAVersion", "GuardianSetIndex": "guardianSetIndex", "Signatures": "nil", "Timestamp": "timestamp", "Nonce": "nonce",
            "Sequence": "sequence", "EmitterChain": "governanceChainId", "TargetChain": "targetChain", "EmitterAddress": "governanceEmitterAddress",
            "Payload": "payload"}
    cl = assigns.pop("ConsistencyLevel", None)
    if assigns != want or cl is None or not re.fullmatch(r'\d+', cl):
        raise Broken("CreateGovernanceVAA: VAA literal is %s (ConsistencyLevel %s)" % (assigns, cl))
    out = ["Definition go_gov_consistency_level : Z := %s.\nDefinition go_max_guardian_count : Z := %d.\n" % (cl, maxg)]
    info = {"consistency_level": int(cl), "max_guardians": maxg, "guards": {}}

    def konst(s):
        s = s.strip()
        if s == "common.MaxGuardianCount":
            return maxg
        if s in GO_MAX:
            return GO_MAX[s]
        if re.fullmatch(r'\d+', s):
            return int(s)
        raise Broken("adminserver.go: constant %r not understood" % s)

    # per conversion function: the guards `if <lhs> <op> <const> { return nil, <error> }` in source order, and the conversions used in the body literal
    funcs = {
        "adminGuardianSetUpgradeToVAA": [("len(req.Guardians)", "==", "gs_empty"), ("len(req.Guardians)", ">", "gs_max")],
        "adminUpdateMessageFeeToVAA": [("len(req.NewMessageFee)", "!=", "fee_len")],
        "adminTransferFeeToVAA": [("len(req.Amount)", "!=", "amount_len"), ("len(req.Recipient)", "!=", "recipient_len")],
        "adminContractUpgradeToVAA": [],
        "tokenBridgeRegisterChain": [("req.ChainId", ">", "chain_max"), ("len(req.Module)", ">", "module_max"), ("len(b)", "!=", "emitter_len")],
        "tokenBridgeUpgradeContract": [("len(req.Module)", ">", "upg_module_max")],
        "tokenBridgeDestroyUnexecutedSequenceContracts": [("req.EmitterChain", ">", "echain_max"), ("len(req.Sequences)", ">", "seqs_max")],
        "tokenBridgeUpdateMinimalConsistencyLevel": [("req.NewConsistencyLevel", ">", "level_max")],
        "tokenBridgeUpdateRefundAddress": [("len(address)", ">", "refund_max")],
    }
    # the body literal each function serializes: which request value goes into which field, through which conversion
    literals = {
        "adminGuardianSetUpgradeToVAA": ("BodyGuardianSetUpgrade", {"Keys": "addrs", "NewIndex": None}),
        "adminUpdateMessageFeeToVAA": ("BodyUpdateMessageFee", {"NewMessageFee": "messageFee"}),
        "adminTransferFeeToVAA": ("BodyTransferFee", {"Amount": "amount", "Recipient": "recipient"}),
        "adminContractUpgradeToVAA": ("BodyContractUpgrade", {"Payload": "payload"}),
        "tokenBridgeRegisterChain": ("BodyTokenBridgeRegisterChain", {"Module": "req.Module", "ChainID": "vaa.ChainID(req.ChainId)", "EmitterAddress": "emitterAddress"}),
        "tokenBridgeUpgradeContract": ("BodyTokenBridgeUpgradeContract", {"Module": "req.Module", "Payload": "payload"}),
        "tokenBridgeDestroyUnexecutedSequenceContracts": ("BodyTokenBridgeDestroyContracts", {"EmitterChain": "vaa.ChainID(req.EmitterChain)", "Sequences": "req.Sequences"}),
        "tokenBridgeUpdateMinimalConsistencyLevel": ("BodyTokenBridgeUpdateMinimalConsistencyLevel", {"NewConsistencyLevel": "uint8(req.NewConsistencyLevel)"}),
        "tokenBridgeUpdateRefundAddress": ("BodyTokenBridgeUpdateRefundAddress", {"NewRefundAddress": "address"}),
    }
    for fn, expect in funcs.items():
        b = go_func_body(src, r'^func %s\(' % fn, fn)
        lm = re.search(r'vaa\.(Body\w+)\{(.*?)\}\.Serialize\(\)\)', b, re.S)
        if not lm:
            raise Broken("%s: vaa.Body..{..}.Serialize() not found" % fn)
        got = dict((k, " ".join(v.split())) for k, v in re.findall(r'(\w+):\s*([^\n]+),\n', lm.group(2) + "\n"))
        wty, wfields = literals[fn]
        if lm.group(1) != wty or set(got) != set(wfields) or any(v is not None and got[k] != v for k, v in wfields.items()):
            raise Broken("%s serializes vaa.%s%s (expected vaa.%s%s)" % (fn, lm.group(1), got, wty, wfields))
        if "NewIndex" in got:
            mi = re.fullmatch(r'guardianSetIndex \+ (\d+)', got["NewIndex"])
            if not mi:
                raise Broken("%s: NewIndex is %r (expected guardianSetIndex + <n>)" % (fn, got["NewIndex"]))
            out.append("(* %s: NewIndex: %s (uint32 arithmetic) *)\nDefinition go_adm_new_index (gsi : Z) : Z := (gsi + %s) mod 4294967296.\n" % (fn, got["NewIndex"], mi.group(1)))
            info["new_index"] = got["NewIndex"]
        found = re.findall(r'if ([\w\.\(\)]+) (==|!=|>|>=|<|<=) ([\w\.]+) \{\s*return nil, ', b)
        found = [f for f in found if re.match(r'len\(|req\.', f[0])]
        if [(l, o) for l, o, _ in found] != [(l, o) for l, o, _ in expect]:
            raise Broken("%s: validation guards are %s (expected the shapes %s)" % (fn, found, [(l, o) for l, o, _ in expect]))
        for (l, o, c), (_, _, name) in zip(found, expect):
            out.append("(* %s: if %s %s %s { return nil, error } *)\nDefinition go_adm_%s : Z := %d.\n" % (fn, l, o, c, name, konst(c)))
            info["guards"][name] = konst(c)
        if len(re.findall(r'vaa\.CreateGovernanceVAA\(governanceChainId, governanceEmitterAddress, timestamp, nonce, sequence, targetChainId, guardianSetIndex,', b)) != 1:
            raise Broken("%s: CreateGovernanceVAA(governanceChainId, governanceEmitterAddress, timestamp, nonce, sequence, targetChainId, guardianSetIndex, ..) not found" % fn)
    # InjectGovernanceVAA: target chain test, default branch
    ib = go_func_body(src, r'^func \(s \*nodePrivilegedService\) InjectGovernanceVAA\(', "InjectGovernanceVAA")
    m = re.search(r'if message\.TargetChainId > ([\w\.]+) \{\s*return nil, ', ib)
    if not m:
        raise Broken("InjectGovernanceVAA: target chain test not found")
    out.append("Definition go_adm_target_max : Z := %d.\n" % konst(m.group(1)))
    m = re.search(r'default:\s*(return nil, status\.Error\(codes\.InvalidArgument|panic\()', ib)
    if not m:
        raise Broken("InjectGovernanceVAA: default branch of the payload switch not found")
    out.append("(* InjectGovernanceVAA: `default:` of the payload type switch *)\nDefinition go_adm_unset_panics : bool := %s.\n"
               % ("true" if m.group(1).startswith("panic") else "false"))
    cases = re.findall(r'case \*nodev1\.GovernanceMessage_(\w+):\s*v, err = (\w+)\(s\.governanceChainId, s\.governanceEmitterAddress, payload\.(\w+), timestamp, req\.CurrentSetIndex, message\.Nonce, message\.Sequence, targetChainId\)', ib)
    wantc = {"UpdateMessageFee": "adminUpdateMessageFeeToVAA", "TransferFee": "adminTransferFeeToVAA", "GuardianSet": "adminGuardianSetUpgradeToVAA",
             "ContractUpgrade": "adminContractUpgradeToVAA", "BridgeRegisterChain": "tokenBridgeRegisterChain", "BridgeContractUpgrade": "tokenBridgeUpgradeContract",
             "DestroyUnexecutedSequenceContracts": "tokenBridgeDestroyUnexecutedSequenceContracts",
             "UpdateMinimalConsistencyLevel": "tokenBridgeUpdateMinimalConsistencyLevel", "UpdateRefundAddress": "tokenBridgeUpdateRefundAddress"}
    if {c: f for c, f, _ in cases} != wantc or any(c != p for c, _, p in cases):
        raise Broken("InjectGovernanceVAA: type switch dispatches %s" % cases)
    if not re.search(r'timestamp := time\.Unix\(int64\(req\.Timestamp\), 0\)', ib):
        raise Broken("InjectGovernanceVAA: timestamp := time.Unix(int64(req.Timestamp), 0) not found")
    info["dispatch"] = {c: f for c, f, _ in cases}
    return "".join(out), info


EXTRACTORS = [("ral_governance", x_ral_governance), ("go_payloads", x_go_payloads), ("go_admin", x_go_admin)]


# ======================================================================================================= X6: the glue between the pieces
# go_inject_glue : the loop of InjectGovernanceVAA (which slot of `digests` a message's digest goes to, one send on injectC per
#                  message, of the converted VAA itself, the digest taken from that same VAA), handleInjection (signs
#                  v.SigningMsg(), hands the UNCHANGED v to broadcastSignature with a nil tx hash) and broadcastSignature
#                  (keeps v as ourVAA, no field written).
# ral_gov_glue   : how the Ralph functions hand values to each other POSITIONALLY (the translator of ral_governance binds the
#                  values an envelope parser returns by NAME): return list of parseAndVerifyVAA vs the tuple-let of
#                  parseAndVerifyGovernanceVAAGeneric, the wrappers parseAndVerifyGovernanceVAA of both contract files (arguments
#                  handed to the generic check, receivedSequence update, return list) vs the tuple-lets of the entry points, the
#                  governance guardian-set-index test and the guardian-set size test of parseAndVerifyVAA.

def _stmt_pos(body, pat, what):
    ms = list(re.finditer(pat, body))
    if len(ms) != 1:
        raise Broken("%s: expected exactly one `%s`, found %d" % (what, pat, len(ms)))
    return ms[0]


def x_go_inject_glue():
    src = rd("node/cmd/guardiand/adminserver.go")
    ib = go_func_body(src, r'^func \(s \*nodePrivilegedService\) InjectGovernanceVAA\(', "InjectGovernanceVAA")
    ib = re.sub(r'//[^\n]*', '', ib)
    what = "InjectGovernanceVAA"
    _stmt_pos(ib, r'digests := make\(\[\]\[\]byte, len\(req\.Messages\)\)', what)
    loop = _stmt_pos(ib, r'for (\w+), message := range req\.Messages \{', what)
    iv = loop.group(1)
    errchk = _stmt_pos(ib, r'if err != nil \{\s*return nil, status\.Error\(codes\.InvalidArgument, err\.Error\(\)\)\s*\}', what)
    dg = _stmt_pos(ib, r'digest := v\.SigningMsg\(\)', what)
    send = _stmt_pos(ib, r's\.injectC <- (\w+)', what)
    if send.group(1) != "v":
        raise Broken("%s: sends %s on injectC (expected the converted VAA v)" % (what, send.group(1)))
    store = _stmt_pos(ib, r'digests\[([^\]]+)\] = ([\w\.\(\)]+)', what)
    if store.group(2) != "digest.Bytes()":
        raise Broken("%s: digests[..] = %s (expected digest.Bytes())" % (what, store.group(2)))
    ret = _stmt_pos(ib, r'return &nodev1\.InjectGovernanceVAAResponse\{Digests: (\w+)\}, nil', what)
    if ret.group(1) != "digests":
        raise Broken("%s: response carries %s" % (what, ret.group(1)))
    if not (loop.start() < errchk.start() < dg.start() and errchk.start() < send.start() < ret.start() and dg.start() < store.start() < ret.start()):
        raise Broken("%s: order of error test / digest / send / store / return changed" % what)
    # nothing else touches digests or v between the conversion and the return
    others = [m.group(0) for m in re.finditer(r'\bdigests\b[^\n]*', ib)]
    if len(others) != 3:
        raise Broken("%s: `digests` is used in %d statements (expected make / store / return): %s" % (what, len(others), others))
    tail = ib[errchk.end():ret.start()]
    if re.search(r'\bv\.\w+\s*=[^=]|\bv\s*=[^=]|\*v\s*=', tail):
        raise Broken("%s: the converted VAA is modified before it is sent" % what)
    idx = re.sub(r'\s+', '', store.group(1))
    if idx == iv:
        slot = "i"
    elif idx in ("len(req.Messages)-1-%s" % iv, "len(digests)-1-%s" % iv, "len(req.Messages)-%s-1" % iv, "len(digests)-%s-1" % iv):
        slot = "(n - 1 - i)%nat"
    else:
        raise Broken("%s: digests[%s]: index expression not understood" % (what, store.group(1)))
    out = ["(* InjectGovernanceVAA: digests := make([][]byte, len(req.Messages)); for %s, message := range req.Messages { v, err = <conversion>; "
           "if err != nil { return }; digest := v.SigningMsg(); s.injectC <- v; digests[%s] = digest.Bytes() }; return {Digests: digests} *)\n" % (iv, store.group(1)),
           "Definition go_inj_slot (i n : nat) : nat := %s.\n" % slot,
           "Definition go_inj_send_before_store : bool := %s.\n" % ("true" if send.start() < store.start() else "false")]
    info = {"slot": store.group(1), "index_var": iv}
    # handleInjection / broadcastSignature
    hs = re.sub(r'//[^\n]*', '', rd("node/pkg/processor/injection.go"))
    hb = go_func_body(hs, r'^func \(p \*Processor\) handleInjection\(ctx context\.Context, v \*vaa\.VAA\) \{', "handleInjection")
    d1 = _stmt_pos(hb, r'digest := v\.SigningMsg\(\)', "handleInjection")
    s1 = _stmt_pos(hb, r's, err := p\.guardianSigner\.Sign\(digest\.Bytes\(\)\)', "handleInjection")
    b1 = _stmt_pos(hb, r'p\.broadcastSignature\((\w+), (\w+), (\w+)\)', "handleInjection")
    if b1.groups() != ("v", "s", "nil") or not d1.start() < s1.start() < b1.start():
        raise Broken("handleInjection: broadcastSignature%s / statement order" % (b1.groups(),))
    assigns = sorted(set(re.findall(r'\bv\.(\w+)\s*=[^=]', hb)))
    if re.search(r'\bv\s*=[^=]|\*v\s*=', hb):
        assigns.append("*v")
    bs = re.sub(r'//[^\n]*', '', rd("node/pkg/processor/broadcast.go"))
    bb = go_func_body(bs, r'^func \(p \*Processor\) broadcastSignature\(v \*vaa\.VAA, signature \[\]byte, txhash \[\]byte\) \{', "broadcastSignature")
    if not re.search(r'\.ourVAA = v\b', bb) or not re.search(r'digest := v\.SigningMsg\(\)', bb):
        raise Broken("broadcastSignature: `ourVAA = v` / `digest := v.SigningMsg()` not found")
    assigns += sorted("broadcastSignature:" + a for a in set(re.findall(r'\bv\.(\w+)\s*=[^=]', bb)))
    out.append("(* handleInjection: digest := v.SigningMsg(); s := Sign(digest.Bytes()); broadcastSignature(v, s, nil); fields of v written on the way: *)\n")
    out.append("Definition go_injection_writes : list (list byte) := [%s].   (* %s *)\n"
               % ("; ".join("[" + "; ".join("x%02x" % c for c in a.encode()) + "]" for a in assigns), ", ".join(assigns) or "none"))
    info["injection_writes"] = assigns
    return "".join(out), info


def _ral_tuple_let(body_src, callee_re, what):
    m = re.search(r'let \(([^)]*)\) = ((?:\w+\.)?%s)\(([^)]*)\)' % callee_re, body_src)
    if not m:
        raise Broken("%s: tuple-let from %s not found" % (what, callee_re))
    return [x.strip() for x in m.group(1).split(",")], [x.strip() for x in m.group(3).split(",")], m


def _ral_fn_text(src, name, what):
    m = re.search(r'\bfn %s\s*\(([^)]*)\)\s*->\s*(\([^)]*\)|\w+)\s*\{' % re.escape(name), src)
    if not m:
        raise Broken("%s: fn %s not found" % (what, name))
    d, e = 0, m.end() - 1
    while True:
        if e >= len(src):
            raise Broken("%s: fn %s: unbalanced braces" % (what, name))
        d += {'{': 1, '}': -1}.get(src[e], 0)
        e += 1
        if d == 0:
            break
    params = [x.split(":")[0].strip() for x in m.group(1).split(",") if x.strip()]
    return params, src[m.end():e - 1]


def gname(text):
    return "v_" + re.sub(r'\W+', '_', text).strip('_')


def x_ral_gov_glue():
    srcs = {k: strip_comments(rd(p)) for k, p in RAL_FILES.items()}
    _, ginfo = x_ral_governance()
    fparams = {f: d["params"] for f, d in ginfo["functions"].items()}       # Ralph-side names, in the order of the generated Gallina parameters
    gov = srcs["gov"]
    out = ["Module RalGlue.\nImport Coq.Strings.String WH.lib.Ralph RalGov.\n"]
    info = {}
    # ---- parseAndVerifyVAA
    pv_params, pv = _ral_fn_text(gov, "parseAndVerifyVAA", "governance.ral")
    if pv_params != ["data", "isGovernanceVAA"]:
        raise Broken("parseAndVerifyVAA parameters are %s" % pv_params)
    m = re.search(r'if \(isGovernanceVAA\) \{\s*assert!\(guardianSetIndex (==|!=|<=|>=|<|>) guardianSetIndexes\[1\], ErrorCodes\.\w+\)\s*\}', pv)
    if not m:
        raise Broken("parseAndVerifyVAA: `if (isGovernanceVAA) { assert!(guardianSetIndex <op> guardianSetIndexes[1], ..) }` not found")
    out.append("(* parseAndVerifyVAA: if (isGovernanceVAA) { assert!(guardianSetIndex %s guardianSetIndexes[1], ..) } *)\n"
               "Definition ral_gov_index_check (guardianSetIndex guardianSetIndexes_1 : rval) : rv := (%s (r_var guardianSetIndex) (r_var guardianSetIndexes_1)).\n"
               % (m.group(1), BINOPS[m.group(1)]))
    if not re.search(r'let guardianSetIndex = u256From4Byte!\(byteVecSlice!\(data, 1, 5\)\)', pv):
        raise Broken("parseAndVerifyVAA: guardianSetIndex is not read from data[1:5]")
    if not re.search(r'let guardians = getGuardiansInfo\(guardianSetIndex\)', pv):
        raise Broken("parseAndVerifyVAA: `let guardians = getGuardiansInfo(guardianSetIndex)` not found")
    _, gi = _ral_fn_text(gov, "getGuardiansInfo", "governance.ral")
    if not re.match(r'\s*if \(guardianSetIndex == guardianSetIndexes\[1\]\) \{\s*return guardianSets\[1\]\s*\}', gi):
        raise Broken("getGuardiansInfo: does not start with `if (guardianSetIndex == guardianSetIndexes[1]) { return guardianSets[1] }`")
    m = re.search(r'let guardianSize = (u256From(\d+)Byte!\(byteVecSlice!\(guardians, (\d+), (\d+)\)\))\s*\n', pv)
    m2 = re.search(r'assert!\(guardianSize (!=|>) 0, ErrorCodes\.\w+\)', pv)
    if not m or not m2:
        raise Broken("parseAndVerifyVAA: guardianSize / its non-zero assertion not found")
    out.append("(* let guardianSize = %s ; assert!(guardianSize %s 0, ..); guardians = guardianSets[1] when the index is the current one *)\n"
               "Definition ral_guardian_size (guardians : rval) : rv := (r_u256from %s (r_slice (r_var guardians) (r_num %s) (r_num %s))).\n"
               "Definition ral_guardian_size_check (guardianSize : rval) : rv := (%s (r_var guardianSize) (r_num 0)).\n"
               % (m.group(1), m2.group(1), m.group(2), m.group(3), m.group(4), BINOPS[m2.group(1)]))
    m = re.search(r'let quorumSize = [^\n]*guardianSize[^\n]*\n\s*assert!\(quorumSize (<=|<|>=|>) signatureSize', pv)
    if not m:
        raise Broken("parseAndVerifyVAA: quorumSize is not computed from guardianSize / not compared with signatureSize")
    if not re.search(r'let signatureSize = u256From1Byte!\(byteVecSlice!\(data, 5, 6\)\)', pv):
        raise Broken("parseAndVerifyVAA: signatureSize is not read from data[5:6]")
    # the signature loop: which slot of the stored guardian set a signature is checked against, and how the recovery is called
    from extract import parse_expr, gallina
    mk = re.search(r'let guardianKeyIndex = ([^\n]+)\n\s*let guardianKey = byteVecSlice!\(guardians, guardianKeyIndex, ([^\n]+)\)\n', pv)
    if not mk:
        raise Broken("parseAndVerifyVAA: `let guardianKeyIndex = ..; let guardianKey = byteVecSlice!(guardians, guardianKeyIndex, ..)` not found")
    lo = gallina(parse_expr(mk.group(1).strip()), "Z.div")
    hi = gallina(parse_expr(mk.group(2).strip()), "Z.div", {"guardianKeyIndex": lo})
    if set(re.findall(r'[A-Za-z_]\w*', mk.group(1))) != {"guardianIndex"}:
        raise Broken("parseAndVerifyVAA: guardianKeyIndex = %s" % mk.group(1))
    for pat, what in [(r'let guardianIndex = u256From1Byte!\(byteVecSlice!\(data, offset, offset \+ 1\)\)', "guardianIndex"),
                      (r'let signature = byteVecSlice!\(data, offset \+ 1, offset \+ 66\)', "signature"),
                      (r'let recId = u256From1Byte!\(byteVecSlice!\(signature, 64, 65\)\) \+ 27', "recId"),
                      (r'let newSignature = byteVecSlice!\(signature, 0, 64\) \+\+ u256To1Byte!\(recId\)', "newSignature"),
                      (r'assert!\(guardianKey == ethEcRecover!\(hash, newSignature\), ErrorCodes\.\w+\)', "recovery assertion"),
                      (r'let hash = keccak256!\(keccak256!\(body\)\)', "hash"),
                      (r'assert!\(guardianIndexI256 > lastGuardianIndex, ErrorCodes\.\w+\)\s*\n\s*lastGuardianIndex = guardianIndexI256', "index order"),
                      (r'for \(let mut sigIndex = 0; sigIndex < signatureSize; sigIndex = sigIndex \+ 1\) \{', "loop header"),
                      (r'offset = offset \+ 66\s*\n\s*\}', "offset step")]:
        if len(re.findall(pat, pv)) != 1:
            raise Broken("parseAndVerifyVAA signature loop: %s statement changed" % what)
    out.append("(* signature loop: let guardianKeyIndex = %s; let guardianKey = byteVecSlice!(guardians, guardianKeyIndex, %s); "
               "assert!(guardianKey == ethEcRecover!(hash, signature[0:64] ++ u256To1Byte!(signature[64] + 27))) *)\n"
               "Definition ral_key_slot (guardianIndex : Z) : Z * Z := (%s, %s).\n" % (mk.group(1).strip(), mk.group(2).strip(), lo, hi))
    info["key_slot"] = [mk.group(1).strip(), mk.group(2).strip()]
    m = re.search(r'return ([\w, ]+)\s*$', pv.strip())
    if not m:
        raise Broken("parseAndVerifyVAA: final return not found")
    rets = [x.strip() for x in m.group(1).split(",")]
    if sorted(rets) != sorted(["emitterChainId", "targetChainId", "emitterAddress", "sequence", "payload"]):
        raise Broken("parseAndVerifyVAA returns %s" % rets)
    for r in rets:
        if not re.search(r'let %s = [^\n]*byteVecSlice!\(body, ' % r, pv):
            raise Broken("parseAndVerifyVAA: %s is not a slice of body" % r)
    out.append("(* parseAndVerifyVAA: return %s *)\nDefinition ral_vaa_returns (%s : rval) : list rval := [%s].\n"
               % (", ".join(rets), " ".join(["emitterChainId", "targetChainId", "emitterAddress", "sequence", "payload"]), "; ".join(rets)))
    info["vaa_returns"] = rets
    # ---- parseAndVerifyGovernanceVAAGeneric
    g_params, gb = _ral_fn_text(gov, "parseAndVerifyGovernanceVAAGeneric", "governance.ral")
    names, args, _ = _ral_tuple_let(gb, "parseAndVerifyVAA", "parseAndVerifyGovernanceVAAGeneric")
    if args != [g_params[0], "true"]:
        raise Broken("parseAndVerifyGovernanceVAAGeneric calls parseAndVerifyVAA(%s)" % ", ".join(args))
    gp = fparams["parseAndVerifyGovernanceVAAGeneric"]
    free = [p for p in gp if p not in names]
    if len(names) != len(rets) or any(n not in gp for n in names):
        raise Broken("parseAndVerifyGovernanceVAAGeneric binds %s" % names)
    out.append("(* parseAndVerifyGovernanceVAAGeneric(%s): let (%s) = parseAndVerifyVAA(%s) *)\n"
               "Definition ral_generic_on (rets : list rval) %s: option rres :=\n  match rets with [%s] => ral_parseAndVerifyGovernanceVAAGeneric %s | _ => None end.\n"
               % (", ".join(g_params), ", ".join(names), ", ".join(args), "".join("(%s : rval) " % gname(p) for p in free),
                  "; ".join(gname(n) for n in names), " ".join(gname(p) for p in gp)))
    info["generic_binds"] = names
    m = re.search(r'return ([\w, ]+)\s*$', gb.strip())
    g_rets = [x.strip() for x in m.group(1).split(",")] if m else None
    if g_rets is None:
        raise Broken("parseAndVerifyGovernanceVAAGeneric: final return not found")
    # ---- the wrappers parseAndVerifyGovernanceVAA of the two contract files
    for k in ("gov", "tb"):
        w_params, wb = _ral_fn_text(srcs[k], "parseAndVerifyGovernanceVAA", RAL_FILES[k])
        if len(w_params) != 2:
            raise Broken("%s: parseAndVerifyGovernanceVAA parameters are %s" % (RAL_FILES[k], w_params))
        wn, wa, _ = _ral_tuple_let(wb, "parseAndVerifyGovernanceVAAGeneric", RAL_FILES[k] + " parseAndVerifyGovernanceVAA")
        if len(wa) != len(g_params) or wa[0] != w_params[0] or len(wn) != len(g_rets):
            raise Broken("%s: parseAndVerifyGovernanceVAA calls the generic check with (%s) and binds (%s)" % (RAL_FILES[k], ", ".join(wa), ", ".join(wn)))
        consts = ral_consts(srcs[k], RAL_FILES[k])

        def arg(a):
            if a in consts:
                return "c_%s_%s" % (k, a)
            if a == w_params[1]:
                return "(r_var v_action)"
            if a == "receivedSequence":
                return "(r_var v_receivedSequence)"
            raise Broken("%s: parseAndVerifyGovernanceVAA hands `%s` to the generic check" % (RAL_FILES[k], a))
        byname = dict(zip(g_params[1:], wa[1:]))
        if sorted(byname) != sorted(["targetSequence", "coreModule", "action"]):
            raise Broken("parseAndVerifyGovernanceVAAGeneric parameters are %s" % g_params)
        ms = re.search(r'receivedSequence = (\w+) \+ (\d+)\s*\n', wb)
        mr = re.search(r'return ([\w, ]+)\s*$', wb.strip())
        if not ms or ms.group(1) not in wn or not mr:
            raise Broken("%s: parseAndVerifyGovernanceVAA: `receivedSequence = <bound name> + n` / return not found" % RAL_FILES[k])
        wr = [x.strip() for x in mr.group(1).split(",")]
        if any(x not in wn for x in wr):
            raise Broken("%s: parseAndVerifyGovernanceVAA returns %s" % (RAL_FILES[k], wr))
        out.append("(* %s parseAndVerifyGovernanceVAA(%s): let (%s) = parseAndVerifyGovernanceVAAGeneric(%s); receivedSequence = %s + %s; return %s *)\n"
                   "Definition ral_wrapper_%s (generic : rv -> rv -> rv -> option rres) (v_receivedSequence v_action : rval) : option (list rval * rv) :=\n"
                   "  match generic %s %s %s with Some ([%s], _) => Some ([%s], r_add (r_var %s) (r_num %s)) | _ => None end.\n"
                   % (RAL_FILES[k].split("/")[-1], ", ".join(w_params), ", ".join(wn), ", ".join(wa), ms.group(1), ms.group(2), ", ".join(wr), k,
                      arg(byname["targetSequence"]), arg(byname["coreModule"]), arg(byname["action"]),
                      "; ".join(gname(n) for n in wn), "; ".join(gname(n) for n in wr), gname(ms.group(1)), ms.group(2)))
        info["wrapper_" + k] = {"binds": wn, "args": wa, "returns": wr}
        # ---- entry points of this file
        for fname, fk, _ in RAL_FUNCS:
            if fk != k or fname in ("parseAndVerifyGovernanceVAAGeneric",):
                continue
            e_params, eb = _ral_fn_text(srcs[k], fname, RAL_FILES[k])
            en, ea, _ = _ral_tuple_let(eb, "parseAndVerifyGovernanceVAA", fname)
            if len(en) != len(wr) or len(ea) != 2 or ea[0] != e_params[0] or not ea[1].startswith("ActionId."):
                raise Broken("%s: let (%s) = parseAndVerifyGovernanceVAA(%s)" % (fname, ", ".join(en), ", ".join(ea)))
            fp = fparams[fname]
            extra = [p for p in fp if p not in en]
            if any(n not in fp for n in en):
                raise Broken("%s binds %s from the envelope parser but uses %s" % (fname, en, fp))
            out.append("(* %s: let (%s) = parseAndVerifyGovernanceVAA(%s) *)\n"
                       "Definition ral_entry_%s (wrapper : rval -> option (list rval * rv)) %s: option (rres * rv) :=\n"
                       "  match ral_action_%s with Some a => match wrapper a with Some ([%s], s') => match ral_%s %s with Some r => Some (r, s') | None => None end | _ => None end | None => None end.\n"
                       % (fname, ", ".join(en), ", ".join(ea), fname, "".join("(%s : rval) " % gname(p) for p in extra), fname,
                          "; ".join(gname(n) for n in en), fname, " ".join(gname(p) for p in fp)))
            info.setdefault("entries", {})[fname] = {"binds": en, "state": extra}
    out.append("End RalGlue.\n")
    return "".join(out), info


EXTRACTORS += [("go_inject_glue", x_go_inject_glue), ("ral_gov_glue", x_ral_gov_glue)]
