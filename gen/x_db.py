"""Extractor for C12: the store key formats (node/pkg/vaa/structs.go) and the prefixes db.go iterates with."""
import re
from extract import rd, Broken

FIELDS = {"i.EmitterChain": ("KEChain", "d"), "i.EmitterAddress": ("KEAddr", "s"),
          "i.TargetChain": ("KTChain", "d"), "i.Sequence": ("KSeq", "d")}


def gbytes_lit(s):
    return "[" + "; ".join("x%02x" % b for b in s.encode()) + "]"


def parse_sprintf(src, method):
    m = re.search(r'func \(i \*VAAID\) %s\(\) \[\]byte \{\s*return \[\]byte\(fmt\.Sprintf\("((?:[^"\\]|\\.)*)"((?:\s*,\s*[\w.]+)*)\)\)\s*\}' % method, src)
    if not m:
        raise Broken("structs.go: VAAID.%s: `return []byte(fmt.Sprintf(\"...\", fields...))` shape not found" % method)
    fmt_s, args = m.group(1), [a.strip() for a in m.group(2).split(",") if a.strip()]
    if "\\" in fmt_s:
        raise Broken("VAAID.%s: escape sequence in format string %r not understood" % (method, fmt_s))
    parts = re.split(r'(%.)', fmt_s)
    frags, ai = [], 0
    for p in parts:
        if p == "":
            continue
        if re.fullmatch(r'%.', p):
            if p == "%%":
                frags.append(("lit", "%"))
                continue
            if ai >= len(args):
                raise Broken("VAAID.%s: more verbs than arguments in %r" % (method, fmt_s))
            a = args[ai]
            ai += 1
            if a not in FIELDS:
                raise Broken("VAAID.%s: argument %r is not one of the four id fields" % (method, a))
            ctor, verb = FIELDS[a]
            if p[1] != verb:
                raise Broken("VAAID.%s: verb %s applied to %s not understood (expected %%%s)" % (method, p, a, verb))
            frags.append(("f", ctor))
        else:
            frags.append(("lit", p))
    if ai != len(args):
        raise Broken("VAAID.%s: more arguments than verbs in %r" % (method, fmt_s))
    g = "[" + "; ".join(("KLit " + gbytes_lit(x)) if k == "lit" else x for k, x in frags) + "]"
    return g, fmt_s, args


def x_db_keys():
    src = rd("node/pkg/vaa/structs.go")
    if not re.search(r'func \(a Address\) String\(\) string \{\s*return hex\.EncodeToString\(a\[:\]\)\s*\}', src):
        raise Broken("structs.go: Address.String is no longer hex.EncodeToString(a[:])")
    out, info = "From WH Require Import lib.KeyFmt.\n", {}
    for method, name in (("Bytes", "db_key_fmt"), ("GovernanceEmitterPrefixBytes", "db_gov_prefix_fmt"), ("EmitterPrefixBytes", "db_emitter_prefix_fmt")):
        g, f, a = parse_sprintf(src, method)
        out += "(* VAAID.%s: fmt.Sprintf(%r, %s) *)\nDefinition %s : list kfrag := %s.\n" % (method, f, ", ".join(a), name, g)
        info[method] = f
    db = rd("node/pkg/db/db.go")
    try:
        gap = db[db.index("func (d *Database) FindEmitterSequenceGap("):]
        gov = db[db.index("func (d *Database) GetGovernanceVAABatch("):db.index("func (d *Database) GetSignedVAABytes(")]
        sto = db[db.index("func (d *Database) StoreSignedVAA("):db.index("type GovernanceVAA struct")]
        get = db[db.index("func (d *Database) GetSignedVAABytes("):db.index("func (d *Database) FindEmitterSequenceGap(")]
    except ValueError:
        raise Broken("db.go: one of StoreSignedVAA / GetGovernanceVAABatch / GetSignedVAABytes / FindEmitterSequenceGap not found")
    # the prefix the gap scan seeks and validates with
    m = re.search(r'\n\s*(\w+) := ([^\n]+)\n(?:\s*//[^\n]*\n|\s*\n)*?\s*seqs := make\(map\[uint64\]bool\)', gap)
    if not m:
        m = re.search(r'\n\s*(\w+) := ([^\n]*EmitterPrefixBytes\(\)[^\n]*)\n', gap)
    if not m:
        raise Broken("FindEmitterSequenceGap: definition of the scan prefix not found")
    var, expr = m.group(1), m.group(2).strip()
    if re.fullmatch(r'prefix\.EmitterPrefixBytes\(\)', expr):
        suffix = ""
    else:
        m2 = re.fullmatch(r'append\(prefix\.EmitterPrefixBytes\(\), (\'(.)\'|\[\]byte\("([^"\\]*)"\)\.\.\.|"([^"\\]*)"\.\.\.)\)', expr)
        if not m2:
            raise Broken("FindEmitterSequenceGap: scan prefix expression %r not understood" % expr)
        suffix = m2.group(2) or m2.group(3) or m2.group(4) or ""
    if not re.search(r'for it\.Seek\(%s\); it\.ValidForPrefix\(%s\); it\.Next\(\)' % (var, var), gap):
        raise Broken("FindEmitterSequenceGap: `for it.Seek(%s); it.ValidForPrefix(%s); it.Next()` not found" % (var, var))
    out += "(* FindEmitterSequenceGap seeks and validates with  %s  *)\nDefinition db_gap_prefix_suffix : list byte := %s.\n" % (expr, gbytes_lit(suffix))
    info["gap_prefix"] = expr
    # the rest of the gap scan the model transcribes: sequence read from the stored VAA, `first := false`, inclusive loop
    for pat, what in ((r'v, err := vaa\.Unmarshal\(val\)', "values are decoded with vaa.Unmarshal"),
                      (r'seqs\[v\.Sequence\] = true', "the sequence is taken from the decoded VAA"),
                      (r'first := false\s', "`first := false` (firstSeq stays 0)"),
                      (r'if k > lastSeq \{\s*lastSeq = k\s*\}', "lastSeq = maximum"),
                      (r'for i := firstSeq; i <= lastSeq; i\+\+ \{\s*if !seqs\[i\] \{(?:\s*fmt\.Printf\([^\n]*\))?\s*resp = append\(resp, i\)', "inclusive loop appending the missing numbers")):
        if not re.search(pat, gap):
            raise Broken("FindEmitterSequenceGap: %s — shape not found" % what)
    if not (re.search(r'prefixBytes := vaaId\.GovernanceEmitterPrefixBytes\(\)', gov)
            and re.search(r'for it\.Seek\(prefixBytes\); it\.ValidForPrefix\(prefixBytes\); it\.Next\(\)', gov)):
        raise Broken("GetGovernanceVAABatch: scan with vaaId.GovernanceEmitterPrefixBytes() not found")
    # how the batch recovers sequence and target chain from the key text
    m1 = re.search(r'seqIndex := strings\.LastIndex\(keyStr, "/"\)(?:.|\n)*?sequence, err := strconv\.ParseUint\(keyStr\[seqIndex\+1:\], 10, (\d+)\)', gov)
    m2 = re.search(r'targetChainIndex := strings\.LastIndex\(keyStr\[:seqIndex\], "/"\)(?:.|\n)*?targetChain, err := strconv\.ParseUint\(keyStr\[targetChainIndex\+1:seqIndex\], 10, (\d+)\)', gov)
    if not m1 or not m2:
        raise Broken("GetGovernanceVAABatch: LastIndex / ParseUint parsing of the key text not found")
    if not re.search(r'if !contains\(sequence\) \{\s*continue\s*\}', gov) or not re.search(
            r'TargetChain:\s*vaa\.ChainID\(targetChain\),\s*Sequence:\s*sequence,\s*VaaBytes:\s*vaaBytes,', gov):
        raise Broken("GetGovernanceVAABatch: `if !contains(sequence) { continue }` / entry construction not found")
    out += "Definition db_gov_seq_bits : Z := %s.\nDefinition db_gov_tc_bits : Z := %s.\n" % (m1.group(1), m2.group(1))
    info["gov_parse_bits"] = [int(m1.group(1)), int(m2.group(1))]
    if not re.search(r'txn\.Set\(VaaIDFromVAA\(v\)\.Bytes\(\), b\)', sto):
        raise Broken("StoreSignedVAA: `txn.Set(VaaIDFromVAA(v).Bytes(), b)` not found")
    if not re.search(r'txn\.Get\(id\.Bytes\(\)\)', get):
        raise Broken("GetSignedVAABytes: `txn.Get(id.Bytes())` not found")
    rpc = rd("node/pkg/publicrpc/publicrpcserver.go")
    m = re.search(r'func validateBatchSize\(size int\) error \{\s*if size > (\d+) \{', rpc)
    if not m:
        raise Broken("publicrpcserver.go: validateBatchSize `if size > N` not found")
    out += "Definition rpc_max_batch : Z := %s.\n" % m.group(1)
    info["max_batch"] = int(m.group(1))
    adm = rd("node/cmd/guardiand/adminserver.go")
    if not re.search(r'resp\[i\] = fmt\.Sprintf\("%d/%s/%d/%d", req\.EmitterChain, emitterAddress, req\.TargetChain, v\)', adm) or not re.search(
            r'emitterAddress := vaa\.Address\{\}\s*copy\(emitterAddress\[:\], b\)', adm):
        raise Broken("adminserver.go: FindMissingMessages id rendering `%d/%s/%d/%d` / address copy not found")
    return out, info


EXTRACTORS = [("db_keys", x_db_keys)]
