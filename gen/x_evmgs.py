"""Extractors for the guardian-set poll of the EVM watcher and for what a restart of Run re-creates (extension X4; C01
provenance of the sets the processor learns, C10 across restarts).  Read from node/pkg/ethereum/{watcher,poller}.go and
node/pkg/processor/processor.go on every run; emitted into coq/gen/ExtractedEvmGs.v (own file: work on these anchors cannot
break the build of the other extractors' consumers).

coq/model/EvmGuardianSet.v is written over the definitions below; proofs/EvmGuardianSetProofs.v proves the theorems for the
generated values (`*(w.currentGuardianSet) == idx` turned into `>`: the no-repeat theorem stops proving; the send moved out of the
changed-index path, the error return dropped, keys and index taken from different calls: the anchor is gone -> Broken)."""
import re
from extract import rd, Broken

TARGET = "ExtractedEvmGs"
HEADER = "From Coq Require Import ZArith Bool.\nOpen Scope Z_scope.\n\n"

CMP = {"==": "Z.eqb a b", "!=": "negb (Z.eqb a b)", "<=": "Z.leb a b", "<": "Z.ltb a b", ">=": "Z.geb a b", ">": "Z.gtb a b"}


def _func(src, sig_re, what):
    m = re.search(sig_re, src)
    if not m:
        raise Broken("%s not found" % what)
    i = src.find("{", m.end() - 1) if src[m.end() - 1] != "{" else m.end() - 1
    depth, j = 0, i
    while j < len(src):
        c = src[j]
        if c == "{":
            depth += 1
        elif c == "}":
            depth -= 1
            if depth == 0:
                return src[i:j + 1]
        j += 1
    raise Broken("%s: unbalanced block" % what)


def _one(text, pattern, what, flags=0):
    ms = list(re.finditer(pattern, text, flags))
    if len(ms) != 1:
        raise Broken("%s: %d occurrences (expected exactly 1)" % (what, len(ms)))
    return ms[0]


def _nocomment(s):
    return re.sub(r'//[^\n]*', '', s)


def x_evm_guardian_set():
    src = rd("node/pkg/ethereum/watcher.go")
    info = {}
    # ---------------------------------------------------------------- fetchCurrentGuardianSet: index first, then the set OF THAT index
    fc = _nocomment(_func(src, r'\nfunc fetchCurrentGuardianSet\(ctx context\.Context, ethConn Connector\) \(uint32, \*abi\.StructsGuardianSet, error\) \{',
                          "fetchCurrentGuardianSet"))
    mi = _one(fc, r'currentIndex, err := ethConn\.GetCurrentGuardianSetIndex\(ctx\)\s*\n\s*if err != nil \{\s*\n\s*return 0, nil, fmt\.Errorf\(',
              "fetchCurrentGuardianSet: index call followed by its error return")
    ms = _one(fc, r'gs, err := ethConn\.GetGuardianSet\(ctx, currentIndex\)\s*\n\s*if err != nil \{\s*\n\s*return 0, nil, fmt\.Errorf\(',
              "fetchCurrentGuardianSet: GetGuardianSet(ctx, currentIndex) followed by its error return")
    mr = _one(fc, r'return currentIndex, &gs, nil', "fetchCurrentGuardianSet: `return currentIndex, &gs, nil`")
    if not (mi.start() < ms.start() < mr.start()):
        raise Broken("fetchCurrentGuardianSet: statements are not in the order index call, set call, return")
    if len(re.findall(r'GetCurrentGuardianSetIndex\(', fc)) != 1 or len(re.findall(r'GetGuardianSet\(', fc)) != 1:
        raise Broken("fetchCurrentGuardianSet: more than one index / set call")
    if len(re.findall(r'\breturn\b', fc)) != 3:
        raise Broken("fetchCurrentGuardianSet: %d return statements (expected 3)" % len(re.findall(r'\breturn\b', fc)))
    if re.search(r'currentIndex\s*(=[^=]|\+\+|--|[-+*/]=)', fc.replace("currentIndex, err :=", "")):
        raise Broken("fetchCurrentGuardianSet: currentIndex is reassigned")

    # ---------------------------------------------------------------- fetchAndUpdateGuardianSet
    fu = _nocomment(_func(src, r'\nfunc \(w \*Watcher\) fetchAndUpdateGuardianSet\(', "fetchAndUpdateGuardianSet"))
    mf = _one(fu, r'idx, gs, err := fetchCurrentGuardianSet\(timeout, ethConn\)\s*\n\s*if err != nil \{[^}]*?\n\s*return err\s*\n\s*\}',
              "fetchAndUpdateGuardianSet: fetch followed by `if err != nil { .. return err }`", re.S)
    mc = _one(fu, r'if w\.currentGuardianSet != nil && \*\(w\.currentGuardianSet\) (==|!=|<=|<|>=|>) idx \{\s*\n\s*return nil\s*\n\s*\}',
              "fetchAndUpdateGuardianSet: `if w.currentGuardianSet != nil && *(w.currentGuardianSet) <op> idx { return nil }`")
    mst = _one(fu, r'w\.currentGuardianSet = &idx', "fetchAndUpdateGuardianSet: `w.currentGuardianSet = &idx`")
    msd = _one(fu, r'if w\.setChan != nil \{\s*\n\s*w\.setChan <- &common\.GuardianSet\{\s*\n\s*Keys:\s*gs\.Keys,\s*\n\s*Index:\s*idx,\s*\n\s*\}\s*\n\s*\}',
               "fetchAndUpdateGuardianSet: `if w.setChan != nil { w.setChan <- &common.GuardianSet{Keys: gs.Keys, Index: idx} }`")
    if not (mf.start() < mc.start() < mst.start() and mc.start() < msd.start()):
        raise Broken("fetchAndUpdateGuardianSet: the index comparison does not precede the store and the send")
    if len(re.findall(r'\bidx\s*(=[^=]|\+\+|--|[-+*/]=)', fu)) != 0 or len(re.findall(r'\bgs\s*(=[^=])', fu)) != 0:
        raise Broken("fetchAndUpdateGuardianSet: idx / gs reassigned after the fetch")
    if not re.search(r'\n\s*return nil\s*\n\}$', fu):
        raise Broken("fetchAndUpdateGuardianSet: does not end in `return nil`")
    if len(re.findall(r'\breturn\b', fu)) != 3:
        raise Broken("fetchAndUpdateGuardianSet: %d return statements (expected 3: error, unchanged, done)" % len(re.findall(r'\breturn\b', fu)))
    store_first = mst.start() < msd.start()
    # nobody else writes the memory or the channel
    allsrc = _nocomment(src)
    if len(re.findall(r'\.currentGuardianSet\s*=[^=]', allsrc)) != 1:
        raise Broken("watcher.go: w.currentGuardianSet is assigned in %d places (expected 1)" % len(re.findall(r'\.currentGuardianSet\s*=[^=]', allsrc)))
    if len(re.findall(r'\bsetChan\s*<-', allsrc)) != 1:
        raise Broken("watcher.go: %d sends on setChan (expected 1)" % len(re.findall(r'\bsetChan\s*<-', allsrc)))
    if len(re.findall(r'fetchAndUpdateGuardianSet\(logger, ctx, w\.ethConn\)', allsrc)) != 2:
        raise Broken("watcher.go: fetchAndUpdateGuardianSet(logger, ctx, w.ethConn) is not called exactly twice (Run's initial fetch, the ticker)")

    # ---------------------------------------------------------------- Run: initial fetch, ticker goroutine, what a restart re-creates
    run = _nocomment(_func(src, r'\nfunc \(w \*Watcher\) Run\(ctx context\.Context\) error \{', "Watcher.Run"))
    m0 = _one(run, r'if err := w\.fetchAndUpdateGuardianSet\(logger, ctx, w\.ethConn\); err != nil \{\s*\n\s*return fmt\.Errorf\("failed to request guardian set: %v", err\)\s*\n\s*\}',
              "Run: initial fetch whose error makes Run return")
    mt = _one(run, r'go func\(\) \{\s*\n\s*t := time\.NewTicker\((\d+) \* time\.Second\)\s*\n\s*defer t\.Stop\(\)\s*\n\s*for \{\s*\n\s*select \{\s*\n\s*case <-ctx\.Done\(\):\s*\n\s*return\s*\n\s*case <-t\.C:\s*\n'
                   r'\s*if err := w\.fetchAndUpdateGuardianSet\(logger, ctx, w\.ethConn\); err != nil \{\s*\n\s*errC <- fmt\.Errorf\("failed to request guardian set: %v", err\)\s*\n\s*return\s*\n\s*\}',
              "Run: guardian-set ticker goroutine (`time.NewTicker(n * time.Second)`; fetch; error -> errC; return)")
    period = int(mt.group(1))
    me = _one(run, r'errC := make\(chan error\)', "Run: errC")
    mw = _one(run, r'w\.ethConn, err = NewBlockPollConnector\(', "Run: w.ethConn = NewBlockPollConnector(..)")
    msub = _one(run, r'messageSub, err := w\.ethConn\.WatchLogMessagePublished\(ctx, messageC\)', "Run: log subscription")
    mend = _one(run, r'select \{\s*\n\s*case <-ctx\.Done\(\):\s*\n\s*return ctx\.Err\(\)\s*\n\s*case err := <-errC:\s*\n\s*return err\s*\n\s*\}\s*\n\}$',
                "Run: final `select { case <-ctx.Done(): return ctx.Err(); case err := <-errC: return err }`")
    if not (mw.start() < msub.start() < m0.start() < me.start() < mt.start() < mend.start()):
        raise Broken("Run: order connector, log subscription, initial guardian-set fetch, errC, ticker goroutine, final select not found")
    # what survives a restart: Run never re-initialises w.pending or w.currentGuardianSet
    if re.search(r'w\.pending\s*=[^=]', run) or re.search(r'w\.currentGuardianSet\s*=[^=]', run):
        raise Broken("Run re-initialises w.pending / w.currentGuardianSet")
    new = _nocomment(_func(src, r'\nfunc NewEthWatcher\(', "NewEthWatcher"))
    if not re.search(r'pending:\s*map\[pendingKey\]\*pendingMessage\{\},', new) or re.search(r'currentGuardianSet:', new):
        raise Broken("NewEthWatcher: `pending: map[pendingKey]*pendingMessage{}` / no initial currentGuardianSet not found")
    # the log handler switches the poller on, the head handler switches it off when nothing pends
    if not re.search(r'w\.pending\[key\] = &pendingMessage\{[^}]*\}\s*\n\s*w\.ethConn\.EnablePoller\(\)', run):
        raise Broken("Run: EnablePoller() right after the insertion into w.pending not found")
    if not re.search(r'if len\(w\.pending\) == 0 \{\s*\n\s*w\.ethConn\.DisablePoller\(\)\s*\n\s*\}', run):
        raise Broken("Run: `if len(w.pending) == 0 { w.ethConn.DisablePoller() }` not found")
    # Run re-entered with messages still pending: the guard of repo commit b274c5a (between the new connector and the log subscription)
    mg = re.search(r'w\.pendingMu\.Lock\(\)\s*\n\s*if len\(w\.pending\) > 0 \{\s*\n\s*w\.ethConn\.EnablePoller\(\)\s*\n\s*\}\s*\n\s*w\.pendingMu\.Unlock\(\)', run)
    guard = bool(mg)
    if guard and not (mw.start() < mg.start() < msub.start()):
        raise Broken("Run: the `if len(w.pending) > 0 { w.ethConn.EnablePoller() }` guard is not between NewBlockPollConnector and the log subscription")
    if len(re.findall(r'EnablePoller\(\)', run)) != (2 if guard else 1) or len(re.findall(r'DisablePoller\(\)', run)) != 1:
        raise Broken("Run: EnablePoller is not called exactly in the log handler%s / DisablePoller not exactly once" % (" and in the restart guard" if guard else ""))
    # the block-time failure of the log handler: errC, return, nothing inserted
    lh = run[run.index("case ev := <-messageC:"):]
    mbt = _one(lh, r'blockTime, err := w\.ethConn\.TimeOfBlockByHash\(timeout, ev\.Raw\.BlockHash\)', "log handler: block time lookup")
    mer = _one(lh, r'errC <- fmt\.Errorf\("failed to request timestamp for block %d, hash %s: %w",[^\n]*\n[^\n]*\)\s*\n\s*return', "log handler: block-time error -> errC; return")
    mins = _one(lh, r'w\.pending\[key\] = &pendingMessage\{', "log handler: insertion")
    if not (mbt.start() < mer.start() < mins.start()):
        raise Broken("log handler: the block-time error return does not precede the insertion")

    pol = _nocomment(rd("node/pkg/ethereum/poller.go"))
    nb = _func(pol, r'\nfunc NewBlockPollConnector\(', "NewBlockPollConnector")
    if not re.search(r'enabled:\s*&atomic\.Bool\{\},', nb) or re.search(r'enabled\.Store\(true\)', nb):
        raise Broken("NewBlockPollConnector: the new poller does not start with `enabled: &atomic.Bool{}` (false)")
    pr = _func(pol, r'\nfunc \(b \*BlockPollConnector\) run\(', "BlockPollConnector.run")
    if not re.search(r'lastBlock, err := b\.getBlock\(ctx, logger, nil, false\)\s*\n\s*if err != nil \{\s*\n\s*return err', pr):
        raise Broken("BlockPollConnector.run: first lastBlock = getBlock(..) not found")

    # ---------------------------------------------------------------- the processor's set update
    prc = _nocomment(rd("node/pkg/processor/processor.go"))
    prun = _func(prc, r'\nfunc \(p \*Processor\) Run\(ctx context\.Context\) error \{', "Processor.Run")
    mp = _one(prun, r'case p\.gs = <-p\.setC:', "Processor.Run: `case p.gs = <-p.setC:`")
    blk = prun[mp.end():prun.index("case ", mp.end())]
    if not re.search(r'p\.gst\.Set\(p\.gs\)', blk):
        raise Broken("Processor.Run: p.gst.Set(p.gs) in the setC case not found")
    allp = ""
    import glob, os
    from extract import REPO
    for f in sorted(glob.glob(os.path.join(REPO, "node/pkg/processor/*.go"))):
        if not f.endswith("_test.go"):
            allp += _nocomment(open(f).read())
    if len(re.findall(r'\bp\.gs\s*=[^=]', allp)) != 1:
        raise Broken("pkg/processor: p.gs is assigned in %d places (expected 1: the setC case)" % len(re.findall(r'\bp\.gs\s*=[^=]', allp)))

    op = mc.group(1)
    info.update({"index_compare": op, "store_before_send": store_first, "ticker_seconds": period, "restart_enables_poller_when_pending": guard})
    out = ["(* fetchAndUpdateGuardianSet: `if w.currentGuardianSet != nil && *(w.currentGuardianSet) %s idx { return nil }` *)" % op,
           "Definition evm_gs_same (a b : Z) : bool := %s." % CMP[op],
           "(* fetchAndUpdateGuardianSet: `w.currentGuardianSet = &idx` %s `w.setChan <- ..` *)" % ("precedes" if store_first else "FOLLOWS"),
           "Definition evm_gs_store_before_send : bool := %s." % ("true" if store_first else "false"),
           "(* Run: `time.NewTicker(%d * time.Second)` *)" % period,
           "Definition evm_gs_period_s : Z := %d." % period,
           "(* Run, after NewBlockPollConnector: `if len(w.pending) > 0 { w.ethConn.EnablePoller() }` under pendingMu is %s *)" % ("present" if guard else "ABSENT (tree before repo commit b274c5a)"),
           "Definition evm_restart_enables_poller : bool := %s." % ("true" if guard else "false")]
    return "\n".join(out) + "\n", info


EXTRACTORS = [("evm_guardian_set", x_evm_guardian_set)]
