"""C20: node/cmd/spy/spy.go anchors — channel capacity, shape of Publish (lock held over the iteration, lazy decoding with early
return, one send per matching filter, how a send is performed), of the subscription loop and of the deferred removal."""
import re
from extract import rd, Broken


def _func(src, header_rx):
    m = re.search(header_rx, src, re.M)
    if not m:
        return None
    end = src.find("\n}\n", m.end())
    return src[m.start():end + 3] if end >= 0 else None


def x_spy():
    src = rd("node/cmd/spy/spy.go")
    pub = _func(src, r'^func \(s \*spyServer\) Publish\(vaaBytes \[\]byte\) error \{')
    sub = _func(src, r'^func \(s \*spyServer\) SubscribeSignedVAA\(')
    dec = _func(src, r'^func decodeEmitterAddr\(')
    if not pub or not sub or not dec:
        raise Broken("spy.go: Publish / SubscribeSignedVAA / decodeEmitterAddr not found")
    # ---- how one message is handed to one subscription
    SEND_BLOCKING = r'sub\.ch <- message\{vaaBytes: vaaBytes\}'
    SEND_HELPER = r'sub\.send\(message\{vaaBytes: vaaBytes\}\)'
    helper = _func(src, r'^func \(sub \*subscription\) send\(msg message\) \{')
    if re.search(SEND_HELPER, pub):
        if not helper:
            raise Broken("spy.go: Publish calls sub.send but the helper is not found")
        if not re.search(r'select \{\s*case sub\.ch <- msg:\s*case <-sub\.done:\s*\}', helper) or "default:" in helper:
            raise Broken("spy.go: sub.send is not `select { case sub.ch <- msg: case <-sub.done: }`")
        if not re.search(r'done:\s*resp\.Context\(\)\.Done\(\)', sub):
            raise Broken("spy.go: subscription.done is not the stream context's Done()")
        send_rx, select_done = SEND_HELPER, True
    elif re.search(SEND_BLOCKING, pub):
        send_rx, select_done = SEND_BLOCKING, False
    else:
        raise Broken("spy.go: Publish: form of the send not recognised")
    # ---- Publish, statement by statement
    shape = (r'func \(s \*spyServer\) Publish\(vaaBytes \[\]byte\) error \{\s*'
             r's\.subsMu\.Lock\(\)\s*defer s\.subsMu\.Unlock\(\)\s*'
             r'var v \*vaa\.VAA\s*'
             r'for _, sub := range s\.subs \{\s*'
             r'if len\(sub\.filters\) == 0 \{\s*SEND\s*\} else \{\s*'
             r'if v == nil \{\s*var err error\s*v, err = vaa\.Unmarshal\(vaaBytes\)\s*if err != nil \{\s*return err\s*\}\s*\}\s*'
             r'for _, fi := range sub\.filters \{\s*'
             r'if fi\.chainId == v\.EmitterChain && fi\.emitterAddr == v\.EmitterAddress \{\s*SEND\s*\}\s*\}\s*\}\s*\}\s*'
             r'return nil\s*\}').replace("SEND", send_rx)
    if not re.search(shape, pub):
        raise Broken("spy.go: Publish no longer has the modelled shape (lock+defer unlock; range subs; no filters: send; else lazy Unmarshal with "
                     "`return err`, one send per filter with equal chain and address; return nil)")
    # ---- registration, loop, removal
    cap_m = re.search(r'ch:\s*make\(chan message, (\d+)\)', sub)
    if not cap_m:
        raise Broken("spy.go: capacity of subscription.ch not found")
    reg = (r's\.subsMu\.Lock\(\)\s*id := subscriptionId\(\)\s*sub := &subscription\{[^}]*\}\s*s\.subs\[id\] = sub\s*s\.subsMu\.Unlock\(\)\s*'
           r'defer func\(\) \{\s*s\.subsMu\.Lock\(\)\s*defer s\.subsMu\.Unlock\(\)\s*delete\(s\.subs, id\)\s*\}\(\)\s*'
           r'for \{\s*select \{\s*case <-resp\.Context\(\)\.Done\(\):\s*return resp\.Context\(\)\.Err\(\)\s*'
           r'case msg := <-sub\.ch:\s*if err := resp\.Send\(&spyv1\.SubscribeSignedVAAResponse\{\s*VaaBytes: msg\.vaaBytes,\s*\}\); err != nil \{\s*return err\s*\}\s*\}\s*\}')
    if not re.search(reg, sub):
        raise Broken("spy.go: SubscribeSignedVAA: registration under subsMu / deferred removal under subsMu / select loop not in the modelled shape")
    if not re.search(r'chainId:\s*vaa\.ChainID\(t\.EmitterFilter\.ChainId\),\s*emitterAddr:\s*addr,', sub):
        raise Broken("spy.go: SubscribeSignedVAA: filter construction (chain id conversion, decoded address) not found")
    if sub.index("s.subsMu.Lock()") < sub.index("unsupported filter type"):
        raise Broken("spy.go: SubscribeSignedVAA: filters are no longer parsed before the mutex is taken")
    mlen = re.search(r'if len\(address\) != (\d+) \{\s*return vaa\.Address\{\}, status\.Error\(codes\.InvalidArgument', dec)
    if not mlen or not re.search(r'address, err := hex\.DecodeString\(hexAddr\)\s*if err != nil \{\s*return vaa\.Address\{\}', dec):
        raise Broken("spy.go: decodeEmitterAddr: hex decoding / length test not found")
    out = ("(* spy.go: capacity of subscription.ch *)\nDefinition spy_chan_cap : nat := %s%%nat.\n"
           "(* spy.go Publish: is a send `select { case sub.ch <- msg: case <-sub.done: }` (true) or a bare `sub.ch <- msg` (false)? *)\n"
           "Definition spy_send_select_done : bool := %s.\n"
           "(* spy.go decodeEmitterAddr: required length of a filter's emitter address *)\nDefinition spy_addr_len : nat := %s%%nat.\n"
           % (cap_m.group(1), "true" if select_done else "false", mlen.group(1)))
    return out, {"chan_cap": int(cap_m.group(1)), "send_selects_on_done": select_done, "addr_len": int(mlen.group(1))}


EXTRACTORS = [("spy", x_spy)]
