(* Proofs about model/Db.v (C12): byte order, map laws of the ordered store, Seek/ValidForPrefix = filter on an ordered
   store, key injectivity and prefix characterisations, histories of stores, gap scan, governance batch, RPC wrappers. *)
From Coq Require Import List ZArith NArith Lia Bool Arith Sorting.Sorted Permutation.
From Coq Require Import Strings.Byte.
From WH Require Import lib.Bytes lib.Digits lib.KeyFmt gen.Extracted model.Vaa proofs.VaaProofs model.Db.
Import ListNotations.
Open Scope Z_scope.

(* ================================================================== 1. bytewise order *)
Lemma to_N_inj x y : Byte.to_N x = Byte.to_N y -> x = y.
Proof.
  intros E. pose proof (Byte.of_to_N x) as Hx. pose proof (Byte.of_to_N y) as Hy. rewrite E in Hx. congruence.
Qed.

Lemma bcmp_eq x y : bcmp x y = Eq <-> x = y.
Proof.
  unfold bcmp. rewrite N.compare_eq_iff. split; [apply to_N_inj|intros ->; reflexivity].
Qed.
Lemma bcmp_refl x : bcmp x x = Eq.
Proof. apply bcmp_eq. reflexivity. Qed.
Lemma bcmp_antisym x y : bcmp y x = CompOpp (bcmp x y).
Proof. unfold bcmp. apply N.compare_antisym. Qed.
Lemma bcmp_lt_trans x y z : bcmp x y = Lt -> bcmp y z = Lt -> bcmp x z = Lt.
Proof. unfold bcmp. rewrite !N.compare_lt_iff. apply N.lt_trans. Qed.

Lemma bytes_cmp_eq : forall a b, bytes_cmp a b = Eq <-> a = b.
Proof.
  induction a as [|x a IH]; intros [|y b]; cbn [bytes_cmp]; try (split; [discriminate|discriminate]); [split; reflexivity|].
  destruct (bcmp x y) eqn:E.
  - apply bcmp_eq in E. subst y. rewrite IH. split; [intros ->; reflexivity|intros H; injection H; auto].
  - split; [discriminate|]. intros H; injection H as H1 H2. subst. rewrite bcmp_refl in E. discriminate.
  - split; [discriminate|]. intros H; injection H as H1 H2. subst. rewrite bcmp_refl in E. discriminate.
Qed.
Lemma bytes_cmp_refl a : bytes_cmp a a = Eq.
Proof. apply bytes_cmp_eq. reflexivity. Qed.

Lemma bytes_cmp_antisym : forall a b, bytes_cmp b a = CompOpp (bytes_cmp a b).
Proof.
  induction a as [|x a IH]; intros [|y b]; cbn [bytes_cmp]; try reflexivity.
  rewrite (bcmp_antisym x y). destruct (bcmp x y); cbn [CompOpp]; [apply IH|reflexivity|reflexivity].
Qed.

Lemma bytes_cmp_lt_trans : forall a b c, bytes_cmp a b = Lt -> bytes_cmp b c = Lt -> bytes_cmp a c = Lt.
Proof.
  induction a as [|x a IH]; intros [|y b] [|z c]; cbn [bytes_cmp]; try discriminate; try reflexivity.
  destruct (bcmp x y) eqn:Exy; try discriminate.
  - apply bcmp_eq in Exy. subst y. destruct (bcmp x z); try discriminate; [apply IH|reflexivity].
  - intros _. destruct (bcmp y z) eqn:Eyz; try discriminate.
    + apply bcmp_eq in Eyz. subst z. rewrite Exy. reflexivity.
    + intros _. rewrite (bcmp_lt_trans x y z Exy Eyz). reflexivity.
Qed.

Lemma bytes_cmp_gt_lt a b : bytes_cmp a b = Gt <-> bytes_cmp b a = Lt.
Proof. rewrite (bytes_cmp_antisym a b). destruct (bytes_cmp a b); cbn; split; congruence. Qed.

(* ================================================================== 2. prefixes *)
Lemma prefix_of_iff : forall p k, prefix_of p k = true <-> exists r, k = p ++ r.
Proof.
  induction p as [|x p IH]; intros k; cbn [prefix_of].
  - split; [intros _; exists k; reflexivity|reflexivity].
  - destruct k as [|y k].
    + split; [discriminate|intros [r H]; discriminate].
    + destruct (bcmp x y) eqn:E.
      * apply bcmp_eq in E. subst y. rewrite IH. split; intros [r H]; exists r; [rewrite H; reflexivity|injection H; auto].
      * split; [discriminate|]. intros [r H]. injection H as H1 H2. subst. rewrite bcmp_refl in E. discriminate.
      * split; [discriminate|]. intros [r H]. injection H as H1 H2. subst. rewrite bcmp_refl in E. discriminate.
Qed.

Lemma prefix_of_app p r : prefix_of p (p ++ r) = true.
Proof. apply prefix_of_iff. exists r. reflexivity. Qed.

Lemma prefix_of_app_l a p k : prefix_of (a ++ p) (a ++ k) = prefix_of p k.
Proof. induction a as [|x a IH]; [reflexivity|]. cbn [app prefix_of]. rewrite bcmp_refl. exact IH. Qed.

(* position of a key relative to the block of keys that start with p: before it, inside it, after it *)
Fixpoint pclass (p k : bytes) : comparison :=
  match p, k with
  | [], _ => Eq
  | _ :: _, [] => Lt
  | x :: p', y :: k' => match bcmp y x with Eq => pclass p' k' | c => c end
  end.

Lemma pclass_eq p k : pclass p k = Eq <-> prefix_of p k = true.
Proof.
  revert k. induction p as [|x p IH]; intros k; cbn [pclass prefix_of]; [split; reflexivity|].
  destruct k as [|y k]; [split; discriminate|].
  rewrite (bcmp_antisym x y). destruct (bcmp x y); cbn [CompOpp]; [apply IH|split; discriminate|split; discriminate].
Qed.

(* a key below p is before the block; a key not below p is inside or after it *)
Lemma pclass_lt p k : pclass p k = Lt <-> bytes_cmp k p = Lt.
Proof.
  revert k. induction p as [|x p IH]; intros k; cbn [pclass].
  - destruct k; cbn [bytes_cmp]; split; discriminate.
  - destruct k as [|y k]; cbn [bytes_cmp]; [split; reflexivity|].
    destruct (bcmp y x); [apply IH|split; reflexivity|split; discriminate].
Qed.

Definition cle (c d : comparison) : Prop :=
  match c, d with
  | Lt, _ => True | Eq, Lt => False | Eq, _ => True | Gt, Gt => True | Gt, _ => False
  end.

(* the classification is monotone in the key: the block of keys with prefix p is contiguous in key order *)
Lemma pclass_mono : forall p k1 k2, bytes_cmp k1 k2 = Lt -> cle (pclass p k1) (pclass p k2).
Proof.
  induction p as [|x p IH]; intros k1 k2 H; cbn [pclass]; [exact I|].
  destruct k1 as [|y1 k1]; [exact I|]. destruct k2 as [|y2 k2]; [cbn in H; discriminate|].
  cbn [bytes_cmp] in H. destruct (bcmp y1 y2) eqn:E12; try discriminate.
  - apply bcmp_eq in E12. subst y2. destruct (bcmp y1 x); [apply IH; exact H|exact I|exact I].
  - destruct (bcmp y1 x) eqn:E1.
    + apply bcmp_eq in E1. subst x. rewrite (bcmp_antisym y1 y2), E12. cbn [CompOpp]. destruct (pclass p k1); exact I.
    + exact I.
    + assert (E2 : bcmp y2 x = Gt).
      { rewrite (bcmp_antisym x y2). assert (bcmp x y2 = Lt); [|rewrite H0; reflexivity].
        apply (bcmp_lt_trans x y1 y2); [|exact E12]. rewrite (bcmp_antisym y1 x), E1. reflexivity. }
      rewrite E2. exact I.
Qed.

(* ================================================================== 3. the ordered store *)
Definition klt (a b : bytes * bytes) : Prop := bytes_cmp (fst a) (fst b) = Lt.
Definition sorted (s : store) : Prop := StronglySorted klt s.

Lemma get_put : forall s k v k', get (put s k v) k' = if bytes_eqb k k' then Some v else get s k'.
Proof.
  induction s as [|[k0 v0] s IH]; intros k v k'; cbn [put get].
  - destruct (bytes_eqb_spec k k') as [->|N]; [rewrite bytes_cmp_refl; reflexivity|].
    destruct (bytes_cmp k' k) eqn:E; try reflexivity. apply bytes_cmp_eq in E. congruence.
  - destruct (bytes_cmp k k0) eqn:E0; cbn [get].
    + apply bytes_cmp_eq in E0. subst k0.
      destruct (bytes_eqb_spec k k') as [->|N]; [rewrite bytes_cmp_refl; reflexivity|].
      destruct (bytes_cmp k' k) eqn:E; try reflexivity. apply bytes_cmp_eq in E. congruence.
    + destruct (bytes_eqb_spec k k') as [->|N]; [rewrite bytes_cmp_refl; reflexivity|].
      destruct (bytes_cmp k' k) eqn:E; try reflexivity. apply bytes_cmp_eq in E. congruence.
    + rewrite IH. destruct (bytes_eqb_spec k k') as [->|N]; [rewrite E0; reflexivity|reflexivity].
Qed.

Lemma put_In : forall s k v e, In e (put s k v) -> e = (k, v) \/ In e s.
Proof.
  induction s as [|[k0 v0] s IH]; intros k v e; cbn [put].
  - intros [H|[]]; auto.
  - destruct (bytes_cmp k k0).
    + intros [H|H]; [auto|right; right; exact H].
    + intros [H|H]; [auto|right; exact H].
    + intros [H|H]; [right; left; exact H|]. destruct (IH _ _ _ H); [auto|right; right; assumption].
Qed.

Lemma sorted_put : forall s k v, sorted s -> sorted (put s k v).
Proof.
  unfold sorted. induction s as [|[k0 v0] s IH]; intros k v Hs; cbn [put].
  - constructor; constructor.
  - inversion Hs as [|? ? Hs' Hall]; subst. destruct (bytes_cmp k k0) eqn:E.
    + apply bytes_cmp_eq in E. subst k0. constructor; [exact Hs'|exact Hall].
    + constructor; [exact Hs|]. constructor; [exact E|].
      rewrite Forall_forall in *. intros e He. specialize (Hall e He). unfold klt in *. cbn [fst] in *.
      eapply bytes_cmp_lt_trans; eassumption.
    + constructor; [apply IH; exact Hs'|]. rewrite Forall_forall in *. intros e He.
      apply put_In in He as [->|He]; [|apply Hall; exact He]. unfold klt. cbn [fst]. apply bytes_cmp_gt_lt. exact E.
Qed.

Lemma sorted_get_In : forall s k v, sorted s -> (get s k = Some v <-> In (k, v) s).
Proof.
  unfold sorted. induction s as [|[k0 v0] s IH]; intros k v Hs; cbn [get In]; [split; [discriminate|intros []]|].
  inversion Hs as [|? ? Hs' Hall]; subst. destruct (bytes_cmp k k0) eqn:E.
  - apply bytes_cmp_eq in E. subst k0. split; [intros H; injection H as ->; left; reflexivity|].
    intros [H|H]; [injection H as ->; reflexivity|]. rewrite Forall_forall in Hall. specialize (Hall _ H).
    unfold klt in Hall. cbn [fst] in Hall. rewrite bytes_cmp_refl in Hall. discriminate.
  - rewrite (IH k v Hs'). split; [auto|]. intros [H|H]; [|exact H]. injection H as -> ->. rewrite bytes_cmp_refl in E. discriminate.
  - rewrite (IH k v Hs'). split; [auto|]. intros [H|H]; [|exact H]. injection H as -> ->. rewrite bytes_cmp_refl in E. discriminate.
Qed.

Lemma sorted_NoDup_keys s : sorted s -> NoDup (map fst s).
Proof.
  unfold sorted. induction 1 as [|[k v] s Hs IH Hall]; cbn [map]; constructor; [|exact IH].
  intros Hin. apply in_map_iff in Hin as (e & Ee & He). rewrite Forall_forall in Hall. specialize (Hall e He).
  unfold klt in Hall. cbn [fst] in *. subst k. rewrite bytes_cmp_refl in Hall. discriminate.
Qed.

(* --- Seek(p) ; ValidForPrefix(p) ; Next() on an ordered store = the items whose key starts with p, in key order *)
Definition has_prefix (p : bytes) (e : bytes * bytes) : bool := prefix_of p (fst e).

Lemma filter_none_after p : forall s, Forall (fun e => pclass p (fst e) = Gt) s -> filter (has_prefix p) s = [].
Proof.
  induction s as [|e s IH]; intros H; [reflexivity|]. inversion H as [|? ? He Hs]; subst. cbn [filter].
  unfold has_prefix at 1. destruct (prefix_of p (fst e)) eqn:E; [apply pclass_eq in E; congruence|apply IH; exact Hs].
Qed.

Lemma while_prefix_filter p : forall s, sorted s -> Forall (fun e => pclass p (fst e) <> Lt) s ->
  while_prefix p s = filter (has_prefix p) s.
Proof.
  unfold sorted. induction s as [|[k v] s IH]; intros Hs Hge; [reflexivity|].
  inversion Hs as [|? ? Hs' Hall]; subst. inversion Hge as [|? ? Hk Hge']; subst. cbn [while_prefix filter fst].
  unfold has_prefix at 1. cbn [fst]. destruct (prefix_of p k) eqn:E; [rewrite (IH Hs' Hge'); reflexivity|].
  symmetry. apply filter_none_after. rewrite Forall_forall in *. intros e He. specialize (Hall e He). unfold klt in Hall. cbn [fst] in *.
  pose proof (pclass_mono p k (fst e) Hall) as M. destruct (pclass p k) eqn:Ek.
  - apply pclass_eq in Ek. congruence.
  - congruence.
  - destruct (pclass p (fst e)); cbn in M; try contradiction. reflexivity.
Qed.

Lemma seek_spec p : forall s, sorted s ->
  Forall (fun e => pclass p (fst e) <> Lt) (seek p s) /\ sorted (seek p s) /\ filter (has_prefix p) (seek p s) = filter (has_prefix p) s.
Proof.
  unfold sorted. induction s as [|[k v] s IH]; intros Hs; cbn [seek]; [repeat split; constructor|].
  inversion Hs as [|? ? Hs' Hall]; subst. destruct (bytes_cmp k p) eqn:E.
  - split; [|split; [exact Hs|reflexivity]]. constructor.
    + cbn [fst]. rewrite pclass_lt. congruence.
    + rewrite Forall_forall in *. intros e He. specialize (Hall e He). unfold klt in Hall. cbn [fst] in Hall.
      rewrite pclass_lt. intros Hlt. pose proof (bytes_cmp_lt_trans _ _ _ Hall Hlt). congruence.
  - destruct (IH Hs') as (H1 & H2 & H3). split; [exact H1|]. split; [exact H2|]. rewrite H3. cbn [filter].
    unfold has_prefix at 2. cbn [fst]. destruct (prefix_of p k) eqn:Ep; [|reflexivity].
    apply pclass_eq in Ep. apply pclass_lt in E. congruence.
  - split; [|split; [exact Hs|reflexivity]]. constructor.
    + cbn [fst]. rewrite pclass_lt. congruence.
    + rewrite Forall_forall in *. intros e He. specialize (Hall e He). unfold klt in Hall. cbn [fst] in Hall.
      rewrite pclass_lt. intros Hlt. pose proof (bytes_cmp_lt_trans _ _ _ Hall Hlt). congruence.
Qed.

Theorem scan_filter p s : sorted s -> scan p s = filter (has_prefix p) s.
Proof.
  intros Hs. unfold scan. destruct (seek_spec p s Hs) as (H1 & H2 & H3). rewrite <- H3. apply while_prefix_filter; assumption.
Qed.

(* ================================================================== 4. hex, decimal, key format *)
Lemma hexb_length x : length (hexb x) = 2%nat.
Proof. reflexivity. Qed.
Lemma hexb_no_slash x : ~ In slash (hexb x).
Proof. destruct x; cbv; intros [H|[H|[]]]; discriminate. Qed.
Lemma unhex_hexb x r : unhex (hexb x ++ r) = match unhex r with Some r' => Some (x :: r') | None => None end.
Proof. destruct x; reflexivity. Qed.

Lemma hex_length a : length (hex a) = (2 * length a)%nat.
Proof. unfold hex. induction a as [|x a IH]; [reflexivity|]. cbn [flat_map]. rewrite app_length, IH, hexb_length. cbn [length]. lia. Qed.
Lemma hex_no_slash a : ~ In slash (hex a).
Proof.
  unfold hex. induction a as [|x a IH]; [intros []|]. cbn [flat_map]. intros H. apply in_app_or in H as [H|H]; [exact (hexb_no_slash x H)|exact (IH H)].
Qed.
Lemma unhex_hex a : unhex (hex a) = Some a.
Proof.
  induction a as [|x a IH]; [reflexivity|]. change (hex (x :: a)) with (hexb x ++ hex a). rewrite unhex_hexb, IH. reflexivity.
Qed.
Lemma hex_inj a b : hex a = hex b -> a = b.
Proof. intros E. pose proof (unhex_hex a) as Ha. rewrite E, unhex_hex in Ha. congruence. Qed.

Definition sgn : bytes := [x73; x69; x67; x6e; x65; x64; x2f].   (* "signed/" *)

(* the shapes the theorems below are proved for; these fail to compile when the source formats change *)
Lemma key_eq i : key i = sgn ++ dec (i_ec i) ++ [slash] ++ hex (i_ea i) ++ [slash] ++ dec (i_tc i) ++ [slash] ++ dec (i_seq i).
Proof. unfold key, render, db_key_fmt. cbn [flat_map render_frag]. rewrite app_nil_r. reflexivity. Qed.
Lemma gov_prefix_eq c a : gov_prefix c a = sgn ++ dec c ++ [slash] ++ hex a.
Proof. unfold gov_prefix, render, db_gov_prefix_fmt. cbn [flat_map render_frag i_ec i_ea]. rewrite app_nil_r. reflexivity. Qed.
Lemma gap_prefix_eq c a t : gap_prefix c a t = sgn ++ dec c ++ [slash] ++ hex a ++ [slash] ++ dec t ++ [slash].
Proof.
  unfold gap_prefix, emitter_prefix, render, db_emitter_prefix_fmt, db_gap_prefix_suffix. cbn [flat_map render_frag i_ec i_ea i_tc].
  rewrite app_nil_r. rewrite <- !app_assoc. reflexivity.
Qed.

(* identifiers as the Go types carry them: chain ids and sequence are unsigned, the address is a 32-byte array *)
Definition idwf (i : vid) : Prop := 0 <= i_ec i /\ length (i_ea i) = 32%nat /\ 0 <= i_tc i /\ 0 <= i_seq i.

Theorem key_inj i j : idwf i -> idwf j -> key i = key j -> i = j.
Proof.
  intros (Hc & _ & Ht & Hs) (Hc' & _ & Ht' & Hs') E. rewrite !key_eq in E. apply app_inv_head in E.
  cbn [app] in E.
  apply sep_split in E as [E1 E]; [|apply dec_no_slash; assumption|apply dec_no_slash; assumption].
  apply sep_split in E as [E2 E]; [|apply hex_no_slash|apply hex_no_slash].
  apply sep_split in E as [E3 E4]; [|apply dec_no_slash; assumption|apply dec_no_slash; assumption].
  apply dec_inj in E1; [|assumption|assumption]. apply hex_inj in E2. apply dec_inj in E3; [|assumption|assumption].
  apply dec_inj in E4; [|assumption|assumption]. destruct i as [c1 a1 t1 s1], j as [c2 a2 t2 s2]. cbn [i_ec i_ea i_tc i_seq] in *. subst. reflexivity.
Qed.

Theorem gov_prefix_iff c a i : 0 <= c -> length a = 32%nat -> idwf i ->
  (prefix_of (gov_prefix c a) (key i) = true <-> i_ec i = c /\ i_ea i = a).
Proof.
  intros Hc Ha (Hc' & Ha' & Ht' & Hs'). rewrite gov_prefix_eq, key_eq, prefix_of_app_l. split.
  - intros H. apply prefix_of_iff in H as [r E]. rewrite <- !app_assoc in E. cbn [app] in E.
    apply sep_split in E as [E1 E]; [|apply dec_no_slash; assumption|apply dec_no_slash; assumption].
    apply dec_inj in E1; [|assumption|assumption].
    apply app_inv_len in E as [E2 _]; [|rewrite !hex_length; lia]. apply hex_inj in E2. auto.
  - intros [-> ->]. apply prefix_of_iff. eexists. rewrite <- !app_assoc. reflexivity.
Qed.

Theorem gap_prefix_iff c a t i : 0 <= c -> length a = 32%nat -> 0 <= t -> idwf i ->
  (prefix_of (gap_prefix c a t) (key i) = true <-> i_ec i = c /\ i_ea i = a /\ i_tc i = t).
Proof.
  intros Hc Ha Ht (Hc' & Ha' & Ht' & Hs'). rewrite gap_prefix_eq, key_eq, prefix_of_app_l. split.
  - intros H. apply prefix_of_iff in H as [r E]. rewrite <- !app_assoc in E. cbn [app] in E.
    apply sep_split in E as [E1 E]; [|apply dec_no_slash; assumption|apply dec_no_slash; assumption].
    apply dec_inj in E1; [|assumption|assumption].
    apply sep_split in E as [E2 E]; [|apply hex_no_slash|apply hex_no_slash]. apply hex_inj in E2.
    apply sep_split in E as [E3 _]; [|apply dec_no_slash; assumption|apply dec_no_slash; assumption].
    apply dec_inj in E3; [|assumption|assumption]. auto.
  - intros (-> & -> & ->). apply prefix_of_iff. eexists. rewrite <- !app_assoc. reflexivity.
Qed.

(* the pre-repair prefix (no trailing separator) does NOT separate target chains: kept as a regression witness *)
Lemma emitter_prefix_alone_mixes_targets :
  let a := repeat x00 32 in
  prefix_of (emitter_prefix 4 a 2) (key {| i_ec := 4; i_ea := a; i_tc := 255; i_seq := 7 |}) = true.
Proof. vm_compute. reflexivity. Qed.
