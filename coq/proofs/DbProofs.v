(* Proofs about model/Db.v (C12): byte order, map laws of the ordered store, Seek/ValidForPrefix = filter on an ordered
   store, key injectivity and prefix characterisations, histories of stores, gap scan, governance batch, RPC wrappers. *)
From Coq Require Import List ZArith NArith Lia Bool Arith Sorting.Sorted Permutation.
From Coq Require Import Strings.Byte.
From WH Require Import lib.Bytes lib.Digits lib.KeyFmt gen.Extracted model.Vaa proofs.VaaProofs model.Db.
Import ListNotations.
Open Scope Z_scope.

(* ================================================================== 1. bytewise order *)
Lemma to_N_inj x y : Byte.to_N x = Byte.to_N y -> x = y.
Proof.
  intros E. pose proof (Byte.of_to_N x) as Hx. pose proof (Byte.of_to_N y) as Hy. rewrite E in Hx. congruence.
Qed.

Lemma bcmp_eq x y : bcmp x y = Eq <-> x = y.
Proof.
  unfold bcmp. rewrite N.compare_eq_iff. split; [apply to_N_inj|intros ->; reflexivity].
Qed.
Lemma bcmp_refl x : bcmp x x = Eq.
Proof. apply bcmp_eq. reflexivity. Qed.
Lemma bcmp_antisym x y : bcmp y x = CompOpp (bcmp x y).
Proof. unfold bcmp. apply N.compare_antisym. Qed.
Lemma bcmp_lt_trans x y z : bcmp x y = Lt -> bcmp y z = Lt -> bcmp x z = Lt.
Proof. unfold bcmp. rewrite !N.compare_lt_iff. apply N.lt_trans. Qed.

Lemma bytes_cmp_eq : forall a b, bytes_cmp a b = Eq <-> a = b.
Proof.
  induction a as [|x a IH]; intros [|y b]; cbn [bytes_cmp]; try (split; [discriminate|discriminate]); [split; reflexivity|].
  destruct (bcmp x y) eqn:E.
  - apply bcmp_eq in E. subst y. rewrite IH. split; [intros ->; reflexivity|intros H; injection H; auto].
  - split; [discriminate|]. intros H; injection H as H1 H2. subst. rewrite bcmp_refl in E. discriminate.
  - split; [discriminate|]. intros H; injection H as H1 H2. subst. rewrite bcmp_refl in E. discriminate.
Qed.
Lemma bytes_cmp_refl a : bytes_cmp a a = Eq.
Proof. apply bytes_cmp_eq. reflexivity. Qed.

Lemma bytes_cmp_antisym : forall a b, bytes_cmp b a = CompOpp (bytes_cmp a b).
Proof.
  induction a as [|x a IH]; intros [|y b]; cbn [bytes_cmp]; try reflexivity.
  rewrite (bcmp_antisym x y). destruct (bcmp x y); cbn [CompOpp]; [apply IH|reflexivity|reflexivity].
Qed.

Lemma bytes_cmp_lt_trans : forall a b c, bytes_cmp a b = Lt -> bytes_cmp b c = Lt -> bytes_cmp a c = Lt.
Proof.
  induction a as [|x a IH]; intros [|y b] [|z c]; cbn [bytes_cmp]; try discriminate; try reflexivity.
  destruct (bcmp x y) eqn:Exy; try discriminate.
  - apply bcmp_eq in Exy. subst y. destruct (bcmp x z); try discriminate; [apply IH|reflexivity].
  - intros _. destruct (bcmp y z) eqn:Eyz; try discriminate.
    + apply bcmp_eq in Eyz. subst z. rewrite Exy. reflexivity.
    + intros _. rewrite (bcmp_lt_trans x y z Exy Eyz). reflexivity.
Qed.

Lemma bytes_cmp_gt_lt a b : bytes_cmp a b = Gt <-> bytes_cmp b a = Lt.
Proof. rewrite (bytes_cmp_antisym a b). destruct (bytes_cmp a b); cbn; split; congruence. Qed.

(* ================================================================== 2. prefixes *)
Lemma prefix_of_iff : forall p k, prefix_of p k = true <-> exists r, k = p ++ r.
Proof.
  induction p as [|x p IH]; intros k; cbn [prefix_of].
  - split; [intros _; exists k; reflexivity|reflexivity].
  - destruct k as [|y k].
    + split; [discriminate|intros [r H]; discriminate].
    + destruct (bcmp x y) eqn:E.
      * apply bcmp_eq in E. subst y. rewrite IH. split; intros [r H]; exists r; [rewrite H; reflexivity|injection H; auto].
      * split; [discriminate|]. intros [r H]. injection H as H1 H2. subst. rewrite bcmp_refl in E. discriminate.
      * split; [discriminate|]. intros [r H]. injection H as H1 H2. subst. rewrite bcmp_refl in E. discriminate.
Qed.

Lemma prefix_of_app p r : prefix_of p (p ++ r) = true.
Proof. apply prefix_of_iff. exists r. reflexivity. Qed.

Lemma prefix_of_app_l a p k : prefix_of (a ++ p) (a ++ k) = prefix_of p k.
Proof. induction a as [|x a IH]; [reflexivity|]. cbn [app prefix_of]. rewrite bcmp_refl. exact IH. Qed.

(* position of a key relative to the block of keys that start with p: before it, inside it, after it *)
Fixpoint pclass (p k : bytes) : comparison :=
  match p, k with
  | [], _ => Eq
  | _ :: _, [] => Lt
  | x :: p', y :: k' => match bcmp y x with Eq => pclass p' k' | c => c end
  end.

Lemma pclass_eq p k : pclass p k = Eq <-> prefix_of p k = true.
Proof.
  revert k. induction p as [|x p IH]; intros k; cbn [pclass prefix_of]; [split; reflexivity|].
  destruct k as [|y k]; [split; discriminate|].
  rewrite (bcmp_antisym x y). destruct (bcmp x y); cbn [CompOpp]; [apply IH|split; discriminate|split; discriminate].
Qed.

(* a key below p is before the block; a key not below p is inside or after it *)
Lemma pclass_lt p k : pclass p k = Lt <-> bytes_cmp k p = Lt.
Proof.
  revert k. induction p as [|x p IH]; intros k; cbn [pclass].
  - destruct k; cbn [bytes_cmp]; split; discriminate.
  - destruct k as [|y k]; cbn [bytes_cmp]; [split; reflexivity|].
    destruct (bcmp y x); [apply IH|split; reflexivity|split; discriminate].
Qed.

Definition cle (c d : comparison) : Prop :=
  match c, d with
  | Lt, _ => True | Eq, Lt => False | Eq, _ => True | Gt, Gt => True | Gt, _ => False
  end.

(* the classification is monotone in the key: the block of keys with prefix p is contiguous in key order *)
Lemma pclass_mono : forall p k1 k2, bytes_cmp k1 k2 = Lt -> cle (pclass p k1) (pclass p k2).
Proof.
  induction p as [|x p IH]; intros k1 k2 H; cbn [pclass]; [exact I|].
  destruct k1 as [|y1 k1]; [exact I|]. destruct k2 as [|y2 k2]; [cbn in H; discriminate|].
  cbn [bytes_cmp] in H. destruct (bcmp y1 y2) eqn:E12; try discriminate.
  - apply bcmp_eq in E12. subst y2. destruct (bcmp y1 x); [apply IH; exact H|exact I|exact I].
  - destruct (bcmp y1 x) eqn:E1.
    + apply bcmp_eq in E1. subst x. rewrite (bcmp_antisym y1 y2), E12. cbn [CompOpp]. destruct (pclass p k1); exact I.
    + exact I.
    + assert (E2 : bcmp y2 x = Gt).
      { rewrite (bcmp_antisym x y2). assert (bcmp x y2 = Lt); [|rewrite H0; reflexivity].
        apply (bcmp_lt_trans x y1 y2); [|exact E12]. rewrite (bcmp_antisym y1 x), E1. reflexivity. }
      rewrite E2. exact I.
Qed.

(* ================================================================== 3. the ordered store *)
Definition klt (a b : bytes * bytes) : Prop := bytes_cmp (fst a) (fst b) = Lt.
Definition sorted (s : store) : Prop := StronglySorted klt s.

Lemma get_put : forall s k v k', get (put s k v) k' = if bytes_eqb k k' then Some v else get s k'.
Proof.
  induction s as [|[k0 v0] s IH]; intros k v k'; cbn [put get].
  - destruct (bytes_eqb_spec k k') as [->|N]; [rewrite bytes_cmp_refl; reflexivity|].
    destruct (bytes_cmp k' k) eqn:E; try reflexivity. apply bytes_cmp_eq in E. congruence.
  - destruct (bytes_cmp k k0) eqn:E0; cbn [get].
    + apply bytes_cmp_eq in E0. subst k0.
      destruct (bytes_eqb_spec k k') as [->|N]; [rewrite bytes_cmp_refl; reflexivity|].
      destruct (bytes_cmp k' k) eqn:E; try reflexivity. apply bytes_cmp_eq in E. congruence.
    + destruct (bytes_eqb_spec k k') as [->|N]; [rewrite bytes_cmp_refl; reflexivity|].
      destruct (bytes_cmp k' k) eqn:E; try reflexivity. apply bytes_cmp_eq in E. congruence.
    + rewrite IH. destruct (bytes_eqb_spec k k') as [->|N]; [rewrite E0; reflexivity|reflexivity].
Qed.

Lemma put_In : forall s k v e, In e (put s k v) -> e = (k, v) \/ In e s.
Proof.
  induction s as [|[k0 v0] s IH]; intros k v e; cbn [put].
  - intros [H|[]]; auto.
  - destruct (bytes_cmp k k0).
    + intros [H|H]; [auto|right; right; exact H].
    + intros [H|H]; [auto|right; exact H].
    + intros [H|H]; [right; left; exact H|]. destruct (IH _ _ _ H); [auto|right; right; assumption].
Qed.

Lemma sorted_put : forall s k v, sorted s -> sorted (put s k v).
Proof.
  unfold sorted. induction s as [|[k0 v0] s IH]; intros k v Hs; cbn [put].
  - constructor; constructor.
  - inversion Hs as [|? ? Hs' Hall]; subst. destruct (bytes_cmp k k0) eqn:E.
    + apply bytes_cmp_eq in E. subst k0. constructor; [exact Hs'|exact Hall].
    + constructor; [exact Hs|]. constructor; [exact E|].
      rewrite Forall_forall in *. intros e He. specialize (Hall e He). unfold klt in *. cbn [fst] in *.
      eapply bytes_cmp_lt_trans; eassumption.
    + constructor; [apply IH; exact Hs'|]. rewrite Forall_forall in *. intros e He.
      apply put_In in He as [->|He]; [|apply Hall; exact He]. unfold klt. cbn [fst]. apply bytes_cmp_gt_lt. exact E.
Qed.

Lemma sorted_get_In : forall s k v, sorted s -> (get s k = Some v <-> In (k, v) s).
Proof.
  unfold sorted. induction s as [|[k0 v0] s IH]; intros k v Hs; cbn [get In]; [split; [discriminate|intros []]|].
  inversion Hs as [|? ? Hs' Hall]; subst. destruct (bytes_cmp k k0) eqn:E.
  - apply bytes_cmp_eq in E. subst k0. split; [intros H; injection H as ->; left; reflexivity|].
    intros [H|H]; [injection H as ->; reflexivity|]. rewrite Forall_forall in Hall. specialize (Hall _ H).
    unfold klt in Hall. cbn [fst] in Hall. rewrite bytes_cmp_refl in Hall. discriminate.
  - rewrite (IH k v Hs'). split; [auto|]. intros [H|H]; [|exact H]. injection H as -> ->. rewrite bytes_cmp_refl in E. discriminate.
  - rewrite (IH k v Hs'). split; [auto|]. intros [H|H]; [|exact H]. injection H as -> ->. rewrite bytes_cmp_refl in E. discriminate.
Qed.

Lemma sorted_NoDup_keys s : sorted s -> NoDup (map fst s).
Proof.
  unfold sorted. induction 1 as [|[k v] s Hs IH Hall]; cbn [map]; constructor; [|exact IH].
  intros Hin. apply in_map_iff in Hin as (e & Ee & He). rewrite Forall_forall in Hall. specialize (Hall e He).
  unfold klt in Hall. cbn [fst] in *. subst k. rewrite bytes_cmp_refl in Hall. discriminate.
Qed.

(* --- Seek(p) ; ValidForPrefix(p) ; Next() on an ordered store = the items whose key starts with p, in key order *)
Definition has_prefix (p : bytes) (e : bytes * bytes) : bool := prefix_of p (fst e).

Lemma filter_none_after p : forall s, Forall (fun e => pclass p (fst e) = Gt) s -> filter (has_prefix p) s = [].
Proof.
  induction s as [|e s IH]; intros H; [reflexivity|]. inversion H as [|? ? He Hs]; subst. cbn [filter].
  unfold has_prefix at 1. destruct (prefix_of p (fst e)) eqn:E; [apply pclass_eq in E; congruence|apply IH; exact Hs].
Qed.

Lemma while_prefix_filter p : forall s, sorted s -> Forall (fun e => pclass p (fst e) <> Lt) s ->
  while_prefix p s = filter (has_prefix p) s.
Proof.
  unfold sorted. induction s as [|[k v] s IH]; intros Hs Hge; [reflexivity|].
  inversion Hs as [|? ? Hs' Hall]; subst. inversion Hge as [|? ? Hk Hge']; subst. cbn [while_prefix filter fst].
  unfold has_prefix at 1. cbn [fst]. destruct (prefix_of p k) eqn:E; [rewrite (IH Hs' Hge'); reflexivity|].
  symmetry. apply filter_none_after. rewrite Forall_forall in *. intros e He. specialize (Hall e He). unfold klt in Hall. cbn [fst] in *.
  pose proof (pclass_mono p k (fst e) Hall) as M. destruct (pclass p k) eqn:Ek.
  - apply pclass_eq in Ek. congruence.
  - congruence.
  - destruct (pclass p (fst e)); cbn in M; try contradiction. reflexivity.
Qed.

Lemma seek_spec p : forall s, sorted s ->
  Forall (fun e => pclass p (fst e) <> Lt) (seek p s) /\ sorted (seek p s) /\ filter (has_prefix p) (seek p s) = filter (has_prefix p) s.
Proof.
  unfold sorted. induction s as [|[k v] s IH]; intros Hs; cbn [seek]; [repeat split; constructor|].
  inversion Hs as [|? ? Hs' Hall]; subst. destruct (bytes_cmp k p) eqn:E.
  - split; [|split; [exact Hs|reflexivity]]. constructor.
    + cbn [fst]. rewrite pclass_lt. congruence.
    + rewrite Forall_forall in *. intros e He. specialize (Hall e He). unfold klt in Hall. cbn [fst] in Hall.
      rewrite pclass_lt. intros Hlt. pose proof (bytes_cmp_lt_trans _ _ _ Hall Hlt). congruence.
  - destruct (IH Hs') as (H1 & H2 & H3). split; [exact H1|]. split; [exact H2|]. rewrite H3. cbn [filter].
    unfold has_prefix at 2. cbn [fst]. destruct (prefix_of p k) eqn:Ep; [|reflexivity].
    apply pclass_eq in Ep. apply pclass_lt in E. congruence.
  - split; [|split; [exact Hs|reflexivity]]. constructor.
    + cbn [fst]. rewrite pclass_lt. congruence.
    + rewrite Forall_forall in *. intros e He. specialize (Hall e He). unfold klt in Hall. cbn [fst] in Hall.
      rewrite pclass_lt. intros Hlt. pose proof (bytes_cmp_lt_trans _ _ _ Hall Hlt). congruence.
Qed.

Theorem scan_filter p s : sorted s -> scan p s = filter (has_prefix p) s.
Proof.
  intros Hs. unfold scan. destruct (seek_spec p s Hs) as (H1 & H2 & H3). rewrite <- H3. apply while_prefix_filter; assumption.
Qed.

(* ================================================================== 4. hex, decimal, key format *)
Lemma hexb_length x : length (hexb x) = 2%nat.
Proof. reflexivity. Qed.
Lemma hexb_no_slash x : ~ In slash (hexb x).
Proof. destruct x; cbv; intros [H|[H|[]]]; discriminate. Qed.
Lemma unhex_hexb x r : unhex (hexb x ++ r) = match unhex r with Some r' => Some (x :: r') | None => None end.
Proof. destruct x; reflexivity. Qed.

Lemma hex_length a : length (hex a) = (2 * length a)%nat.
Proof. unfold hex. induction a as [|x a IH]; [reflexivity|]. cbn [flat_map]. rewrite app_length, IH, hexb_length. cbn [length]. lia. Qed.
Lemma hex_no_slash a : ~ In slash (hex a).
Proof.
  unfold hex. induction a as [|x a IH]; [intros []|]. cbn [flat_map]. intros H. apply in_app_or in H as [H|H]; [exact (hexb_no_slash x H)|exact (IH H)].
Qed.
Lemma unhex_hex a : unhex (hex a) = Some a.
Proof.
  induction a as [|x a IH]; [reflexivity|]. change (hex (x :: a)) with (hexb x ++ hex a). rewrite unhex_hexb, IH. reflexivity.
Qed.
Lemma hex_inj a b : hex a = hex b -> a = b.
Proof. intros E. pose proof (unhex_hex a) as Ha. rewrite E, unhex_hex in Ha. congruence. Qed.

Definition sgn : bytes := [x73; x69; x67; x6e; x65; x64; x2f].   (* "signed/" *)

(* the shapes the theorems below are proved for; these fail to compile when the source formats change *)
Lemma key_eq i : key i = sgn ++ dec (i_ec i) ++ [slash] ++ hex (i_ea i) ++ [slash] ++ dec (i_tc i) ++ [slash] ++ dec (i_seq i).
Proof. unfold key, render, db_key_fmt. cbn [flat_map render_frag]. rewrite app_nil_r. reflexivity. Qed.
Lemma gov_prefix_eq c a : gov_prefix c a = sgn ++ dec c ++ [slash] ++ hex a.
Proof. unfold gov_prefix, render, db_gov_prefix_fmt. cbn [flat_map render_frag i_ec i_ea]. rewrite app_nil_r. reflexivity. Qed.
Lemma gap_prefix_eq c a t : gap_prefix c a t = sgn ++ dec c ++ [slash] ++ hex a ++ [slash] ++ dec t ++ [slash].
Proof.
  unfold gap_prefix, emitter_prefix, render, db_emitter_prefix_fmt, db_gap_prefix_suffix. cbn [flat_map render_frag i_ec i_ea i_tc].
  rewrite app_nil_r. rewrite <- !app_assoc. reflexivity.
Qed.

(* identifiers as the Go types carry them: chain ids and sequence are unsigned, the address is a 32-byte array *)
Definition idwf (i : vid) : Prop := 0 <= i_ec i /\ length (i_ea i) = 32%nat /\ 0 <= i_tc i /\ 0 <= i_seq i.

Theorem key_inj i j : idwf i -> idwf j -> key i = key j -> i = j.
Proof.
  intros (Hc & _ & Ht & Hs) (Hc' & _ & Ht' & Hs') E. rewrite !key_eq in E. apply app_inv_head in E.
  cbn [app] in E.
  apply sep_split in E as [E1 E]; [|apply dec_no_slash; assumption|apply dec_no_slash; assumption].
  apply sep_split in E as [E2 E]; [|apply hex_no_slash|apply hex_no_slash].
  apply sep_split in E as [E3 E4]; [|apply dec_no_slash; assumption|apply dec_no_slash; assumption].
  apply dec_inj in E1; [|assumption|assumption]. apply hex_inj in E2. apply dec_inj in E3; [|assumption|assumption].
  apply dec_inj in E4; [|assumption|assumption]. destruct i as [c1 a1 t1 s1], j as [c2 a2 t2 s2]. cbn [i_ec i_ea i_tc i_seq] in *. subst. reflexivity.
Qed.

Theorem gov_prefix_iff c a i : 0 <= c -> length a = 32%nat -> idwf i ->
  (prefix_of (gov_prefix c a) (key i) = true <-> i_ec i = c /\ i_ea i = a).
Proof.
  intros Hc Ha (Hc' & Ha' & Ht' & Hs'). rewrite gov_prefix_eq, key_eq, prefix_of_app_l. split.
  - intros H. apply prefix_of_iff in H as [r E]. rewrite <- !app_assoc in E. cbn [app] in E.
    apply sep_split in E as [E1 E]; [|apply dec_no_slash; assumption|apply dec_no_slash; assumption].
    apply dec_inj in E1; [|assumption|assumption].
    apply app_inv_len in E as [E2 _]; [|rewrite !hex_length; lia]. apply hex_inj in E2. auto.
  - intros [-> ->]. apply prefix_of_iff. eexists. rewrite <- !app_assoc. reflexivity.
Qed.

Theorem gap_prefix_iff c a t i : 0 <= c -> length a = 32%nat -> 0 <= t -> idwf i ->
  (prefix_of (gap_prefix c a t) (key i) = true <-> i_ec i = c /\ i_ea i = a /\ i_tc i = t).
Proof.
  intros Hc Ha Ht (Hc' & Ha' & Ht' & Hs'). rewrite gap_prefix_eq, key_eq, prefix_of_app_l. split.
  - intros H. apply prefix_of_iff in H as [r E]. rewrite <- !app_assoc in E. cbn [app] in E.
    apply sep_split in E as [E1 E]; [|apply dec_no_slash; assumption|apply dec_no_slash; assumption].
    apply dec_inj in E1; [|assumption|assumption].
    apply sep_split in E as [E2 E]; [|apply hex_no_slash|apply hex_no_slash]. apply hex_inj in E2.
    apply sep_split in E as [E3 _]; [|apply dec_no_slash; assumption|apply dec_no_slash; assumption].
    apply dec_inj in E3; [|assumption|assumption]. auto.
  - intros (-> & -> & ->). apply prefix_of_iff. eexists. rewrite <- !app_assoc. reflexivity.
Qed.

(* the pre-repair prefix (no trailing separator) does NOT separate target chains: kept as a regression witness *)
Lemma emitter_prefix_alone_mixes_targets :
  let a := repeat x00 32 in
  prefix_of (emitter_prefix 4 a 2) (key {| i_ec := 4; i_ea := a; i_tc := 255; i_seq := 7 |}) = true.
Proof. vm_compute. reflexivity. Qed.

(* ================================================================== 5. histories of StoreSignedVAA *)
Definition signed (v : vaa) : bool := match sigs v with [] => false | _ => true end.
Definition id_eqb (i j : vid) : bool :=
  (i_ec i =? i_ec j) && bytes_eqb (i_ea i) (i_ea j) && (i_tc i =? i_tc j) && (i_seq i =? i_seq j).
(* the VAA a history leaves under identifier i: the last signed one stored with that identifier *)
Definition last_stored (vs : list vaa) (i : vid) : option vaa := find (fun v => signed v && id_eqb (id_of v) i) (rev vs).
Definition live (vs : list vaa) (v : vaa) : Prop := last_stored vs (id_of v) = Some v.
Definition item (v : vaa) : bytes * bytes := (key (id_of v), marshal v).

Lemma id_eqb_eq i j : id_eqb i j = true <-> i = j.
Proof.
  unfold id_eqb. rewrite !andb_true_iff, !Z.eqb_eq, bytes_eqb_eq. destruct i as [c1 a1 t1 s1], j as [c2 a2 t2 s2]. cbn [i_ec i_ea i_tc i_seq].
  split; [intros [[[-> ->] ->] ->]; reflexivity|intros H; injection H; auto].
Qed.
Lemma id_eqb_refl i : id_eqb i i = true.
Proof. apply id_eqb_eq. reflexivity. Qed.

Lemma wf_idwf v : wf v -> idwf (id_of v).
Proof. intros W. destruct W. unfold idwf, rng in *. cbn [id_of i_ec i_ea i_tc i_seq]. repeat split; try lia. Qed.

Lemma paycap_none : vaa_paycap = None.
Proof. reflexivity. Qed.
Lemma unmarshal_marshal v : wf v -> unmarshal (marshal v) = Ok v.
Proof. intros W. unfold unmarshal. rewrite paycap_none. apply unmarshal_marshal_nocap. exact W. Qed.

Lemma key_eqb i j : idwf i -> idwf j -> bytes_eqb (key i) (key j) = id_eqb i j.
Proof.
  intros Hi Hj. destruct (bytes_eqb_spec (key i) (key j)) as [E|N].
  - apply key_inj in E; [|assumption|assumption]. subst j. symmetry. apply id_eqb_refl.
  - destruct (id_eqb i j) eqn:E; [|reflexivity]. apply id_eqb_eq in E. subst j. congruence.
Qed.

Lemma store_all_snoc s vs v : store_all s (vs ++ [v]) = store_step (store_all s vs) v.
Proof. unfold store_all. rewrite fold_left_app. reflexivity. Qed.

Lemma last_stored_snoc vs v i :
  last_stored (vs ++ [v]) i = if signed v && id_eqb (id_of v) i then Some v else last_stored vs i.
Proof. unfold last_stored. rewrite rev_app_distr. reflexivity. Qed.

Lemma last_stored_some vs i v : last_stored vs i = Some v -> In v vs /\ signed v = true /\ id_of v = i.
Proof.
  unfold last_stored. intros H. apply find_some in H as [H1 H2]. apply in_rev in H1. apply andb_true_iff in H2 as [H2 H3].
  apply id_eqb_eq in H3. auto.
Qed.

Lemma last_stored_exists vs v : In v vs -> signed v = true -> exists v', last_stored vs (id_of v) = Some v'.
Proof.
  intros Hin Hs. unfold last_stored. destruct (find _ (rev vs)) as [v'|] eqn:E; [exists v'; reflexivity|].
  exfalso. pose proof (find_none _ _ E v (proj1 (in_rev _ _) Hin)) as H. cbn beta in H. rewrite Hs, id_eqb_refl in H. discriminate.
Qed.

Lemma live_of_last vs i v : last_stored vs i = Some v -> live vs v.
Proof. intros H. unfold live. destruct (last_stored_some _ _ _ H) as (_ & _ & E). rewrite E. exact H. Qed.

(* what a history from the empty store leaves behind *)
Record repr (s : store) (vs : list vaa) : Prop := {
  r_sorted : sorted s;
  r_keys : forall e, In e s -> exists v, In v vs /\ e = item v;
  r_get : forall i, idwf i -> get s (key i) = match last_stored vs i with Some v => Some (marshal v) | None => None end }.

Lemma repr_store_all vs : Forall wf vs -> repr (store_all [] vs) vs.
Proof.
  induction vs as [|v vs IH] using rev_ind; intros W.
  - split; [constructor|intros e []|intros i _; reflexivity].
  - apply Forall_app in W as [W Wv]. inversion Wv as [|? ? Wv' _]; subst. specialize (IH W). destruct IH as [S K G].
    rewrite store_all_snoc. unfold store_step, store_vaa. unfold signed in *.
    split.
    + destruct (sigs v); [exact S|apply sorted_put; exact S].
    + intros e He. destruct (sigs v) eqn:Es.
      * destruct (K e He) as (v' & Hv' & Ee). exists v'. split; [apply in_or_app; left; exact Hv'|exact Ee].
      * apply put_In in He as [->|He]; [exists v; split; [apply in_or_app; right; left; reflexivity|reflexivity]|].
        destruct (K e He) as (v' & Hv' & Ee). exists v'. split; [apply in_or_app; left; exact Hv'|exact Ee].
    + intros i Hi. rewrite last_stored_snoc. unfold signed. destruct (sigs v) eqn:Es; cbn [andb]; [apply G; exact Hi|].
      rewrite get_put, key_eqb; [|apply wf_idwf; exact Wv'|exact Hi]. destruct (id_eqb (id_of v) i); [reflexivity|apply G; exact Hi].
Qed.

Lemma repr_entry_live s vs : repr s vs -> Forall wf vs -> forall e, In e s -> exists v, live vs v /\ wf v /\ e = item v.
Proof.
  intros [S K G] W e He. destruct (K e He) as (v & Hv & ->). rewrite Forall_forall in W. pose proof (W v Hv) as Wv.
  pose proof (proj2 (sorted_get_In s _ _ S) He) as Hg. rewrite (G _ (wf_idwf v Wv)) in Hg.
  destruct (last_stored vs (id_of v)) as [v'|] eqn:E; [|discriminate]. assert (Hm : marshal v' = marshal v) by congruence.
  destruct (last_stored_some _ _ _ E) as (Hin' & _ & Eid). exists v'. split; [apply (live_of_last _ _ _ E)|]. split; [apply W; exact Hin'|].
  unfold item. rewrite Eid, Hm. reflexivity.
Qed.

Lemma repr_live_entry s vs : repr s vs -> Forall wf vs -> forall v, live vs v -> In (item v) s.
Proof.
  intros [S K G] W v L. destruct (last_stored_some _ _ _ L) as (Hin & _ & _). rewrite Forall_forall in W.
  apply (sorted_get_In s _ _ S). rewrite (G _ (wf_idwf v (W v Hin))). unfold live in L. rewrite L. reflexivity.
Qed.

(* local lookup: exactly the last VAA stored under that identifier, byte for byte; nothing for any other identifier *)
Theorem lookup_history vs i : Forall wf vs -> idwf i ->
  get_signed_vaa_bytes (store_all [] vs) i = match last_stored vs i with Some v => Found (marshal v) | None => NotFound end.
Proof.
  intros W Hi. unfold get_signed_vaa_bytes. rewrite (r_get _ _ (repr_store_all vs W) i Hi). destruct (last_stored vs i); reflexivity.
Qed.

(* one step: a successful store changes the answer for its own identifier only *)
Theorem lookup_after_store s v i : wf v -> idwf i -> signed v = true ->
  exists s', store_vaa s v = Stored s' /\
  get_signed_vaa_bytes s' i = if id_eqb (id_of v) i then Found (marshal v) else get_signed_vaa_bytes s i.
Proof.
  intros W Hi Hs. unfold store_vaa, signed in *. destruct (sigs v); [discriminate|]. eexists. split; [reflexivity|].
  unfold get_signed_vaa_bytes. rewrite get_put, key_eqb; [|apply wf_idwf; exact W|exact Hi]. destruct (id_eqb (id_of v) i); reflexivity.
Qed.

(* ================================================================== 6. the gap scan (FindEmitterSequenceGap) *)
Definition in_stream (c : Z) (a : bytes) (t : Z) (v : vaa) : bool := (echain v =? c) && bytes_eqb (eaddr v) a && (tchain v =? t).
(* the sequence numbers a history stored in one (emitter chain, emitter address, target chain) stream *)
Definition stream_seqs (vs : list vaa) (c : Z) (a : bytes) (t : Z) : list Z :=
  map seq (filter (fun v => signed v && in_stream c a t v) vs).
Definition present (vs : list vaa) (c : Z) (a : bytes) (t : Z) (q : Z) : Prop :=
  exists v, In v vs /\ signed v = true /\ echain v = c /\ eaddr v = a /\ tchain v = t /\ seq v = q.

Lemma in_stream_iff c a t v : in_stream c a t v = true <-> echain v = c /\ eaddr v = a /\ tchain v = t.
Proof. unfold in_stream. rewrite !andb_true_iff, !Z.eqb_eq, bytes_eqb_eq. tauto. Qed.

Lemma stream_seqs_In vs c a t q : In q (stream_seqs vs c a t) <-> present vs c a t q.
Proof.
  unfold stream_seqs, present. rewrite in_map_iff. split.
  - intros (v & E & H). apply filter_In in H as [H1 H2]. apply andb_true_iff in H2 as [H2 H3]. apply in_stream_iff in H3 as (? & ? & ?).
    exists v. auto 10.
  - intros (v & H1 & H2 & H3 & H4 & H5 & H6). exists v. split; [exact H6|]. apply filter_In. split; [exact H1|].
    rewrite H2. cbn [andb]. apply in_stream_iff. auto.
Qed.

Definition vseq (b : bytes) : Z := match unmarshal b with Ok w => seq w | Err _ => 0 end.

Lemma gap_seqs_map : forall items, (forall e, In e items -> exists w, unmarshal (snd e) = Ok w) ->
  gap_seqs items = Some (map (fun e => vseq (snd e)) items).
Proof.
  induction items as [|[k b] items IH]; intros H; [reflexivity|]. cbn [gap_seqs map snd].
  destruct (H (k, b) (or_introl eq_refl)) as [w Ew]. cbn [snd] in Ew. unfold vseq at 1. rewrite Ew.
  rewrite IH; [reflexivity|]. intros e He. apply H. right. exact He.
Qed.

Lemma zmem_In i l : zmem i l = true <-> In i l.
Proof.
  unfold zmem. rewrite existsb_exists. split; [intros (x & Hx & E); apply Z.eqb_eq in E; subst; exact Hx|].
  intros H. exists i. split; [exact H|apply Z.eqb_refl].
Qed.

Lemma zrange_In : forall n from i, In i (zrange n from) <-> from <= i < from + Z.of_nat n.
Proof.
  induction n as [|n IH]; intros from i; cbn [zrange In]; [lia|]. rewrite IH. lia.
Qed.

Lemma zrange_sorted : forall n from, StronglySorted Z.lt (zrange n from).
Proof.
  induction n as [|n IH]; intros from; cbn [zrange]; constructor; [apply IH|].
  rewrite Forall_forall. intros i Hi. apply zrange_In in Hi. lia.
Qed.

Lemma StronglySorted_filter {A} (R : A -> A -> Prop) (f : A -> bool) l : StronglySorted R l -> StronglySorted R (filter f l).
Proof.
  induction 1 as [|x l Hs IH Hall]; cbn [filter]; [constructor|]. destruct (f x); [|exact IH].
  constructor; [exact IH|]. rewrite Forall_forall in *. intros y Hy. apply filter_In in Hy as [Hy _]. apply Hall. exact Hy.
Qed.

Lemma fold_max_spec : forall l a, let m := fold_left Z.max l a in a <= m /\ (forall q, In q l -> q <= m) /\ (m = a \/ In m l).
Proof.
  induction l as [|x l IH]; intros a; cbn [fold_left]; [cbn; repeat split; [lia|intros q []|left; reflexivity]|].
  destruct (IH (Z.max a x)) as (H1 & H2 & H3). cbn zeta. split; [lia|]. split.
  - intros q [<-|Hq]; [lia|apply H2; exact Hq].
  - destruct H3 as [H3|H3]; [|right; right; exact H3]. rewrite H3. destruct (Z.max_spec a x) as [[_ E]|[_ E]]; rewrite E; [right; left; reflexivity|left; reflexivity].
Qed.

Lemma max_seq_spec l : 0 <= max_seq l /\ (forall q, In q l -> q <= max_seq l) /\ (max_seq l = 0 \/ In (max_seq l) l).
Proof. apply (fold_max_spec l 0). Qed.

Lemma max_seq_ext l l' : (forall q, In q l <-> In q l') -> max_seq l = max_seq l'.
Proof.
  intros H. destruct (max_seq_spec l) as (A1 & A2 & A3). destruct (max_seq_spec l') as (B1 & B2 & B3).
  assert (max_seq l <= max_seq l') by (destruct A3 as [E|Hin]; [lia|apply B2, H; exact Hin]).
  assert (max_seq l' <= max_seq l) by (destruct B3 as [E|Hin]; [lia|apply A2, H; exact Hin]). lia.
Qed.

(* the answer depends only on the SET of sequence numbers found *)
Lemma gap_of_ext l l' : (forall q, In q l <-> In q l') -> gap_of l = gap_of l'.
Proof.
  intros H. unfold gap_of. rewrite (max_seq_ext l l' H). destruct (max_seq l' =? 2 ^ 64 - 1); [reflexivity|]. f_equal.
  apply filter_ext. intros i. f_equal. apply eq_true_iff_eq. rewrite !zmem_In. apply H.
Qed.

Definition missing (l : list Z) : list Z := filter (fun i => negb (zmem i l)) (zrange (Z.to_nat (max_seq l - 0 + 1)) 0).

Lemma gap_of_ok l : max_seq l <> 2 ^ 64 - 1 -> gap_of l = GapOk (missing l) 0 (max_seq l).
Proof. intros H. unfold gap_of. destruct (Z.eqb_spec (max_seq l) (2 ^ 64 - 1)); [contradiction|reflexivity]. Qed.
Lemma gap_of_loop l : max_seq l = 2 ^ 64 - 1 -> gap_of l = GapLoop.
Proof. intros H. unfold gap_of. rewrite H, Z.eqb_refl. reflexivity. Qed.

Lemma missing_In l i : In i (missing l) <-> 0 <= i <= max_seq l /\ ~ In i l.
Proof.
  unfold missing. rewrite filter_In, zrange_In, negb_true_iff. destruct (max_seq_spec l) as (H0 & _ & _).
  rewrite Z2Nat.id by lia. rewrite <- zmem_In. destruct (zmem i l); split; intros [A B]; split; try lia; try congruence; try reflexivity.
Qed.

Lemma missing_sorted l : StronglySorted Z.lt (missing l).
Proof. unfold missing. apply StronglySorted_filter. apply zrange_sorted. Qed.

(* stream isolation: on the store a history leaves, the scan for one stream computes a function of that stream's
   sequence numbers alone *)
Theorem find_gap_stream vs c a t : Forall wf vs -> 0 <= c -> length a = 32%nat -> 0 <= t ->
  find_gap (store_all [] vs) c a t = gap_of (stream_seqs vs c a t).
Proof.
  intros W Hc Ha Ht. pose proof (repr_store_all vs W) as R. set (s := store_all [] vs) in *.
  unfold find_gap. rewrite (scan_filter _ s (r_sorted _ _ R)). set (p := gap_prefix c a t).
  assert (Hit : forall e, In e (filter (has_prefix p) s) -> exists v, live vs v /\ wf v /\ e = item v /\ in_stream c a t v = true).
  { intros e He. apply filter_In in He as [He Hp]. destruct (repr_entry_live s vs R W e He) as (v & Lv & Wv & ->).
    exists v. split; [exact Lv|]. split; [exact Wv|]. split; [reflexivity|]. unfold has_prefix, item in Hp. cbn [fst] in Hp.
    apply (gap_prefix_iff c a t (id_of v) Hc Ha Ht (wf_idwf v Wv)) in Hp. apply in_stream_iff. exact Hp. }
  rewrite gap_seqs_map.
  2:{ intros e He. destruct (Hit e He) as (v & _ & Wv & -> & _). exists v. apply unmarshal_marshal. exact Wv. }
  apply gap_of_ext. intros q. rewrite stream_seqs_In, in_map_iff. split.
  - intros (e & Eq & He). destruct (Hit e He) as (v & Lv & Wv & -> & Hs). unfold item, vseq in Eq. cbn [snd] in Eq.
    rewrite (unmarshal_marshal v Wv) in Eq. destruct (last_stored_some _ _ _ Lv) as (Hin & Hsg & _).
    apply in_stream_iff in Hs as (? & ? & ?). exists v. auto 10.
  - intros (v & Hin & Hsg & E1 & E2 & E3 & E4). destruct (last_stored_exists vs v Hin Hsg) as [v' Ev'].
    destruct (last_stored_some _ _ _ Ev') as (Hin' & _ & Eid). rewrite Forall_forall in W. pose proof (W v' Hin') as Wv'.
    exists (item v'). split.
    + unfold item, vseq. cbn [snd]. rewrite (unmarshal_marshal v' Wv'). change (seq v') with (i_seq (id_of v')). rewrite Eid. exact E4.
    + apply filter_In. split; [apply (repr_live_entry s vs R); [apply Forall_forall; exact W|exact (live_of_last _ _ _ Ev')]|].
      unfold has_prefix, item. cbn [fst]. apply (gap_prefix_iff c a t (id_of v') Hc Ha Ht (wf_idwf v' Wv')). rewrite Eid.
      cbn [id_of i_ec i_ea i_tc]. auto.
Qed.

Theorem gap_exact vs c a t : Forall wf vs -> 0 <= c -> length a = 32%nat -> 0 <= t -> ~ present vs c a t (2 ^ 64 - 1) ->
  exists resp last, find_gap (store_all [] vs) c a t = GapOk resp 0 last /\
    (forall i, In i resp <-> 0 <= i <= last /\ ~ present vs c a t i) /\ StronglySorted Z.lt resp /\
    (forall q, present vs c a t q -> q <= last) /\ (last = 0 \/ present vs c a t last).
Proof.
  intros W Hc Ha Ht Hno. rewrite (find_gap_stream vs c a t W Hc Ha Ht). set (l := stream_seqs vs c a t).
  destruct (max_seq_spec l) as (M0 & M1 & M2).
  assert (Hne : max_seq l <> 2 ^ 64 - 1).
  { intros E. destruct M2 as [M2|M2]; [rewrite E in M2; discriminate|]. apply stream_seqs_In in M2. rewrite E in M2. contradiction. }
  exists (missing l), (max_seq l). split; [apply gap_of_ok; exact Hne|]. split; [|split; [apply missing_sorted|split]].
  - intros i. rewrite missing_In. unfold l. rewrite stream_seqs_In. reflexivity.
  - intros q Hq. apply M1. apply stream_seqs_In. exact Hq.
  - destruct M2 as [M2|M2]; [left; exact M2|right; apply stream_seqs_In; exact M2].
Qed.

(* the excluded input: with sequence 2^64-1 in the stream the Go loop `for i := firstSeq; i <= lastSeq; i++` cannot end *)
Theorem gap_loop vs c a t : Forall wf vs -> 0 <= c -> length a = 32%nat -> 0 <= t -> present vs c a t (2 ^ 64 - 1) ->
  find_gap (store_all [] vs) c a t = GapLoop.
Proof.
  intros W Hc Ha Ht Hp. rewrite (find_gap_stream vs c a t W Hc Ha Ht). set (l := stream_seqs vs c a t).
  destruct (max_seq_spec l) as (M0 & M1 & M2). apply gap_of_loop.
  assert (2 ^ 64 - 1 <= max_seq l) by (apply M1, stream_seqs_In; exact Hp).
  assert (max_seq l <= 2 ^ 64 - 1); [|lia].
  destruct M2 as [M2|M2]; [rewrite M2; lia|]. apply stream_seqs_In in M2 as (v & Hin & _ & _ & _ & _ & E).
  rewrite Forall_forall in W. destruct (W v Hin). unfold rng in *. rewrite <- E. change (256 ^ Z.of_nat 8) with (2 ^ 64) in *. lia.
Qed.

(* ... hence two histories that agree on one stream get the same answer for it, whatever else they store *)
Corollary gap_isolation vs vs' c a t : Forall wf vs -> Forall wf vs' -> 0 <= c -> length a = 32%nat -> 0 <= t ->
  (forall q, present vs c a t q <-> present vs' c a t q) ->
  find_gap (store_all [] vs) c a t = find_gap (store_all [] vs') c a t.
Proof.
  intros W W' Hc Ha Ht H. rewrite !find_gap_stream by assumption. apply gap_of_ext. intros q. rewrite !stream_seqs_In. apply H.
Qed.

(* ================================================================== 7. governance batch (GetGovernanceVAABatch) *)
Lemma is_slash_iff x : is_slash x = true <-> x = slash.
Proof. unfold is_slash. destruct (bcmp x slash) eqn:E; [apply bcmp_eq in E; split; auto| |]; (split; [discriminate|]; intros ->; rewrite bcmp_refl in E; discriminate). Qed.

Lemma last_index_no_slash : forall b i acc, ~ In slash b -> last_index_from b i acc = acc.
Proof.
  induction b as [|x b IH]; intros i acc H; [reflexivity|]. cbn [last_index_from].
  destruct (is_slash x) eqn:E; [apply is_slash_iff in E; subst x; exfalso; apply H; left; reflexivity|].
  apply IH. intros Hin. apply H. right. exact Hin.
Qed.

Lemma last_index_app : forall a l i acc, last_index_from (a ++ l) i acc = last_index_from l (length a + i) (last_index_from a i acc).
Proof.
  induction a as [|x a IH]; intros l i acc; [reflexivity|]. cbn [app last_index_from length]. rewrite IH. f_equal. lia.
Qed.

Lemma last_slash_split a b : ~ In slash b -> last_slash (a ++ slash :: b) = Some (length a).
Proof.
  intros H. unfold last_slash. rewrite last_index_app. cbn [last_index_from].
  replace (is_slash slash) with true by (symmetry; apply is_slash_iff; reflexivity).
  rewrite last_index_no_slash by exact H. f_equal. lia.
Qed.

Lemma skipn_split {A} (a : list A) x b : skipn (S (length a)) (a ++ x :: b) = b.
Proof. induction a as [|y a IH]; [reflexivity|exact IH]. Qed.
Lemma firstn_split {A} (a : list A) x b : firstn (length a) (a ++ x :: b) = a.
Proof. induction a as [|y a IH]; [reflexivity|]. cbn [length app firstn]. rewrite IH. reflexivity. Qed.

Lemma parse_digits_map : forall ds acc, Forall (fun d => 0 <= d < 10) ds ->
  parse_digits (map (fun d => byte_of_Z (48 + d)) ds) acc = Some (undigits_acc 10 ds acc).
Proof.
  induction ds as [|d ds IH]; intros acc H; [reflexivity|]. inversion H as [|? ? Hd Hds]; subst. cbn [map parse_digits undigits_acc].
  rewrite Z_of_byte_of_Z, Z.mod_small by lia. replace (48 + d - 48) with d by lia.
  destruct (Z.leb_spec 0 d); [|lia]. destruct (Z.ltb_spec d 10); [|lia]. cbn [andb]. apply IH. exact Hds.
Qed.

Lemma parse_uint_dec bits n : 0 <= n < 2 ^ bits -> parse_uint bits (dec n) = Some n.
Proof.
  intros [H0 H1]. destruct (to_digits_spec 10 ltac:(lia) n H0) as (Hu & Hf & d & t & Ed & _).
  unfold parse_uint, dec. rewrite (parse_digits_map _ 0 Hf). fold (undigits 10 (to_digits 10 n)). rewrite Hu.
  rewrite Ed. cbn [map]. destruct (Z.ltb_spec n (2 ^ bits)); [reflexivity|lia].
Qed.

Lemma key_split i :
  key i = ((sgn ++ dec (i_ec i) ++ [slash] ++ hex (i_ea i)) ++ slash :: dec (i_tc i)) ++ slash :: dec (i_seq i).
Proof. rewrite key_eq. rewrite <- !app_assoc. reflexivity. Qed.

Definition entry (v : vaa) : goventry := {| g_tc := tchain v; g_seq := seq v; g_bytes := marshal v |}.

(* the loop body recovers sequence and target chain from the key text *)
Lemma gov_item_key seqs i b : idwf i -> i_tc i < 2 ^ 16 -> i_seq i < 2 ^ 64 ->
  gov_item seqs (key i) b =
  Some (if zmem (i_seq i) seqs then Some {| g_tc := i_tc i; g_seq := i_seq i; g_bytes := b |} else None).
Proof.
  intros (Hc & Ha & Ht & Hs) Ht' Hs'. unfold gov_item. rewrite key_split.
  rewrite last_slash_split by (apply dec_no_slash; exact Hs). rewrite skipn_split, parse_uint_dec by (unfold db_gov_seq_bits; lia).
  destruct (zmem (i_seq i) seqs); cbn [negb]; [|reflexivity].
  rewrite firstn_split. rewrite last_slash_split by (apply dec_no_slash; exact Ht). rewrite skipn_split, parse_uint_dec by (unfold db_gov_tc_bits; lia).
  reflexivity.
Qed.

Lemma gov_loop_items seqs : forall L, Forall wf L ->
  gov_loop seqs (map item L) = Some (map entry (filter (fun v => zmem (seq v) seqs) L)).
Proof.
  induction L as [|v L IH]; intros W; [reflexivity|]. inversion W as [|? ? Wv WL]; subst. cbn [map gov_loop filter]. unfold item at 1.
  rewrite gov_item_key.
  2:{ apply wf_idwf. exact Wv. }
  2:{ destruct Wv. unfold rng in *. cbn [id_of i_tc]. change (256 ^ Z.of_nat 2) with (2 ^ 16) in *. lia. }
  2:{ destruct Wv. unfold rng in *. cbn [id_of i_seq]. change (256 ^ Z.of_nat 8) with (2 ^ 64) in *. lia. }
  rewrite (IH WL). cbn [id_of i_seq i_tc]. destruct (zmem (seq v) seqs); reflexivity.
Qed.

Lemma items_list (P : vaa -> Prop) : forall l : store, (forall e, In e l -> exists v, P v /\ e = item v) ->
  exists L, l = map item L /\ Forall P L.
Proof.
  induction l as [|e l IH]; intros H; [exists []; split; [reflexivity|constructor]|].
  destruct (H e (or_introl eq_refl)) as (v & Pv & ->). destruct IH as (L & -> & HL); [intros e He; apply H; right; exact He|].
  exists (v :: L). split; [reflexivity|constructor; assumption].
Qed.

Lemma NoDup_map_filter {A B} (g : A -> B) (f : A -> bool) : forall l, NoDup (map g l) -> NoDup (map g (filter f l)).
Proof.
  induction l as [|x l IH]; intros H; [constructor|]. cbn [map] in H. inversion H as [|? ? Hn Hl]; subst. cbn [filter].
  destruct (f x); [|apply IH; exact Hl]. cbn [map]. constructor; [|apply IH; exact Hl].
  intros Hin. apply Hn. apply in_map_iff in Hin as (y & Ey & Hy). apply filter_In in Hy as [Hy _]. apply in_map_iff. exists y. auto.
Qed.

Lemma live_same_id vs v v' : live vs v -> live vs v' -> id_of v = id_of v' -> v = v'.
Proof. unfold live. intros L L' E. rewrite E in L. congruence. Qed.

(* the batch is exactly: the VAAs the history left under the governance emitter whose sequence is requested, each once,
   each with its own target chain, sequence and bytes *)
Theorem gov_batch_exact vs c a seqs : Forall wf vs -> 0 <= c -> length a = 32%nat ->
  exists L, gov_batch (store_all [] vs) c a seqs = GovOk (map entry L) /\ NoDup (map id_of L) /\
    forall v, In v L <-> live vs v /\ echain v = c /\ eaddr v = a /\ In (seq v) seqs.
Proof.
  intros W Hc Ha. pose proof (repr_store_all vs W) as R. set (s := store_all [] vs) in *.
  unfold gov_batch. rewrite (scan_filter _ s (r_sorted _ _ R)). set (p := gov_prefix c a).
  set (P := fun v => live vs v /\ wf v /\ echain v = c /\ eaddr v = a).
  destruct (items_list P (filter (has_prefix p) s)) as (L0 & EL0 & HL0).
  { intros e He. apply filter_In in He as [He Hp]. destruct (repr_entry_live s vs R W e He) as (v & Lv & Wv & ->).
    exists v. split; [|reflexivity]. unfold has_prefix, item in Hp. cbn [fst] in Hp.
    apply (gov_prefix_iff c a (id_of v) Hc Ha (wf_idwf v Wv)) in Hp as [E1 E2]. unfold P. auto. }
  rewrite EL0. rewrite gov_loop_items.
  2:{ rewrite Forall_forall in *. intros v Hv. apply (HL0 v Hv). }
  exists (filter (fun v => zmem (seq v) seqs) L0). split; [reflexivity|]. split.
  - apply NoDup_map_filter. apply (NoDup_map_inv key). rewrite map_map.
    replace (map (fun x => key (id_of x)) L0) with (map fst (map item L0)) by (rewrite map_map; reflexivity).
    rewrite <- EL0. apply sorted_NoDup_keys. unfold sorted. apply StronglySorted_filter. exact (r_sorted _ _ R).
  - intros v. rewrite filter_In, zmem_In. rewrite Forall_forall in HL0. split.
    + intros [Hin Hq]. destruct (HL0 v Hin) as (Lv & _ & E1 & E2). auto.
    + intros (Lv & E1 & E2 & Hq). split; [|exact Hq].
      destruct (last_stored_some _ _ _ Lv) as (Hin & _ & _). rewrite Forall_forall in W. pose proof (W v Hin) as Wv.
      assert (Hi : In (item v) (filter (has_prefix p) s)).
      { apply filter_In. split; [apply (repr_live_entry s vs R); [apply Forall_forall; exact W|exact Lv]|].
        unfold has_prefix, item. cbn [fst]. apply (gov_prefix_iff c a (id_of v) Hc Ha (wf_idwf v Wv)). auto. }
      rewrite EL0 in Hi. apply in_map_iff in Hi as (v0 & E0 & Hv0). destruct (HL0 v0 Hv0) as (Lv0 & Wv0 & _ & _).
      assert (id_of v0 = id_of v).
      { apply key_inj; [apply wf_idwf; exact Wv0|apply wf_idwf; exact Wv|]. unfold item in E0. congruence. }
      rewrite <- (live_same_id vs v0 v Lv0 Lv H). exact Hv0.
Qed.

(* ================================================================== 8. RPC layer and FindMissingMessages *)
Lemma decode_emitter_hex a : length a = 32%nat -> decode_emitter (hex a) = Some a.
Proof. intros Ha. unfold decode_emitter. rewrite unhex_hex, Ha. reflexivity. Qed.

Lemma chain16_small x : 0 <= x < 65536 -> chain16 x = x.
Proof. intros H. unfold chain16. apply Z.mod_small. exact H. Qed.

Lemma copy32_id a : length a = 32%nat -> copy32 a = a.
Proof. intros Ha. unfold copy32. rewrite <- Ha at 1. rewrite firstn_app, firstn_all, Nat.sub_diag. cbn [firstn]. apply app_nil_r. Qed.

Theorem rpc_get_exact s ec a tc sq : length a = 32%nat -> 0 <= ec < 65536 -> 0 <= tc < 65536 ->
  rpc_get_signed_vaa s ec (hex a) tc sq =
  match get_signed_vaa_bytes s {| i_ec := ec; i_ea := a; i_tc := tc; i_seq := sq |} with Found b => ROk b | NotFound => RErr RNotFound end.
Proof.
  intros Ha Hc Ht. unfold rpc_get_signed_vaa, rpc_id. rewrite (decode_emitter_hex a Ha), !chain16_small by assumption. reflexivity.
Qed.

Theorem rpc_get_history vs ec a tc sq : Forall wf vs -> length a = 32%nat -> 0 <= ec < 65536 -> 0 <= tc < 65536 -> 0 <= sq ->
  rpc_get_signed_vaa (store_all [] vs) ec (hex a) tc sq =
  match last_stored vs {| i_ec := ec; i_ea := a; i_tc := tc; i_seq := sq |} with Some v => ROk (marshal v) | None => RErr RNotFound end.
Proof.
  intros W Ha Hc Ht Hs. rewrite rpc_get_exact by assumption. rewrite lookup_history; [|exact W|unfold idwf; cbn; repeat split; lia].
  destruct (last_stored vs _); reflexivity.
Qed.

Lemma batch_lookup_In s ec a tc seqs q b :
  In (q, b) (batch_lookup s ec a tc seqs) <-> In q seqs /\ get_signed_vaa_bytes s (rpc_id ec a tc q) = Found b.
Proof.
  unfold batch_lookup. rewrite in_flat_map. split.
  - intros (q' & Hq' & Hin). destruct (get_signed_vaa_bytes s (rpc_id ec a tc q')) as [b'|] eqn:E; [|destruct Hin].
    destruct Hin as [Hin|[]]. injection Hin as -> ->. auto.
  - intros [Hq E]. exists q. split; [exact Hq|]. rewrite E. left. reflexivity.
Qed.

Theorem rpc_batch_exact s ec a tc seqs : length a = 32%nat -> 0 <= ec < 65536 -> 0 <= tc < 65536 ->
  Z.of_nat (length seqs) <= rpc_max_batch ->
  exists l, rpc_nongov_batch s ec (hex a) tc seqs = ROk l /\
    forall q b, In (q, b) l <-> In q seqs /\ get_signed_vaa_bytes s {| i_ec := ec; i_ea := a; i_tc := tc; i_seq := q |} = Found b.
Proof.
  intros Ha Hc Ht Hn. unfold rpc_nongov_batch. destruct (Z.ltb_spec rpc_max_batch (Z.of_nat (length seqs))); [lia|].
  rewrite (decode_emitter_hex a Ha). eexists. split; [reflexivity|]. intros q b. rewrite batch_lookup_In. unfold rpc_id.
  rewrite !chain16_small by assumption. reflexivity.
Qed.

Theorem rpc_gov_exact s c a seqs : Z.of_nat (length seqs) <= rpc_max_batch ->
  rpc_gov_batch s c a seqs = match gov_batch s c a seqs with GovOk l => ROk l | GovErr => RErr RInternal end.
Proof. intros Hn. unfold rpc_gov_batch. destruct (Z.ltb_spec rpc_max_batch (Z.of_nat (length seqs))); [lia|reflexivity]. Qed.

Theorem rpc_oversize_batch s c a ec ahex tc seqs : rpc_max_batch < Z.of_nat (length seqs) ->
  rpc_gov_batch s c a seqs = RErr RInvalidArgument /\ rpc_nongov_batch s ec ahex tc seqs = RErr RInvalidArgument.
Proof.
  intros Hn. unfold rpc_gov_batch, rpc_nongov_batch. destruct (Z.ltb_spec rpc_max_batch (Z.of_nat (length seqs))); [split; reflexivity|lia].
Qed.

(* the strings FindMissingMessages reports are the id texts of the requested stream: key = "signed/" ++ that text *)
Lemma key_msg_id ec a tc q : key {| i_ec := ec; i_ea := a; i_tc := tc; i_seq := q |} = sgn ++ msg_id_prefix ec a tc ++ dec q.
Proof. rewrite key_eq. unfold msg_id_prefix. cbn [i_ec i_ea i_tc i_seq]. rewrite <- !app_assoc. reflexivity. Qed.

Theorem find_missing_exact s ec a tc : length a = 32%nat -> 0 <= ec < 65536 -> 0 <= tc < 65536 ->
  find_missing s ec (hex a) tc =
  match find_gap s ec a tc with
  | GapOk ids f l => MissOk (map (fun q => msg_id_prefix ec a tc ++ dec q) ids) f l
  | GapErr => MissErr RInternal
  | GapLoop => MissLoop
  end.
Proof.
  intros Ha Hc Ht. unfold find_missing. rewrite unhex_hex, (copy32_id a Ha), !chain16_small by assumption. reflexivity.
Qed.

(* boolean well-formedness implies the propositional one (used by the examples) *)
Lemma rngb_rng n x : rngb n x = true -> rng n x.
Proof. unfold rngb, rng. rewrite andb_true_iff, Z.leb_le, Z.ltb_lt. auto. Qed.
Lemma wfb_wf v : wfb v = true -> wf v.
Proof.
  unfold wfb. rewrite !andb_true_iff. intros [[[[[[[[[[[[H1 H2] H3] H4] H5] H6] H7] H8] H9] H10] H11] H12] H13].
  split; try (apply rngb_rng; assumption).
  - apply Z.eqb_eq. exact H1.
  - apply Nat.leb_le. exact H3.
  - rewrite forallb_forall in H4. apply Forall_forall. intros x Hx. specialize (H4 x Hx). apply andb_true_iff in H4 as [A B].
    split; [apply rngb_rng; exact A|apply Nat.eqb_eq; exact B].
  - apply Z.eqb_eq. exact H6.
  - apply Nat.eqb_eq. exact H10.
  - destruct (payload v); [discriminate|discriminate].
Qed.

(* the non-governance batch over a history: the requested sequences that were stored in that stream, in request order,
   each with the bytes last stored under its identifier *)
Theorem rpc_batch_history vs ec a tc seqs : Forall wf vs -> length a = 32%nat -> 0 <= ec < 65536 -> 0 <= tc < 65536 ->
  Forall (fun q => 0 <= q) seqs -> Z.of_nat (length seqs) <= rpc_max_batch ->
  rpc_nongov_batch (store_all [] vs) ec (hex a) tc seqs =
  ROk (flat_map (fun q => match last_stored vs {| i_ec := ec; i_ea := a; i_tc := tc; i_seq := q |} with
                          | Some v => [(q, marshal v)] | None => [] end) seqs).
Proof.
  intros W Ha Hc Ht Hq Hn. unfold rpc_nongov_batch. destruct (Z.ltb_spec rpc_max_batch (Z.of_nat (length seqs))); [lia|].
  rewrite (decode_emitter_hex a Ha). f_equal. unfold batch_lookup, rpc_id. rewrite !chain16_small by assumption.
  induction seqs as [|q seqs IH]; [reflexivity|]. inversion Hq as [|? ? Hq0 Hq']; subst. cbn [flat_map].
  rewrite (lookup_history vs _ W) by (unfold idwf; cbn [i_ec i_ea i_tc i_seq]; repeat split; lia).
  rewrite IH by (try exact Hq'; cbn [length] in *; lia). destruct (last_stored vs _); reflexivity.
Qed.
