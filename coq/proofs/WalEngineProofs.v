(* C16: the write-ahead-log engine of model/WalEngine.v refines the crash-KV contract of model/CrashKV.v. *)
From Coq Require Import List ZArith Lia Bool Arith.
From Coq Require Import Strings.Byte.
From WH Require Import lib.Bytes gen.Extracted model.Vaa model.Db proofs.DbProofs model.CrashKV proofs.CrashKVProofs model.WalEngine.
Import ListNotations.
Open Scope Z_scope.

Lemma valid_prefix_no_torn l : no_torn l = true -> valid_prefix l = l.
Proof. induction l as [|[t|] l IH]; cbn [no_torn valid_prefix]; intros H; [reflexivity| |discriminate]. rewrite IH by exact H. reflexivity. Qed.

Lemma no_torn_valid_prefix l : no_torn (valid_prefix l) = true.
Proof. induction l as [|[t|] l IH]; cbn [no_torn valid_prefix]; [reflexivity|exact IH|reflexivity]. Qed.

Lemma valid_prefix_idem l : valid_prefix (valid_prefix l) = valid_prefix l.
Proof. apply valid_prefix_no_torn, no_torn_valid_prefix. Qed.

Lemma valid_prefix_app_torn l : no_torn l = true -> valid_prefix (l ++ [FTorn]) = l.
Proof. induction l as [|[t|] l IH]; cbn [no_torn valid_prefix app]; intros H; [reflexivity| |discriminate]. rewrite IH by exact H. reflexivity. Qed.

Lemma no_torn_app_ok l t : no_torn l = true -> no_torn (l ++ [FOk t]) = true.
Proof. induction l as [|[u|] l IH]; cbn [no_torn app]; intros H; [reflexivity|exact (IH H)|discriminate]. Qed.

Lemma replay_app_ok l t : replay (l ++ [FOk t]) = put (replay l) (t_key t) (t_val t).
Proof. unfold replay. rewrite fold_left_app. reflexivity. Qed.

(* ------------------------------------------------------------------ one step: simulation + invariant *)
Lemma wal_step_refines c st e st' : winv st -> wexec true c st e = Some st' -> exec (wabs st) e = Some (wabs st').
Proof.
  intros I H. unfold winv in I. destruct e as [v|v|n|n|n|n|k| | |i res]; cbn [wexec] in H; cbn [exec wabs dur infl next committed aborted damaged up].
  - destruct (wup st); [|discriminate]. cbn [andb] in *. destruct (sigs v); [discriminate|]. inversion H; subst st'. reflexivity.
  - destruct (wup st && db_store_panics_unsigned && match sigs v with [] => true | _ => false end); [|discriminate].
    inversion H; subst st'. reflexivity.
  - destruct (wup st) eqn:U; [|discriminate]. destruct I as [NT M].
    destruct (find_txn n (wpend st)) as [t|]; [|discriminate]. inversion H; subst st'. unfold wabs; cbn [wlog wpend wnext wcom wabo wdam wup].
    rewrite (valid_prefix_no_torn _ (no_torn_app_ok _ t NT)), (valid_prefix_no_torn _ NT), replay_app_ok. reflexivity.
  - destruct (wup st) eqn:U; [|discriminate]. destruct (find_txn n (wpend st)) as [t|]; [|discriminate].
    inversion H; subst st'. unfold wabs; cbn [wlog wpend wnext wcom wabo wdam wup]. reflexivity.
  - destruct (wup st && (nmem n (wcom st) || negb db_store_error_propagated && nmem n (wabo st))); [|discriminate].
    inversion H; subst st'. reflexivity.
  - destruct (wup st && nmem n (wabo st)); [|discriminate]. inversion H; subst st'. reflexivity.
  - destruct (wup st) eqn:U; [|discriminate]. destruct I as [NT M]. inversion H; subst st'. unfold wabs; cbn [wlog wpend wnext wcom wabo wdam wup].
    f_equal. f_equal. destruct (c && negb match wpend st with [] => true | _ => false end).
    + rewrite (valid_prefix_app_torn _ NT), (valid_prefix_no_torn _ NT). reflexivity.
    + rewrite app_nil_r. reflexivity.
  - destruct (wup st) eqn:U; [discriminate|]. destruct (Z.of_nat (wdam st) <? db_open_attempts (Z.of_nat (wdam st))); [|discriminate].
    inversion H; subst st'. unfold wabs; cbn [wlog wpend wnext wcom wabo wdam wup]. rewrite valid_prefix_idem. reflexivity.
  - destruct (wup st) eqn:U; [discriminate|]. destruct (Z.of_nat (wdam st) <? db_open_attempts (Z.of_nat (wdam st))); [discriminate|].
    inversion H; subst st'. unfold wabs; cbn [wlog wpend wnext wcom wabo wdam wup]. reflexivity.
  - destruct (wup st) eqn:U; [|discriminate]. destruct I as [NT M]. cbn [andb] in *.
    rewrite (valid_prefix_no_torn _ NT), <- M. destruct (lres_eqb (get_signed_vaa_bytes (wmem st) i) res); [|discriminate].
    inversion H; subst st'. unfold wabs. rewrite U. reflexivity.
Qed.

Lemma wal_step_inv c st e st' : winv st -> wexec true c st e = Some st' -> winv st'.
Proof.
  intros I H. unfold winv in *. destruct e as [v|v|n|n|n|n|k| | |i res]; cbn [wexec] in H.
  - destruct (wup st) eqn:U; [|discriminate]. cbn [andb] in H. destruct (sigs v); [discriminate|]. inversion H; subst st'. cbn [wup wlog wmem]. exact I.
  - destruct (wup st && db_store_panics_unsigned && match sigs v with [] => true | _ => false end); [|discriminate]. inversion H; subst st'. exact I.
  - destruct (wup st) eqn:U; [|discriminate]. destruct I as [NT M]. destruct (find_txn n (wpend st)) as [t|]; [|discriminate].
    inversion H; subst st'. cbn [wup wlog wmem]. split; [apply no_torn_app_ok, NT|]. rewrite replay_app_ok, M. reflexivity.
  - destruct (wup st) eqn:U; [|discriminate]. destruct (find_txn n (wpend st)) as [t|]; [|discriminate].
    inversion H; subst st'. cbn [wup wlog wmem]. exact I.
  - destruct (wup st && (nmem n (wcom st) || negb db_store_error_propagated && nmem n (wabo st))); [|discriminate]. inversion H; subst st'. exact I.
  - destruct (wup st && nmem n (wabo st)); [|discriminate]. inversion H; subst st'. exact I.
  - destruct (wup st) eqn:U; [|discriminate]. inversion H; subst st'. cbn [wup wpend]. reflexivity.
  - destruct (wup st) eqn:U; [discriminate|]. destruct (Z.of_nat (wdam st) <? db_open_attempts (Z.of_nat (wdam st))); [|discriminate].
    inversion H; subst st'. cbn [wup wlog wmem]. split; [apply no_torn_valid_prefix|reflexivity].
  - destruct (wup st) eqn:U; [discriminate|]. destruct (Z.of_nat (wdam st) <? db_open_attempts (Z.of_nat (wdam st))); [discriminate|].
    inversion H; subst st'. cbn [wup wpend]. exact I.
  - destruct (wup st && lres_eqb (get_signed_vaa_bytes (wmem st) i) res); [|discriminate]. inversion H; subst st'. exact I.
Qed.

Lemma winv_init : winv winit.
Proof. unfold winv, winit; cbn. split; reflexivity. Qed.

(* ------------------------------------------------------------------ whole histories *)
Lemma wal_run_refines h : forall st st', winv st -> wrun true st h = Some st' -> run_evs (wabs st) (map snd h) = Some (wabs st') /\ winv st'.
Proof.
  induction h as [|[c e] h IH]; intros st st' I H; cbn [wrun map snd run_evs] in *.
  - inversion H; subst. split; [reflexivity|exact I].
  - destruct (wexec true c st e) as [s1|] eqn:E; [|discriminate].
    rewrite (wal_step_refines c st e s1 I E). apply IH; [exact (wal_step_inv c st e s1 I E)|exact H].
Qed.

(* the engine as an instance of the Section Engine of CrashKVProofs: states are invariant-carrying engine states *)
Definition wst := { s : wstate | winv s }.
Definition wstep (a : wst) (e : ev) (b : wst) : Prop := exists c, wexec true c (proj1_sig a) e = Some (proj1_sig b).
Definition wabs' (a : wst) : cstate := wabs (proj1_sig a).
Definition w0 : wst := exist _ winit winv_init.

Lemma wal_engine_contract : forall a e b, wstep a e b -> exec (wabs' a) e = Some (wabs' b).
Proof. intros [s I] e [s' I'] [c H]. cbn [proj1_sig] in H. exact (wal_step_refines c s e s' I H). Qed.

Lemma wabs_init : wabs' w0 = cinit.
Proof. reflexivity. Qed.

(* every step the engine can take from an invariant state lands in an invariant state: [wst] loses no behaviour *)
Lemma wal_steps_stay_in_wst : forall (a : wst) c e s', wexec true c (proj1_sig a) e = Some s' -> exists b : wst, proj1_sig b = s' /\ wstep a e b.
Proof.
  intros [s I] c e s' H. cbn [proj1_sig] in H. exists (exist _ s' (wal_step_inv c s e s' I H)). split; [reflexivity|].
  exists c. exact H.
Qed.

Theorem wal_acked_survives h1 n h2 i res v e :
  etrace wst wstep w0 (h1 ++ EAck n :: h2 ++ [EGet i res]) e ->
  nth_error (starts h1) n = Some v -> id_of v = i -> Forall wf (starts (h1 ++ EAck n :: h2)) ->
  exists v', In v' (starts (h1 ++ EAck n :: h2)) /\ id_of v' = i /\ res = Found (marshal v').
Proof. exact (engine_acked_survives wst wstep wabs' w0 wabs_init wal_engine_contract h1 n h2 i res v e). Qed.

Theorem wal_get_never_foreign h i b e : etrace wst wstep w0 (h ++ [EGet i (Found b)]) e -> Forall wf (starts h) -> idwf i ->
  exists v, In v (starts h) /\ id_of v = i /\ b = marshal v.
Proof. exact (engine_get_never_foreign wst wstep wabs' w0 wabs_init wal_engine_contract h i b e). Qed.

(* same statement on the executable form: any run of the truncating engine, with any kill oracle *)
Theorem wal_run_acked_survives h1 n h2 i res v st c0 c1 :
  wrun true winit (h1 ++ (c0, EAck n) :: h2 ++ [(c1, EGet i res)]) = Some st ->
  nth_error (starts (map snd h1)) n = Some v -> id_of v = i -> Forall wf (starts (map snd (h1 ++ (c0, EAck n) :: h2))) ->
  exists v', In v' (starts (map snd (h1 ++ (c0, EAck n) :: h2))) /\ id_of v' = i /\ res = Found (marshal v').
Proof.
  intros R N Hi W. apply (wal_run_refines _ winit st winv_init) in R. destruct R as [R _].
  rewrite map_app in R. cbn [map snd] in R. rewrite map_app in R. cbn [map snd] in R.
  rewrite map_app in W |- *. cbn [map snd] in W |- *.
  change (wabs winit) with cinit in R.
  exact (acked_survives (map snd h1) n (map snd h2) i res v (wabs st) R N Hi W).
Qed.
