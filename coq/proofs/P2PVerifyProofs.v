(* C03, p2p half: the two gossip verifiers accept only what a member of the given guardian set signed under the right
   domain prefix above the length floor; everything else is an error without effect; byte-string domain separation;
   the heartbeat table bound and the provenance of every table entry / forwarded request over arbitrary gossip histories.
   All statements hold for EVERY recover / keccak / decoding function. *)
From Coq Require Import List ZArith Lia Bool Arith.
From Coq Require Import ZifyBool ZifyNat.
From Coq Require Import Strings.Byte.
From WH Require Import lib.Bytes gen.Extracted gen.ExtractedP2P model.Vaa model.P2PVerify.
Import ListNotations.
Open Scope Z_scope.

(* ------------------------------------------------------------------ association lists *)
Lemma tl_get_In {V} k (m : list (bytes * V)) v : tl_get k m = Some v -> In (k, v) m.
Proof.
  induction m as [|[k' v'] m IH]; cbn [tl_get]; [discriminate|].
  destruct (bytes_eqb_spec k k') as [->|Hn]; [intros E; inversion E; left; reflexivity|intros H; right; auto].
Qed.

Lemma In_tl_del {V} k (m : list (bytes * V)) x : In x (tl_del k m) -> In x m /\ fst x <> k.
Proof.
  unfold tl_del. intros H. apply filter_In in H as [H1 H2]. cbn beta in H2. split; [exact H1|].
  intros E. subst k. rewrite bytes_eqb_refl in H2. discriminate H2.
Qed.

Lemma tl_del_length {V} k (m : list (bytes * V)) : (length (tl_del k m) <= length m)%nat.
Proof. unfold tl_del. induction m as [|x m IH]; cbn [filter length]; [lia|]. destruct (negb _); cbn [length]; lia. Qed.

Lemma tl_put_length {V} k (v : V) m : (length (tl_put k v m) <= S (length m))%nat.
Proof. unfold tl_put. cbn [length]. pose proof (tl_del_length k m). lia. Qed.

Lemma tl_get_del {V} k k' (m : list (bytes * V)) : tl_get k' (tl_del k m) = if bytes_eqb k k' then None else tl_get k' m.
Proof.
  induction m as [|[k0 v0] m IH]; cbn [tl_del filter tl_get fst]; [destruct (bytes_eqb k k'); reflexivity|].
  fold (tl_del k m).
  destruct (bytes_eqb_spec k k0) as [->|Hn]; cbn [negb].
  - rewrite IH. destruct (bytes_eqb_spec k0 k') as [->|Hn2]; [reflexivity|].
    destruct (bytes_eqb_spec k' k0) as [->|]; [contradiction|reflexivity].
  - cbn [tl_get]. rewrite IH. destruct (bytes_eqb_spec k' k0) as [->|Hn2]; [|reflexivity].
    destruct (bytes_eqb_spec k k0) as [->|]; [contradiction|reflexivity].
Qed.

Lemma tl_get_put {V} k k' (v : V) m : tl_get k' (tl_put k v m) = if bytes_eqb k' k then Some v else tl_get k' m.
Proof.
  unfold tl_put. cbn [tl_get]. destruct (bytes_eqb_spec k' k) as [->|Hn]; [reflexivity|].
  rewrite tl_get_del. destruct (bytes_eqb_spec k k') as [->|]; [contradiction|reflexivity].
Qed.

Lemma NoDup_keys_del {V} k (m : list (bytes * V)) : NoDup (map fst m) -> NoDup (map fst (tl_del k m)) /\ ~ In k (map fst (tl_del k m)).
Proof.
  intros ND. split.
  - unfold tl_del. induction m as [|x m IH]; cbn [filter map]; [constructor|].
    inversion ND as [|? ? Hx ND']; subst. destruct (negb _); [|auto].
    cbn [map]. constructor; [|auto]. intros Hin. apply Hx. apply in_map_iff in Hin as (y & Ey & Hy). apply filter_In in Hy as [Hy _].
    apply in_map_iff. exists y. auto.
  - intros Hin. apply in_map_iff in Hin as (y & Ey & Hy). apply In_tl_del in Hy as [_ Hy]. congruence.
Qed.

Lemma NoDup_keys_put {V} k (v : V) m : NoDup (map fst m) -> NoDup (map fst (tl_put k v m)).
Proof. intros ND. unfold tl_put. cbn [map fst]. destruct (NoDup_keys_del k m ND) as [H1 H2]. constructor; assumption. Qed.

(* ------------------------------------------------------------------ KeyIndex *)
Lemma key_index_from_sound a ks : forall i j, key_index_from a ks i = Some j ->
  (i <= j)%nat /\ nth_error ks (j - i) = Some a.
Proof.
  induction ks as [|k ks IH]; intros i j; cbn [key_index_from]; [discriminate|].
  destruct (bytes_eqb_spec k a) as [->|Hn].
  - intros E; inversion E; subst. rewrite Nat.sub_diag. split; [lia|reflexivity].
  - intros H. apply IH in H as [H1 H2]. split; [lia|].
    replace (j - i)%nat with (S (j - S i)) by lia. exact H2.
Qed.

Lemma key_index_sound a ks j : key_index a ks = Some j -> nth j ks zero_addr = a /\ In a ks.
Proof.
  unfold key_index. intros H. apply key_index_from_sound in H as [_ H]. rewrite Nat.sub_0_r in H.
  split; [apply nth_error_nth; exact H|eapply nth_error_In; exact H].
Qed.

Lemma key_index_from_none a ks : forall i, key_index_from a ks i = None -> ~ In a ks.
Proof.
  induction ks as [|k ks IH]; intros i; cbn [key_index_from]; [intros _ []|].
  destruct (bytes_eqb_spec k a) as [->|Hn]; [discriminate|]. intros H [E|Hin]; [contradiction|]. exact (IH _ H Hin).
Qed.

Lemma key_index_complete a ks : In a ks -> exists j, key_index a ks = Some j.
Proof.
  intros Hin. destruct (key_index a ks) as [j|] eqn:E; [exists j; reflexivity|].
  exfalso. exact (key_index_from_none _ _ _ E Hin).
Qed.

(* ------------------------------------------------------------------ facts about the extracted definitions: each of these
   breaks when the corresponding guard / constant / operand of the source changes in a way that matters *)
Lemma hb_member_guard_on : p2p_hb_member_guard = true. Proof. reflexivity. Qed.
Lemma req_member_guard_on : p2p_req_member_guard = true. Proof. reflexivity. Qed.
Lemma hb_signer_guard_on : p2p_hb_signer_guard = true. Proof. reflexivity. Qed.
Lemma req_signer_guard_on : p2p_req_signer_guard = true. Proof. reflexivity. Qed.

(* the signer comparison relates the recovered signer with the set key found for the envelope address *)
Lemma hb_cmp_spec e pk s : bytes_eqb (p2p_hb_cmp_left e pk s) (p2p_hb_cmp_right e pk s) = bytes_eqb pk s.
Proof. unfold p2p_hb_cmp_left, p2p_hb_cmp_right. first [reflexivity | (destruct (bytes_eqb_spec pk s), (bytes_eqb_spec s pk); congruence)]. Qed.
Lemma req_cmp_spec e pk s : bytes_eqb (p2p_req_cmp_left e pk s) (p2p_req_cmp_right e pk s) = bytes_eqb pk s.
Proof. unfold p2p_req_cmp_left, p2p_req_cmp_right. first [reflexivity | (destruct (bytes_eqb_spec pk s), (bytes_eqb_spec s pk); congruence)]. Qed.

(* the heartbeat is stored under the RECOVERED signer *)
Lemma hb_store_key_is_signer e pk s : p2p_hb_store_key e pk s = s.
Proof. reflexivity. Qed.

(* the signed pre-image is prefix ++ payload *)
Lemma hb_preimage_spec b : p2p_hb_preimage b = p2p_hb_prefix ++ b. Proof. reflexivity. Qed.
Lemma req_preimage_spec b : p2p_req_preimage b = p2p_req_prefix ++ b. Proof. reflexivity. Qed.

(* above the floor the signed bytes are longer than 32 bytes *)
Lemma hb_floor_above_32 b : p2p_hb_too_short (Z.of_nat (length b)) = false -> 32 < Z.of_nat (length (p2p_hb_preimage b)).
Proof. unfold p2p_hb_too_short. rewrite hb_preimage_spec, app_length. lia. Qed.
Lemma req_floor_above_32 b : p2p_req_too_short (Z.of_nat (length b)) = false -> 32 < Z.of_nat (length (p2p_req_preimage b)).
Proof. unfold p2p_req_too_short. rewrite req_preimage_spec, app_length. lia. Qed.

Lemma cap_not_reached n : gst_cap_reached n = false -> n < gst_max_nodes.
Proof. unfold gst_cap_reached. lia. Qed.
Lemma max_nodes_pos : 1 <= gst_max_nodes.
Proof. unfold gst_max_nodes. lia. Qed.

(* ------------------------------------------------------------------ domain separation on byte strings *)
(* two strings that differ at a position both have cannot be made equal by appending *)
Fixpoint diverge (p q : bytes) : bool :=
  match p, q with
  | x :: p', y :: q' => negb (Byte.eqb x y) || diverge p' q'
  | _, _ => false
  end.

Lemma diverge_app p : forall q b b', diverge p q = true -> p ++ b <> q ++ b'.
Proof.
  induction p as [|x p IH]; intros q b b'; cbn [diverge]; [discriminate|].
  destruct q as [|y q]; [discriminate|]. cbn [app]. intros H E. inversion E as [[Exy Et]]. subst y.
  rewrite (Byte.byte_dec_lb (eq_refl x)) in H. cbn [negb orb] in H. exact (IH _ _ _ H Et).
Qed.

Lemma prefixes_diverge : diverge p2p_hb_prefix p2p_req_prefix = true.
Proof. vm_compute. reflexivity. Qed.

Lemma sep_hb_req b b' : p2p_hb_preimage b <> p2p_req_preimage b'.
Proof. rewrite hb_preimage_spec, req_preimage_spec. apply diverge_app. exact prefixes_diverge. Qed.

Lemma sep_hb_32 b d : p2p_hb_too_short (Z.of_nat (length b)) = false -> length d = 32%nat -> p2p_hb_preimage b <> d.
Proof. intros H Hd E. apply hb_floor_above_32 in H. rewrite E, Hd in H. lia. Qed.

Lemma sep_req_32 b d : p2p_req_too_short (Z.of_nat (length b)) = false -> length d = 32%nat -> p2p_req_preimage b <> d.
Proof. intros H Hd E. apply req_floor_above_32 in H. rewrite E, Hd in H. lia. Qed.

(* equal digests exhibit a Keccak collision: the digest of a VAA is keccak (keccak body), its signed pre-image is the 32-byte
   string keccak body *)
Definition collision (keccak : bytes -> bytes) : Prop := exists x y, x <> y /\ keccak x = keccak y.

Lemma hb_digest_clash_is_collision keccak b v :
  length (keccak (body v)) = 32%nat -> p2p_hb_too_short (Z.of_nat (length b)) = false ->
  keccak (p2p_hb_preimage b) = digest keccak v -> collision keccak.
Proof. intros Hl Hf E. exists (p2p_hb_preimage b), (keccak (body v)). split; [apply sep_hb_32; assumption|exact E]. Qed.

Lemma req_digest_clash_is_collision keccak b v :
  length (keccak (body v)) = 32%nat -> p2p_req_too_short (Z.of_nat (length b)) = false ->
  keccak (p2p_req_preimage b) = digest keccak v -> collision keccak.
Proof. intros Hl Hf E. exists (p2p_req_preimage b), (keccak (body v)). split; [apply sep_req_32; assumption|exact E]. Qed.

Lemma hb_req_digest_clash_is_collision keccak b b' : keccak (p2p_hb_preimage b) = keccak (p2p_req_preimage b') -> collision keccak.
Proof. intros E. exists (p2p_hb_preimage b), (p2p_req_preimage b'). split; [apply sep_hb_req|exact E]. Qed.

(* ------------------------------------------------------------------ SetHeartbeat *)
Lemma set_heartbeat_shape t a p v t' : set_heartbeat t a p v = Some t' ->
  exists row', t' = (a, row') :: tl_del a t /\
               (forall q w, In (q, w) row' -> (q = p /\ w = v) \/ exists row, tl_get a t = Some row /\ In (q, w) row /\ q <> p) /\
               tl_get p row' = Some v /\
               Z.of_nat (length row') <= gst_max_nodes.
Proof.
  unfold set_heartbeat. destruct (tl_get a t) as [row|] eqn:Eg.
  - destruct (gst_cap_reached (Z.of_nat (length row))) eqn:Ec; [discriminate|]. intros E; inversion E; subst t'; clear E.
    exists (tl_put p v row). split; [reflexivity|]. split; [|split].
    + intros q w [E|Hin]; [inversion E; left; auto|]. right. exists row. apply In_tl_del in Hin as [H1 H2]. cbn [fst] in H2. auto.
    + rewrite tl_get_put, bytes_eqb_refl. reflexivity.
    + apply cap_not_reached in Ec. pose proof (tl_put_length p v row) as Hl. apply Nat2Z.inj_le in Hl. rewrite Nat2Z.inj_succ in Hl.
      eapply Z.le_trans; [exact Hl|]. apply Z.le_succ_l. exact Ec.
  - intros E; inversion E; subst t'; clear E. exists [(p, v)]. split; [reflexivity|]. split; [|split].
    + intros q w [E|[]]. inversion E. left; auto.
    + cbn [tl_get]. rewrite bytes_eqb_refl. reflexivity.
    + cbn [length]. pose proof max_nodes_pos. lia.
Qed.

(* only guardian a's row changes, and inside it only peer p's slot *)
Lemma set_heartbeat_frame t a p v t' : set_heartbeat t a p v = Some t' ->
  (forall a', a' <> a -> tl_get a' t' = tl_get a' t) /\
  (exists row', tl_get a t' = Some row' /\ tl_get p row' = Some v /\
                forall q, q <> p -> tl_get q row' = match tl_get a t with Some row => tl_get q row | None => None end).
Proof.
  unfold set_heartbeat. destruct (tl_get a t) as [row|] eqn:Eg.
  - destruct (gst_cap_reached _); [discriminate|]. intros E; inversion E; subst t'; clear E. split.
    + intros a' Hn. rewrite tl_get_put. destruct (bytes_eqb_spec a' a); [contradiction|reflexivity].
    + exists (tl_put p v row). rewrite tl_get_put, bytes_eqb_refl. split; [reflexivity|]. split.
      * rewrite tl_get_put, bytes_eqb_refl. reflexivity.
      * intros q Hq. rewrite tl_get_put. destruct (bytes_eqb_spec q p); [contradiction|reflexivity].
  - intros E; inversion E; subst t'; clear E. split.
    + intros a' Hn. rewrite tl_get_put. destruct (bytes_eqb_spec a' a); [contradiction|reflexivity].
    + exists [(p, v)]. rewrite tl_get_put, bytes_eqb_refl. split; [reflexivity|]. cbn [tl_get]. rewrite bytes_eqb_refl. split; [reflexivity|].
      intros q Hq. destruct (bytes_eqb_spec q p); [contradiction|reflexivity].
Qed.

(* ------------------------------------------------------------------ the table bound *)
Definition row_ok (ar : gaddr * prow) : Prop := Z.of_nat (length (snd ar)) <= gst_max_nodes /\ NoDup (map fst (snd ar)).
Definition table_ok (t : table) : Prop := NoDup (map fst t) /\ Forall row_ok t.

Lemma table_ok_nil : table_ok []. Proof. split; constructor. Qed.

Lemma Forall_tl_del {V} (P : bytes * V -> Prop) k m : Forall P m -> Forall P (tl_del k m).
Proof. intros H. apply Forall_forall. intros x Hx. apply In_tl_del in Hx as [Hx _]. rewrite Forall_forall in H. auto. Qed.

Lemma set_heartbeat_ok t a p v t' : table_ok t -> set_heartbeat t a p v = Some t' -> table_ok t'.
Proof.
  intros [ND F] H. pose proof (set_heartbeat_shape _ _ _ _ _ H) as (row' & -> & _ & _ & Hlen).
  split.
  - change ((a, row') :: tl_del a t) with (tl_put a row' t). apply NoDup_keys_put. exact ND.
  - constructor; [|apply Forall_tl_del; exact F]. split; [exact Hlen|]. cbn [snd].
    unfold set_heartbeat in H. destruct (tl_get a t) as [row|] eqn:Eg.
    + destruct (gst_cap_reached _); [discriminate|]. inversion H as [E]. apply NoDup_keys_put.
      apply tl_get_In in Eg. rewrite Forall_forall in F. apply F in Eg. exact (proj2 Eg).
    + inversion H as [E]. cbn. constructor; [intros []|constructor].
Qed.

Lemma NoDup_map_filter {A B} (f : A -> B) g l : NoDup (map f l) -> NoDup (map f (filter g l)).
Proof.
  induction l as [|x l IH]; cbn [filter map]; [auto|]. intros ND. inversion ND as [|? ? Hx ND']; subst.
  destruct (g x); [|auto]. cbn [map]. constructor; [|auto]. intros Hin. apply Hx.
  apply in_map_iff in Hin as (y & Ey & Hy). apply filter_In in Hy as [Hy _]. apply in_map_iff. exists y; auto.
Qed.

Lemma filter_len_le {A} (f : A -> bool) l : (length (filter f l) <= length l)%nat.
Proof. induction l as [|x l IH]; cbn [filter length]; [lia|]. destruct (f x); cbn [length]; lia. Qed.

Lemma cleanup_ok now t : table_ok t -> table_ok (cleanup now t).
Proof.
  intros [ND F]. unfold cleanup. split.
  - rewrite map_map. cbn [fst]. exact ND.
  - apply Forall_map. eapply Forall_impl; [|exact F]. intros [a r] [H1 H2]. cbn [fst snd] in *. unfold cleanup_row. split.
    + pose proof (filter_len_le (fun pv => negb (gst_expired (now - hv_ts (snd pv)))) r) as Hl. apply Nat2Z.inj_le in Hl.
      eapply Z.le_trans; [exact Hl|exact H1].
    + apply NoDup_map_filter. exact H2.
Qed.

(* entries after Cleanup were there before, and no entry older than the expiry test allows survives *)
Lemma cleanup_In now t a r' : In (a, r') (cleanup now t) -> exists r, In (a, r) t /\ r' = cleanup_row now r.
Proof. unfold cleanup. intros H. apply in_map_iff in H as ([a0 r] & E & Hin). inversion E; subst. exists r. auto. Qed.

Lemma cleanup_row_In now r p v : In (p, v) (cleanup_row now r) <-> In (p, v) r /\ gst_expired (now - hv_ts v) = false.
Proof. unfold cleanup_row. rewrite filter_In. cbn [snd]. rewrite negb_true_iff. reflexivity. Qed.

Section V.
Variable recover : bytes -> bytes -> option bytes.
Variable keccak : bytes -> bytes.
Variable decode_hb : bytes -> option Z.
Variable decode_req : bytes -> bool.

Notation prec := (P2PVerify.prec recover).
Notation process_heartbeat := (P2PVerify.process_heartbeat recover keccak decode_hb).
Notation process_obsreq := (P2PVerify.process_obsreq recover keccak decode_req).
Notation gossip_step := (P2PVerify.gossip_step recover keccak decode_hb decode_req).
Notation gossip_run := (P2PVerify.gossip_run recover keccak decode_hb decode_req).

(* what "a heartbeat validly signed by member a of gs" means *)
Definition hb_valid (gs : list gaddr) (eaddr hb sig : bytes) (a : gaddr) : Prop :=
  a = bytes_to_address eaddr /\ In a gs /\ 32 < Z.of_nat (length (p2p_hb_preimage hb)) /\
  p2p_hb_too_short (Z.of_nat (length hb)) = false /\ prec (keccak (p2p_hb_preimage hb)) sig = Some a.
Definition req_valid (gs : list gaddr) (eaddr req sig : bytes) (a : gaddr) : Prop :=
  a = bytes_to_address eaddr /\ In a gs /\ 32 < Z.of_nat (length (p2p_req_preimage req)) /\
  p2p_req_too_short (Z.of_nat (length req)) = false /\ prec (keccak (p2p_req_preimage req)) sig = Some a.

(* ---- heartbeat verifier, verification enabled *)
Lemma heartbeat_error_no_effect gs t from eaddr hb sig disable t' e :
  process_heartbeat gs t from eaddr hb sig disable = (t', HErr e) -> t' = t.
Proof.
  unfold P2PVerify.process_heartbeat.
  destruct (_ && p2p_hb_member_guard && negb disable); [intros E; inversion E; reflexivity|].
  destruct (p2p_hb_too_short _); [intros E; inversion E; reflexivity|].
  destruct (prec _ sig) as [signer|]; [|intros E; inversion E; reflexivity].
  destruct (p2p_hb_signer_guard && _ && negb disable); [intros E; inversion E; reflexivity|].
  destruct (decode_hb hb) as [ts|]; [|intros E; inversion E; reflexivity].
  destruct (set_heartbeat t _ from _); intros E; inversion E; reflexivity.
Qed.

Lemma heartbeat_accept_only_if_valid gs t from eaddr hb sig t' v :
  process_heartbeat gs t from eaddr hb sig false = (t', HOk v) ->
  exists a ts, hb_valid gs eaddr hb sig a /\ decode_hb hb = Some ts /\ v = {| hv_payload := hb; hv_ts := ts |} /\
               set_heartbeat t a from v = Some t'.
Proof.
  unfold P2PVerify.process_heartbeat, p2p_hb_store_key, p2p_hb_cmp_left, p2p_hb_cmp_right.
  rewrite hb_member_guard_on, hb_signer_guard_on. cbn [negb]. rewrite !andb_true_r.
  destruct (key_index (bytes_to_address eaddr) gs) as [i|] eqn:Ek; [|intros E; inversion E].
  apply key_index_sound in Ek as [Hnth Hin]. rewrite Hnth. cbn [andb].
  destruct (p2p_hb_too_short _) eqn:Ef; [intros E; inversion E|].
  destruct (prec _ sig) as [signer|] eqn:Er; [|intros E; inversion E].
  rewrite andb_true_r.
  destruct (bytes_eqb_spec (bytes_to_address eaddr) signer) as [Es|Es]; cbn [negb andb]; [|intros E; inversion E].
  destruct (decode_hb hb) as [ts|] eqn:Ed; [|intros E; inversion E].
  destruct (set_heartbeat t signer from _) as [t1|] eqn:Es1; intros E; inversion E; subst.
  exists (bytes_to_address eaddr), ts. split; [|auto].
  split; [reflexivity|]. split; [exact Hin|]. split; [apply hb_floor_above_32; exact Ef|]. split; [exact Ef|exact Er].
Qed.

(* ... and if: the verifier accepts every validly signed, decodable heartbeat for which the table has room *)
Lemma heartbeat_valid_accepted gs t from eaddr hb sig a ts t' :
  hb_valid gs eaddr hb sig a -> decode_hb hb = Some ts -> set_heartbeat t a from {| hv_payload := hb; hv_ts := ts |} = Some t' ->
  process_heartbeat gs t from eaddr hb sig false = (t', HOk {| hv_payload := hb; hv_ts := ts |}).
Proof.
  intros (-> & Hin & _ & Hf & Hr) Hd Hs. unfold P2PVerify.process_heartbeat, p2p_hb_store_key, p2p_hb_cmp_left, p2p_hb_cmp_right.
  destruct (key_index_complete _ _ Hin) as (j & Ej). rewrite Ej. cbn [andb].
  apply key_index_sound in Ej as [Hnth _]. rewrite Hnth, Hf, Hr, bytes_eqb_refl.
  cbn [negb andb]. rewrite andb_false_r. cbn [andb]. rewrite Hd. cbn zeta. rewrite Hs. reflexivity.
Qed.

(* with verification disabled (devnet flag) the address checks are gone, but the floor, the recovery and the rule
   "stored under the recovered signer" remain *)
Lemma heartbeat_disabled_still gs t from eaddr hb sig t' v :
  process_heartbeat gs t from eaddr hb sig true = (t', HOk v) ->
  exists a ts, 32 < Z.of_nat (length (p2p_hb_preimage hb)) /\ prec (keccak (p2p_hb_preimage hb)) sig = Some a /\
               decode_hb hb = Some ts /\ v = {| hv_payload := hb; hv_ts := ts |} /\ set_heartbeat t a from v = Some t'.
Proof.
  unfold P2PVerify.process_heartbeat, p2p_hb_store_key. cbn [negb]. rewrite !andb_false_r.
  destruct (p2p_hb_too_short _) eqn:Ef; [intros E; inversion E|].
  destruct (prec _ sig) as [signer|] eqn:Er; [|intros E; inversion E].
  rewrite andb_false_r.
  destruct (decode_hb hb) as [ts|] eqn:Ed; [|intros E; inversion E]. cbn zeta.
  destruct (set_heartbeat t signer from _) as [t1|] eqn:Es1; intros E; inversion E; subst.
  exists signer, ts. split; [apply hb_floor_above_32; exact Ef|]. auto.
Qed.

(* ---- observation-request verifier *)
Lemma obsreq_iff gs eaddr req sig r :
  process_obsreq gs eaddr req sig = ROk r <->
  r = req /\ decode_req req = true /\ exists a, req_valid gs eaddr req sig a.
Proof.
  unfold P2PVerify.process_obsreq, p2p_req_cmp_left, p2p_req_cmp_right. rewrite req_member_guard_on, req_signer_guard_on. rewrite andb_true_r. cbn [andb].
  split.
  - destruct (key_index (bytes_to_address eaddr) gs) as [i|] eqn:Ek; [|discriminate].
    apply key_index_sound in Ek as [Hnth Hin]. rewrite Hnth.
    destruct (p2p_req_too_short _) eqn:Ef; [discriminate|].
    destruct (prec _ sig) as [signer|] eqn:Er; [|discriminate].
    destruct (bytes_eqb_spec (bytes_to_address eaddr) signer) as [Es|Es]; cbn [negb]; [|discriminate].
    destruct (decode_req req) eqn:Ed; [|discriminate]. intros E; inversion E; subst.
    split; [reflexivity|]. split; [reflexivity|]. exists (bytes_to_address eaddr).
    split; [reflexivity|]. split; [exact Hin|]. split; [apply req_floor_above_32; exact Ef|]. split; [exact Ef|exact Er].
  - intros (-> & Hd & a & -> & Hin & _ & Hf & Hr).
    destruct (key_index_complete _ _ Hin) as (j & Ej). rewrite Ej.
    apply key_index_sound in Ej as [Hnth _]. rewrite Hnth, Hf, Hr, bytes_eqb_refl. cbn [negb]. rewrite Hd. reflexivity.
Qed.

(* ------------------------------------------------------------------ histories of gossip: provenance and bound *)
(* the states reachable by any sequence of gossip messages, set changes, cleanups and own heartbeats, with the history that led there *)
Inductive reach (disable : bool) : list gmsg -> nstate -> list (list gout) -> Prop :=
| reach_nil : reach disable [] ninit []
| reach_snoc H st outs m : reach disable H st outs ->
    reach disable (H ++ [m]) (fst (gossip_step disable st m)) (outs ++ [snd (gossip_step disable st m)]).

Lemma gossip_run_app disable ms1 : forall st ms2,
  gossip_run disable st (ms1 ++ ms2) =
  let '(st1, o1) := gossip_run disable st ms1 in let '(st2, o2) := gossip_run disable st1 ms2 in (st2, o1 ++ o2).
Proof.
  induction ms1 as [|m ms1 IH]; intros st ms2; cbn [app P2PVerify.gossip_run].
  - destruct (gossip_run disable st ms2); reflexivity.
  - destruct (gossip_step disable st m) as [st1 o1]. rewrite IH.
    destruct (gossip_run disable st1 ms1) as [st2 o2]. destruct (gossip_run disable st2 ms2) as [st3 o3]. reflexivity.
Qed.

Lemma reach_run disable ms : reach disable ms (fst (gossip_run disable ninit ms)) (snd (gossip_run disable ninit ms)).
Proof.
  induction ms as [|m ms IH] using rev_ind; [constructor|].
  rewrite gossip_run_app. destruct (gossip_run disable ninit ms) as [st1 o1]. cbn [fst snd] in IH.
  cbn [P2PVerify.gossip_run]. destruct (gossip_step disable st1 m) as [st2 o2] eqn:Es. cbn [fst snd].
  pose proof (reach_snoc disable ms st1 o1 m IH) as R. rewrite Es in R. exact R.
Qed.

(* every table entry is justified by an earlier message of the history *)
Definition justified (disable : bool) (H : list gmsg) (a : gaddr) (p : peerid) (v : hbv) : Prop :=
  exists pre m post, H = pre ++ m :: post /\
    (m = GOwn a p v \/
     exists eaddr sig st0 o0 gs, m = GHeartbeat p eaddr (hv_payload v) sig /\ reach disable pre st0 o0 /\ n_gs st0 = Some gs /\
       decode_hb (hv_payload v) = Some (hv_ts v) /\
       if disable then 32 < Z.of_nat (length (p2p_hb_preimage (hv_payload v))) /\ prec (keccak (p2p_hb_preimage (hv_payload v))) sig = Some a
       else hb_valid gs eaddr (hv_payload v) sig a).

Lemma justified_snoc disable H m a p v : justified disable H a p v -> justified disable (H ++ [m]) a p v.
Proof. intros (pre & m0 & post & -> & J). exists pre, m0, (post ++ [m]). rewrite <- app_assoc. split; [reflexivity|exact J]. Qed.

Definition all_justified (disable : bool) (H : list gmsg) (t : table) : Prop :=
  forall a row p v, In (a, row) t -> In (p, v) row -> justified disable H a p v.

Lemma set_heartbeat_justified disable H t a p v t' :
  all_justified disable H t -> justified disable H a p v -> set_heartbeat t a p v = Some t' -> all_justified disable H t'.
Proof.
  intros HA HJ Hs. apply set_heartbeat_shape in Hs as (row' & -> & Hrow & _ & _).
  intros a0 row0 p0 v0 [E|Hin] Hpv.
  - inversion E; subst a0 row0. destruct (Hrow _ _ Hpv) as [[-> ->]|(row & Hg & Hi & _)]; [exact HJ|].
    apply tl_get_In in Hg. exact (HA _ _ _ _ Hg Hi).
  - apply In_tl_del in Hin as [Hin _]. exact (HA _ _ _ _ Hin Hpv).
Qed.

Theorem reach_inv disable H st outs : reach disable H st outs ->
  table_ok (n_tbl st) /\ all_justified disable H (n_tbl st).
Proof.
  induction 1 as [|H st outs m R [IHok IHj]].
  - split; [apply table_ok_nil|]. intros a row p v [].
  - assert (IHj' : all_justified disable (H ++ [m]) (n_tbl st)).
    { intros a row p v H1 H2. apply justified_snoc. exact (IHj _ _ _ _ H1 H2). }
    destruct m as [from eaddr hb sig|eaddr req sig|ks|now|a p v]; cbn [P2PVerify.gossip_step].
    + destruct (n_gs st) as [gs|] eqn:Egs; [|cbn [fst]; auto].
      destruct (process_heartbeat gs (n_tbl st) from eaddr hb sig disable) as [t' [e|v]] eqn:Ep; cbn [fst with_tbl n_tbl].
      * apply heartbeat_error_no_effect in Ep. subst t'. auto.
      * assert (Hx : exists a, set_heartbeat (n_tbl st) a from v = Some t' /\ justified disable (H ++ [GHeartbeat from eaddr hb sig]) a from v).
        { destruct disable.
          - apply heartbeat_disabled_still in Ep as (a & ts & H1 & H2 & H3 & -> & H5). exists a. split; [exact H5|].
            exists H, (GHeartbeat from eaddr hb sig), []. split; [reflexivity|]. right. exists eaddr, sig, st, outs, gs. cbn [hv_payload hv_ts]. auto 10.
          - apply heartbeat_accept_only_if_valid in Ep as (a & ts & H1 & H2 & -> & H4). exists a. split; [exact H4|].
            exists H, (GHeartbeat from eaddr hb sig), []. split; [reflexivity|]. right. exists eaddr, sig, st, outs, gs. cbn [hv_payload hv_ts]. auto 10. }
        destruct Hx as (a & Hs & HJ). split; [eapply set_heartbeat_ok; eassumption|eapply set_heartbeat_justified; eassumption].
    + destruct (n_gs st) as [gs|]; [|cbn [fst]; auto]. destruct (process_obsreq gs eaddr req sig); cbn [fst]; auto.
    + cbn [fst n_tbl]. auto.
    + cbn [fst with_tbl n_tbl]. split; [apply cleanup_ok; exact IHok|].
      intros a row' p v Hin Hpv. apply cleanup_In in Hin as (row & Hin & ->). apply cleanup_row_In in Hpv as [Hpv _]. exact (IHj' _ _ _ _ Hin Hpv).
    + destruct (set_heartbeat (n_tbl st) a p v) as [t'|] eqn:Es; cbn [fst with_tbl n_tbl]; [|auto].
      split; [eapply set_heartbeat_ok; eassumption|]. eapply set_heartbeat_justified; [exact IHj'| |exact Es].
      exists H, (GOwn a p v), []. split; [reflexivity|left; reflexivity].
Qed.

Lemma reach_is_run disable H st outs : reach disable H st outs -> gossip_run disable ninit H = (st, outs).
Proof.
  induction 1 as [|H st outs m R IH]; [reflexivity|].
  rewrite gossip_run_app, IH. cbn [P2PVerify.gossip_run]. destruct (gossip_step disable st m) as [st1 o1]. reflexivity.
Qed.

(* [justified] with the set in force expressed through gossip_run *)
Definition justified_run (disable : bool) (H : list gmsg) (a : gaddr) (p : peerid) (v : hbv) : Prop :=
  exists pre m post, H = pre ++ m :: post /\
    (m = GOwn a p v \/
     exists eaddr sig gs, m = GHeartbeat p eaddr (hv_payload v) sig /\ n_gs (fst (gossip_run disable ninit pre)) = Some gs /\
       decode_hb (hv_payload v) = Some (hv_ts v) /\
       if disable then 32 < Z.of_nat (length (p2p_hb_preimage (hv_payload v))) /\ prec (keccak (p2p_hb_preimage (hv_payload v))) sig = Some a
       else hb_valid gs eaddr (hv_payload v) sig a).

Lemma justified_to_run disable H a p v : justified disable H a p v -> justified_run disable H a p v.
Proof.
  intros (pre & m & post & E & [J|(eaddr & sig & st0 & o0 & gs & H1 & H2 & H3 & H4)]); exists pre, m, post; (split; [exact E|]); [left; exact J|].
  right. exists eaddr, sig, gs. apply reach_is_run in H2. rewrite H2. cbn [fst]. auto.
Qed.

(* the table bound, for every history *)
Theorem table_bound disable ms a row :
  tl_get a (n_tbl (fst (gossip_run disable ninit ms))) = Some row -> Z.of_nat (length row) <= gst_max_nodes.
Proof.
  intros Hg. destruct (reach_inv _ _ _ _ (reach_run disable ms)) as [[_ F] _].
  apply tl_get_In in Hg. rewrite Forall_forall in F. exact (proj1 (F _ Hg)).
Qed.

Theorem table_provenance disable ms a row p v :
  tl_get a (n_tbl (fst (gossip_run disable ninit ms))) = Some row -> tl_get p row = Some v -> justified disable ms a p v.
Proof.
  intros Hg Hp. destruct (reach_inv _ _ _ _ (reach_run disable ms)) as [_ J].
  apply tl_get_In in Hg. apply tl_get_In in Hp. exact (J _ _ _ _ Hg Hp).
Qed.

Theorem table_provenance_run disable ms a row p v :
  tl_get a (n_tbl (fst (gossip_run disable ninit ms))) = Some row -> tl_get p row = Some v -> justified_run disable ms a p v.
Proof. intros Hg Hp. apply justified_to_run. eapply table_provenance; eassumption. Qed.

(* every request forwarded to the chain watchers was validly signed by a member of the set in force at that moment *)
Theorem forwarded_request_valid disable H st outs : reach disable H st outs ->
  forall i os r, nth_error outs i = Some os -> In (FwdReq r) os ->
  exists eaddr sig st0 o0 gs a, nth_error H i = Some (GObsReq eaddr r sig) /\ reach disable (firstn i H) st0 o0 /\ n_gs st0 = Some gs /\
                                req_valid gs eaddr r sig a /\ decode_req r = true.
Proof.
  induction 1 as [|H st outs m R IH]; intros i os r Hn Hin; [destruct i; discriminate|].
  assert (Hlen : length outs = length H).
  { clear -R. induction R; [reflexivity|]. rewrite !app_length. cbn [length]. lia. }
  destruct (Nat.lt_ge_cases i (length outs)) as [Hlt|Hge].
  - rewrite nth_error_app1 in Hn by exact Hlt. destruct (IH _ _ _ Hn Hin) as (eaddr & sig & st0 & o0 & gs & a & H1 & H2 & H3).
    exists eaddr, sig, st0, o0, gs, a. rewrite nth_error_app1 by lia. rewrite firstn_app. replace (i - length H)%nat with 0%nat by lia.
    cbn [firstn]. rewrite app_nil_r. auto.
  - rewrite nth_error_app2 in Hn by exact Hge. destruct (i - length outs)%nat as [|k] eqn:Ek; [|destruct k; discriminate].
    assert (i = length H) by lia. subst i. cbn [nth_error] in Hn. inversion Hn; subst os; clear Hn.
    rewrite nth_error_app2 by lia. rewrite Nat.sub_diag. cbn [nth_error].
    rewrite firstn_app, Nat.sub_diag, firstn_all. cbn [firstn]. rewrite app_nil_r.
    destruct m as [from eaddr hb sig|eaddr req sig|ks|now|a p v]; cbn [P2PVerify.gossip_step] in Hin.
    + destruct (n_gs st); [|destruct Hin]. destruct (process_heartbeat _ _ _ _ _ _ _) as [t' [e|v]]; cbn [snd] in Hin; [destruct Hin|].
      destruct (prec _ _); cbn in Hin; [destruct Hin as [E|[]]; discriminate|destruct Hin].
    + destruct (n_gs st) as [gs|] eqn:Egs; [|destruct Hin].
      destruct (process_obsreq gs eaddr req sig) as [e|r0] eqn:Ep; cbn [snd] in Hin; [destruct Hin|].
      destruct Hin as [E|[]]. inversion E; subst r0. apply obsreq_iff in Ep as (-> & Hd & a & Hv).
      exists eaddr, sig, st, outs, gs, a. auto 10.
    + destruct Hin.
    + destruct Hin.
    + destruct (set_heartbeat _ _ _ _); cbn [snd] in Hin; [destruct Hin|destruct Hin as [E|[]]; discriminate].
Qed.

Theorem forwarded_request_valid_run disable ms i os r :
  nth_error (snd (gossip_run disable ninit ms)) i = Some os -> In (FwdReq r) os ->
  exists eaddr sig gs a, nth_error ms i = Some (GObsReq eaddr r sig) /\ n_gs (fst (gossip_run disable ninit (firstn i ms))) = Some gs /\
                         req_valid gs eaddr r sig a /\ decode_req r = true.
Proof.
  intros Hn Hin. destruct (forwarded_request_valid _ _ _ _ (reach_run disable ms) _ _ _ Hn Hin) as (eaddr & sig & st0 & o0 & gs & a & H1 & H2 & H3 & H4 & H5).
  exists eaddr, sig, gs, a. apply reach_is_run in H2. rewrite H2. cbn [fst]. auto.
Qed.
End V.

(* ================================================================== extension X5: the receive / dispatch loop of p2p.Run
   (model.P2PVerify.p2p_dispatch / loop_step / loop_run; executed for real by harness/p2p_run) *)

(* facts about the extracted shape of the loop: each breaks when the source changes in a way that matters *)
Lemma loopback_guard_on : p2p_loop_loopback_guard = true. Proof. reflexivity. Qed.
Lemma loop_hb_flag_is_parameter f : p2p_loop_hb_disable f = f. Proof. reflexivity. Qed.

Lemma with_tbl_id st : with_tbl st (n_tbl st) = st.
Proof. destruct st as [g t]. reflexivity. Qed.

Section L.
Variable recover : bytes -> bytes -> option bytes.
Variable keccak : bytes -> bytes.
Variable decode_hb : bytes -> option Z.
Variable decode_req : bytes -> bool.
Context {O V : Type}.

Notation process_heartbeat := (P2PVerify.process_heartbeat recover keccak decode_hb).
Notation process_obsreq := (P2PVerify.process_obsreq recover keccak decode_req).
Notation gossip_step := (P2PVerify.gossip_step recover keccak decode_hb decode_req).
Notation gossip_run := (P2PVerify.gossip_run recover keccak decode_hb decode_req).
Notation dispatch := (@P2PVerify.p2p_dispatch recover keccak decode_hb decode_req O V).
Notation lstep := (@P2PVerify.loop_step recover keccak decode_hb decode_req O V).
Notation lrun := (@P2PVerify.loop_run recover keccak decode_hb decode_req O V).
Notation hb_valid := (hb_valid recover keccak).
Notation req_valid := (req_valid recover keccak).

(* ---- one iteration *)
Lemma dispatch_invalid disable self t gs from : dispatch disable self t gs from MInvalid = (t, []).
Proof. reflexivity. Qed.

Lemma dispatch_unknown disable self t gs from : dispatch disable self t gs from MUnknown = (t, []).
Proof. unfold P2PVerify.p2p_dispatch. destruct (p2p_loop_loopback_guard && bytes_eqb from self); reflexivity. Qed.

(* an envelope published by the node itself has no effect, whatever it contains *)
Lemma dispatch_loopback disable self t gs m : dispatch disable self t gs self m = (t, []).
Proof.
  unfold P2PVerify.p2p_dispatch. rewrite loopback_guard_on, bytes_eqb_refl. cbn [andb]. destruct m; reflexivity.
Qed.

(* observations and signed VAAs are handed on exactly as received, with or without a guardian set *)
Lemma dispatch_obs disable self t gs from o : from <> self -> dispatch disable self t gs from (MObservation o) = (t, [OutObs o]).
Proof.
  intros Hn. unfold P2PVerify.p2p_dispatch. destruct (bytes_eqb_spec from self) as [E|_]; [contradiction|]. rewrite andb_false_r. reflexivity.
Qed.

Lemma dispatch_vaa disable self t gs from v : from <> self -> dispatch disable self t gs from (MSignedVaa v) = (t, [OutVaa v]).
Proof.
  intros Hn. unfold P2PVerify.p2p_dispatch. destruct (bytes_eqb_spec from self) as [E|_]; [contradiction|]. rewrite andb_false_r. reflexivity.
Qed.

(* every iteration is one of five things: nothing; observation handed on; VAA handed on; a request that passed the
   request verifier under the set in force forwarded; a heartbeat that the heartbeat verifier accepted under the set in force stored *)
Inductive dispatch_kind (disable : bool) (self : peerid) (t : table) (gs : option (list gaddr)) (from : peerid) (m : gossip_msg O V)
  : table * list (chan_out O V) -> Prop :=
| DkNothing : dispatch_kind disable self t gs from m (t, [])
| DkObs o : m = MObservation o -> from <> self -> dispatch_kind disable self t gs from m (t, [OutObs o])
| DkVaa v : m = MSignedVaa v -> from <> self -> dispatch_kind disable self t gs from m (t, [OutVaa v])
| DkReq eaddr r sig g a : m = MObsReq eaddr r sig -> from <> self -> gs = Some g -> req_valid g eaddr r sig a -> decode_req r = true ->
    dispatch_kind disable self t gs from m (t, [OutReq r])
| DkHb eaddr hb sig g t' v : m = MHeartbeat eaddr hb sig -> from <> self -> gs = Some g ->
    process_heartbeat g t from eaddr hb sig (p2p_loop_hb_disable disable) = (t', HOk v) ->
    dispatch_kind disable self t gs from m (t', []).

Lemma dispatch_classified disable self t gs from m : dispatch_kind disable self t gs from m (dispatch disable self t gs from m).
Proof.
  destruct (bytes_eqb_spec from self) as [->|Hn]; [rewrite dispatch_loopback; constructor|].
  destruct m as [|eaddr hb sig|o|v|eaddr req sig|].
  - rewrite dispatch_invalid. constructor.
  - unfold P2PVerify.p2p_dispatch. destruct (bytes_eqb_spec from self) as [E|_]; [contradiction|]. rewrite andb_false_r.
    destruct gs as [g|]; [|constructor].
    destruct (process_heartbeat g t from eaddr hb sig (p2p_loop_hb_disable disable)) as [t' [e|v]] eqn:Ep; cbn [fst].
    + apply heartbeat_error_no_effect in Ep. subst t'. constructor.
    + eapply DkHb; [reflexivity|exact Hn|reflexivity|exact Ep].
  - rewrite dispatch_obs by exact Hn. eapply DkObs; [reflexivity|exact Hn].
  - rewrite dispatch_vaa by exact Hn. eapply DkVaa; [reflexivity|exact Hn].
  - unfold P2PVerify.p2p_dispatch. destruct (bytes_eqb_spec from self) as [E|_]; [contradiction|]. rewrite andb_false_r.
    destruct gs as [g|]; [|constructor].
    destruct (process_obsreq g eaddr req sig) as [e|r] eqn:Ep; [constructor|].
    apply obsreq_iff in Ep as (-> & Hd & a & Hv). eapply DkReq; [reflexivity|exact Hn|reflexivity|exact Hv|exact Hd].
  - rewrite dispatch_unknown. constructor.
Qed.

(* consequences, in the form the property uses *)
Lemma dispatch_req_only_verified disable self t gs from m r :
  In (OutReq r) (snd (dispatch disable self t gs from m)) ->
  exists eaddr sig g a, m = MObsReq eaddr r sig /\ from <> self /\ gs = Some g /\ req_valid g eaddr r sig a /\ decode_req r = true.
Proof.
  intros Hin. destruct (dispatch_classified disable self t gs from m) as [|o Em Hn|v Em Hn|eaddr r0 sig g a Em Hn Eg Hv Hd|eaddr hb sig g t' v Em Hn Eg Ep];
    cbn [snd] in Hin.
  - destruct Hin.
  - destruct Hin as [E|[]]. discriminate E.
  - destruct Hin as [E|[]]. discriminate E.
  - destruct Hin as [E|[]]. inversion E; subst r0. exists eaddr, sig, g, a. auto.
  - destruct Hin.
Qed.

Lemma dispatch_table_only_verified disable self t gs from m :
  fst (dispatch disable self t gs from m) = t \/
  exists eaddr hb sig g v, m = MHeartbeat eaddr hb sig /\ from <> self /\ gs = Some g /\
    process_heartbeat g t from eaddr hb sig (p2p_loop_hb_disable disable) = (fst (dispatch disable self t gs from m), HOk v).
Proof.
  destruct (dispatch_classified disable self t gs from m) as [|o Em Hn|v Em Hn|eaddr r0 sig g a Em Hn Eg Hv Hd|eaddr hb sig g t' v Em Hn Eg Ep];
    cbn [fst]; auto.
  right. exists eaddr, hb, sig, g, v. auto.
Qed.

(* without a guardian set: the table is untouched and the only outputs are handed-on observations / VAAs *)
Lemma dispatch_no_set disable self t from m :
  fst (dispatch disable self t None from m) = t /\
  (snd (dispatch disable self t None from m) = [] \/
   (exists o, m = MObservation o /\ snd (dispatch disable self t None from m) = [OutObs o]) \/
   (exists v, m = MSignedVaa v /\ snd (dispatch disable self t None from m) = [OutVaa v])).
Proof.
  destruct (dispatch_classified disable self t None from m) as [|o Em Hn|v Em Hn|eaddr r0 sig g a Em Hn Eg Hv Hd|eaddr hb sig g t' v Em Hn Eg Ep];
    cbn [fst snd]; try discriminate; (split; [reflexivity|]); [left; reflexivity|right; left; exists o; auto|right; right; exists v; auto].
Qed.

(* ---- histories of loop iterations interleaved with set changes, local requests, cleanup ticks, own heartbeats *)
Lemma loop_step_recv disable self st from m :
  lstep disable self st (LRecv from m) =
  (with_tbl st (fst (dispatch disable self (n_tbl st) (n_gs st) from m)), snd (dispatch disable self (n_tbl st) (n_gs st) from m)).
Proof. cbn [P2PVerify.loop_step]. destruct (dispatch disable self (n_tbl st) (n_gs st) from m). reflexivity. Qed.

Lemma loop_step_ignored disable self st from m : m = MInvalid \/ m = MUnknown \/ from = self -> lstep disable self st (LRecv from m) = (st, []).
Proof.
  intros H. rewrite loop_step_recv.
  assert (E : dispatch disable self (n_tbl st) (n_gs st) from m = (n_tbl st, [])).
  { destruct H as [->|[->| ->]]; [apply dispatch_invalid|apply dispatch_unknown|apply dispatch_loopback]. }
  rewrite E. cbn [fst snd]. rewrite with_tbl_id. reflexivity.
Qed.

Lemma loop_step_gs disable self st e :
  n_gs (fst (lstep disable self st e)) = match e with LSetGS ks => Some ks | _ => n_gs st end.
Proof.
  destruct e as [from m|ks|r|now|a p v]; [rewrite loop_step_recv| | | |]; cbn [P2PVerify.loop_step fst with_tbl n_gs]; try reflexivity.
  destruct (set_heartbeat (n_tbl st) a p v); reflexivity.
Qed.

Lemma loop_run_cons disable self st e es :
  lrun disable self st (e :: es) =
  (fst (lrun disable self (fst (lstep disable self st e)) es), snd (lstep disable self st e) :: snd (lrun disable self (fst (lstep disable self st e)) es)).
Proof. cbn [P2PVerify.loop_run]. destruct (lstep disable self st e) as [st1 o1]. cbn [fst snd]. destruct (lrun disable self st1 es). reflexivity. Qed.

(* the i-th output list is the output of the i-th event in the state reached by the events before it *)
Lemma loop_run_nth disable self es : forall st i outs,
  nth_error (snd (lrun disable self st es)) i = Some outs ->
  exists e, nth_error es i = Some e /\ outs = snd (lstep disable self (fst (lrun disable self st (firstn i es))) e).
Proof.
  induction es as [|e es IH]; intros st i outs Hn.
  - destruct i; discriminate Hn.
  - rewrite loop_run_cons in Hn. cbn [snd] in Hn. destruct i as [|i].
    + cbn [nth_error] in Hn. inversion Hn; subst outs. exists e. split; reflexivity.
    + cbn [nth_error] in Hn. destruct (IH _ _ _ Hn) as (e' & H1 & H2). exists e'. split; [exact H1|].
      cbn [firstn]. rewrite loop_run_cons. cbn [fst]. exact H2.
Qed.

Lemma loop_no_set_gs disable self es : forall st, (forall ks, ~ In (LSetGS ks) es) -> n_gs (fst (lrun disable self st es)) = n_gs st.
Proof.
  induction es as [|e es IH]; intros st Hno; [reflexivity|].
  rewrite loop_run_cons. cbn [fst]. rewrite IH by (intros ks Hin; apply (Hno ks); right; exact Hin).
  rewrite loop_step_gs. destruct e as [from m|ks|r|now|a p v]; try reflexivity. exfalso. apply (Hno ks). left; reflexivity.
Qed.

(* ---- refinement: the loop is the earlier gossip model (gossip_step) on the embedded events *)
Lemma embed_short self (e : levent O V) : embed self e = [] \/ exists x, embed self e = [x].
Proof.
  destruct e as [from m|ks|r|now|a p v]; cbn [embed]; eauto.
  destruct m; eauto; destruct (p2p_loop_loopback_guard && bytes_eqb from self); eauto.
Qed.

Lemma loop_step_embed disable self st e :
  fst (lstep disable self st e) = fst (gossip_run (p2p_loop_hb_disable disable) st (embed self e)).
Proof.
  destruct e as [from m|ks|r|now|a p v].
  - rewrite loop_step_recv. destruct st as [gs t]. cbn [n_tbl n_gs fst].
    destruct m as [|eaddr hb sig|o|v|eaddr req sig|]; unfold P2PVerify.p2p_dispatch, embed;
      try (destruct (p2p_loop_loopback_guard && bytes_eqb from self)); cbn [fst P2PVerify.gossip_run]; try reflexivity.
    + cbn [P2PVerify.gossip_step n_gs n_tbl]. destruct gs as [g|]; [|reflexivity].
      destruct (process_heartbeat g t from eaddr hb sig (p2p_loop_hb_disable disable)) as [t' [e|v]]; reflexivity.
    + cbn [P2PVerify.gossip_step n_gs n_tbl]. destruct gs as [g|]; [|reflexivity].
      destruct (process_obsreq g eaddr req sig); reflexivity.
  - reflexivity.
  - reflexivity.
  - reflexivity.
  - cbn [P2PVerify.loop_step embed P2PVerify.gossip_run P2PVerify.gossip_step]. destruct (set_heartbeat (n_tbl st) a p v); reflexivity.
Qed.

Lemma loop_refines disable self es : forall st,
  fst (lrun disable self st es) = fst (gossip_run (p2p_loop_hb_disable disable) st (flat_map (embed self) es)).
Proof.
  induction es as [|e es IH]; intros st; [reflexivity|].
  rewrite loop_run_cons. cbn [fst flat_map]. rewrite gossip_run_app. rewrite IH, loop_step_embed.
  destruct (gossip_run (p2p_loop_hb_disable disable) st (embed self e)) as [sa oa]. cbn [fst].
  destruct (gossip_run (p2p_loop_hb_disable disable) sa (flat_map (embed self) es)) as [sb ob]. reflexivity.
Qed.

Lemma embed_split self (es : list (levent O V)) : forall pre m post, flat_map (embed self) es = pre ++ m :: post ->
  exists pe e po, es = pe ++ e :: po /\ embed self e = [m] /\ flat_map (embed self) pe = pre.
Proof.
  induction es as [|e es IH]; intros pre m post E.
  - cbn [flat_map] in E. destruct pre; discriminate E.
  - cbn [flat_map] in E. destruct (embed_short self e) as [E0|(x & E1)].
    + rewrite E0 in E. cbn [app] in E. destruct (IH _ _ _ E) as (pe & e' & po & -> & H2 & H3).
      exists (e :: pe), e', po. split; [reflexivity|]. split; [exact H2|]. cbn [flat_map]. rewrite E0, H3. reflexivity.
    + rewrite E1 in E. cbn [app] in E. destruct pre as [|y pre].
      * cbn [app] in E. inversion E; subst x. exists [], e, es. auto.
      * cbn [app] in E. inversion E as [[Exy Et]]. subst y. destruct (IH _ _ _ Et) as (pe & e' & po & -> & H2 & H3).
        exists (e :: pe), e', po. split; [reflexivity|]. split; [exact H2|]. cbn [flat_map]. rewrite E1, H3. reflexivity.
Qed.

Lemma embed_own_inv self (e : levent O V) a p v : embed self e = [GOwn a p v] -> e = LOwn a p v.
Proof.
  destruct e as [from m|ks|r|now|a0 p0 v0]; cbn [embed]; try discriminate.
  - destruct m; try discriminate; destruct (p2p_loop_loopback_guard && bytes_eqb from self); discriminate.
  - intros E; inversion E; reflexivity.
Qed.

Lemma embed_hb_inv self (e : levent O V) p eaddr hb sig : embed self e = [GHeartbeat p eaddr hb sig] -> e = LRecv p (MHeartbeat eaddr hb sig) /\ p <> self.
Proof.
  destruct e as [from m|ks|r|now|a0 p0 v0]; cbn [embed]; try discriminate.
  destruct m as [|eaddr0 hb0 sig0|o|v|eaddr0 req0 sig0|]; try discriminate.
  - rewrite loopback_guard_on. cbn [andb]. destruct (bytes_eqb_spec from self) as [E|Hn]; [discriminate|].
    intros E; inversion E; subst. split; [reflexivity|exact Hn].
  - destruct (p2p_loop_loopback_guard && bytes_eqb from self); discriminate.
Qed.

(* the heartbeat table never exceeds the per-guardian cap, whatever arrives in whatever order *)
Theorem loop_table_bound disable self es a row :
  tl_get a (n_tbl (fst (lrun disable self ninit es))) = Some row -> Z.of_nat (length row) <= gst_max_nodes.
Proof. rewrite loop_refines. apply table_bound. Qed.

(* every entry of the heartbeat table comes from an envelope of the history, received from another peer, that passed the
   heartbeat verifier under the guardian set in force when it was dispatched (or is one of the node's own heartbeats) *)
Theorem loop_table_provenance disable self es a row p v :
  p2p_loop_hb_disable disable = false ->
  tl_get a (n_tbl (fst (lrun disable self ninit es))) = Some row -> tl_get p row = Some v ->
  exists pe e po, es = pe ++ e :: po /\
    (e = LOwn a p v \/
     exists eaddr sig gs, e = LRecv p (MHeartbeat eaddr (hv_payload v) sig) /\ p <> self /\
       n_gs (fst (lrun disable self ninit pe)) = Some gs /\ decode_hb (hv_payload v) = Some (hv_ts v) /\
       hb_valid gs eaddr (hv_payload v) sig a).
Proof.
  intros Hd Hg Hp. rewrite loop_refines in Hg.
  destruct (table_provenance_run recover keccak decode_hb decode_req _ _ _ _ _ _ Hg Hp) as (pre & m & post & E & J).
  destruct (embed_split self es _ _ _ E) as (pe & e & po & -> & Ee & Epre). exists pe, e, po. split; [reflexivity|].
  destruct J as [->|(eaddr & sig & gs & -> & Hgs & Hdec & Hv)].
  - left. apply embed_own_inv in Ee. exact Ee.
  - right. apply embed_hb_inv in Ee as [-> Hn]. exists eaddr, sig, gs. rewrite loop_refines, Epre. rewrite Hd in Hv. auto.
Qed.

(* every request that reaches the chain watchers through obsvReqC was either originated locally or arrived from another peer
   and passed the request verifier under the guardian set in force at that moment *)
Theorem loop_requests_only_verified disable self es i outs r :
  nth_error (snd (lrun disable self ninit es)) i = Some outs -> In (OutReq r) outs ->
  nth_error es i = Some (LLocalReq r) \/
  exists from eaddr sig gs a, nth_error es i = Some (LRecv from (MObsReq eaddr r sig)) /\ from <> self /\
    n_gs (fst (lrun disable self ninit (firstn i es))) = Some gs /\ req_valid gs eaddr r sig a /\ decode_req r = true.
Proof.
  intros Hn Hin. destruct (loop_run_nth _ _ _ _ _ _ Hn) as (e & He & ->).
  destruct e as [from m|ks|r0|now|a p v].
  - rewrite loop_step_recv in Hin. cbn [snd] in Hin.
    apply dispatch_req_only_verified in Hin as (eaddr & sig & g & a & -> & Hns & Hg & Hv & Hd).
    right. exists from, eaddr, sig, g, a. auto.
  - destruct Hin.
  - destruct Hin as [E|[]]. inversion E; subst r0. left. exact He.
  - destruct Hin.
  - cbn [P2PVerify.loop_step] in Hin. destruct (set_heartbeat _ a p v); destruct Hin.
Qed.

(* what reaches the processor through obsvC / signedInC is exactly what another peer sent, unverified *)
Theorem loop_passthrough disable self es i outs :
  nth_error (snd (lrun disable self ninit es)) i = Some outs ->
  (forall o, In (OutObs o) outs -> exists from, nth_error es i = Some (LRecv from (MObservation o)) /\ from <> self /\ outs = [OutObs o]) /\
  (forall v, In (OutVaa v) outs -> exists from, nth_error es i = Some (LRecv from (MSignedVaa v)) /\ from <> self /\ outs = [OutVaa v]).
Proof.
  intros Hn. destruct (loop_run_nth _ _ _ _ _ _ Hn) as (e & He & ->).
  destruct e as [from m|ks|r0|now|a p v].
  - rewrite loop_step_recv. cbn [snd].
    destruct (dispatch_classified disable self (n_tbl (fst (lrun disable self ninit (firstn i es)))) (n_gs (fst (lrun disable self ninit (firstn i es)))) from m)
      as [|o Em Hns|v Em Hns|eaddr r0 sig g a Em Hns Eg Hv Hd|eaddr hb sig g t' v Em Hns Eg Ep]; split; intros x Hin; cbn [In] in Hin;
      try (destruct Hin as [E|[]]; try discriminate E); try destruct Hin.
    + inversion E; subst x m. exists from. auto.
    + inversion E; subst x m. exists from. auto.
  - split; intros x [].
  - split; intros x [E|[]]; discriminate E.
  - split; intros x [].
  - cbn [P2PVerify.loop_step]. destruct (set_heartbeat _ a p v); split; intros x [].
Qed.

Lemma In_firstn {A} (x : A) n l : In x (firstn n l) -> In x l.
Proof. intros H. rewrite <- (firstn_skipn n l). apply in_or_app. left; exact H. Qed.

(* with no guardian set ever installed nothing but the hand-on of observations / VAAs (and local requests) happens: no
   gossip request is forwarded and the table only holds the node's own heartbeats *)
Theorem loop_no_set disable self es : (forall ks, ~ In (LSetGS ks) es) ->
  (forall i outs r, nth_error (snd (lrun disable self ninit es)) i = Some outs -> In (OutReq r) outs -> nth_error es i = Some (LLocalReq r)) /\
  (forall a row p v, tl_get a (n_tbl (fst (lrun disable self ninit es))) = Some row -> tl_get p row = Some v -> In (LOwn a p v) es).
Proof.
  intros Hno. split.
  - intros i outs r Hn Hin. destruct (loop_requests_only_verified _ _ _ _ _ _ Hn Hin) as [H|(from & eaddr & sig & gs & a & _ & _ & Hgs & _)]; [exact H|].
    rewrite loop_no_set_gs in Hgs by (intros ks Hk; apply (Hno ks); eapply In_firstn; exact Hk). discriminate Hgs.
  - intros a row p v Hg Hp. rewrite loop_refines in Hg.
    destruct (table_provenance_run recover keccak decode_hb decode_req _ _ _ _ _ _ Hg Hp) as (pre & m & post & E & J).
    destruct (embed_split self es _ _ _ E) as (pe & e & po & -> & Ee & Epre).
    destruct J as [->|(eaddr & sig & gs & -> & Hgs & _)].
    + apply embed_own_inv in Ee. subst e. apply in_or_app. right. left. reflexivity.
    + rewrite <- Epre, <- loop_refines in Hgs.
      rewrite loop_no_set_gs in Hgs by (intros ks Hk; apply (Hno ks); apply in_or_app; left; exact Hk). discriminate Hgs.
Qed.
End L.
