(* Extension X10, part 4: governance end to end (proofs/GovPipelineProofs.v [gov_end_to_end]) for ANY quorum subset of a larger
   guardian set.  The set in force is the operators' keys together with any list [rest] of further members, in any order; NOTHING is
   assumed about [rest] (no node, no signer, no delivery): they may stay silent, and whatever the adversary sends in their name is an
   admissible step of the window ([adversarial_step_admissible]).  The operators suffice as soon as twice the number of the others is
   below their own number (the quorum formula of the Go node). *)
From Coq Require Import Strings.String.
From Coq Require Import List ZArith Lia Bool Arith Sorting.Permutation.
From Coq Require Import Strings.Byte.
From WH Require Import lib.Bytes lib.Ralph gen.Extracted gen.ExtractedGov model.Vaa model.AlphConv model.Governance proofs.GovernanceProofs.
From WH Require Import model.Processor model.ProcSpec model.System model.GovPipeline
     proofs.VaaProofs proofs.QuorumProofs proofs.ProcC01Proofs proofs.ProcC02Proofs proofs.SystemProofs proofs.SystemLiveProofs proofs.GovPipelineProofs.
Import ListNotations.
Import ExtractedGov.GoPay ExtractedGov.RalGov ExtractedGov.RalGlue.
Open Scope Z_scope.

(* the operators are a quorum of the whole set as soon as the others are fewer than half of them *)
Lemma quorum_of_larger_set (s r : nat) : (2 * r < s)%nat -> go_quorum (Z.of_nat (s + r)) <= Z.of_nat s.
Proof.
  intros H. rewrite go_quorum_spec by lia. unfold spec_quorum.
  pose proof (Z.div_mod (2 * Z.of_nat (s + r)) 3 ltac:(lia)). pose proof (Z.mod_pos_bound (2 * Z.of_nat (s + r)) 3 ltac:(lia)). lia.
Qed.

Section QuorumSubset.
Variable recover : bytes -> bytes -> option bytes.
Variable keccak : bytes -> bytes.
Variable gov_chain : Z.
Variable gov_addr : bytes.
Variable owns : nat -> addr.
Variable signs : nat -> bytes -> bytes.
Notation dg := (Processor.dg keccak).
Notation nstep := (System.nstep recover keccak gov_chain gov_addr owns signs).
Notation nrun := (System.nrun recover keccak gov_chain gov_addr owns signs).
Notation nstepf := (fun n x => fst (nstep n x)).
Hypothesis keccak_len : forall b, length (keccak b) = 32%nat.

(* junk: whatever item the adversary hands to a node - an observation in the name of any guardian with any signature, any byte string
   as a VAA - and any delivery or loopback is an admissible step of the pre-history and of the window: none of the window premises
   (well-formedness, no set change / cleanup tick, no aliasing injection) excludes it *)
Lemma adversarial_step_admissible v x : (match x with NAdv _ _ | NDeliver _ _ | NLoop _ _ => True | NEnv _ _ => False end) ->
  nop_wf x /\ calm_nop x = true /\ no_alias_nop keccak v x.
Proof. destruct x; intros H; try contradiction; repeat split. Qed.

Theorem gov_e2e_quorum_subset N xs0 xs i G (S : list nat) (rest : list addr) k c e v local tseq r :
  (i < N)%nat -> Forall nop_wf xs0 -> Forall nop_wf xs ->
  let n0 := fst (nrun (ninit N) xs0) in
  let n1 := fst (nrun n0 xs) in
  let h := dg v in
  envelope_ok c e v -> req_wf c e -> payload v <> [] -> accepted_by (module_of k) (action_of k) c e v ->
  (forall st0, nth_error (nodes n0) i = Some st0 -> cur st0 = Some G /\ alookup h (agg st0) = None) -> ProcSpec.gs_wf G ->
  (forall x, In x xs -> target x = i -> calm_nop x = true) ->
  (forall x, In x xs -> target x = i -> no_alias_nop keccak v x) ->
  (* the set: the operators' keys and [rest], in any order; the operators outnumber twice the rest *)
  Permutation (keys G) (map owns S ++ rest) -> (2 * length rest < length S)%nat ->
  NoDup (map owns S) -> (forall j, In j S -> honest_member recover owns signs G j) -> In i S ->
  happens nstepf (ev_injects i v) n0 xs ->
  (forall j, In j S -> j <> i -> happens nstepf (ev_delivered owns signs i j h) n0 xs) ->
  (forall st, nth_error (nodes n1) i = Some st -> forall o, In o (loopq st) -> o_hash o <> h) ->
  Forall (fun a => length a = 20%nat) (keys G) -> (length (keys G) <= 255)%nat -> e_gsi e = gidx G -> tseq <= e_seq e ->
  payload_parser k (contract_for c local tseq G) (RZ (e_tchain e)) (RB (payload v)) = Some r ->
  happens nstepf (ev_executable recover keccak gov_chain gov_addr owns signs i k (contract_for c local tseq G) r (e_seq e + 1)) n0 xs.
Proof.
  intros Hi Hw0 Hw. cbv zeta. intros He Hreq Hp Hacc Hst0 Hgwf Hcalm Hna Hperm Hmaj ND Hhon HiS Hinj Hdel Hlq FK LK Hgsi Hts Hpar.
  apply (gov_end_to_end recover keccak gov_chain gov_addr owns signs keccak_len N xs0 xs i G S k c e v local tseq r); try assumption.
  rewrite (Permutation_length Hperm), app_length, map_length. apply quorum_of_larger_set. exact Hmaj.
Qed.
End QuorumSubset.
