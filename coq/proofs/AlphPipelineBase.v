(* The composed Alephium pipeline (model.AlphPipeline), part shared by C08 / C09 / C11.  Nothing in this file depends on the
   VALUES of the extracted guards of the watcher (confirmation test, page-loop exit, treatment of unconvertible events, nil
   tests of GetTokenInfo, re-observation filters); only on the extracted attestation comparison (all four components).
   0. the encodings of byte strings onto model.AlphWatcher's abstract identifiers are injective;
   1. SIMULATION: the abstraction commutes with every function and every step of the watcher, so the theorems about
      model.AlphWatcher (C08 / C09) hold for the composed watcher;
   2. the structural invariant of the composed watcher's state (every held event carries exactly the conversion of its raw
      fields) and its image under the abstraction; `faithful`: what a handed-over message is;
   3. at-most-once carried over.  (`faithful`, `unfit` and what they mean field by field: AlphPipelineRead.)
   C08-specific proofs: AlphPipelineSafety; C09-specific proofs: AlphPipelineProofs. *)
From Coq Require Import List ZArith Bool Lia Arith.
From Coq Require Import Strings.Byte.
From WH Require Import lib.Bytes gen.Extracted gen.ExtractedAlphPipe model.Vaa model.AlphPipeline proofs.AlphPipelineRead.
From WH Require model.AlphConv model.AlphWatcher proofs.AlphConvProofs proofs.AlphWatcherBase.
Import ListNotations.
Open Scope Z_scope.

Module WB := AlphWatcherBase.

(* ================================================================== 0. the encodings of byte strings are injective *)
Lemma unbe_acc_split : forall l acc, unbe_acc l acc = acc * 256 ^ Z.of_nat (length l) + unbe l.
Proof.
  induction l as [|b l IH]; intro acc.
  - unfold unbe. cbn. lia.
  - unfold unbe. cbn [unbe_acc length]. rewrite (IH (acc * 256 + Z_of_byte b)), (IH (0 * 256 + Z_of_byte b)).
    rewrite Nat2Z.inj_succ, Z.pow_succ_r by lia. ring.
Qed.

Lemma enc_split : forall b, enc b = 256 ^ Z.of_nat (length b) + unbe b.
Proof.
  intro b. unfold enc. unfold unbe at 1. cbn [unbe_acc]. rewrite unbe_acc_split. change (Z_of_byte x01) with 1. ring.
Qed.

Lemma enc_pos : forall b, 1 <= enc b.
Proof. intro b. rewrite enc_split. pose proof (unbe_nonneg b). assert (0 < 256 ^ Z.of_nat (length b)) by (apply Z.pow_pos_nonneg; lia). lia. Qed.

Lemma enc_inj : forall a b, enc a = enc b -> a = b.
Proof.
  intros a b H. rewrite !enc_split in H.
  pose proof (unbe_nonneg a) as A0. pose proof (unbe_bound a) as A1. pose proof (unbe_nonneg b) as B0. pose proof (unbe_bound b) as B1.
  assert (L : length a = length b).
  { destruct (lt_eq_lt_dec (length a) (length b)) as [[Hl|He]|Hl]; [exfalso|exact He|exfalso].
    - assert (256 ^ Z.of_nat (S (length a)) <= 256 ^ Z.of_nat (length b)) by (apply Z.pow_le_mono_r; lia).
      rewrite Nat2Z.inj_succ, Z.pow_succ_r in * by lia. lia.
    - assert (256 ^ Z.of_nat (S (length b)) <= 256 ^ Z.of_nat (length a)) by (apply Z.pow_le_mono_r; lia).
      rewrite Nat2Z.inj_succ, Z.pow_succ_r in * by lia. lia. }
  rewrite L in H. assert (U : unbe a = unbe b) by lia.
  rewrite <- (be_unbe a), <- (be_unbe b), L, U. reflexivity.
Qed.

Lemma enc_id_inj : forall a b, enc_id a = enc_id b -> a = b.
Proof.
  intros a b. unfold enc_id, W.alph_native_id. pose proof (enc_pos a) as Pa. pose proof (enc_pos b) as Pb.
  destruct (bytes_eqb_spec a alph_token_id) as [->|Na]; destruct (bytes_eqb_spec b alph_token_id) as [->|Nb]; intro H; try lia; [reflexivity|].
  apply enc_inj. lia.
Qed.

Lemma native_strings_differ : alph_native_symbol <> alph_native_name.
Proof. intro H. assert (E : bytes_eqb alph_native_symbol alph_native_name = true) by (apply bytes_eqb_eq; exact H). vm_compute in E. discriminate E. Qed.

Lemma enc_str_inj : forall a b, enc_str a = enc_str b -> a = b.
Proof.
  intros a b. unfold enc_str, W.alph_native_sym, W.alph_native_name. pose proof (enc_pos a) as Pa. pose proof (enc_pos b) as Pb.
  destruct (bytes_eqb_spec a alph_native_symbol) as [->|Na]; destruct (bytes_eqb_spec b alph_native_symbol) as [->|Nb];
    destruct (bytes_eqb_spec alph_native_symbol alph_native_name) as [E|_]; try (exfalso; exact (native_strings_differ E));
    try destruct (bytes_eqb_spec a alph_native_name) as [->|Na2]; try destruct (bytes_eqb_spec b alph_native_name) as [->|Nb2];
    intro H; try lia; try reflexivity.
  apply enc_inj. lia.
Qed.

Lemma enc_id_eqb : forall a b, (enc_id a =? enc_id b) = bytes_eqb a b.
Proof.
  intros a b. destruct (bytes_eqb_spec a b) as [->|N]; [apply Z.eqb_refl|]. apply Z.eqb_neq. intro H. apply N. apply enc_id_inj. exact H.
Qed.
Lemma enc_str_eqb : forall a b, (enc_str a =? enc_str b) = bytes_eqb a b.
Proof.
  intros a b. destruct (bytes_eqb_spec a b) as [->|N]; [apply Z.eqb_refl|]. apply Z.eqb_neq. intro H. apply N. apply enc_str_inj. exact H.
Qed.

Lemma abs_tok_inj : forall a b, abs_tok a = abs_tok b -> a = b.
Proof.
  intros [a1 a2 a3 a4] [b1 b2 b3 b4]. unfold abs_tok. cbn [C.t_id C.t_decimals C.t_symbol C.t_name]. intro H. injection H as H1 H2 H3 H4.
  apply enc_id_inj in H1. apply enc_str_inj in H3, H4. subst. reflexivity.
Qed.

(* ================================================================== 1. simulation: GetTokenInfo / validateAttestToken *)
Definition abs_ti (r : xti_res) : W.ti_res := match r with XTiOk t => W.TiOk (abs_tok t) | XTiErr => W.TiErr | XTiPanic => W.TiPanic end.
Definition abs_va (r : xva_res) : W.va_res := match r with XVaOk t => W.VaOk (abs_tok t) | XVaReject => W.VaReject | XVaPanic => W.VaPanic end.
Definition abs_shape (s : xshape) : W.shape := match s with XShErr => W.ShErr | XShPanic => W.ShPanic | XShOne v => W.ShOne (abs_val v) end.

Lemma abs_native : abs_tok native_info =
  {| W.ti_id := W.alph_native_id; W.ti_dec := alph_native_decimals; W.ti_sym := W.alph_native_sym; W.ti_name := W.alph_native_name |}.
Proof. vm_compute. reflexivity. Qed.

Lemma nth_abs_call : forall rs i, nth i (map abs_call rs) W.CFailed = abs_call (nth i rs XFailed).
Proof. intros rs i. change W.CFailed with (abs_call XFailed). apply map_nth. Qed.

Lemma sim_shape_test : forall rs t i, W.shape_test (map abs_call rs) t i = abs_shape (xshape_test rs t i).
Proof.
  intros rs t i. unfold W.shape_test, xshape_test. rewrite !nth_abs_call.
  destruct (nth t rs XFailed) as [|rt]; cbn [abs_call W.succeeded xsucceeded negb]; [reflexivity|].
  destruct (nth i rs XFailed) as [|[|v [|v' r]]]; reflexivity.
Qed.

Lemma sim_to_bytevec : forall v, W.to_bytevec (abs_val v) = match C.to_bytevec v with C.COk b => Some (enc_str (C.bytes_to_string b)) | C.CErr _ => None end.
Proof. intro v. destruct v as [| |ty s|ty s]; reflexivity. Qed.

Lemma sim_to_uint8 : forall v, W.to_uint8 (abs_val v) = match C.to_uint8 v with C.COk d => Some d | C.CErr _ => None end.
Proof. intro v. destruct v as [| |ty s|ty s]; reflexivity. Qed.

Lemma sim_get_token_info : forall id a, W.get_token_info (enc_id id) (abs_ans a) = abs_ti (xget_token_info id a).
Proof.
  intros id a. unfold W.get_token_info, xget_token_info.
  change W.alph_native_id with (enc_id alph_token_id). rewrite enc_id_eqb.
  destruct (bytes_eqb id alph_token_id) eqn:E.
  - cbn [abs_ti]. rewrite abs_native. reflexivity.
  - destruct a as [|rs]; [reflexivity|]. cbn [abs_ans]. rewrite map_length.
    destruct (negb (Nat.eqb (length rs) 3)); [reflexivity|].
    destruct alph_tokinfo_tests as [[t0 t1] t2]. rewrite !sim_shape_test.
    destruct (xshape_test rs t0 0) as [| |vs]; try reflexivity. cbn [abs_shape].
    destruct (xshape_test rs t1 1) as [| |vn]; try reflexivity. cbn [abs_shape].
    destruct (xshape_test rs t2 2) as [| |vd]; try reflexivity. cbn [abs_shape].
    rewrite !sim_to_bytevec, sim_to_uint8.
    destruct (C.to_bytevec vs) as [sb|]; [|reflexivity]. destruct (C.to_bytevec vn) as [nb|]; [|reflexivity].
    destruct (C.to_uint8 vd) as [d|]; reflexivity.
Qed.

Lemma attest_cmp_all : alph_pipe_attest_cmp = (true, true, true, true).
Proof. reflexivity. Qed.

Lemma xtokinfo_eqb_eq : forall a b, xtokinfo_eqb a b = true <-> a = b.
Proof.
  intros [a1 a2 a3 a4] [b1 b2 b3 b4]. unfold xtokinfo_eqb. rewrite attest_cmp_all. cbn [implb C.t_id C.t_decimals C.t_symbol C.t_name].
  rewrite !andb_true_iff, !bytes_eqb_eq, Z.eqb_eq. split.
  - intros [[[-> ->] ->] ->]. reflexivity.
  - intro H. injection H as -> -> -> ->. auto.
Qed.

Lemma sim_tokinfo_eqb : forall a b, W.tokinfo_eqb (abs_tok a) (abs_tok b) = xtokinfo_eqb a b.
Proof.
  intros a b. unfold W.tokinfo_eqb, xtokinfo_eqb, abs_tok. rewrite attest_cmp_all. cbn [implb W.ti_id W.ti_dec W.ti_sym W.ti_name].
  rewrite enc_id_eqb, !enc_str_eqb. reflexivity.
Qed.

Lemma sim_validate_attest : forall w a, W.validate_attest (abs_msg w) (abs_ans a) = abs_va (xvalidate_attest w a).
Proof.
  intros w a. unfold W.validate_attest, xvalidate_attest, abs_msg. cbn [W.m_tok].
  destruct (C.parse_attest_token (C.w_payload w)) as [ti|]; [|reflexivity].
  change (W.ti_id (abs_tok ti)) with (enc_id (C.t_id ti)). rewrite sim_get_token_info.
  destruct (xget_token_info (C.t_id ti) a) as [t| |]; cbn [abs_ti]; try reflexivity.
  rewrite sim_tokinfo_eqb. destruct (xtokinfo_eqb ti t); reflexivity.
Qed.

Lemma sim_is_attest : forall w, W.is_attest (abs_msg w) = xis_attest w.
Proof. reflexivity. Qed.
Lemma sim_is_transfer : forall w, W.is_transfer (abs_msg w) = xis_transfer w.
Proof. reflexivity. Qed.
Lemma sim_confirmed : forall mn w h now height, W.confirmed mn (abs_msg w) h now height = xconfirmed mn w h now height.
Proof. reflexivity. Qed.

(* ================================================================== 1b. simulation: the polling path *)
Definition abs_cls (c : xcls) : W.cls := match c with XKeep u => W.Keep (abs_u u) | XSkip => W.Skip | XAbort => W.Abort | XPanic => W.Panic end.
Definition abs_hu (r : xhu_res) : W.hu_res := match r with XHuOk l => W.HuOk (map abs_u l) | XHuAbort => W.HuAbort | XHuPanic => W.HuPanic end.
Definition abs_poll (r : xpoll_res) : W.poll_res :=
  match r with XPIdle => W.PIdle | XPBatch f b n => W.PBatch f (map abs_u b) n | XPFatal => W.PFatal | XPSpin => W.PSpin | XPPanic => W.PPanic end.
Definition abs_tok_fn (tok : Z -> xmc_ans) : Z -> W.mc_ans := fun i => abs_ans (tok i).
Definition abs_pg (pg : nat -> Z -> xpage_ans) : nat -> Z -> W.page_ans := fun k s => abs_page (pg k s).

Lemma sim_to_unconfirmed : forall e, W.to_unconfirmed (abs_event e) = option_map abs_msg (xto_unconfirmed e).
Proof.
  intro e. unfold W.to_unconfirmed, xto_unconfirmed, abs_event. cbn [W.e_index W.e_conv].
  destruct (x_index e =? alph_wm_event_index); reflexivity.
Qed.

Lemma sim_classify : forall a e, W.classify (abs_ans a) (abs_event e) = abs_cls (xclassify a e).
Proof.
  intros a e. unfold W.classify, xclassify. rewrite sim_to_unconfirmed.
  destruct (xto_unconfirmed e) as [w|]; cbn [option_map]; [|destruct alph_unconv_aborts; reflexivity].
  rewrite sim_is_attest. destruct (xis_attest w); [|reflexivity].
  rewrite sim_validate_attest. destruct (xvalidate_attest w a); reflexivity.
Qed.

Lemma sim_handle_unconfirmed : forall tok evs idx,
  W.handle_unconfirmed (abs_tok_fn tok) idx (map abs_event evs) = abs_hu (xhandle_unconfirmed tok idx evs).
Proof.
  intros tok evs. induction evs as [|e t IH]; intro idx; cbn [map W.handle_unconfirmed xhandle_unconfirmed]; [reflexivity|].
  unfold abs_tok_fn at 1. rewrite sim_classify. destruct (xclassify (tok idx) e) as [u| | |]; cbn [abs_cls]; try reflexivity.
  - rewrite IH. destruct (xhandle_unconfirmed tok (idx + 1) t); reflexivity.
  - apply IH.
Qed.

Lemma sim_page_loop : forall pg tok count fuel k from acc,
  W.page_loop (abs_pg pg) (abs_tok_fn tok) fuel k from count (map abs_u acc) = abs_poll (xpage_loop pg tok fuel k from count acc).
Proof.
  intros pg tok count. induction fuel as [|f IH]; intros k from acc; cbn [W.page_loop xpage_loop]; [reflexivity|].
  unfold abs_pg at 1. destruct (pg k from) as [|evs next]; cbn [abs_page]; [reflexivity|].
  rewrite sim_handle_unconfirmed. destruct (xhandle_unconfirmed tok from evs) as [l| |]; cbn [abs_hu]; try reflexivity.
  rewrite <- map_app. destruct (alph_page_exit next count); [reflexivity|apply IH].
Qed.

Lemma sim_poll : forall cnt pg tok from, W.poll cnt (abs_pg pg) (abs_tok_fn tok) from = abs_poll (xpoll cnt pg tok from).
Proof.
  intros cnt pg tok from. unfold W.poll, xpoll. destruct cnt as [count|]; [|reflexivity].
  destruct (count =? from); [reflexivity|]. apply (sim_page_loop pg tok count _ 0%nat from []).
Qed.

(* ================================================================== 1c. simulation: the event loop *)
Definition abs_conf (x : xuevent * W.header) : W.uevent * W.header := (abs_u (fst x), snd x).
Definition abs_blk (r : xblk_res) : W.blk_res := match r with XBErr => W.BErr | XBOk k conf => W.BOk (option_map abs_pblock k) (map abs_conf conf) end.

Lemma sim_add_event : forall p u, W.add_event (map abs_pblock p) (abs_u u) = map abs_pblock (xadd_event p u).
Proof.
  intros p u. induction p as [|b t IH]; cbn [map W.add_event xadd_event]; [reflexivity|].
  change (W.pb_hash (abs_pblock b)) with (xpb_hash b). change (W.e_block (W.u_ev (abs_u u))) with (x_block (xu_ev u)).
  destruct (xpb_hash b =? x_block (xu_ev u)); cbn [map].
  - unfold abs_pblock. cbn [xpb_hash xpb_hdr xpb_evs W.pb_hdr W.pb_evs]. rewrite map_app. reflexivity.
  - rewrite IH. reflexivity.
Qed.

Lemma sim_add_batch : forall l p, W.add_batch (map abs_pblock p) (map abs_u l) = map abs_pblock (xadd_batch p l).
Proof.
  unfold W.add_batch, xadd_batch. induction l as [|u l IH]; intro p; cbn [map fold_left]; [reflexivity|].
  rewrite sim_add_event. apply IH.
Qed.

Lemma filter_map_comm : forall {A B} (g : A -> B) (f : B -> bool) (l : list A), filter f (map g l) = map g (filter (fun x => f (g x)) l).
Proof.
  intros A B g f l. induction l as [|x l IH]; [reflexivity|]. cbn [map filter]. destruct (f (g x)); cbn [map]; rewrite IH; reflexivity.
Qed.

Lemma sim_process_block : forall mn height now mc hd b,
  W.process_block mn height now mc hd (abs_pblock b) = abs_blk (xprocess_block mn height now mc hd b).
Proof.
  intros mn height now mc hd b. unfold W.process_block, xprocess_block.
  change (W.pb_hash (abs_pblock b)) with (xpb_hash b). change (W.pb_hdr (abs_pblock b)) with (xpb_hdr b).
  change (W.pb_evs (abs_pblock b)) with (map abs_u (xpb_evs b)).
  destruct (mc (xpb_hash b)) as [canon|]; [|reflexivity].
  destruct (match xpb_hdr b with Some h => Some h | None => hd (xpb_hash b) end) as [h|]; [|reflexivity].
  cbv zeta. rewrite !filter_map_comm. cbn [abs_blk]. f_equal.
  - change (fun x => negb (W.confirmed mn (W.u_msg (abs_u x)) h now height)) with (fun u => negb (xconfirmed mn (xu_msg u) h now height)).
    destruct (filter (fun u => negb (xconfirmed mn (xu_msg u) h now height)) (xpb_evs b)) as [|x r]; reflexivity.
  - destruct canon; [|reflexivity]. rewrite !map_map. reflexivity.
Qed.

Lemma sim_process_blocks : forall mn height now mc hd p,
  W.process_blocks mn height now mc hd (map abs_pblock p) =
  option_map (fun r => (map abs_pblock (fst r), map abs_conf (snd r))) (xprocess_blocks mn height now mc hd p).
Proof.
  intros mn height now mc hd p. induction p as [|b t IH]; cbn [map W.process_blocks xprocess_blocks]; [reflexivity|].
  rewrite sim_process_block. destruct (xprocess_block mn height now mc hd b) as [|k c]; cbn [abs_blk]; [reflexivity|].
  rewrite IH. destruct (xprocess_blocks mn height now mc hd t) as [[p' c']|]; cbn [option_map fst snd]; [|reflexivity].
  rewrite map_app. destruct k; reflexivity.
Qed.

Lemma abs_fwd_mk : forall u h, abs_fwd (mkxfwd (xu_ev u) (xu_msg u) (xu_chain u) h) = W.mkfwd (abs_u u) h.
Proof. reflexivity. Qed.

Lemma sim_handle_confirmed : forall bridge conf,
  W.handle_confirmed (enc_id bridge) (map abs_conf conf) =
  (map abs_fwd (fst (xhandle_confirmed bridge conf)), snd (xhandle_confirmed bridge conf)).
Proof.
  intros bridge conf. induction conf as [|[u h] t IH]; cbn [map W.handle_confirmed xhandle_confirmed]; [reflexivity|].
  unfold abs_conf at 1. cbn [fst snd]. change (W.e_index (W.u_ev (abs_u u))) with (x_index (xu_ev u)).
  destruct (x_index (xu_ev u) =? alph_wm_event_index); [|reflexivity].
  rewrite IH. destruct (xhandle_confirmed bridge t) as [f e]. cbn [fst snd].
  change (W.m_sender (W.u_msg (abs_u u))) with (enc_id (C.w_sender (xu_msg u))). rewrite enc_id_eqb.
  destruct (bytes_eqb (C.w_sender (xu_msg u)) bridge); reflexivity.
Qed.

(* ================================================================== 1d. simulation: re-observation *)
Definition abs_gx (txid : bytes) (x : xtevent * xuevent * W.header) : W.tevent * W.uevent * W.header :=
  (abs_tevent txid (fst (fst x)), abs_u (snd (fst x)), snd x).
Definition abs_ge (txid : bytes) (r : xge_res) : W.ge_res :=
  match r with XGeErr => W.GeErr | XGePanic => W.GePanic | XGeOk l => W.GeOk (map (abs_gx txid) l) end.

Lemma abs_ge_cons : forall txid x r, W.ge_cons (abs_gx txid x) (abs_ge txid r) = abs_ge txid (xge_cons x r).
Proof. intros txid x r. destruct r; reflexivity. Qed.

Lemma sim_gov_events : forall c txid blk hd tok evs pos,
  W.gov_events (abs_cfg c) blk hd (abs_tok_fn tok) pos (map (abs_tevent txid) evs) = abs_ge txid (xgov_events c txid blk hd tok pos evs).
Proof.
  intros c txid blk hd tok evs. induction evs as [|te t IH]; intro pos; cbn [map W.gov_events xgov_events]; [reflexivity|].
  cbv zeta. rewrite IH.
  change (W.e_index (W.t_ev (abs_tevent txid te))) with (x_index (with_txid txid (xt_ev te))).
  change (W.t_addr (abs_tevent txid te)) with (xt_addr te). change (W.c_gov (abs_cfg c)) with (xc_gov c).
  change (W.e_block (W.t_ev (abs_tevent txid te))) with (x_block (with_txid txid (xt_ev te))).
  change (W.e_conv (W.t_ev (abs_tevent txid te))) with (option_map abs_msg (conv (with_txid txid (xt_ev te)))).
  destruct (negb (x_index (with_txid txid (xt_ev te)) =? alph_wm_event_index)); [reflexivity|].
  destruct (alph_reobs_addr_filter && negb (xt_addr te =? xc_gov c)); [reflexivity|].
  destruct (alph_reobs_block_filter && negb (x_block (with_txid txid (xt_ev te)) =? blk)); [reflexivity|].
  destruct (hd (x_block (with_txid txid (xt_ev te)))) as [h|]; [|reflexivity].
  destruct (conv (with_txid txid (xt_ev te))) as [w|]; cbn [option_map]; [|reflexivity].
  rewrite sim_is_attest. destruct (xis_attest w).
  - unfold abs_tok_fn at 1. rewrite sim_validate_attest. destruct (xvalidate_attest w (tok pos)) as [ti| |]; cbn [abs_va]; try reflexivity.
    rewrite <- abs_ge_cons. reflexivity.
  - rewrite <- abs_ge_cons. reflexivity.
Qed.

(* what getGovernanceEventsByTxId returns: every element carries the conversion of its fields under the request's tx id *)
Definition gov_ok (txid : bytes) (x : xtevent * xuevent * W.header) : Prop :=
  let '(te, u, h) := x in
  xu_ev u = with_txid txid (xt_ev te) /\ conv (xu_ev u) = Some (xu_msg u) /\ x_index (xu_ev u) = alph_wm_event_index.

Lemma xge_cons_ok : forall txid x r l, gov_ok txid x -> (forall l', r = XGeOk l' -> Forall (gov_ok txid) l') -> xge_cons x r = XGeOk l -> Forall (gov_ok txid) l.
Proof.
  intros txid x r l Hx Hr H. destruct r as [| |l']; try discriminate H. cbn [xge_cons] in H. injection H as <-.
  constructor; [exact Hx|apply Hr; reflexivity].
Qed.

Lemma xgov_events_ok : forall c txid blk hd tok evs pos l, xgov_events c txid blk hd tok pos evs = XGeOk l -> Forall (gov_ok txid) l.
Proof.
  intros c txid blk hd tok evs. induction evs as [|te t IH]; intros pos l H; cbn [xgov_events] in H.
  - injection H as <-. constructor.
  - cbv zeta in H.
    destruct (negb (x_index (with_txid txid (xt_ev te)) =? alph_wm_event_index)) eqn:EI; [eapply IH; exact H|].
    destruct (alph_reobs_addr_filter && negb (xt_addr te =? xc_gov c)); [eapply IH; exact H|].
    destruct (alph_reobs_block_filter && negb (x_block (with_txid txid (xt_ev te)) =? blk)); [eapply IH; exact H|].
    destruct (hd (x_block (with_txid txid (xt_ev te)))) as [h|]; [|discriminate H].
    destruct (conv (with_txid txid (xt_ev te))) as [w|] eqn:Cv; [|discriminate H].
    apply negb_false_iff in EI. apply Z.eqb_eq in EI.
    destruct (xis_attest w).
    + destruct (xvalidate_attest w (tok pos)) as [ti| |]; [|eapply IH; exact H|discriminate H].
      eapply xge_cons_ok; [|intros l' E; eapply IH; exact E|exact H]. cbn [gov_ok xu_ev xu_msg]. auto.
    + eapply xge_cons_ok; [|intros l' E; eapply IH; exact E|exact H]. cbn [gov_ok xu_ev xu_msg]. auto.
Qed.

Lemma with_txid_fields : forall txid e, x_fields (with_txid txid e) = x_fields e.
Proof. reflexivity. Qed.

(* the second conversion in handleGovernanceMessages cannot fail: it converts the same fields with the same tx id *)
Lemma xhandle_gov_spec : forall txid bridge l, Forall (gov_ok txid) l ->
  xhandle_gov bridge l =
  map (fun x => mkxfwd (xu_ev (snd (fst x))) (xu_msg (snd (fst x))) (xu_chain (snd (fst x))) (snd x))
      (filter (fun x => bytes_eqb (C.w_sender (xu_msg (snd (fst x)))) bridge) l).
Proof.
  intros txid bridge l H. induction H as [|[[te u] h] t (E & Cv & _) Ht IH]; [reflexivity|].
  cbn [xhandle_gov filter fst snd]. unfold conv in Cv. rewrite E in Cv. cbn [x_fields x_txid with_txid] in Cv.
  rewrite E. cbn [x_txid with_txid].
  destruct (C.to_wormhole_message (x_fields (xt_ev te)) txid) as [w|err]; [|discriminate Cv]. injection Cv as ->.
  rewrite <- E. destruct (bytes_eqb (C.w_sender (xu_msg u)) bridge); cbn [map fst snd]; rewrite IH; reflexivity.
Qed.

Lemma Forall_filter : forall {A} (P : A -> Prop) f (l : list A), Forall P l -> Forall P (filter f l).
Proof.
  intros A P f l H. apply Forall_forall. intros x Hx. apply filter_In in Hx as [Hx _]. rewrite Forall_forall in H. apply H. exact Hx.
Qed.

Lemma sim_reobserve : forall c r,
  W.reobserve (abs_cfg c) (abs_reobs r) = (map abs_fwd (fst (xreobserve c r)), snd (xreobserve c r)).
Proof.
  intros c r. unfold W.reobserve, xreobserve.
  change (W.r_chain (abs_reobs r)) with (xr_chain r). change (W.r_txlen (abs_reobs r)) with (Z.of_nat (length (xr_txhash r))).
  change (W.r_status (abs_reobs r)) with (xr_status r). change (W.r_mc (abs_reobs r)) with (xr_mc r).
  change (W.r_height (abs_reobs r)) with (xr_height r). change (W.r_now (abs_reobs r)) with (xr_now r).
  change (W.r_hd (abs_reobs r)) with (xr_hd r). change (W.r_tok (abs_reobs r)) with (abs_tok_fn (xr_tok r)).
  change (W.r_events (abs_reobs r)) with (option_map (map (abs_tevent (req_txid r))) (xr_events r)).
  destruct (negb (xr_chain r =? alph_chain_id)); [reflexivity|].
  destruct (negb (Z.of_nat (length (xr_txhash r)) =? alph_txid_len)); [reflexivity|].
  destruct (xr_status r) as [[blk|]|]; try reflexivity.
  destruct (xr_events r) as [evs|]; cbn [option_map]; [|reflexivity].
  rewrite sim_gov_events.
  destruct (xgov_events c (req_txid r) blk (xr_hd r) (xr_tok r) 0 evs) as [| |l] eqn:G; cbn [abs_ge]; try reflexivity.
  destruct (xr_mc r) as [[|]|]; try reflexivity. destruct (xr_height r) as [height|]; [|reflexivity].
  cbn [fst snd]. f_equal.
  pose proof (xgov_events_ok _ _ _ _ _ _ _ _ G) as OK.
  rewrite (xhandle_gov_spec (req_txid r)) by (apply Forall_filter; exact OK).
  rewrite !filter_map_comm, !map_map.
  change (W.c_mainnet (abs_cfg c)) with (xc_mainnet c). change (W.c_bridge (abs_cfg c)) with (enc_id (xc_bridge c)).
  assert (F1 : forall x, W.reobs_confirmed (xc_mainnet c) (W.u_msg (snd (fst (abs_gx (req_txid r) x)))) (snd (abs_gx (req_txid r) x)) (xr_now r) height
                         = xreobs_confirmed (xc_mainnet c) (xu_msg (snd (fst x))) (snd x) (xr_now r) height) by (intros [[te u] h]; reflexivity).
  assert (F2 : forall x, (W.m_sender (W.u_msg (snd (fst (abs_gx (req_txid r) x)))) =? enc_id (xc_bridge c)) = bytes_eqb (C.w_sender (xu_msg (snd (fst x)))) (xc_bridge c)).
  { intros [[te u] h]. cbn [abs_gx fst snd]. change (W.m_sender (W.u_msg (abs_u u))) with (enc_id (C.w_sender (xu_msg u))). apply enc_id_eqb. }
  rewrite (filter_ext _ _ F1). rewrite (filter_ext _ _ F2). apply map_ext. intros [[te u] h]. reflexivity.
Qed.

(* ================================================================== 1e. simulation: steps and histories *)
Lemma is_nil_map : forall {A B} (f : A -> B) l, W.is_nil (map f l) = W.is_nil l.
Proof. intros A B f l. destruct l; reflexivity. Qed.

Theorem sim_step : forall c s o,
  W.step (abs_cfg c) (abs_state s) (abs_op o) = (abs_state (fst (xstep c s o)), abs_out (snd (xstep c s o))).
Proof.
  intros c s o. unfold W.step, xstep. change (W.w_dead (abs_state s)) with (x_dead s).
  destruct (x_dead s) eqn:D; [reflexivity|].
  destruct o as [cnt pg tok| |height now mc hd|r|]; cbn [abs_op].
  - change (W.w_inflight (abs_state s)) with (option_map (map abs_u) (x_inflight s)).
    destruct (x_inflight s) as [l0|] eqn:F; cbn [option_map]; [reflexivity|].
    change (W.w_from (abs_state s)) with (x_from s).
    change (fun k s0 => abs_page (pg k s0)) with (abs_pg pg). change (fun i => abs_ans (tok i)) with (abs_tok_fn tok).
    rewrite sim_poll. destruct (xpoll cnt pg tok (x_from s)) as [|from' batch n| | |]; cbn [abs_poll fst snd]; try reflexivity;
      unfold abs_state, W.die, xdie; cbn [x_from x_inflight x_pending x_enabled x_dead W.w_from W.w_inflight W.w_pending W.w_enabled W.w_dead]; rewrite ?F; reflexivity.
  - change (W.w_inflight (abs_state s)) with (option_map (map abs_u) (x_inflight s)).
    destruct (x_inflight s) as [l|] eqn:F; cbn [option_map fst snd]; [|reflexivity].
    unfold abs_state. cbn [x_from x_inflight x_pending x_enabled x_dead option_map W.w_from W.w_pending W.w_enabled].
    rewrite sim_add_batch, is_nil_map. reflexivity.
  - change (W.w_pending (abs_state s)) with (map abs_pblock (x_pending s)). change (W.c_mainnet (abs_cfg c)) with (xc_mainnet c).
    rewrite sim_process_blocks.
    destruct (xprocess_blocks (xc_mainnet c) height now mc hd (x_pending s)) as [[p' conf]|]; cbn [option_map fst snd].
    + change (W.c_bridge (abs_cfg c)) with (enc_id (xc_bridge c)). rewrite sim_handle_confirmed.
      destruct (xhandle_confirmed (xc_bridge c) conf) as [f err]. cbn [fst snd]. rewrite is_nil_map. reflexivity.
    + unfold abs_state, W.die, xdie; cbn [x_from x_inflight x_pending x_enabled x_dead W.w_from W.w_inflight W.w_pending W.w_enabled W.w_dead]. reflexivity.
  - rewrite sim_reobserve. destruct (xreobserve c r) as [f fl]. cbn [fst snd]. destruct fl; reflexivity.
  - reflexivity.
Qed.

Lemma sim_final : forall c ops s, WB.final (abs_cfg c) (abs_state s) (map abs_op ops) = abs_state (xfinal c s ops).
Proof.
  intros c ops. induction ops as [|o t IH]; intro s; cbn [map WB.final xfinal]; [reflexivity|]. rewrite sim_step. cbn [fst]. apply IH.
Qed.

Lemma sim_run : forall c ops s,
  W.run (abs_cfg c) (abs_state s) (map abs_op ops) = (map abs_out (fst (xrun c s ops)), abs_state (snd (xrun c s ops))).
Proof.
  intros c ops. induction ops as [|o t IH]; intro s; cbn [map W.run xrun]; [reflexivity|].
  rewrite sim_step. destruct (xstep c s o) as [s' x]. cbn [fst snd]. rewrite IH. destruct (xrun c s' t) as [xs s'']. reflexivity.
Qed.

Lemma sim_batches : forall c ops s, WB.batches (abs_cfg c) (abs_state s) (map abs_op ops) = map abs_u (xbatches c s ops).
Proof.
  intros c ops. induction ops as [|o t IH]; intro s; cbn [map WB.batches xbatches]; [reflexivity|].
  rewrite sim_step. cbn [fst snd]. rewrite IH, map_app. reflexivity.
Qed.

Lemma abs_init : forall from0, abs_state (xinit from0) = W.init from0.
Proof. reflexivity. Qed.

(* ================================================================== 2. the pipeline's own invariant: end-to-end fidelity *)
Section Fidelity.
Variable c : xcfg.
(* provenance predicates on the node's RAW answers, arbitrary (as in C08) *)
Variable EP : xevent -> Prop.          (* "an event of the configured governance contract, as the node reports it" *)
Variable HP : Z -> W.header -> Prop.   (* "the header of that block" *)
Variable AP : xmc_ans -> Prop.         (* "an answer of the node to the token-metadata multicall" *)

Local Notation xattest_ok := (AlphPipelineRead.xattest_ok AP).
Local Notation faithful := (AlphPipelineRead.faithful c EP HP AP).

Definition xop_ok (o : xop) : Prop :=
  match o with
  | XPoll cnt pg tok => (forall k s evs next, pg k s = XPage evs next -> Forall EP evs) /\ (forall i, AP (tok i))
  | XTick height now mc hd => forall b h, hd b = Some h -> HP b h
  | XReobs r => (forall evs, xr_events r = Some evs -> Forall (fun te => xt_addr te = xc_gov c -> EP (with_txid (req_txid r) (xt_ev te))) evs)
                /\ (forall b h, xr_hd r b = Some h -> HP b h) /\ (forall i, AP (xr_tok r i))
  | _ => True
  end.

Definition xugood (u : xuevent) : Prop :=
  EP (xu_ev u) /\ xto_unconfirmed (xu_ev u) = Some (xu_msg u) /\ xattest_ok (xu_msg u) (xu_chain u).
Definition xbgood (b : xpblock) : Prop :=
  Forall (fun u => xugood u /\ x_block (xu_ev u) = xpb_hash b) (xpb_evs b) /\ (forall h, xpb_hdr b = Some h -> HP (xpb_hash b) h).
Definition XInv (s : xstate) : Prop := (forall l, x_inflight s = Some l -> Forall xugood l) /\ Forall xbgood (x_pending s).

Lemma XInv_init : forall from0, XInv (xinit from0).
Proof. intro from0. split; [intros l H; discriminate H|constructor]. Qed.

Lemma xvalidate_attest_ok : forall w a t, xvalidate_attest w a = XVaOk t ->
  C.parse_attest_token (C.w_payload w) = C.COk t /\ xget_token_info (C.t_id t) a = XTiOk t.
Proof.
  intros w a t. unfold xvalidate_attest. destruct (C.parse_attest_token (C.w_payload w)) as [ti|]; [|discriminate].
  destruct (xget_token_info (C.t_id ti) a) as [t'| |] eqn:G; try discriminate.
  destruct (xtokinfo_eqb ti t') eqn:E; [|discriminate]. intro H. injection H as <-.
  apply xtokinfo_eqb_eq in E. subst t'. split; [reflexivity|exact G].
Qed.

Lemma xclassify_keep : forall a e u, EP e -> AP a -> xclassify a e = XKeep u -> xugood u /\ xu_ev u = e.
Proof.
  intros a e u He Ha. unfold xclassify. destruct (xto_unconfirmed e) as [w|] eqn:T; [|destruct alph_unconv_aborts; discriminate].
  destruct (xis_attest w) eqn:A.
  - destruct (xvalidate_attest w a) as [t| |] eqn:V; try discriminate. intro H. injection H as <-.
    apply xvalidate_attest_ok in V as [V1 V2]. unfold xugood. cbn [xu_ev xu_msg xu_chain]. repeat apply conj; auto.
    intros _. exists t, a. auto.
  - intro H. injection H as <-. unfold xugood. cbn [xu_ev xu_msg xu_chain]. repeat apply conj; auto.
    intro A'. rewrite A in A'. discriminate A'.
Qed.

Lemma xhandle_unconfirmed_good : forall tok evs idx l, Forall EP evs -> (forall i, AP (tok i)) ->
  xhandle_unconfirmed tok idx evs = XHuOk l -> Forall xugood l.
Proof.
  intros tok evs. induction evs as [|e t IH]; intros idx l He Ha H; cbn [xhandle_unconfirmed] in H.
  - injection H as <-. constructor.
  - inversion He as [|e' t' He1 He2]; subst.
    destruct (xclassify (tok idx) e) as [u| | |] eqn:K; try discriminate.
    + destruct (xhandle_unconfirmed tok (idx + 1) t) as [l'| |] eqn:R; try discriminate. injection H as <-.
      constructor; [apply (xclassify_keep _ _ _ He1 (Ha idx) K)|eapply IH; eauto].
    + eapply IH; eauto.
Qed.

Lemma xpage_loop_good : forall pg tok count,
  (forall k s evs next, pg k s = XPage evs next -> Forall EP evs) -> (forall i, AP (tok i)) ->
  forall fuel k cur acc from' batch n, Forall xugood acc -> xpage_loop pg tok fuel k cur count acc = XPBatch from' batch n -> Forall xugood batch.
Proof.
  intros pg tok count Hp Ha. induction fuel as [|f IH]; intros k cur acc from' batch n Hacc H; [discriminate|].
  cbn [xpage_loop] in H. destruct (pg k cur) as [|evs next] eqn:P; [discriminate|].
  destruct (xhandle_unconfirmed tok cur evs) as [l| |] eqn:HU; try discriminate.
  assert (G : Forall xugood (acc ++ l)).
  { apply Forall_app. split; [exact Hacc|]. eapply xhandle_unconfirmed_good; [eapply Hp; exact P|exact Ha|exact HU]. }
  destruct (alph_page_exit next count).
  - injection H as <- <- <-. exact G.
  - eapply IH; [exact G|exact H].
Qed.

Lemma xadd_event_good : forall p u, Forall xbgood p -> xugood u -> Forall xbgood (xadd_event p u).
Proof.
  intros p u Hp Hu. induction p as [|b t IH]; cbn [xadd_event].
  - constructor; [|constructor]. split; cbn [xpb_evs xpb_hdr xpb_hash]; [|intros h H; discriminate H].
    constructor; [split; [exact Hu|reflexivity]|constructor].
  - inversion Hp as [|b' t' Hb Ht]; subst. destruct (xpb_hash b =? x_block (xu_ev u)) eqn:E.
    + apply Z.eqb_eq in E. constructor; [|exact Ht]. destruct Hb as [Hb1 Hb2]. split; cbn [xpb_evs xpb_hdr xpb_hash]; [|exact Hb2].
      apply Forall_app. split; [exact Hb1|]. constructor; [split; [exact Hu|symmetry; exact E]|constructor].
    + constructor; [exact Hb|apply IH; exact Ht].
Qed.

Lemma xadd_batch_good : forall l p, Forall xbgood p -> Forall xugood l -> Forall xbgood (xadd_batch p l).
Proof.
  unfold xadd_batch. induction l as [|u l IH]; intros p Hp Hl; cbn [fold_left]; [exact Hp|].
  inversion Hl; subst. apply IH; [apply xadd_event_good; assumption|assumption].
Qed.

Definition xcgood (height now : Z) (mc : Z -> option bool) (x : xuevent * W.header) : Prop :=
  xugood (fst x) /\ HP (x_block (xu_ev (fst x))) (snd x) /\ mc (x_block (xu_ev (fst x))) = Some true /\
  xconfirmed (xc_mainnet c) (xu_msg (fst x)) (snd x) now height = true.

Lemma xprocess_block_good : forall height now mc hd b k conf,
  (forall b h, hd b = Some h -> HP b h) -> xbgood b ->
  xprocess_block (xc_mainnet c) height now mc hd b = XBOk k conf ->
  (forall b', k = Some b' -> xbgood b') /\ Forall (xcgood height now mc) conf.
Proof.
  intros height now mc hd b k conf Hhd [Hb1 Hb2] H. unfold xprocess_block in H.
  destruct (mc (xpb_hash b)) as [canon|] eqn:M; [|discriminate].
  destruct (match xpb_hdr b with Some h => Some h | None => hd (xpb_hash b) end) as [h|] eqn:Hh; [|discriminate].
  assert (HPh : HP (xpb_hash b) h).
  { destruct (xpb_hdr b) as [h'|] eqn:P; [injection Hh as <-; apply Hb2; reflexivity|apply Hhd; exact Hh]. }
  injection H as <- <-. split.
  - intros b' Hk. destruct (filter _ (xpb_evs b)) as [|x r] eqn:F; [discriminate|]. injection Hk as <-.
    split; cbn [xpb_evs xpb_hdr xpb_hash]; [|intros h' Hq; injection Hq as <-; exact HPh].
    rewrite <- F. apply Forall_filter. exact Hb1.
  - destruct canon; [|constructor]. apply Forall_forall. intros [u h'] Hx. apply in_map_iff in Hx as (u' & Hx & Hu').
    injection Hx as <- <-. apply filter_In in Hu' as [Hu' Hc]. rewrite Forall_forall in Hb1. destruct (Hb1 _ Hu') as [G E].
    unfold xcgood. cbn [fst snd]. rewrite E. auto.
Qed.

Lemma xprocess_blocks_good : forall height now mc hd p p' conf,
  (forall b h, hd b = Some h -> HP b h) -> Forall xbgood p ->
  xprocess_blocks (xc_mainnet c) height now mc hd p = Some (p', conf) ->
  Forall xbgood p' /\ Forall (xcgood height now mc) conf.
Proof.
  intros height now mc hd p. induction p as [|b t IH]; intros p' conf Hhd Hp H; cbn [xprocess_blocks] in H.
  - injection H as <- <-. split; constructor.
  - inversion Hp as [|b0 t0 Hb Ht]; subst.
    destruct (xprocess_block (xc_mainnet c) height now mc hd b) as [|k cf] eqn:B; [discriminate|].
    destruct (xprocess_blocks (xc_mainnet c) height now mc hd t) as [[q cf']|] eqn:R; [|discriminate].
    injection H as <- <-. destruct (IH _ _ Hhd Ht eq_refl) as [I1 I2].
    destruct (xprocess_block_good _ _ _ _ _ _ _ Hhd Hb B) as [K1 K2]. split.
    + destruct k as [b'|]; [constructor; [apply K1; reflexivity|exact I1]|exact I1].
    + apply Forall_app. split; assumption.
Qed.

Lemma xto_unconfirmed_some : forall e w, xto_unconfirmed e = Some w ->
  x_index e = alph_wm_event_index /\ C.to_wormhole_message (x_fields e) (x_txid e) = C.COk w.
Proof.
  intros e w. unfold xto_unconfirmed, conv. destruct (x_index e =? alph_wm_event_index) eqn:E; [|discriminate].
  apply Z.eqb_eq in E. destruct (C.to_wormhole_message (x_fields e) (x_txid e)) as [w'|]; [|discriminate].
  intro H. injection H as <-. auto.
Qed.

Lemma xhandle_confirmed_faithful : forall height now mc conf, Forall (xcgood height now mc) conf ->
  Forall faithful (fst (xhandle_confirmed (xc_bridge c) conf)) /\ snd (xhandle_confirmed (xc_bridge c) conf) = false.
Proof.
  intros height now mc conf. induction conf as [|[u h] t IH]; intro H; cbn [xhandle_confirmed]; [split; [constructor|reflexivity]|].
  inversion H as [|x t' Hx Ht]; subst. destruct Hx as ((G1 & G2 & G3) & Hh & Hm & Hc). cbn [fst snd] in *.
  apply xto_unconfirmed_some in G2 as [G2 G2']. rewrite G2, Z.eqb_refl.
  destruct (IH Ht) as [IH1 IH2]. destruct (xhandle_confirmed (xc_bridge c) t) as [f e]. cbn [fst snd] in *.
  destruct (bytes_eqb_spec (C.w_sender (xu_msg u)) (xc_bridge c)) as [S|S]; cbn [fst snd]; [|auto].
  split; [|exact IH2]. constructor; [|exact IH1].
  unfold faithful, mkxfwd. cbn [xf_ev xf_msg xf_hdr xf_chain xf_pub]. repeat apply conj; auto.
Qed.

(* ---- the invariant is carried by the abstraction: the abstract watcher's invariant (C08) holds for the abstracted state *)
Definition EPa (ce : W.cevent) : Prop := exists e, EP e /\ ce = abs_event e.
Definition APa (a' : W.mc_ans) : Prop := exists a, AP a /\ a' = abs_ans a.

Lemma abs_ugood : forall u, xugood u -> WB.ugood EPa APa (abs_u u).
Proof.
  intros u (G1 & G2 & G3). unfold WB.ugood. cbn [abs_u W.u_ev W.u_msg W.u_chain]. repeat apply conj.
  - exists (xu_ev u). auto.
  - rewrite sim_to_unconfirmed, G2. reflexivity.
  - intro A. rewrite sim_is_attest in A. destruct (G3 A) as (t & a & E1 & E2 & E3 & E4).
    exists (abs_tok t), (abs_ans a). rewrite E1. unfold abs_msg. cbn [W.m_tok option_map]. rewrite E2. repeat apply conj; auto.
    + exists a. auto.
    + change (W.ti_id (abs_tok t)) with (enc_id (C.t_id t)). rewrite sim_get_token_info, E4. reflexivity.
Qed.

Lemma abs_Inv : forall s, XInv s -> WB.Inv EPa HP APa (abs_state s).
Proof.
  intros s [I1 I2]. split.
  - intros l' H. unfold abs_state in H. cbn [W.w_inflight] in H. destruct (x_inflight s) as [l|]; [|discriminate H].
    cbn [option_map] in H. injection H as <-. apply Forall_forall. intros u' Hu. apply in_map_iff in Hu as (u & <- & Hu).
    apply abs_ugood. specialize (I1 _ eq_refl). rewrite Forall_forall in I1. apply I1. exact Hu.
  - unfold abs_state. cbn [W.w_pending]. apply Forall_forall. intros b' Hb. apply in_map_iff in Hb as (b & <- & Hb).
    rewrite Forall_forall in I2. destruct (I2 _ Hb) as [B1 B2]. split; cbn [abs_pblock W.pb_evs W.pb_hdr W.pb_hash]; [|exact B2].
    apply Forall_forall. intros u' Hu. apply in_map_iff in Hu as (u & <- & Hu). rewrite Forall_forall in B1. destruct (B1 _ Hu) as [G E].
    split; [apply abs_ugood; exact G|exact E].
Qed.

Lemma abs_op_ok : forall o, xop_ok o -> WB.op_ok (abs_cfg c) EPa HP APa (abs_op o).
Proof.
  intros o H. destruct o as [cnt pg tok| |height now mc hd|r|]; cbn [abs_op WB.op_ok]; try exact I.
  - destruct H as [Hp Ha]. split.
    + intros k s evs' next E. destruct (pg k s) as [|evs n] eqn:P; cbn [abs_page] in E; [discriminate E|]. injection E as <- <-.
      apply Forall_forall. intros e' He. apply in_map_iff in He as (e & <- & He). exists e. split; [|reflexivity].
      specialize (Hp _ _ _ _ P). rewrite Forall_forall in Hp. apply Hp. exact He.
    + intro i. exists (tok i). auto.
  - exact H.
  - destruct H as (He & Hh & Ha). repeat apply conj.
    + intros evs' E. cbn [abs_reobs W.r_events] in E. destruct (xr_events r) as [evs|] eqn:Ev; [|discriminate E]. cbn [option_map] in E. injection E as <-.
      apply Forall_forall. intros te' Hte. apply in_map_iff in Hte as (te & <- & Hte). cbn [abs_tevent W.t_addr W.t_ev abs_cfg W.c_gov].
      intro A. exists (with_txid (req_txid r) (xt_ev te)). split; [|reflexivity].
      specialize (He _ eq_refl). rewrite Forall_forall in He. apply He; assumption.
    + exact Hh.
    + intro i. exists (xr_tok r i). auto.
Qed.

(* END TO END, over every history: every message handed to the signer (either path) is the faithful conversion of one event
   the node served, AND its abstraction is `justified` in the sense of C08 in the step that sends it *)
End Fidelity.

(* exactly-once on the polling path is preserved by the composition: for EVERY predicate p of the abstract watcher's events
   (so every predicate of uid, block, level, sender, payload id, attested token), along every history of the composed watcher
   the p-events forwarded by height ticks plus those still held never exceed the p-events fetched in batches *)
Definition xheld (s : xstate) : list xuevent := flat_map xpb_evs (x_pending s) ++ match x_inflight s with Some l => l | None => [] end.
Definition xfwd_u (f : xfwd) : xuevent := {| xu_ev := xf_ev f; xu_msg := xf_msg f; xu_chain := xf_chain f |}.
Definition xtick_fwd (o : xop) (x : xout) : list xuevent := match o with XTick _ _ _ _ => map xfwd_u (xo_fwd x) | _ => [] end.
Fixpoint xtick_fwds (c : xcfg) (s : xstate) (ops : list xop) : list xuevent :=
  match ops with [] => [] | o :: t => xtick_fwd o (snd (xstep c s o)) ++ xtick_fwds c (fst (xstep c s o)) t end.

Lemma sim_tick_fwds : forall c ops s, WB.tick_fwds (abs_cfg c) (abs_state s) (map abs_op ops) = map abs_u (xtick_fwds c s ops).
Proof.
  intros c ops. induction ops as [|o t IH]; intro s; cbn [map WB.tick_fwds xtick_fwds]; [reflexivity|].
  rewrite sim_step. cbn [fst snd]. rewrite IH, map_app. f_equal.
  destruct o; cbn [abs_op WB.tick_fwd xtick_fwd map]; try reflexivity. cbn [abs_out W.o_fwd]. rewrite !map_map. reflexivity.
Qed.

Lemma sim_held : forall s, WB.held (abs_state s) = map abs_u (xheld s).
Proof.
  intro s. unfold WB.held, xheld, WB.plist, abs_state. cbn [W.w_pending W.w_inflight]. rewrite map_app. f_equal.
  - induction (x_pending s) as [|b t IH]; [reflexivity|]. cbn [map flat_map]. rewrite map_app, IH. reflexivity.
  - destruct (x_inflight s); reflexivity.
Qed.

Lemma cnt_map : forall p l, WB.cnt p (map abs_u l) = length (filter (fun u => p (abs_u u)) l).
Proof. intros p l. unfold WB.cnt. rewrite filter_map_comm, map_length. reflexivity. Qed.

Theorem pipeline_at_most_once : forall c (p : W.uevent -> bool) ops from0,
  let n := fun l => length (filter (fun u => p (abs_u u)) l) in
  (n (xtick_fwds c (xinit from0) ops) + n (xheld (xfinal c (xinit from0) ops)) <= n (xbatches c (xinit from0) ops))%nat.
Proof.
  intros c p ops from0. cbv zeta.
  pose proof (WB.forwarded_at_most_fetched (abs_cfg c) p (map abs_op ops) (abs_state (xinit from0))) as H.
  rewrite sim_tick_fwds, sim_final, sim_held, sim_batches, !cnt_map in H.
  change (WB.held (abs_state (xinit from0))) with (@nil W.uevent) in H. cbn [WB.cnt filter length] in H. lia.
Qed.

(* liveness carried over: an event pending in the composed watcher is forwarded at the first tick at which it is final *)
Lemma in_map_abs_fwd : forall y l, In y (map abs_fwd l) -> exists f, In f l /\ abs_fwd f = y.
Proof. intros y l H. apply in_map_iff in H as (f & E & H). exists f. auto. Qed.

