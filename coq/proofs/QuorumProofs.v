(* C07: arithmetic of the three quorum formulas (the formulas themselves are generated: gen/Extracted.v). *)
From Coq Require Import List ZArith Lia Bool Arith.
From WH Require Import gen.Extracted.
Import ListNotations.
Open Scope Z_scope.

Definition spec_quorum (n : Z) : Z := 2 * n / 3 + 1.

Ltac dm x y := pose proof (Z.div_mod x y ltac:(lia)); pose proof (Z.mod_pos_bound x y ltac:(lia)).

Lemma go_quorum_spec n : 0 <= n -> go_quorum n = spec_quorum n.
Proof.
  intros Hn. unfold go_quorum, spec_quorum.
  rewrite (Z.quot_div_nonneg (n * 10) 3) by lia.
  assert (0 <= n * 10 / 3) by (apply Z.div_pos; lia).
  rewrite Z.quot_div_nonneg by lia.
  f_equal.
  dm (n * 10) 3. dm (n * 10 / 3 * 2) 10. dm (2 * n) 3. lia.
Qed.

Lemma sol_quorum_spec n : sol_quorum n = spec_quorum n.
Proof. unfold sol_quorum, spec_quorum. rewrite (Z.mul_comm n 2). reflexivity. Qed.

Lemma ral_quorum_spec n : ral_quorum n = spec_quorum n.
Proof. unfold ral_quorum, spec_quorum. rewrite (Z.mul_comm n 2). reflexivity. Qed.

(* Go computes in 64-bit int: no intermediate of the formula leaves the int64 range for n < 2^59 *)
Lemma go_quorum_no_overflow n : 0 <= n < 2 ^ 59 ->
  0 <= n * 10 < 2 ^ 63 /\ 0 <= Z.quot (n * 10) 3 * 2 < 2 ^ 63 /\ 0 <= go_quorum n < 2 ^ 63.
Proof.
  intros Hn. unfold go_quorum.
  rewrite (Z.quot_div_nonneg (n * 10) 3) by lia.
  assert (0 <= n * 10 / 3) by (apply Z.div_pos; lia).
  rewrite Z.quot_div_nonneg by lia.
  dm (n * 10) 3. dm (n * 10 / 3 * 2) 10.
  change (2 ^ 59) with 576460752303423488 in *. change (2 ^ 63) with 9223372036854775808. lia.
Qed.

Lemma quorum_gt_two_thirds n : 0 <= n -> 3 * spec_quorum n > 2 * n.
Proof. intros Hn. unfold spec_quorum. dm (2 * n) 3. lia. Qed.

Lemma quorum_le n : 1 <= n -> spec_quorum n <= n.
Proof. intros Hn. unfold spec_quorum. dm (2 * n) 3. lia. Qed.

Lemma quorum_pos n : 0 <= n -> 1 <= spec_quorum n.
Proof. intros Hn. unfold spec_quorum. dm (2 * n) 3. lia. Qed.

(* inclusion-exclusion on duplicate-free lists *)
Section Intersect.
Context {A : Type} (eqb : A -> A -> bool) (eqb_spec : forall a b, reflect (a = b) (eqb a b)).

Definition memb (a : A) (l : list A) : bool := existsb (eqb a) l.

Lemma memb_In a l : memb a l = true <-> In a l.
Proof.
  unfold memb. rewrite existsb_exists. split.
  - intros (x & Hx & E). destruct (eqb_spec a x); [subst; assumption|discriminate].
  - intros H. exists a. split; [assumption|]. destruct (eqb_spec a a); [reflexivity|contradiction].
Qed.

Definition inter (l1 l2 : list A) : list A := filter (fun a => memb a l1) l2.

Lemma filter_split_length (f : A -> bool) l :
  (length (filter f l) + length (filter (fun a => negb (f a)) l) = length l)%nat.
Proof. induction l as [|a l IH]; cbn; [reflexivity|]. destruct (f a); cbn; lia. Qed.

Lemma NoDup_app_disj (l r : list A) : NoDup l -> NoDup r -> (forall a, In a l -> ~ In a r) -> NoDup (l ++ r).
Proof.
  induction l as [|x l IH]; intros Nl Nr D; cbn; [assumption|].
  inversion Nl as [|? ? Hx Nl']; subst. constructor.
  - rewrite in_app_iff. intros [H|H]; [contradiction|]. apply (D x); [left; reflexivity|assumption].
  - apply IH; [assumption|assumption|]. intros a Ha. apply D. right. assumption.
Qed.

Lemma incl_excl keys l1 l2 : NoDup l1 -> NoDup l2 -> incl l1 keys -> incl l2 keys ->
  (length l1 + length l2 <= length keys + length (inter l1 l2))%nat.
Proof.
  intros N1 N2 I1 I2.
  pose (rest := filter (fun a => negb (memb a l1)) l2).
  assert (NoDup (l1 ++ rest)) as ND.
  { apply NoDup_app_disj; [assumption|apply NoDup_filter; assumption|].
    intros a Ha Hr. unfold rest in Hr. apply filter_In in Hr as [_ Hr].
    apply negb_true_iff in Hr. apply memb_In in Ha. congruence. }
  assert (incl (l1 ++ rest) keys) as IN.
  { intros a Ha. apply in_app_iff in Ha as [Ha|Ha]; [apply I1; assumption|].
    apply I2. unfold rest in Ha. apply filter_In in Ha. tauto. }
  pose proof (NoDup_incl_length ND IN) as L. rewrite app_length in L.
  pose proof (filter_split_length (fun a => memb a l1) l2) as S.
  unfold inter. subst rest. cbv beta in *. lia.
Qed.

(* two quorums of one guardian set share more than a third of the guardians *)
Lemma quorums_intersect keys l1 l2 :
  NoDup l1 -> NoDup l2 -> incl l1 keys -> incl l2 keys ->
  spec_quorum (Z.of_nat (length keys)) <= Z.of_nat (length l1) ->
  spec_quorum (Z.of_nat (length keys)) <= Z.of_nat (length l2) ->
  3 * Z.of_nat (length (inter l1 l2)) > Z.of_nat (length keys).
Proof.
  intros N1 N2 I1 I2 Q1 Q2.
  pose proof (incl_excl keys l1 l2 N1 N2 I1 I2).
  pose proof (quorum_gt_two_thirds (Z.of_nat (length keys)) ltac:(lia)). lia.
Qed.
End Intersect.

(* finite sweep over the wire range, as a sanity cross-check of the unbounded statement *)
Definition wire_sweep : bool :=
  forallb (fun n => let z := Z.of_nat n in
     (go_quorum z =? 2 * z / 3 + 1) && (sol_quorum z =? go_quorum z) && (ral_quorum z =? go_quorum z))
    (seq 0 256).
Lemma wire_sweep_ok : wire_sweep = true.
Proof. vm_compute. reflexivity. Qed.
