(* Alephium watcher (model.AlphWatcher): the structural invariant of the watcher's state, accounting, poller flag and
   height-tick liveness.  Nothing in this file depends on the VALUES of the extracted guards (page-loop exit test, treatment
   of unconvertible events, nil tests of GetTokenInfo, confirmation test, re-observation filters): it holds for the model
   whatever they are.  C08-specific proofs: AlphWatcherSafety; C09-specific proofs: AlphWatcherProofs. *)
From Coq Require Import List ZArith Bool Lia Arith.
From WH Require Import gen.Extracted model.AlphWatcher.
Import ListNotations.
Open Scope Z_scope.

Lemma tokinfo_eqb_eq : forall a b, tokinfo_eqb a b = true -> a = b.
Proof.
  intros [a1 a2 a3 a4] [b1 b2 b3 b4]. unfold tokinfo_eqb. cbn [ti_id ti_dec ti_sym ti_name]. intro H.
  apply andb_prop in H as [H H4]. apply andb_prop in H as [H H3]. apply andb_prop in H as [H1 H2].
  apply Z.eqb_eq in H1, H2, H3, H4. subst. reflexivity.
Qed.

(* what a successful validation means: the payload decodes and equals the token contract's answer *)
Lemma validate_attest_ok : forall m a t, validate_attest m a = VaOk t ->
  m_tok m = Some t /\ get_token_info (ti_id t) a = TiOk t.
Proof.
  intros m a t. unfold validate_attest. destruct (m_tok m) as [ti|]; [|discriminate].
  destruct (get_token_info (ti_id ti) a) as [t'| |] eqn:G; try discriminate.
  destruct (tokinfo_eqb ti t') eqn:E; [|discriminate]. intro H. injection H as <-.
  apply tokinfo_eqb_eq in E. subst t'. split; [reflexivity|exact G].
Qed.

(* what GetTokenInfo accepts (whichever result is nil-tested): the native token, or three succeeded calls with exactly one
   well-typed return each *)
Lemma shape_one : forall rs t i v, shape_test rs t i = ShOne v -> nth i rs CFailed = COk [v].
Proof.
  intros rs t i v. unfold shape_test. destruct (negb (succeeded (nth t rs CFailed))); [discriminate|].
  destruct (nth i rs CFailed) as [|[|w [|w' r]]]; try discriminate. intro H. injection H as <-. reflexivity.
Qed.

Lemma get_token_info_spec : forall id a t, get_token_info id a = TiOk t ->
  (id = alph_native_id /\ t = {| ti_id := alph_native_id; ti_dec := alph_native_decimals; ti_sym := alph_native_sym; ti_name := alph_native_name |}) \/
  (exists vs vn vd s n d, a = McRes [COk [vs]; COk [vn]; COk [vd]] /\ to_bytevec vs = Some s /\ to_bytevec vn = Some n /\ to_uint8 vd = Some d /\
                          t = {| ti_id := id; ti_dec := d; ti_sym := s; ti_name := n |}).
Proof.
  intros id a t. unfold get_token_info. destruct (id =? alph_native_id) eqn:E.
  - intro H. injection H as <-. left. apply Z.eqb_eq in E. auto.
  - destruct a as [|rs]; [discriminate|]. destruct rs as [|r0 [|r1 [|r2 [|r3 rest]]]]; cbn [length Nat.eqb negb]; try discriminate.
    destruct alph_tokinfo_tests as [[t0 t1] t2].
    destruct (shape_test [r0; r1; r2] t0 0) as [| |v0] eqn:S0; try discriminate.
    destruct (shape_test [r0; r1; r2] t1 1) as [| |v1] eqn:S1; try discriminate.
    destruct (shape_test [r0; r1; r2] t2 2) as [| |v2] eqn:S2; try discriminate.
    apply shape_one in S0, S1, S2. cbn [nth] in S0, S1, S2. subst r0 r1 r2.
    destruct (to_bytevec v0) as [s|] eqn:B0; [|discriminate]. destruct (to_bytevec v1) as [n|] eqn:B1; [|discriminate].
    destruct (to_uint8 v2) as [d|] eqn:B2; [|discriminate]. intro H. injection H as <-. right. exists v0, v1, v2, s, n, d. auto.
Qed.

(* an event that handleUnconfirmedEvents keeps stems from its event, and - for an attestation - carries the token
   contract's answer (whatever happens to the events that are not kept) *)
Lemma classify_keep : forall a e u, classify a e = Keep u ->
  u_ev u = e /\ to_unconfirmed e = Some (u_msg u) /\
  (is_attest (u_msg u) = true -> exists t, u_chain u = Some t /\ m_tok (u_msg u) = Some t /\ get_token_info (ti_id t) a = TiOk t).
Proof.
  intros a e u. unfold classify. destruct (to_unconfirmed e) as [m|] eqn:T.
  - destruct (is_attest m) eqn:A.
    + destruct (validate_attest m a) as [t| |] eqn:V; try discriminate. intro H. injection H as <-. cbn [u_ev u_msg u_chain].
      apply validate_attest_ok in V as [V1 V2]. repeat apply conj; auto. intros _. exists t. auto.
    + intro H. injection H as <-. cbn [u_ev u_msg u_chain]. repeat apply conj; auto. rewrite A. discriminate.
  - destruct alph_unconv_aborts; discriminate.
Qed.

Lemma handle_unconfirmed_keeps : forall tok evs idx l, handle_unconfirmed tok idx evs = HuOk l ->
  Forall (fun u => exists i e, In e evs /\ classify (tok i) e = Keep u) l.
Proof.
  intros tok evs. induction evs as [|e t IH]; intros idx l H; cbn [handle_unconfirmed] in H.
  - injection H as <-. constructor.
  - destruct (classify (tok idx) e) as [u| | |] eqn:C; try discriminate.
    + destruct (handle_unconfirmed tok (idx + 1) t) as [l'| |] eqn:R; try discriminate. injection H as <-.
      constructor; [exists idx, e; split; [left; reflexivity|exact C]|].
      eapply Forall_impl; [|exact (IH _ _ R)]. intros u' (i & e' & I & K). exists i, e'. split; [right; exact I|exact K].
    + eapply Forall_impl; [|exact (IH _ _ H)]. intros u' (i & e' & I & K). exists i, e'. split; [right; exact I|exact K].
Qed.

(* ================================================================== the structural invariant of the watcher's state *)
Lemma to_unconfirmed_some : forall e m, to_unconfirmed e = Some m <-> e_index e = alph_wm_event_index /\ e_conv e = Some m.
Proof.
  intros e m. unfold to_unconfirmed. destruct (e_index e =? alph_wm_event_index) eqn:E.
  - apply Z.eqb_eq in E. tauto.
  - apply Z.eqb_neq in E. split; [discriminate|tauto].
Qed.

Definition plist (p : list pblock) : list uevent := flat_map pb_evs p.

Section Safety.
Variable c : cfg.
(* provenance predicates, arbitrary: whatever holds for everything the node answered holds for what is forwarded *)
Variable EP : cevent -> Prop.        (* "is an event of the configured governance contract" *)
Variable HP : Z -> header -> Prop.   (* HP b h: "h is the header of block b" *)
Variable AP : mc_ans -> Prop.        (* "is an answer of the node to the token-metadata multicall" *)

Definition op_ok (o : op) : Prop :=
  match o with
  | OPoll cnt pg tok => (forall k s evs next, pg k s = Page evs next -> Forall EP evs) /\ (forall i, AP (tok i))
  | OTick height now mc hd => forall b h, hd b = Some h -> HP b h
  | OReobs r => (forall evs, r_events r = Some evs -> Forall (fun te => t_addr te = c_gov c -> EP (t_ev te)) evs)
                /\ (forall b h, r_hd r b = Some h -> HP b h) /\ (forall i, AP (r_tok r i))
  | _ => True
  end.

Definition attest_ok (m : wmsg) (ch : option tokinfo) : Prop :=
  is_attest m = true -> exists t a, ch = Some t /\ m_tok m = Some t /\ AP a /\ get_token_info (ti_id t) a = TiOk t.

Definition ugood (u : uevent) : Prop :=
  EP (u_ev u) /\ to_unconfirmed (u_ev u) = Some (u_msg u) /\ attest_ok (u_msg u) (u_chain u).

Definition bgood (b : pblock) : Prop :=
  Forall (fun u => ugood u /\ e_block (u_ev u) = pb_hash b) (pb_evs b) /\ (forall h, pb_hdr b = Some h -> HP (pb_hash b) h).

Definition Inv (s : wstate) : Prop :=
  (forall l, w_inflight s = Some l -> Forall ugood l) /\ Forall bgood (w_pending s).

Lemma Inv_init : forall from0, Inv (init from0).
Proof. intro from0. split; [intros l H; discriminate H|constructor]. Qed.

(* ---- polling (independent of how unconvertible events and failing metadata calls are treated) *)
Lemma classify_keep_ugood : forall a e u, EP e -> AP a -> classify a e = Keep u -> ugood u.
Proof.
  intros a e u He Ha H. apply classify_keep in H as (E & G1 & G2). unfold ugood. rewrite E. repeat apply conj; auto.
  intro A. destruct (G2 A) as (t & C1 & C2 & C3). exists t, a. auto.
Qed.

Lemma handle_unconfirmed_ugood : forall tok evs idx l, Forall EP evs -> (forall i, AP (tok i)) ->
  handle_unconfirmed tok idx evs = HuOk l -> Forall ugood l.
Proof.
  intros tok evs idx l He Ha H. apply handle_unconfirmed_keeps in H. eapply Forall_impl; [|exact H].
  intros u (i & e & I & K). eapply classify_keep_ugood; [|apply Ha|exact K]. rewrite Forall_forall in He. apply He. exact I.
Qed.

Lemma page_loop_ugood : forall pg tok count,
  (forall k s evs next, pg k s = Page evs next -> Forall EP evs) -> (forall i, AP (tok i)) ->
  forall fuel k cur acc from' batch n, Forall ugood acc -> page_loop pg tok fuel k cur count acc = PBatch from' batch n -> Forall ugood batch.
Proof.
  intros pg tok count Hp Ha. induction fuel as [|f IH]; intros k cur acc from' batch n Hacc H; [discriminate|].
  cbn [page_loop] in H. destruct (pg k cur) as [|evs next] eqn:P; [discriminate|].
  destruct (handle_unconfirmed tok cur evs) as [l| |] eqn:HU; try discriminate.
  assert (G : Forall ugood (acc ++ l)).
  { apply Forall_app. split; [exact Hacc|]. eapply handle_unconfirmed_ugood; [eapply Hp; exact P|exact Ha|exact HU]. }
  destruct (alph_page_exit next count).
  - injection H as <- <- <-. exact G.
  - eapply IH; [exact G|exact H].
Qed.

(* ---- delivering a batch to the event loop *)
Lemma add_event_bgood : forall p u, Forall bgood p -> ugood u -> Forall bgood (add_event p u).
Proof.
  intros p u Hp Hu. induction p as [|b t IH]; cbn [add_event].
  - constructor; [|constructor]. split; cbn [pb_evs pb_hdr pb_hash]; [|intros h H; discriminate H].
    constructor; [split; [exact Hu|reflexivity]|constructor].
  - inversion Hp as [|b' t' Hb Ht]; subst. destruct (pb_hash b =? e_block (u_ev u)) eqn:E.
    + apply Z.eqb_eq in E. constructor; [|exact Ht]. destruct Hb as [Hb1 Hb2]. split; cbn [pb_evs pb_hdr pb_hash]; [|exact Hb2].
      apply Forall_app. split; [exact Hb1|]. constructor; [split; [exact Hu|symmetry; exact E]|constructor].
    + constructor; [exact Hb|apply IH; exact Ht].
Qed.

Lemma add_batch_bgood : forall l p, Forall bgood p -> Forall ugood l -> Forall bgood (add_batch p l).
Proof.
  unfold add_batch. induction l as [|u l IH]; intros p Hp Hl; cbn [fold_left]; [exact Hp|].
  inversion Hl; subst. apply IH; [apply add_event_bgood; assumption|assumption].
Qed.

(* ---- height tick *)
Definition cgood (height now : Z) (mc : Z -> option bool) (x : uevent * header) : Prop :=
  ugood (fst x) /\ HP (e_block (u_ev (fst x))) (snd x) /\ mc (e_block (u_ev (fst x))) = Some true /\
  confirmed (c_mainnet c) (u_msg (fst x)) (snd x) now height = true.

Lemma process_block_good : forall height now mc hd b k conf,
  (forall b h, hd b = Some h -> HP b h) -> bgood b ->
  process_block (c_mainnet c) height now mc hd b = BOk k conf ->
  (forall b', k = Some b' -> bgood b') /\ Forall (cgood height now mc) conf.
Proof.
  intros height now mc hd b k conf Hhd [Hb1 Hb2] H. unfold process_block in H.
  destruct (mc (pb_hash b)) as [canon|] eqn:M; [|discriminate].
  destruct (match pb_hdr b with Some h => Some h | None => hd (pb_hash b) end) as [h|] eqn:Hh; [|discriminate].
  assert (HPh : HP (pb_hash b) h).
  { destruct (pb_hdr b) as [h'|] eqn:P; [injection Hh as <-; apply Hb2; reflexivity|apply Hhd; exact Hh]. }
  injection H as <- <-. split.
  - intros b' Hk. destruct (filter _ (pb_evs b)) as [|x r] eqn:F; [discriminate|]. injection Hk as <-.
    split; cbn [pb_evs pb_hdr pb_hash]; [|intros h' Hq; injection Hq as <-; exact HPh].
    rewrite <- F. apply Forall_forall. intros u Hu. apply filter_In in Hu as [Hu _]. rewrite Forall_forall in Hb1. apply Hb1. exact Hu.
  - destruct canon; [|constructor]. apply Forall_forall. intros [u h'] Hx. apply in_map_iff in Hx as (u' & Hx & Hu').
    injection Hx as <- <-. apply filter_In in Hu' as [Hu' Hc]. rewrite Forall_forall in Hb1. destruct (Hb1 _ Hu') as [G E].
    unfold cgood. cbn [fst snd]. rewrite E. auto.
Qed.

Lemma process_blocks_good : forall height now mc hd p p' conf,
  (forall b h, hd b = Some h -> HP b h) -> Forall bgood p ->
  process_blocks (c_mainnet c) height now mc hd p = Some (p', conf) ->
  Forall bgood p' /\ Forall (cgood height now mc) conf.
Proof.
  intros height now mc hd p. induction p as [|b t IH]; intros p' conf Hhd Hp H; cbn [process_blocks] in H.
  - injection H as <- <-. split; constructor.
  - inversion Hp as [|b0 t0 Hb Ht]; subst.
    destruct (process_block (c_mainnet c) height now mc hd b) as [|k cf] eqn:B; [discriminate|].
    destruct (process_blocks (c_mainnet c) height now mc hd t) as [[q cf']|] eqn:R; [|discriminate].
    injection H as <- <-. destruct (IH _ _ Hhd Ht eq_refl) as [I1 I2].
    destruct (process_block_good _ _ _ _ _ _ _ Hhd Hb B) as [K1 K2]. split.
    + destruct k as [b'|]; [constructor; [apply K1; reflexivity|exact I1]|exact I1].
    + apply Forall_app. split; assumption.
Qed.

(* handleConfirmedEvents never meets an unknown event index: toUnconfirmedEvent has filtered it *)
Lemma handle_confirmed_noerr : forall height now mc conf, Forall (cgood height now mc) conf ->
  snd (handle_confirmed (c_bridge c) conf) = false.
Proof.
  intros height now mc conf. induction conf as [|[u h] t IH]; intro H; cbn [handle_confirmed]; [reflexivity|].
  inversion H as [|x t' Hx Ht]; subst. destruct Hx as ((G1 & G2 & G3) & _). cbn [fst] in G2. apply to_unconfirmed_some in G2 as [G2 _].
  rewrite G2, Z.eqb_refl. specialize (IH Ht). destruct (handle_confirmed (c_bridge c) t) as [f e]. cbn [snd] in *.
  destruct (m_sender (u_msg u) =? c_bridge c); exact IH.
Qed.

(* ---- one step preserves the invariant (a re-observation request never touches the watcher's state) *)
Definition op_ok_st (o : op) : Prop := match o with OReobs _ => True | _ => op_ok o end.

Lemma op_ok_st_of : forall o, op_ok o -> op_ok_st o.
Proof. intros o H. destruct o; exact H || exact I. Qed.

Theorem step_inv : forall s o, Inv s -> op_ok_st o -> Inv (fst (step c s o)).
Proof.
  intros s o HI Hok. pose proof HI as [I1 I2]. unfold step. destruct (w_dead s) eqn:D; [exact HI|].
  assert (Hdie : Inv (die s)) by (split; [exact I1|exact I2]).
  destruct o as [cnt pg tok| |height now mc hd|r|].
  - destruct (w_inflight s) as [l0|] eqn:F; [exact HI|].
    destruct Hok as [Hp Ha].
    destruct (poll cnt pg tok (w_from s)) as [|from' batch n| | |] eqn:P; cbn [fst]; try (exact HI || exact Hdie).
    split; cbn [w_inflight w_pending]; [|exact I2].
    intros l Hl. injection Hl as <-. unfold poll in P. destruct cnt as [count|]; [|discriminate].
    destruct (count =? w_from s); [discriminate|].
    eapply page_loop_ugood; [exact Hp|exact Ha| |exact P]. constructor.
  - destruct (w_inflight s) as [l|] eqn:F; cbn [fst]; [|exact HI].
    split; cbn [w_inflight w_pending]; [intros l' H; discriminate H|].
    apply add_batch_bgood; [exact I2|apply (proj1 HI); exact F].
  - destruct (process_blocks (c_mainnet c) height now mc hd (w_pending s)) as [[p' conf]|] eqn:R; [|exact Hdie].
    destruct (process_blocks_good _ _ _ _ _ _ _ Hok I2 R) as [G1 G2].
    destruct (handle_confirmed (c_bridge c) conf) as [f err]. cbn [fst].
    split; cbn [w_inflight w_pending]; assumption.
  - destruct (reobserve c r) as [f fl]. cbn [fst]. destruct fl; exact HI || exact Hdie.
  - exact Hdie.
Qed.

End Safety.

(* ================================================================== accounting: nothing is forwarded twice *)
Definition cnt (p : uevent -> bool) (l : list uevent) : nat := length (filter p l).
Definition fwd_u (f : fwd) : uevent := {| u_ev := f_ev f; u_msg := f_msg f; u_chain := f_chain f |}.

Lemma fwd_u_mkfwd : forall u h, fwd_u (mkfwd u h) = u.
Proof. intros [e m ch] h. reflexivity. Qed.

Lemma cnt_app : forall p a b, cnt p (a ++ b) = (cnt p a + cnt p b)%nat.
Proof. intros. unfold cnt. rewrite filter_app, app_length. reflexivity. Qed.

Lemma cnt_filter_split : forall p f l, (cnt p (filter f l) + cnt p (filter (fun x => negb (f x)) l) = cnt p l)%nat.
Proof.
  intros p f l. unfold cnt. induction l as [|x l IH]; [reflexivity|]. cbn [filter].
  destruct (f x); cbn [negb filter]; destruct (p x); cbn [length]; lia.
Qed.

Lemma cnt_filter_le : forall p f l, (cnt p (filter f l) <= cnt p l)%nat.
Proof. intros p f l. pose proof (cnt_filter_split p f l). lia. Qed.

Lemma plist_add_event : forall p P u, cnt p (plist (add_event P u)) = (cnt p (plist P) + cnt p [u])%nat.
Proof.
  intros p P u. induction P as [|b t IH]; cbn [add_event].
  - unfold plist. cbn [flat_map pb_evs]. rewrite app_nil_r. reflexivity.
  - destruct (pb_hash b =? e_block (u_ev u)).
    + unfold plist. cbn [flat_map pb_evs]. rewrite !cnt_app. lia.
    + unfold plist in *. cbn [flat_map]. rewrite !cnt_app, IH. lia.
Qed.

Lemma plist_add_batch : forall p l P, cnt p (plist (add_batch P l)) = (cnt p (plist P) + cnt p l)%nat.
Proof.
  intros p l. unfold add_batch. induction l as [|u l IH]; intro P; cbn [fold_left].
  - unfold cnt at 3. cbn. lia.
  - rewrite IH, plist_add_event. change (u :: l) with ([u] ++ l). rewrite cnt_app. lia.
Qed.

Lemma process_block_count : forall p mn height now mc hd b k conf,
  process_block mn height now mc hd b = BOk k conf ->
  (cnt p (map fst conf) + cnt p (match k with Some b' => pb_evs b' | None => [] end) <= cnt p (pb_evs b))%nat.
Proof.
  intros p mn height now mc hd b k conf H. unfold process_block in H.
  destruct (mc (pb_hash b)) as [canon|]; [|discriminate].
  destruct (match pb_hdr b with Some h => Some h | None => hd (pb_hash b) end) as [h|]; [|discriminate].
  injection H as <- <-.
  pose proof (cnt_filter_split p (fun u => confirmed mn (u_msg u) h now height) (pb_evs b)) as S.
  set (remain := filter (fun u => negb (confirmed mn (u_msg u) h now height)) (pb_evs b)) in *.
  assert (K : cnt p (match (match remain with [] => None | _ :: _ => Some {| pb_hash := pb_hash b; pb_hdr := Some h; pb_evs := remain |} end) with
                     | Some b' => pb_evs b' | None => [] end) = cnt p remain) by (destruct remain; reflexivity).
  rewrite K. destruct canon.
  - rewrite map_map. cbn [fst]. rewrite map_id. lia.
  - cbn [map]. unfold cnt at 1. cbn. lia.
Qed.

Lemma process_blocks_count : forall p mn height now mc hd P P' conf,
  process_blocks mn height now mc hd P = Some (P', conf) ->
  (cnt p (map fst conf) + cnt p (plist P') <= cnt p (plist P))%nat.
Proof.
  intros p mn height now mc hd P. induction P as [|b t IH]; intros P' conf H; cbn [process_blocks] in H.
  - injection H as <- <-. cbn. lia.
  - destruct (process_block mn height now mc hd b) as [|k cf] eqn:B; [discriminate|].
    destruct (process_blocks mn height now mc hd t) as [[q cf']|] eqn:R; [|discriminate].
    injection H as <- <-. specialize (IH _ _ eq_refl). pose proof (process_block_count p _ _ _ _ _ _ _ _ B) as C.
    rewrite map_app, cnt_app. unfold plist in *. cbn [flat_map]. rewrite cnt_app.
    destruct k as [b'|]; cbn [flat_map]; rewrite ?cnt_app; lia.
Qed.

Lemma handle_confirmed_count : forall p br conf,
  (cnt p (map fwd_u (fst (handle_confirmed br conf))) <= cnt p (map fst conf))%nat.
Proof.
  intros p br conf. induction conf as [|[u h] t IH]; cbn [handle_confirmed]; [cbn; lia|].
  destruct (e_index (u_ev u) =? alph_wm_event_index); [|cbn [fst map]; unfold cnt at 1; cbn; lia].
  destruct (handle_confirmed br t) as [f e]. cbn [fst] in *. cbn [map fst].
  change (u :: map fst t) with ([u] ++ map fst t). rewrite cnt_app.
  destruct (m_sender (u_msg u) =? br); cbn [fst map]; [|lia].
  rewrite fwd_u_mkfwd. change (u :: map fwd_u f) with ([u] ++ map fwd_u f). rewrite cnt_app. lia.
Qed.

(* what the watcher holds: pending events plus the batch in flight between fetchEvents and the event loop *)
Definition held (s : wstate) : list uevent := plist (w_pending s) ++ match w_inflight s with Some l => l | None => [] end.
(* messages forwarded by the polling path in a step *)
Definition tick_fwd (o : op) (x : out) : list uevent := match o with OTick _ _ _ _ => map fwd_u (o_fwd x) | _ => [] end.

Lemma held_die : forall s, held (die s) = held s.
Proof. reflexivity. Qed.
Lemma cnt_nil : forall p, cnt p [] = 0%nat.
Proof. reflexivity. Qed.

Lemma step_count : forall c p s o,
  (cnt p (tick_fwd o (snd (step c s o))) + cnt p (held (fst (step c s o))) <= cnt p (held s) + cnt p (o_batch (snd (step c s o))))%nat.
Proof.
  intros c p s o. unfold step.
  assert (Triv : forall o', (cnt p (tick_fwd o' out0) + cnt p (held s) <= cnt p (held s) + cnt p (o_batch out0))%nat).
  { intro o'. destruct o'; cbn [tick_fwd out0 o_fwd o_batch map]; rewrite ?cnt_nil; lia. }
  destruct (w_dead s); [apply Triv|].
  destruct o as [cn pg tok| |height now mc hd|r|].
  - destruct (w_inflight s) as [l0|] eqn:F; [apply Triv|].
    destruct (poll cn pg tok (w_from s)) as [|from' batch n| | |];
      [apply (Triv (OPoll cn pg tok))| |cbn [fst snd tick_fwd o_batch]; rewrite held_die, !cnt_nil; lia ..].
    cbn [fst snd tick_fwd o_batch]. unfold held. cbn [w_pending w_inflight]. rewrite F, !cnt_app, cnt_nil. lia.
  - destruct (w_inflight s) as [l|] eqn:F; [|apply Triv]. cbn [fst snd tick_fwd o_batch out0].
    unfold held. cbn [w_pending w_inflight]. rewrite F, !cnt_app, plist_add_batch, !cnt_nil. lia.
  - destruct (process_blocks (c_mainnet c) height now mc hd (w_pending s)) as [[p' conf]|] eqn:R.
    + pose proof (process_blocks_count p _ _ _ _ _ _ _ _ R) as C. pose proof (handle_confirmed_count p (c_bridge c) conf) as Hc.
      destruct (handle_confirmed (c_bridge c) conf) as [f err]. cbn [fst snd tick_fwd o_fwd o_batch] in *.
      unfold held. cbn [w_pending w_inflight]. rewrite !cnt_app, cnt_nil. lia.
    + cbn [fst snd tick_fwd o_fwd o_batch map]. rewrite held_die, !cnt_nil. lia.
  - destruct (reobserve c r) as [f fl]. cbn [fst snd tick_fwd o_batch]. destruct fl; rewrite ?held_die, !cnt_nil; lia.
  - cbn [fst snd tick_fwd o_batch]. rewrite held_die, !cnt_nil. lia.
Qed.

(* the batches produced and the messages forwarded on the polling path along a history *)
Fixpoint batches (c : cfg) (s : wstate) (ops : list op) : list uevent :=
  match ops with [] => [] | o :: t => o_batch (snd (step c s o)) ++ batches c (fst (step c s o)) t end.
Fixpoint tick_fwds (c : cfg) (s : wstate) (ops : list op) : list uevent :=
  match ops with [] => [] | o :: t => tick_fwd o (snd (step c s o)) ++ tick_fwds c (fst (step c s o)) t end.
Fixpoint final (c : cfg) (s : wstate) (ops : list op) : wstate :=
  match ops with [] => s | o :: t => final c (fst (step c s o)) t end.

Theorem forwarded_at_most_fetched : forall c p ops s,
  (cnt p (tick_fwds c s ops) + cnt p (held (final c s ops)) <= cnt p (held s) + cnt p (batches c s ops))%nat.
Proof.
  intros c p ops. induction ops as [|o t IH]; intro s; cbn [tick_fwds batches final]; [cbn; lia|].
  rewrite !cnt_app. specialize (IH (fst (step c s o))). pose proof (step_count c p s o). lia.
Qed.

Lemma run_final : forall c ops s, snd (run c s ops) = final c s ops.
Proof.
  intros c ops. induction ops as [|o t IH]; intro s; cbn [run final]; [reflexivity|].
  destruct (step c s o) as [s' x]. cbn [fst]. specialize (IH s'). destruct (run c s' t) as [xs s'']. cbn [snd] in *. exact IH.
Qed.

(* ================================================================== the block poller stays enabled while events are pending *)
Lemma process_blocks_nil : forall mn height now mc hd P conf, process_blocks mn height now mc hd P = Some ([], conf) -> P = [] \/ P <> [].
Proof. intros. destruct P; [left; reflexivity|right; discriminate]. Qed.

Lemma add_batch_nonempty : forall l P, add_batch P l <> [] -> P <> [] \/ l <> [].
Proof. intros l P H. destruct l; [left; exact H|right; discriminate]. Qed.

Definition poller_inv (s : wstate) : Prop := w_pending s <> [] -> w_enabled s = true.

Lemma step_poller : forall c s o, poller_inv s -> poller_inv (fst (step c s o)).
Proof.
  intros c s o I. unfold step. destruct (w_dead s); [exact I|].
  destruct o as [cn pg tok| |height now mc hd|r|].
  - destruct (w_inflight s); [exact I|]. destruct (poll cn pg tok (w_from s)); exact I.
  - destruct (w_inflight s) as [l|]; [|exact I]. cbn [fst]. unfold poller_inv. cbn [w_pending w_enabled].
    intro H. destruct l as [|u l]; cbn [is_nil]; [|reflexivity]. apply I. exact H.
  - destruct (process_blocks (c_mainnet c) height now mc hd (w_pending s)) as [[p' conf]|] eqn:R; [|exact I].
    destruct (handle_confirmed (c_bridge c) conf) as [f err]. cbn [fst]. unfold poller_inv. cbn [w_pending w_enabled].
    intro H. destruct p' as [|b p']; [congruence|]. cbn [is_nil]. apply I. destruct (w_pending s); [|discriminate].
    cbn [process_blocks] in R. discriminate.
  - destruct (reobserve c r) as [f fl]. destruct fl; exact I.
  - exact I.
Qed.

Theorem poller_enabled_while_pending : forall c ops from0, poller_inv (final c (init from0) ops).
Proof.
  intros c ops from0. assert (G : forall s, poller_inv s -> poller_inv (final c s ops)).
  { induction ops as [|o t IH]; intros s I; cbn [final]; [exact I|]. apply IH. apply step_poller. exact I. }
  apply G. intro H. exfalso. apply H. reflexivity.
Qed.

Definition NoP1 {A} : A -> Prop := fun _ => True.
Definition NoP2 {A B} : A -> B -> Prop := fun _ _ => True.
(* the structural invariant alone (no provenance predicates) *)
Definition Inv0 : wstate -> Prop := Inv NoP1 NoP2 NoP1.

Lemma op_ok_triv : forall c o, op_ok c NoP1 NoP2 NoP1 o.
Proof.
  intros c o. destruct o as [cn pg tok| |height now mc hd|r|]; cbn [op_ok]; unfold NoP1, NoP2; auto.
  - split; [|auto]. intros k s evs next _. apply Forall_forall. auto.
  - split; [|auto]. intros evs _. apply Forall_forall. auto.
Qed.

Lemma step_dead : forall c s o, w_dead s = true -> step c s o = (s, out0).
Proof. intros c s o H. unfold step. rewrite H. reflexivity. Qed.

Lemma final_dead : forall c ops s, w_dead s = true -> w_dead (final c s ops) = true.
Proof.
  intros c ops. induction ops as [|o t IH]; intros s H; cbn [final]; [exact H|]. rewrite step_dead by exact H. cbn [fst]. apply IH. exact H.
Qed.

(* ================================================================== a pending event is forwarded at the first tick at which it is final *)
Definition pending_in (P : list pblock) (blk : Z) (u : uevent) : Prop :=
  exists b, In b P /\ pb_hash b = blk /\ In u (pb_evs b).

Lemma add_event_keeps : forall P u' blk u, pending_in P blk u -> pending_in (add_event P u') blk u.
Proof.
  intros P u' blk u. induction P as [|b t IH]; intros (b0 & Hb & Hh & Hu); [destruct Hb|]. cbn [add_event].
  destruct (pb_hash b =? e_block (u_ev u')) eqn:E.
  - destruct Hb as [<-|Hb].
    + eexists. split; [left; reflexivity|]. cbn [pb_hash pb_evs]. split; [exact Hh|apply in_or_app; left; exact Hu].
    + exists b0. split; [right; exact Hb|auto].
  - destruct Hb as [<-|Hb].
    + exists b. split; [left; reflexivity|auto].
    + destruct IH as (b1 & H1 & H2 & H3); [exists b0; auto|]. exists b1. split; [right; exact H1|auto].
Qed.

Lemma add_batch_keeps : forall l P blk u, pending_in P blk u -> pending_in (add_batch P l) blk u.
Proof.
  unfold add_batch. induction l as [|u' l IH]; intros P blk u H; cbn [fold_left]; [exact H|]. apply IH. apply add_event_keeps. exact H.
Qed.

Lemma handle_confirmed_in : forall br conf u h,
  Forall (fun x => e_index (u_ev (fst x)) = alph_wm_event_index) conf -> In (u, h) conf -> m_sender (u_msg u) = br ->
  In (mkfwd u h) (fst (handle_confirmed br conf)).
Proof.
  intros br conf u h. induction conf as [|[u0 h0] t IH]; intros Hi Hin Hs; [destruct Hin|]. cbn [handle_confirmed].
  inversion Hi as [|x t' Hx Ht]; subst x t'. cbn [fst] in Hx. rewrite Hx, Z.eqb_refl.
  destruct (handle_confirmed br t) as [f e] eqn:R. cbn [fst] in IH.
  destruct Hin as [Heq|Hin].
  - injection Heq as -> ->. rewrite Hs, Z.eqb_refl. cbn [fst]. left. reflexivity.
  - specialize (IH Ht Hin Hs). destruct (m_sender (u_msg u0) =? br); cbn [fst]; [right; exact IH|exact IH].
Qed.

Section TickLiveness.
Variable c : cfg.
Variable H : Z -> header.     (* the header of every block: the node's header answers are consistent with it *)
Definition HPh : Z -> header -> Prop := fun b h => h = H b.
Definition InvH : wstate -> Prop := Inv NoP1 HPh NoP1.
Definition okH (o : op) : Prop := match o with OTick _ _ _ hd => forall b h, hd b = Some h -> h = H b | _ => True end.

Lemma step_InvH : forall s o, InvH s -> okH o -> InvH (fst (step c s o)).
Proof.
  intros s o HI Hok. apply (step_inv c NoP1 HPh NoP1 s o HI). destruct o as [cn pg tok| |height now mc hd|r|]; cbn [op_ok_st op_ok]; try exact I.
  - split; [|unfold NoP1; auto]. intros k s0 evs next _. apply Forall_forall. unfold NoP1. auto.
  - exact Hok.
Qed.

Lemma process_block_live : forall height now mc hd b k conf,
  (forall b h, hd b = Some h -> h = H b) -> bgood NoP1 HPh NoP1 b ->
  process_block (c_mainnet c) height now mc hd b = BOk k conf ->
  forall u, In u (pb_evs b) ->
  (confirmed (c_mainnet c) (u_msg u) (H (pb_hash b)) now height = false ->
     exists b', k = Some b' /\ pb_hash b' = pb_hash b /\ In u (pb_evs b')) /\
  (confirmed (c_mainnet c) (u_msg u) (H (pb_hash b)) now height = true -> mc (pb_hash b) = Some true -> In (u, H (pb_hash b)) conf).
Proof.
  intros height now mc hd b k conf Hhd [Hb1 Hb2] R u Hu. unfold process_block in R.
  destruct (mc (pb_hash b)) as [canon|] eqn:M; [|discriminate].
  destruct (match pb_hdr b with Some h => Some h | None => hd (pb_hash b) end) as [h|] eqn:Hh; [|discriminate].
  assert (Eh : h = H (pb_hash b)).
  { destruct (pb_hdr b) as [h'|] eqn:P; [injection Hh as <-; apply Hb2; reflexivity|apply Hhd; exact Hh]. }
  subst h. injection R as <- <-. split.
  - intro Hc. assert (Hin : In u (filter (fun u0 => negb (confirmed (c_mainnet c) (u_msg u0) (H (pb_hash b)) now height)) (pb_evs b))).
    { apply filter_In. split; [exact Hu|rewrite Hc; reflexivity]. }
    destruct (filter (fun u0 => negb (confirmed (c_mainnet c) (u_msg u0) (H (pb_hash b)) now height)) (pb_evs b)) as [|x r] eqn:F; [destruct Hin|].
    eexists. split; [reflexivity|]. cbn [pb_hash pb_evs]. split; [reflexivity|exact Hin].
  - intros Hc Hm. injection Hm as ->. apply in_map_iff. exists u. split; [reflexivity|]. apply filter_In. auto.
Qed.

Lemma process_blocks_live : forall height now mc hd P P' conf,
  (forall b h, hd b = Some h -> h = H b) -> Forall (bgood NoP1 HPh NoP1) P ->
  process_blocks (c_mainnet c) height now mc hd P = Some (P', conf) ->
  forall blk u, pending_in P blk u ->
  (confirmed (c_mainnet c) (u_msg u) (H blk) now height = false -> pending_in P' blk u) /\
  (confirmed (c_mainnet c) (u_msg u) (H blk) now height = true -> mc blk = Some true -> In (u, H blk) conf).
Proof.
  intros height now mc hd P. induction P as [|b t IH]; intros P' conf Hhd HP R blk u (b0 & Hb & Hh & Hu); [destruct Hb|].
  cbn [process_blocks] in R. inversion HP as [|b' t' Hbg Htg]; subst.
  destruct (process_block (c_mainnet c) height now mc hd b) as [|k cf] eqn:B; [discriminate|].
  destruct (process_blocks (c_mainnet c) height now mc hd t) as [[q cf']|] eqn:R'; [|discriminate].
  injection R as <- <-. destruct Hb as [<-|Hb].
  - destruct (process_block_live _ _ _ _ _ _ _ Hhd Hbg B u Hu) as [L1 L2]. split.
    + intro Hc. destruct (L1 Hc) as (b' & -> & E1 & E2). exists b'. split; [left; reflexivity|auto].
    + intros Hc Hm. apply in_or_app. left. apply L2; assumption.
  - destruct (IH _ _ Hhd Htg eq_refl (pb_hash b0) u) as [L1 L2]; [exists b0; auto|]. split.
    + intro Hc. destruct (L1 Hc) as (b' & E0 & E1 & E2). exists b'. split; [destruct k; [right|]; exact E0|auto].
    + intros Hc Hm. apply in_or_app. right. apply L2; assumption.
Qed.

Lemma step_keeps_pending : forall s o blk u, InvH s -> okH o -> w_dead (fst (step c s o)) = false ->
  pending_in (w_pending s) blk u ->
  (forall height now mc hd, o = OTick height now mc hd -> confirmed (c_mainnet c) (u_msg u) (H blk) now height = false) ->
  pending_in (w_pending (fst (step c s o))) blk u.
Proof.
  intros s o blk u HI Hok Dd Hp Hnc. pose proof HI as [I1 I2]. revert Dd. unfold step. destruct (w_dead s); [intros _; exact Hp|].
  destruct o as [cn pg tok| |height now mc hd|r|].
  - destruct (w_inflight s); [intros _; exact Hp|]. destruct (poll cn pg tok (w_from s)); intros _; exact Hp.
  - destruct (w_inflight s) as [l|]; [|intros _; exact Hp]. intros _. cbn [fst w_pending]. apply add_batch_keeps. exact Hp.
  - destruct (process_blocks (c_mainnet c) height now mc hd (w_pending s)) as [[P' conf]|] eqn:R; [|cbn [fst die w_dead]; discriminate].
    destruct (process_blocks_live _ _ _ _ _ _ _ Hok I2 R blk u Hp) as [L1 _].
    destruct (handle_confirmed (c_bridge c) conf) as [f err]. intros _. cbn [fst w_pending]. apply L1. eapply Hnc. reflexivity.
  - destruct (reobserve c r) as [f fl]. destruct fl; intros _; exact Hp.
  - cbn [fst die w_dead]. discriminate.
Qed.

Lemma step_forwards : forall s height now mc hd blk u, InvH s -> okH (OTick height now mc hd) ->
  w_dead (fst (step c s (OTick height now mc hd))) = false ->
  pending_in (w_pending s) blk u -> m_sender (u_msg u) = c_bridge c ->
  confirmed (c_mainnet c) (u_msg u) (H blk) now height = true -> mc blk = Some true ->
  In (mkfwd u (H blk)) (o_fwd (snd (step c s (OTick height now mc hd)))).
Proof.
  intros s height now mc hd blk u HI Hok Dd Hp Hs Hc Hm. pose proof HI as [I1 I2]. revert Dd. unfold step.
  destruct (w_dead s) eqn:D; [cbn [fst]; congruence|].
  destruct (process_blocks (c_mainnet c) height now mc hd (w_pending s)) as [[P' conf]|] eqn:R; [|cbn [fst die w_dead]; discriminate].
  destruct (process_blocks_live _ _ _ _ _ _ _ Hok I2 R blk u Hp) as [_ L2].
  destruct (process_blocks_good c NoP1 HPh NoP1 _ _ _ _ _ _ _ Hok I2 R) as [G1 G2].
  assert (Hidx : Forall (fun x => e_index (u_ev (fst x)) = alph_wm_event_index) conf).
  { eapply Forall_impl; [|exact G2]. intros x ((_ & G & _) & _). apply to_unconfirmed_some in G. tauto. }
  pose proof (handle_confirmed_in (c_bridge c) conf u (H blk) Hidx (L2 Hc Hm) Hs) as Hin.
  destruct (handle_confirmed (c_bridge c) conf) as [f err]. intros _. cbn [fst snd o_fwd] in *. exact Hin.
Qed.

(* the first tick at which the event is final forwards it, whatever else happened before *)
Theorem pending_forwarded_when_final : forall pre s height now mc hd blk u,
  InvH s -> Forall okH pre -> okH (OTick height now mc hd) ->
  w_dead (fst (step c (final c s pre) (OTick height now mc hd))) = false ->
  pending_in (w_pending s) blk u -> m_sender (u_msg u) = c_bridge c ->
  (forall h' n' mc' hd', In (OTick h' n' mc' hd') pre -> confirmed (c_mainnet c) (u_msg u) (H blk) n' h' = false) ->
  confirmed (c_mainnet c) (u_msg u) (H blk) now height = true -> mc blk = Some true ->
  In (mkfwd u (H blk)) (o_fwd (snd (step c (final c s pre) (OTick height now mc hd)))).
Proof.
  induction pre as [|o t IH]; intros s height now mc hd blk u HI Hpre Hok Dd Hp Hs Hnc Hc Hm; cbn [final] in *.
  - apply step_forwards; assumption.
  - inversion Hpre as [|o' t' Ho Ht]; subst.
    assert (D1 : w_dead (fst (step c s o)) = false).
    { destruct (w_dead (fst (step c s o))) eqn:D1; [|reflexivity]. exfalso.
      pose proof (final_dead c t _ D1) as D2. rewrite step_dead in Dd by exact D2. cbn [fst] in Dd. congruence. }
    apply IH; try assumption.
    + apply step_InvH; assumption.
    + apply step_keeps_pending; try assumption. intros h' n' mc' hd' E. eapply Hnc. left. exact E.
    + intros h' n' mc' hd' Hin. eapply Hnc. right. exact Hin.
Qed.

End TickLiveness.

(* after a height tick nothing that is confirmed remains pending: confirmed events were forwarded or - orphaned block,
   foreign sender - dropped for good *)
Lemma process_block_leaves : forall mn height now mc hd b k conf, process_block mn height now mc hd b = BOk k conf ->
  forall b', k = Some b' -> exists h, pb_hdr b' = Some h /\ Forall (fun u => confirmed mn (u_msg u) h now height = false) (pb_evs b').
Proof.
  intros mn height now mc hd b k conf R b' Hk. unfold process_block in R.
  destruct (mc (pb_hash b)) as [canon|]; [|discriminate].
  destruct (match pb_hdr b with Some h => Some h | None => hd (pb_hash b) end) as [h|]; [|discriminate].
  injection R as <- <-. destruct (filter _ (pb_evs b)) as [|x r] eqn:F; [discriminate|]. injection Hk as <-.
  exists h. cbn [pb_hdr pb_evs]. split; [reflexivity|]. rewrite <- F. apply Forall_forall. intros u Hu.
  apply filter_In in Hu as [_ Hu]. apply negb_true_iff in Hu. exact Hu.
Qed.

Lemma process_blocks_leaves : forall mn height now mc hd P P' conf, process_blocks mn height now mc hd P = Some (P', conf) ->
  Forall (fun b' => exists h, pb_hdr b' = Some h /\ Forall (fun u => confirmed mn (u_msg u) h now height = false) (pb_evs b')) P'.
Proof.
  intros mn height now mc hd P. induction P as [|b t IH]; intros P' conf R; cbn [process_blocks] in R.
  - injection R as <- <-. constructor.
  - destruct (process_block mn height now mc hd b) as [|k cf] eqn:B; [discriminate|].
    destruct (process_blocks mn height now mc hd t) as [[q cf']|] eqn:R'; [|discriminate].
    injection R as <- <-. specialize (IH _ _ eq_refl). destruct k as [b'|]; [|exact IH].
    constructor; [eapply process_block_leaves; [exact B|reflexivity]|exact IH].
Qed.

Theorem tick_leaves_only_unconfirmed : forall c s height now mc hd,
  w_dead (fst (step c s (OTick height now mc hd))) = false ->
  Forall (fun b' => exists h, pb_hdr b' = Some h /\ Forall (fun u => confirmed (c_mainnet c) (u_msg u) h now height = false) (pb_evs b'))
         (w_pending (fst (step c s (OTick height now mc hd)))) \/ w_dead s = true.
Proof.
  intros c s height now mc hd. unfold step. destruct (w_dead s); [right; reflexivity|]. left.
  destruct (process_blocks (c_mainnet c) height now mc hd (w_pending s)) as [[P' conf]|] eqn:R; [|cbn [fst die w_dead] in *; discriminate].
  pose proof (process_blocks_leaves _ _ _ _ _ _ _ _ R) as L. destruct (handle_confirmed (c_bridge c) conf) as [f err]. cbn [fst w_pending]. exact L.
Qed.

(* while events are pending the height poller is not gated off: every tick of _fetchHeight whose request succeeds is a
   height tick of the event loop *)
Theorem fetch_height_ticks_while_pending : forall c s height now mc hd,
  poller_inv s -> w_pending s <> [] ->
  fetch_height_tick c s (Some height) now mc hd = step c s (OTick height now mc hd).
Proof.
  intros c s height now mc hd I P. unfold fetch_height_tick. destruct (w_dead s) eqn:D; [rewrite step_dead by exact D; reflexivity|].
  rewrite (I P). reflexivity.
Qed.
