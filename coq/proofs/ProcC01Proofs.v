(* C01: every VAA the node stores or broadcasts is a valid quorum VAA of the right guardian set — for every history.
   Self-contained invariant (independent of the panic-freedom flags: a Panic outcome leaves the state unchanged). *)
From Coq Require Import List ZArith Lia Bool Arith.
From Coq Require Import Strings.Byte.
From WH Require Import lib.Bytes gen.Extracted model.Vaa model.Processor model.ProcSpec
     proofs.VaaProofs proofs.QuorumProofs proofs.ProcessorProofs.
Import ListNotations.
Open Scope Z_scope.

Section C01.
Variable recover : bytes -> bytes -> option bytes.
Variable keccak : bytes -> bytes.
Variable sign : bytes -> bytes.
Variable own : addr.
Variable gov_chain : Z.
Variable gov_addr : bytes.

Notation rec := (Processor.rec recover).
Notation dg := (Processor.dg keccak).
Notation step := (Processor.step recover keccak sign own gov_chain gov_addr).
Notation run := (Processor.run recover keccak sign own gov_chain gov_addr).
Notation handle_obs := (Processor.handle_obs recover).
Notation handle_inbound := (Processor.handle_inbound recover keccak).
Notation handle_message := (Processor.handle_message keccak sign own gov_chain gov_addr).
Notation broadcast_signature := (Processor.broadcast_signature keccak own).
Notation qvalid := (ProcSpec.qvalid recover keccak).
Notation local_pub_ok := (ProcSpec.local_pub_ok recover keccak).
Notation inbound_pub_ok := (ProcSpec.inbound_pub_ok recover keccak).
Notation out_c01 := (ProcSpec.out_c01 recover keccak).
Notation origin_of := (ProcSpec.origin_of keccak sign own gov_chain gov_addr).
Notation steps_c01 := (ProcSpec.steps_c01 recover keccak sign own gov_chain gov_addr).
Notation stored_ok := (ProcSpec.stored_ok recover keccak).
Notation sig_ok := (ProcessorProofs.sig_ok recover).

Record eok (O : list origin) (L : list gset) (h : bytes) (e : entry) : Prop := {
  E_sigs : Forall (sig_ok h) (esigs e);
  E_vaa : forall v, our_vaa e = Some v -> dg v = h /\ In (v, gs_snap e, from_chain e) O;
  E_snap : forall g, gs_snap e = Some g -> In g L;
  E_chain : forall v, our_vaa e = Some v -> from_chain e = true -> exists g, gs_snap e = Some g /\ gsidx v = gidx g }.

Record Inv1 (O : list origin) (L : list gset) (st : pstate) : Prop := {
  J_agg : Forall (fun p => eok O L (fst p) (snd p)) (agg st);
  J_db : Forall (stored_ok L) (db st);
  J_cur : forall g, cur st = Some g -> In g L;
  J_wf : Forall ProcSpec.gs_wf L }.

Lemma eok_mono O O' L L' h e : incl O O' -> incl L L' -> eok O L h e -> eok O' L' h e.
Proof.
  intros HO HL [H1 H2 H3 H4]. constructor; auto.
  intros v Hv. destruct (H2 v Hv) as [A B]. split; [exact A|apply HO; exact B].
Qed.

Lemma stored_ok_mono L L' p : incl L L' -> stored_ok L p -> stored_ok L' p.
Proof. intros HL (v & g & H1 & H2 & H3 & H4). exists v, g. auto. Qed.

Lemma Inv1_mono O O' L st : incl O O' -> Inv1 O L st -> Inv1 O' L st.
Proof.
  intros HO [H1 H2 H3 H4]. constructor; auto.
  eapply Forall_impl; [|exact H1]. intros p. apply eok_mono; [exact HO|apply incl_refl].
Qed.

Lemma new_entry_eok O L h now : eok O L h (new_entry now).
Proof. constructor; cbn [new_entry esigs our_vaa gs_snap]; try discriminate. constructor. Qed.

Lemma body_set_sigs v sg : dg (set_sigs v sg) = dg v.
Proof. reflexivity. Qed.

(* ---- handleObservation: invariant and what it publishes *)
Lemma handle_obs_c01 O L st o : Inv1 O L st ->
  Inv1 O L (fst (handle_obs st o)) /\ Forall (local_pub_ok O L st) (snd (handle_obs st o)).
Proof.
  intros HI. pose proof HI as [Ia Id Ic Iw]. unfold Processor.handle_obs.
  destruct (rec (o_hash o) (o_sig o)) as [pk|] eqn:Er; [|split; [exact HI|constructor]].
  destruct (bytes_eqb_spec (bytes_to_address (o_addr o)) pk) as [Hpk|]; cbn [negb]; [|split; [exact HI|constructor]].
  set (their := bytes_to_address (o_addr o)) in *.
  set (e := alookup (o_hash o) (agg st)).
  set (gs := match e with Some e' => match gs_snap e' with Some g => Some g | None => cur st end | None => cur st end).
  destruct gs as [g|] eqn:Eg; [|split; [exact HI|constructor]].
  destruct (Processor.memb their (keys g)) eqn:Em; cbn [negb]; [|split; [exact HI|constructor]].
  set (e0 := match e with Some e' => e' | None => new_entry (clock st) end).
  assert (He0 : eok O L (o_hash o) e0).
  { subst e0. destruct e as [e'|] eqn:Ee.
    - subst e. apply alookup_In in Ee. rewrite Forall_forall in Ia. apply (Ia _ Ee).
    - apply new_entry_eok. }
  assert (Hsnap : (gs_snap e0 = Some g \/ (gs_snap e0 = None /\ cur st = Some g))).
  { subst gs e0. destruct e as [e'|]; [destruct (gs_snap e') as [g'|]; [left; exact Eg|right; split; [reflexivity|exact Eg]]|].
    right. split; [reflexivity|exact Eg]. }
  assert (HgL : In g L).
  { destruct Hsnap as [Hs|[_ Hs]]; [apply (E_snap _ _ _ _ He0); exact Hs|apply Ic; exact Hs]. }
  assert (Hwf : ProcSpec.gs_wf g) by (rewrite Forall_forall in Iw; auto).
  destruct Hwf as [Hnd Hlen].
  set (e1 := set_esigs e0 (aset their (o_sig o) (esigs e0))).
  assert (He1 : eok O L (o_hash o) e1).
  { destruct He0 as [H1 H2 H3 H4]. subst e1. constructor; cbn [set_esigs esigs our_vaa gs_snap from_chain]; auto.
    apply Forall_aset; [|exact H1]. unfold ProcessorProofs.sig_ok. cbn [fst snd]. rewrite Hpk. exact Er. }
  assert (Hkeep : forall e2, eok O L (o_hash o) e2 -> Inv1 O L (with_agg st (aset (o_hash o) e2 (agg st)))).
  { intros e2 H2. constructor; cbn [with_agg cur agg db]; auto. apply Forall_aset; [exact H2|exact Ia]. }
  destruct (assemble_ok recover (o_hash o) (esigs e1) (E_sigs _ _ _ _ He1) (keys g) [] Hnd ltac:(cbn [length]; lia))
    as (sg & Ha & Hinc & Hso & _ & Hle & _).
  cbn [length] in Ha, Hinc. change (Z.of_nat 0) with 0 in Ha, Hinc. rewrite Ha.
  destruct (our_vaa e1) as [v|] eqn:Ev; [|split; [apply Hkeep; exact He1|constructor]].
  destruct (proc_local_quorum_reached (go_quorum (Z.of_nat (length (keys g)))) (Z.of_nat (length sg)) && negb (submitted e1)) eqn:Eq;
    [|split; [apply Hkeep; exact He1|constructor]].
  apply andb_prop in Eq as [Eq _]. apply local_quorum_reached_iff in Eq.
  destruct sg as [|s0 sg'] eqn:Esg; [split; [apply Hkeep; exact He1|repeat constructor; intros i b X; discriminate]|].
  rewrite <- Esg in *. clear Esg.
  destruct (E_vaa _ _ _ _ He1 v Ev) as [Hdv HinO].
  assert (Hqv : qvalid (set_sigs v sg) (keys g)).
  { split; [|exact Eq]. unfold accepts. cbn [sigs set_sigs].
    change (Processor.dg keccak (set_sigs v sg)) with (dg v). rewrite Hdv. cbn [app] in Hso. split; [exact Hinc|]. split; [exact Hso|].
    apply nodup_addrs_signers_distinct with (addrs := keys g); assumption. }
  assert (Hpub : forall i b, (i = Some (id_of (set_sigs v sg)) \/ i = None) -> b = marshal (set_sigs v sg) ->
            exists v0 snap chain sg0 g0, In (v0, snap, chain) O /\ (snap = Some g0 \/ (snap = None /\ cur st = Some g0)) /\ In g0 L /\
              b = marshal (set_sigs v0 sg0) /\ (forall i', i = Some i' -> i' = id_of v0) /\ qvalid (set_sigs v0 sg0) (keys g0) /\
              (chain = true -> snap = Some g0 /\ gsidx v0 = gidx g0)).
  { intros i b Hi Hb. exists v, (gs_snap e1), (from_chain e1), sg, g.
    split; [exact HinO|]. split; [exact Hsnap|]. split; [exact HgL|]. split; [exact Hb|].
    split; [intros i' E; destruct Hi as [Hi|Hi]; rewrite Hi in E; [inversion E; reflexivity|discriminate]|].
    split; [exact Hqv|].
    intros Hch. destruct (E_chain _ _ _ _ He1 v Ev Hch) as (g' & Hg' & Hidx).
    destruct Hsnap as [Hs|[Hs _]]; cbn [e1 set_esigs gs_snap] in Hg'; rewrite Hs in Hg'; [|discriminate].
    inversion Hg'; subst g'. split; [exact Hs|exact Hidx]. }
  split.
  - constructor; cbn [cur agg db]; auto.
    + apply Forall_aset; [|exact Ia]. cbn [fst snd]. destruct He1 as [H1 H2 H3 H4].
      constructor; cbn [set_submitted esigs our_vaa gs_snap from_chain]; auto.
    + constructor; [|exact Id]. exists (set_sigs v sg), g. cbn [fst snd]. auto.
  - constructor; [|constructor; [|constructor]].
    + intros i b X. cbn [publishes] in X. inversion X; subst. apply Hpub; [left; reflexivity|reflexivity].
    + intros i b X. cbn [publishes] in X. inversion X; subst. apply Hpub; [right; reflexivity|reflexivity].
Qed.

(* ---- broadcastSignature (after handleMessage / handleInjection) *)
Lemma broadcast_c01 O L st v s tx chain : Inv1 O L st ->
  (chain = true -> exists g, cur st = Some g /\ gsidx v = gidx g) ->
  Inv1 ((v, cur st, chain) :: O) L (fst (broadcast_signature st v s tx chain)) /\
  Forall (fun x => publishes x = None) (snd (broadcast_signature st v s tx chain)).
Proof.
  intros HI Hc. pose proof HI as [Ia Id Ic Iw]. unfold Processor.broadcast_signature. cbn [fst snd].
  split; [|repeat constructor].
  constructor; cbn [cur agg db]; auto.
  apply Forall_aset.
  - cbn [fst snd].
    set (e0 := match alookup (dg v) (agg st) with Some e => e | None => new_entry (clock st) end).
    assert (Hs : Forall (sig_ok (dg v)) (esigs e0)).
    { subst e0. destruct (alookup (dg v) (agg st)) as [e|] eqn:El.
      - apply alookup_In in El. rewrite Forall_forall in Ia. destruct (Ia _ El) as [H1 _ _ _]. exact H1.
      - constructor. }
    constructor; cbn [set_own esigs our_vaa gs_snap from_chain].
    + exact Hs.
    + intros v' E. inversion E; subst v'. split; [reflexivity|left; reflexivity].
    + exact Ic.
    + intros v' E Hch. inversion E; subst v'. destruct (Hc Hch) as (g & Hg & Hi). exists g. split; assumption.
  - eapply Forall_impl; [|exact Ia]. intros p. apply eok_mono; [intros x Hx; right; exact Hx|apply incl_refl].
Qed.

(* ---- handleInboundSignedVAAWithQuorum *)
Lemma handle_inbound_c01 O L st b : Inv1 O L st ->
  Inv1 O L (fst (handle_inbound st b)) /\ Forall (inbound_pub_ok st) (snd (handle_inbound st b)).
Proof.
  intros HI. pose proof HI as [Ia Id Ic Iw]. unfold Processor.handle_inbound.
  destruct (unmarshal b) as [v|] eqn:Eu; [|split; [exact HI|constructor]].
  destruct (cur st) as [g|] eqn:Ec; [|split; [exact HI|constructor]].
  destruct (length (keys g) =? 0)%nat; [split; [exact HI|constructor]|].
  destruct (length (sigs v) =? 0)%nat; [split; [exact HI|constructor]|].
  destruct (inbound_below_quorum_spec (Z.of_nat (length (sigs v))) (go_quorum (Z.of_nat (length (keys g))))) as [|Hq]; [split; [exact HI|constructor]|].
  destruct (verify_sigs rec keccak v (keys g)) eqn:Ev; cbn [negb]; [|split; [exact HI|constructor]].
  destruct (dlookup (id_of v) (db st)) as [x|] eqn:El; [split; [exact HI|constructor]|].
  assert (Hqv : qvalid v (keys g)).
  { split; [|lia]. apply verify_sigs_iff in Ev. exact Ev. }
  assert (HgL : In g L) by (apply Ic; reflexivity).
  cbn [fst snd]. split.
  - constructor; cbn [cur agg db]; auto.
    constructor; [|exact Id]. exists v, g. cbn [fst snd]. auto.
  - constructor; [|constructor]. intros i b' X. cbn [publishes] in X. inversion X; subst.
    exists v, g, (id_of v). split; [reflexivity|]. split; [exact Ec|]. split; [reflexivity|]. split; [reflexivity|].
    split; [exact Hqv|exact El].
Qed.

(* ---- handleCleanup never publishes and only deletes / re-flags entries *)
Lemma cleanup_entry_c01 O L now indb ck h e : eok O L h e ->
  match cleanup_entry now indb ck e with
  | CKeep e' o => eok O L h e' /\ Forall (fun x => publishes x = None) o
  | CDelete => True
  | CPanic => True
  end.
Proof.
  intros He. pose proof He as [H1 H2 H3 H4]. unfold cleanup_entry.
  destruct (negb (submitted e) && _ && _ && indb); [exact I|].
  destruct (negb (settled e) && _).
  { destruct (_ || _ || _); [|exact I]. split; [|constructor]. constructor; cbn [set_settled esigs our_vaa gs_snap from_chain]; auto. }
  destruct (submitted e && _); [exact I|].
  destruct (negb (submitted e) && _); [exact I|].
  destruct (negb (submitted e) && _ && _).
  - destruct (our_msg e) as [o|].
    + split; [|repeat constructor]. constructor; cbn [set_retried esigs our_vaa gs_snap from_chain]; auto.
    + destruct (_ && _); exact I.
  - split; [exact He|constructor].
Qed.

Lemma cleanup_all_c01 O L st0 now l :
  Forall (fun p => eok O L (fst p) (snd p)) l ->
  Forall (fun p => eok O L (fst p) (snd p)) (fst (cleanup_all st0 now l)) /\
  Forall (fun x => publishes x = None) (snd (cleanup_all st0 now l)).
Proof.
  induction l as [|[h e] l IH]; intros F; cbn [cleanup_all]; [split; constructor|].
  inversion F as [|? ? He F']; subst. cbn [fst snd] in He.
  destruct (IH F') as [IH1 IH2]. destruct (cleanup_all st0 now l) as [t' o']. cbn [fst snd] in IH1, IH2.
  pose proof (cleanup_entry_c01 O L now (in_db_of st0 e) (match cur st0 with Some _ => true | None => false end) h e He) as Hc.
  destruct (cleanup_entry now _ _ e) as [e' o| |]; cbn [fst snd].
  - destruct Hc as [Hc1 Hc2]. split; [constructor; assumption|apply Forall_app; split; assumption].
  - split; assumption.
  - split; [constructor; assumption|constructor; [reflexivity|assumption]].
Qed.

(* ---- one step *)
Lemma incl_app_r_self {A} (a l : list A) : incl l (a ++ l).
Proof. intros x Hx. apply in_or_app. right. exact Hx. Qed.

Lemma step_c01 O L st o : Inv1 O L st -> ProcSpec.op_wf o ->
  Inv1 (origin_of st o ++ O) (learned_after L o) (fst (step st o)) /\ Forall (out_c01 O L st o) (snd (step st o)).
Proof.
  intros HI Hw. pose proof HI as [Ia Id Ic Iw].
  destruct o as [g|t|m|v|ob|k|b|]; cbn [Processor.step ProcSpec.learned_after ProcSpec.origin_of ProcSpec.out_c01 app].
  - (* SetGS *) cbn [fst snd]. split; [|constructor]. constructor; cbn [cur agg db].
    + eapply Forall_impl; [|exact Ia]. intros p. apply eok_mono; [apply incl_refl|intros x Hx; right; exact Hx].
    + eapply Forall_impl; [|exact Id]. intros p. apply stored_ok_mono. intros x Hx; right; exact Hx.
    + intros g' E; inversion E; left; reflexivity.
    + constructor; [exact Hw|exact Iw].
  - (* SetClock *) cbn [fst snd]. split; [|constructor]. constructor; cbn [cur agg db]; auto.
  - (* LocalMsg *)
    assert (Hdrop : forall outs, Forall (fun x => publishes x = None) outs ->
                    Inv1 (match cur st, outs with Some g, _ :: _ => [(vaa_of_message (gidx g) m, Some g, true)] | _, _ => [] end ++ O) L st).
    { intros outs _. eapply Inv1_mono; [apply incl_app_r_self|exact HI]. }
    unfold Processor.handle_message.
    destruct (cur st) as [g|] eqn:Ec; [|cbn [snd fst app]; split; [exact HI|constructor]].
    destruct (bytes_eqb _ gov_addr && _); [cbn [snd fst app]; split; [exact HI|constructor]|].
    assert (Hgo : let r := broadcast_signature st (vaa_of_message (gidx g) m) (sign (dg (vaa_of_message (gidx g) m))) (m_tx m) true in
                  Inv1 (match snd r with _ :: _ => [(vaa_of_message (gidx g) m, Some g, true)] | [] => [] end ++ O) L (fst r) /\
                  Forall (fun x => publishes x = None) (snd r)).
    { destruct (broadcast_c01 O L st (vaa_of_message (gidx g) m) (sign (dg (vaa_of_message (gidx g) m))) (m_tx m) true HI) as [B1 B2].
      { intros _. exists g. split; [exact Ec|reflexivity]. }
      cbv zeta. split; [|exact B2]. rewrite Ec in B1. unfold Processor.broadcast_signature at 1. cbn [snd app]. exact B1. }
    cbv zeta in Hgo.
    destruct (dlookup _ (db st)) as [vb|]; [|exact Hgo].
    destruct (unmarshal vb) as [ex|].
    + destruct (_ <? _); [cbn [snd fst app]; split; [exact HI|constructor]|exact Hgo].
    + destruct proc_stored_unmarshal_failure_panics; [|exact Hgo].
      cbn [snd fst app]. split; [eapply Inv1_mono; [|exact HI]; intros x Hx; right; exact Hx|repeat constructor].
  - (* Inject *) unfold Processor.handle_injection. cbn [app].
    apply broadcast_c01; [exact HI|discriminate].
  - (* Obs *) apply handle_obs_c01. exact HI.
  - (* Loopback *) destruct (nth_error (loopq st) k) as [ob|]; [|split; [exact HI|constructor]].
    match goal with |- context [handle_obs ?s ob] => destruct (handle_obs_c01 O L s ob) as [H1 H2] end.
    { constructor; cbn [cur agg db]; auto. }
    split; [exact H1|]. eapply Forall_impl; [|exact H2]. intros x Hx. exact Hx.
  - (* InboundVAA *) apply handle_inbound_c01. exact HI.
  - (* Cleanup *) unfold Processor.handle_cleanup.
    destruct (cleanup_all_c01 O L st (clock st + 1) (agg st) Ia) as [H1 H2].
    destruct (cleanup_all st (clock st + 1) (agg st)) as [a o]. cbn [fst snd] in *.
    split; [|exact H2]. constructor; cbn [with_agg cur agg db]; auto.
Qed.

Lemma init_inv1 : Inv1 [] [] init.
Proof. constructor; cbn; try constructor; intros; discriminate. Qed.

Theorem steps_c01_from : forall ops O L st, Inv1 O L st -> Forall ProcSpec.op_wf ops -> steps_c01 st O L ops.
Proof.
  induction ops as [|o ops IH]; intros O L st HI Hw; cbn [ProcSpec.steps_c01]; [exact I|].
  inversion Hw as [|? ? Hw1 Hw2]; subst.
  destruct (step_c01 O L st o HI Hw1) as [H1 H2]. split; [exact H2|]. apply IH; assumption.
Qed.

Theorem c01_all_steps ops : Forall ProcSpec.op_wf ops -> steps_c01 init [] [] ops.
Proof. apply steps_c01_from. exact init_inv1. Qed.

(* the store after any history *)
Lemma run_inv1 : forall ops O L st, Inv1 O L st -> Forall ProcSpec.op_wf ops ->
  exists O', Inv1 O' (ProcSpec.learned L ops) (fst (run st ops)).
Proof.
  induction ops as [|o ops IH]; intros O L st HI Hw; cbn [Processor.run ProcSpec.learned].
  - exists O. exact HI.
  - inversion Hw as [|? ? Hw1 Hw2]; subst.
    destruct (step_c01 O L st o HI Hw1) as [H1 _].
    destruct (step st o) as [st1 out1]. cbn [fst] in H1.
    destruct (IH _ _ st1 H1 Hw2) as [O' H3].
    destruct (run st1 ops) as [st2 outs]. cbn [fst] in *. exists O'. exact H3.
Qed.

Theorem c01_store ops : Forall ProcSpec.op_wf ops ->
  Forall (stored_ok (ProcSpec.learned [] ops)) (db (fst (run init ops))).
Proof. intros Hw. destruct (run_inv1 ops [] [] init init_inv1 Hw) as [O' H]. apply (J_db _ _ _ H). Qed.

(* a quorum-valid VAA carries signatures of at least quorum DISTINCT members of the set *)
Lemma qvalid_distinct_members v K : qvalid v K ->
  exists signers : list addr, NoDup signers /\ incl signers K /\ go_quorum (Z.of_nat (length K)) <= Z.of_nat (length signers) /\
    Forall2 (fun s a => rec (dg v) (s_data s) = Some a) (sigs v) signers.
Proof.
  intros [(Hinc & Hso & Hnd) Hq].
  assert (H : exists l : list addr, NoDup l /\ incl l K /\ length l = length (sigs v) /\
                Forall2 (fun s a => rec (dg v) (s_data s) = Some a) (sigs v) l).
  { clear Hinc Hq. unfold signers in Hnd. revert Hso Hnd. generalize (sigs v) as ss.
    induction ss as [|s ss IH]; intros Hso Hnd.
    - exists []. repeat split; try constructor. intros x [].
    - inversion Hso as [|? ? [_ (a & Ha & Hn)] Hso']; subst. cbn [map] in Hnd. inversion Hnd as [|? ? Hni Hnd']; subst.
      destruct (IH Hso' Hnd') as (l & L1 & L2 & L3 & L4).
      exists (a :: l). split.
      + constructor; [|exact L1]. intros Hin. apply Hni. rewrite Ha.
        clear -L4 Hin. induction L4 as [|s' a' ss' l' Hs' L4 IH']; [destruct Hin|].
        cbn [map]. destruct Hin as [->|Hin]; [left; exact Hs'|right; apply IH'; exact Hin].
      + split; [intros x [<-|Hx]; [eapply nth_error_In; exact Hn|apply L2; exact Hx]|].
        split; [cbn [length]; lia|constructor; assumption]. }
  destruct H as (l & L1 & L2 & L3 & L4). exists l. repeat split; try assumption. lia.
Qed.
(* a published VAA passes VerifySignatures against the set it was assembled for (what every other guardian and the explorer run) *)
Lemma qvalid_passes_verify v K : qvalid v K -> verify_sigs rec keccak v K = true.
Proof. intros [Ha _]. apply verify_sigs_iff. exact Ha. Qed.

(* ... and the count test of both contracts (formulas and comparison directions extracted from Messages.sol / governance.ral) *)
Lemma qvalid_passes_contract_quorum v K : qvalid v K ->
  sol_quorum_accepts (sol_quorum (Z.of_nat (length K))) (Z.of_nat (length (sigs v))) = true /\
  ral_quorum_accepts (ral_quorum (Z.of_nat (length K))) (Z.of_nat (length (sigs v))) = true.
Proof.
  intros [_ Hq]. rewrite go_quorum_spec in Hq by lia. rewrite sol_quorum_spec, ral_quorum_spec.
  unfold sol_quorum_accepts, ral_quorum_accepts. split; apply Z.leb_le; exact Hq.
Qed.
(* ---- two nodes: what one guardian publishes, its peers accept ----
   the signatures of a quorum-valid VAA are wire-representable when the set has at most 255 keys (the signature count is one byte) *)
Lemma qvalid_sigs_wf v K : qvalid v K -> (length K <= 255)%nat ->
  Forall wf_sig (sigs v) /\ (length (sigs v) <= 255)%nat.
Proof.
  intros [(Hinc & Hso & _) _] HK. split.
  - pose proof (increasing_lt _ _ Hinc) as Hlt. rewrite Forall_forall in *. intros s Hs.
    destruct (Hso s Hs) as [Hb (a & Ha & _)]. split.
    + unfold rng. split; [assert (-1 < s_idx s) by (apply Hlt; apply in_map; exact Hs); lia|].
      change (256 ^ Z.of_nat 1) with 256. unfold addr, bytes in *. lia.
    + apply (recover_checked_len recover _ _ _ Ha).
  - assert (F' : Forall (fun x => x < Z.of_nat (length K)) (map s_idx (sigs v))).
    { apply Forall_map. eapply Forall_impl; [|exact Hso]. intros s [Hs _]. exact Hs. }
    pose proof (increasing_length _ _ _ Hinc F') as L. rewrite map_length in L. unfold addr, bytes in *. lia.
Qed.

Theorem peer_stores_published_vaa v g stB : vaa_paycap = None ->
  qvalid v (keys g) -> (length (keys g) <= 255)%nat -> wf (set_sigs v []) ->
  cur stB = Some g -> dlookup (id_of v) (db stB) = None ->
  handle_inbound stB (marshal v) =
  ({| cur := cur stB; agg := agg stB; db := (id_of v, marshal v) :: db stB; loopq := loopq stB; clock := clock stB |},
   [Store (id_of v) (marshal v)]).
Proof.
  intros Hcap Hq HK Hwf Hcur Hdb.
  destruct (qvalid_sigs_wf v (keys g) Hq HK) as [Hsw Hsn].
  assert (W : wf v).
  { destruct Hwf as [w1 w2 w3 w4 w5 w6 w7 w8 w9 w10 w11 w12 w13]. cbn [set_sigs version gsidx sigs ts tns nonce echain tchain eaddr seq cl payload] in *.
    constructor; assumption. }
  assert (Hu : unmarshal (marshal v) = Ok v) by (unfold unmarshal; rewrite Hcap; apply unmarshal_marshal_nocap; exact W).
  unfold Processor.handle_inbound. rewrite Hu, Hcur.
  destruct Hq as [Hacc Hqn].
  pose proof (go_quorum_pos (Z.of_nat (length (keys g))) ltac:(lia)) as Hpos.
  destruct (Nat.eqb_spec (length (keys g)) 0) as [E0|_].
  { exfalso. unfold addr, bytes in *. rewrite E0 in *. destruct Hacc as (Hinc & Hso & _). destruct (sigs v) as [|s ss]; [cbn [length] in Hqn; lia|].
    inversion Hso as [|? ? [Hb _] _]; subst. pose proof (increasing_lt _ _ Hinc) as Hlt. inversion Hlt; subst. unfold addr, bytes in *. rewrite E0 in Hb. cbn [length] in Hb. lia. }
  destruct (Nat.eqb_spec (length (sigs v)) 0) as [E0|_]; [unfold addr, bytes in *; rewrite E0 in Hqn; change (Z.of_nat 0) with 0 in Hqn; lia|].
  destruct (inbound_below_quorum_spec (Z.of_nat (length (sigs v))) (go_quorum (Z.of_nat (length (keys g))))) as [Hlt|_]; [unfold addr, bytes in *; lia|].
  assert (Hv : verify_sigs rec keccak v (keys g) = true) by (apply verify_sigs_iff; exact Hacc).
  rewrite Hv. cbn [negb]. rewrite Hdb. reflexivity.
Qed.
End C01.
