(* C07: the two on-chain acceptance functions (generated statement by statement from Messages.sol verifyVM and governance.ral
   parseAndVerifyVAA: gen/ExtractedContractVerify.v) accept exactly when the node's quorum is met and the other, unrelated guards pass.
   The proofs do not look at the shape of the generated terms: every comparison and every boolean input is split, arithmetic closes. *)
From Coq Require Import ZArith Lia Bool.
From WH Require Import gen.Extracted gen.ExtractedContractVerify proofs.QuorumProofs.
Open Scope Z_scope.
Ltac Zify.zify_post_hook ::= Z.div_mod_to_equations.

Definition sol_verify_spec (n k vidx curidx exptime now : Z) (sv : bool) : bool :=
  negb (n =? 0) && negb (negb (vidx =? curidx) && (exptime <? now)) && (go_quorum n <=? k) && sv.

Definition ral_verify_spec (ver version_const vidx curidx n k : Z) (gov sigs : bool) : bool :=
  (ver =? version_const) && (if gov then vidx =? curidx else true) && negb (n =? 0) && (go_quorum n <=? k) && sigs.

Ltac split_all :=
  repeat match goal with
  | |- context [?a >? ?b] => rewrite (Z.gtb_ltb a b)
  | |- context [?a >=? ?b] => rewrite (Z.geb_leb a b)
  end;
  repeat match goal with
  | |- context [?a <? ?b] => destruct (Z.ltb_spec a b)
  | |- context [?a <=? ?b] => destruct (Z.leb_spec a b)
  | |- context [?a =? ?b] => destruct (Z.eqb_spec a b)
  end;
  repeat match goal with
  | b : bool |- _ => destruct b
  end;
  cbn; try reflexivity; exfalso; lia.

Lemma sol_verifyVM_spec n k vidx curidx exptime now sv : 0 <= n ->
  sol_verifyVM n k vidx curidx exptime now sv = sol_verify_spec n k vidx curidx exptime now sv.
Proof.
  intros Hn. unfold sol_verifyVM, sol_verify_spec. rewrite ?sol_quorum_spec, go_quorum_spec by assumption. unfold spec_quorum.
  split_all.
Qed.

Lemma ral_parse_and_verify_spec ver vc vidx curidx n k gov sigs : 0 <= n ->
  ral_parse_and_verify ver vc vidx curidx n k gov sigs = ral_verify_spec ver vc vidx curidx n k gov sigs.
Proof.
  intros Hn. unfold ral_parse_and_verify, ral_verify_spec. rewrite ?ral_quorum_spec, go_quorum_spec by assumption. unfold spec_quorum.
  split_all.
Qed.

Lemma sol_accepts_iff n k vidx curidx exptime now sv : 0 <= n ->
  sol_verifyVM n k vidx curidx exptime now sv = true <->
  n <> 0 /\ (vidx = curidx \/ now <= exptime) /\ go_quorum n <= k /\ sv = true.
Proof.
  intros Hn. rewrite sol_verifyVM_spec by assumption. unfold sol_verify_spec.
  rewrite !andb_true_iff, !negb_true_iff, andb_false_iff, negb_false_iff, Z.eqb_neq, Z.eqb_eq, Z.ltb_ge, Z.leb_le. tauto.
Qed.

Lemma ral_accepts_iff ver vc vidx curidx n k gov sigs : 0 <= n ->
  ral_parse_and_verify ver vc vidx curidx n k gov sigs = true <->
  ver = vc /\ (gov = true -> vidx = curidx) /\ n <> 0 /\ go_quorum n <= k /\ sigs = true.
Proof.
  intros Hn. rewrite ral_parse_and_verify_spec by assumption. unfold ral_verify_spec.
  rewrite !andb_true_iff, negb_true_iff, Z.eqb_neq, Z.eqb_eq, Z.leb_le.
  destruct gov; rewrite ?Z.eqb_eq; intuition congruence.
Qed.
