(* C04: the Solidity and Ralph parsers read, from Go's wire form, exactly the fields Go wrote, and hash exactly Go's body. *)
From Coq Require Import List ZArith Lia Bool Arith.
From Coq Require Import Strings.Byte.
From WH Require Import lib.Bytes lib.Layout gen.Extracted model.Vaa model.Contracts proofs.VaaProofs.
Import ListNotations.
Open Scope Z_scope.

Definition layout_of (fs : list (fld * bytes)) : layout := map (fun fb => (fst fb, length (snd fb))) fs.
Definition cat (fs : list (fld * bytes)) : bytes := concat (map snd fs).

Lemma read_layout_fields fs rest : read_layout (layout_of fs) (cat fs ++ rest) = Some (fs, rest).
Proof.
  induction fs as [|[f b] fs IH]; [reflexivity|].
  unfold layout_of, cat in *. cbn [map fst snd concat read_layout]. rewrite <- app_assoc.
  rewrite take_app by reflexivity. rewrite IH. reflexivity.
Qed.

Lemma read_layouts_fields L (fss : list (list (fld * bytes))) rest :
  Forall (fun fs => layout_of fs = L) fss ->
  read_layouts (length fss) L (flat_map cat fss ++ rest) = Some (fss, rest).
Proof.
  induction fss as [|fs fss IH]; intros F; [reflexivity|].
  inversion F as [|? ? H1 F']; subst. cbn [length read_layouts flat_map]. rewrite <- app_assoc.
  rewrite read_layout_fields. rewrite IH by assumption. reflexivity.
Qed.

Lemma skipn_add {A} (l : list A) a b : skipn a (skipn b l) = skipn (b + a) l.
Proof. revert l; induction b as [|b IH]; intros l; [reflexivity|]. destruct l; [rewrite !skipn_nil; reflexivity|]. cbn. apply IH. Qed.

Lemma sig_fields_cat s : cat (go_sig_fields s) = enc_sig s.
Proof.
  unfold cat, go_sig_fields, enc_sig. cbn [map snd concat]. rewrite app_nil_r. f_equal.
  transitivity (firstn 32 (s_data s) ++ skipn 32 (s_data s)); [|apply firstn_skipn]. f_equal.
  transitivity (firstn 32 (skipn 32 (s_data s)) ++ skipn 32 (skipn 32 (s_data s))); [|apply firstn_skipn]. f_equal.
  rewrite skipn_add. reflexivity.
Qed.

Lemma sig_fields_layout s : length (s_data s) = 65%nat -> layout_of (go_sig_fields s) = sol_sig_layout.
Proof.
  intros H. unfold layout_of, go_sig_fields. cbn [map fst snd].
  rewrite be_length, !firstn_length, !skipn_length, H. reflexivity.
Qed.

Lemma header_fields_layout v : layout_of (go_header_fields v) = sol_header_layout.
Proof. unfold layout_of, go_header_fields. cbn [map fst snd]. rewrite !be_length. reflexivity. Qed.

Lemma body_fields_layout v : length (eaddr v) = 32%nat -> layout_of (go_body_fields v) = sol_body_layout.
Proof. intros H. unfold layout_of, go_body_fields. cbn [map fst snd]. rewrite !be_length, H. reflexivity. Qed.

Lemma flat_map_map {A B C} (f : B -> list C) (g : A -> B) l : flat_map f (map g l) = flat_map (fun x => f (g x)) l.
Proof. induction l as [|x l IH]; cbn; [reflexivity|]. rewrite IH. reflexivity. Qed.

Lemma marshal_as_fields v :
  marshal v = cat (go_header_fields v) ++ flat_map cat (map go_sig_fields (sigs v)) ++ cat (go_body_fields v) ++ payload v.
Proof.
  unfold marshal, body, cat, go_header_fields, go_body_fields. cbn [map snd concat]. rewrite !app_nil_r, <- !app_assoc.
  do 3 f_equal. rewrite flat_map_map. f_equal. apply flat_map_ext. intros s. symmetry. apply sig_fields_cat.
Qed.

Lemma body_as_fields v : body v = cat (go_body_fields v) ++ payload v.
Proof. unfold body, cat, go_body_fields. cbn [map snd concat]. rewrite !app_nil_r, <- !app_assoc. reflexivity. Qed.

(* ---- Solidity *)
Theorem sol_parse_marshal v :
  version v = vaa_version -> (length (sigs v) <= 255)%nat -> Forall wf_sig (sigs v) -> length (eaddr v) = 32%nat ->
  sol_parse (marshal v) =
  Some {| sv_header := go_header_fields v; sv_sigs := map go_sig_fields (sigs v); sv_body := go_body_fields v;
          sv_payload := payload v; sv_hashed := body v |}.
Proof.
  intros Hv Hn Hs Ha. unfold sol_parse. rewrite marshal_as_fields.
  rewrite <- header_fields_layout with (v := v). rewrite read_layout_fields.
  cbn [fget go_header_fields].
  rewrite unbe_be_small by (rewrite Hv; vm_compute; split; [discriminate|reflexivity]).
  rewrite Hv. change (vaa_version =? sol_version_required) with true. cbn [negb].
  rewrite unbe_be_small by (unfold rng; cbn; lia). rewrite Nat2Z.id.
  rewrite <- (map_length go_sig_fields (sigs v)).
  rewrite read_layouts_fields.
  2:{ apply Forall_map. eapply Forall_impl; [|exact Hs]. intros s [_ Hd]. apply sig_fields_layout. exact Hd. }
  change (firstn sol_hash_after_body_fields sol_body_layout) with (@nil (fld * nat)). cbn [read_layout].
  rewrite <- body_fields_layout with (v := v) by assumption. rewrite read_layout_fields.
  rewrite body_as_fields. reflexivity.
Qed.

(* ---- Ralph *)
Lemma ral_body_from_eq n : ral_body_from n = (6 + 66 * n)%nat.
Proof. unfold ral_body_from. lia. Qed.

Lemma ral_sigs_marshal v : Forall wf_sig (sigs v) -> forall l1 l2, sigs v = l1 ++ l2 ->
  ral_sigs (marshal v) (length l2) (6 + 66 * length l1) = Some (map (fun s => (s_idx s, s_data s)) l2).
Proof.
  intros F l1 l2; revert l1; induction l2 as [|s l2 IH]; intros l1 E; [reflexivity|].
  cbn [length ral_sigs map].
  destruct (sig_record_offset v l1 s l2 E F) as [H1 H2]. cbv zeta in H1, H2.
  change (fst ral_sig_index_rel) with 0%nat. change (snd ral_sig_index_rel) with 1%nat.
  change (fst ral_sig_data_rel) with 1%nat. change (snd ral_sig_data_rel) with 66%nat.
  rewrite Nat.add_0_r. rewrite H1, H2.
  change ral_sig_stride with 66%nat.
  replace (6 + 66 * length l1 + 66)%nat with (6 + 66 * length (l1 ++ [s]))%nat by (rewrite app_length; cbn [length]; lia).
  rewrite IH by (rewrite <- app_assoc; exact E).
  assert (Hi : rng 1 (s_idx s)).
  { rewrite E in F. apply Forall_app in F as [_ F]. inversion F as [|? ? [Hi _] _]. exact Hi. }
  rewrite unbe_be_small by exact Hi. reflexivity.
Qed.

Theorem ral_parse_marshal v : wf v ->
  ral_parse (marshal v) =
  Some {| rv_gsidx := gsidx v; rv_numsigs := Z.of_nat (length (sigs v));
          rv_sig_records := map (fun s => (s_idx s, s_data s)) (sigs v); rv_hashed := body v;
          rv_echain := echain v; rv_tchain := tchain v; rv_eaddr := eaddr v; rv_seq := seq v; rv_payload := payload v |}.
Proof.
  intros W. destruct W as [Wv Wgs Wns Wsigs Wts Wtns Wno Wec Wtc Wea Wseq Wcl Wpl].
  unfold ral_parse, sl.
  destruct (header_offsets v) as (H0 & H1 & H2).
  change (fst ral_version_slice) with 0%nat. change (snd ral_version_slice) with 1%nat.
  change (fst ral_gsidx_slice) with 1%nat. change (snd ral_gsidx_slice) with 5%nat.
  change (fst ral_numsigs_slice) with 5%nat. change (snd ral_numsigs_slice) with 6%nat.
  rewrite H0, H1, H2.
  rewrite unbe_be_small by (rewrite Wv; vm_compute; split; [discriminate|reflexivity]).
  rewrite Wv. change (vaa_version =? ral_version_byte) with true. cbn [negb].
  rewrite (unbe_be_small 1 (Z.of_nat _)) by (unfold rng; cbn; lia). rewrite Nat2Z.id.
  rewrite ral_body_from_eq, body_offset by assumption.
  change ral_sig_offset0 with (6 + 66 * length (@nil sig))%nat.
  rewrite (ral_sigs_marshal v Wsigs [] (sigs v) eq_refl).
  destruct (body_field_offsets v Wea) as (_ & _ & B3 & B4 & B5 & B6 & _ & B8).
  change (fst ral_echain_slice) with 8%nat. change (snd ral_echain_slice) with 10%nat.
  change (fst ral_tchain_slice) with 10%nat. change (snd ral_tchain_slice) with 12%nat.
  change (fst ral_eaddr_slice) with 12%nat. change (snd ral_eaddr_slice) with 44%nat.
  change (fst ral_seq_slice) with 44%nat. change (snd ral_seq_slice) with 52%nat.
  change ral_payload_from with 53%nat.
  rewrite B3, B4, B5, B6, B8.
  rewrite !unbe_be_small by assumption. reflexivity.
Qed.
