(* Extension X10, part 1: the network of loop nodes (model/ReobsLoop.v, [lnet]) REFINES the guardian network of model/System.v on the
   processor component.  Every history of the loop network projects ([Closure.sim]) to a System.net history with the same per-node
   processor states, the same gossip items on the wire and the same processor outputs (published VAAs included); deliveries of wire
   items stay deliveries of the same items.  Consequences: every System.net theorem (C01 / C02 / C12 / C19 network statements) holds
   of the loop network; C14's recovery is stated at the NETWORK level by composing with C02's network liveness. *)
From Coq Require Import List ZArith Lia Bool Arith.
From Coq Require Import Strings.Byte.
From WH Require Import lib.Bytes gen.Extracted gen.ExtractedWiring gen.ExtractedP2P model.Vaa model.Processor model.ProcSpec model.System
     model.ReobsLoop model.Closure.
From WH Require Import proofs.ProcessorProofs proofs.ProcC01Proofs proofs.ProcC02Proofs proofs.SystemProofs proofs.SystemLiveProofs
     proofs.ReobsLoopBase proofs.ReobsLoopProofs.
From WH Require proofs.P2PVerifyProofs.
Import ListNotations.
Open Scope Z_scope.

(* ================================================================== lists *)
Lemma set_nth_same {A} (l : list A) : forall i a, nth_error l i = Some a -> set_nth i a l = l.
Proof. induction l as [|b l IH]; intros [|i] a H; cbn [set_nth nth_error] in *; try discriminate; [congruence|]. rewrite IH by exact H. reflexivity. Qed.
Lemma set_nth_twice {A} (l : list A) : forall i a b, set_nth i b (set_nth i a l) = set_nth i b l.
Proof. induction l as [|c l IH]; intros [|i] a b; cbn [set_nth]; try reflexivity. rewrite IH. reflexivity. Qed.
Lemma map_set_nth {A B} (f : A -> B) (l : list A) : forall i a, map f (set_nth i a l) = set_nth i (f a) (map f l).
Proof. induction l as [|c l IH]; intros [|i] a; cbn [set_nth map]; try reflexivity. rewrite IH. reflexivity. Qed.
Lemma map_repeat' {A B} (f : A -> B) (a : A) : forall n, map f (repeat a n) = repeat (f a) n.
Proof. induction n as [|n IH]; cbn [repeat map]; [reflexivity|]. rewrite IH. reflexivity. Qed.

Lemma ppool_app a b : ppool (a ++ b) = ppool a ++ ppool b.
Proof. unfold ppool. apply flat_map_app. Qed.

(* the k-th item of the loop network's wire, if it is an observation or a VAA, is the [pidx k]-th item of System.net's wire *)
Lemma pidx_nth l k w g extra : nth_error l k = Some w -> gossip_of_witem w = [g] -> nth_error (ppool l ++ extra) (pidx l k) = Some g.
Proof.
  intros Hk Hg. destruct (nth_error_split l k Hk) as (l1 & l2 & E & Hl). unfold pidx. rewrite E at 1. rewrite E. subst k.
  rewrite firstn_app, Nat.sub_diag, firstn_all. cbn [firstn]. rewrite app_nil_r.
  rewrite ppool_app. unfold ppool at 2. cbn [flat_map]. rewrite Hg. rewrite <- !app_assoc. rewrite nth_error_app2 by lia. rewrite Nat.sub_diag. reflexivity.
Qed.

(* ================================================================== the step simulation *)
Section Refine.
Variable recover : bytes -> bytes -> option bytes.
Variable keccak : bytes -> bytes.
Variable gov_chain : Z.
Variable gov_addr : bytes.
Variable decode_hb : bytes -> option Z.
Variable decodeq : bytes -> option R.req.
Variable encq : R.req -> bytes.
Variable disable : bool.
Variable owns : nat -> addr.
Variable signs : nat -> bytes -> bytes.
Variable selfs : nat -> G.peerid.
Variable watches : nat -> Z -> R.req -> Z -> list msgpub.

Notation nstep := (System.nstep recover keccak gov_chain gov_addr owns signs).
Notation nrun := (System.nrun recover keccak gov_chain gov_addr owns signs).
Notation node_step := (System.node_step recover keccak gov_chain gov_addr owns signs).
Notation prun i := (Processor.run recover keccak (signs i) (owns i) gov_chain gov_addr).
Notation lnstep := (ReobsLoop.lnstep recover keccak gov_chain gov_addr decode_hb decodeq encq disable owns signs selfs watches).
Notation lnrun := (ReobsLoop.lnrun recover keccak gov_chain gov_addr decode_hb decodeq encq disable owns signs selfs watches).
Notation nd_step := (ReobsLoop.nd_step recover keccak gov_chain gov_addr decode_hb decodeq encq disable owns signs selfs watches).
Notation lstep i := (ReobsLoop.lstep recover keccak (signs i) (owns i) gov_chain gov_addr decode_hb decodeq encq (selfs i) disable (watches i)).
Notation sim1 := (Closure.sim1 recover keccak gov_chain gov_addr decode_hb decodeq encq disable owns signs selfs watches).
Notation sim := (Closure.sim recover keccak gov_chain gov_addr decode_hb decodeq encq disable owns signs selfs watches).
Notation nstepf := (fun n x => fst (nstep n x)).
Notation lnstepf := (fun n x => fst (lnstep n x)).

(* ---- System.net side: a run of steps that all hand an input to node i *)
Definition rstable (pl : list gossip) (i : nat) (x : nop) (o : op) : Prop :=
  forall nd extra, System.resolve {| nodes := nd; pool := pl ++ extra |} x = Some (i, o).

Lemma nrun_ops i pl : forall xs os p nd pl', (exists extra, pl' = pl ++ extra) -> nth_error nd i = Some p -> Forall2 (rstable pl i) xs os ->
  nrun {| nodes := nd; pool := pl' |} xs =
  ({| nodes := set_nth i (fst (prun i p os)) nd; pool := pl' ++ flat_map (flat_map gossip_of) (snd (prun i p os)) |}, snd (prun i p os)).
Proof.
  intros xs os p nd pl' Hpl Hn F. revert p nd pl' Hpl Hn. induction F as [|x o xs os Hx F IH]; intros p nd pl' (extra & ->) Hn.
  - cbn [System.nrun Processor.run fst snd flat_map]. rewrite app_nil_r, (set_nth_same _ _ _ Hn). reflexivity.
  - cbn [System.nrun].
    rewrite (nstep_unfold recover keccak gov_chain gov_addr owns signs _ x i o p (Hx nd extra) Hn). cbn [nodes pool].
    unfold System.node_step. cbn [Processor.run]. destruct (Processor.step recover keccak (signs i) (owns i) gov_chain gov_addr p o) as [p1 out1]. cbn [fst snd].
    rewrite (IH p1 (set_nth i p1 nd) ((pl ++ extra) ++ flat_map gossip_of out1)).
    + destruct (prun i p1 os) as [p2 outs]. cbn [fst snd flat_map]. rewrite set_nth_twice, <- !app_assoc. reflexivity.
    + exists (extra ++ flat_map gossip_of out1). rewrite app_assoc. reflexivity.
    + apply (nth_error_set_nth_same _ _ _ _ Hn).
Qed.

Lemma rstable_op pl i o : rstable pl i (nop_of_op i o) o.
Proof. intros nd extra. destruct o; reflexivity. Qed.
Lemma rstable_ops pl i : forall os, Forall2 (rstable pl i) (map (nop_of_op i) os) os.
Proof. induction os as [|o os IH]; cbn [map]; constructor; [apply rstable_op|exact IH]. Qed.

(* ---- the loop network's step *)
Lemma lnstep_unfold n x i o st : lres n x = Some (i, o) -> nth_error (x_nodes n) i = Some st ->
  lnstep n x = ({| x_nodes := set_nth i (fst (nd_step i st o)) (x_nodes n);
                   x_pool := x_pool n ++ flat_map (wire_of keccak encq owns signs i) (snd (nd_step i st o)) |}, snd (nd_step i st o)).
Proof. intros Hr Hn. unfold ReobsLoop.lnstep. unfold lres in Hr. rewrite Hr, Hn. destruct (nd_step i st o) as [st' evs]. reflexivity. Qed.
Lemma lnstep_idle_resolve n x : lres n x = None -> lnstep n x = (n, []).
Proof. intros Hr. unfold ReobsLoop.lnstep. unfold lres in Hr. rewrite Hr. reflexivity. Qed.
Lemma lnstep_idle_node n x i o : lres n x = Some (i, o) -> nth_error (x_nodes n) i = None -> lnstep n x = (n, []).
Proof. intros Hr Hn. unfold ReobsLoop.lnstep. unfold lres in Hr. rewrite Hr, Hn. reflexivity. Qed.

Lemma lres_target n x i o : lres n x = Some (i, o) -> ltarget x = i.
Proof.
  unfold lres. destruct x as [j lo|j from k|j from w]; cbn [ReobsLoop.resolve ltarget]; intros H; try (inversion H; reflexivity).
  destruct (nth_error (x_pool n) k); [inversion H; reflexivity|discriminate].
Qed.

(* what the wire items of a step are on System.net's wire: the gossip outputs of its processor events, in order *)
Lemma sends_proj outs : ppool (flat_map (fun x => match x with SendObs o => [WObs o] | SendVAA b => [WVaa b] | _ => [] end) outs) = flat_map gossip_of outs.
Proof. induction outs as [|x outs IH]; [reflexivity|]. cbn [flat_map]. rewrite ppool_app, IH. destruct x; reflexivity. Qed.

Lemma wire_proj i : forall evs, ppool (flat_map (wire_of keccak encq owns signs i) evs) = flat_map (flat_map gossip_of) (map snd (proc_of evs)).
Proof.
  induction evs as [|[u e] evs IH]; [reflexivity|]. cbn [flat_map]. rewrite ppool_app, IH. unfold wire_of at 1. cbn [snd].
  destruct e; cbn [proc_of flat_map snd app map]; try reflexivity. fold (proc_of evs). rewrite sends_proj. reflexivity.
Qed.

Lemma outs_concat : forall evs, concat (map snd (proc_of evs)) = flat_map outs_of_ev evs.
Proof.
  induction evs as [|[u e] evs IH]; [reflexivity|]. cbn [flat_map proc_of]. fold (proc_of evs). unfold outs_of_ev at 1. cbn [snd].
  destruct e; cbn [app map concat snd]; rewrite ?IH; reflexivity.
Qed.

(* ---- p2p's receive loop: a wire item becomes at most one processor input - the item itself *)
Lemma gossip_ops dq self g from w :
  let ops := proc_ops_of (snd (G.loop_step recover keccak decode_hb dq disable self g (G.LRecv from (gmsg_of w)))) in
  ops = [] \/ exists gi, gossip_of_witem w = [gi] /\ ops = [op_of_gossip gi].
Proof.
  cbv zeta. cbn [G.loop_step].
  assert (E : forall (p : G.table * list (G.chan_out obs bytes)), snd (let '(t', outs) := p in (G.with_tbl g t', outs)) = snd p) by (intros [a b]; reflexivity).
  rewrite E. clear E. destruct w as [o|b|a r s]; cbn [gmsg_of G.p2p_dispatch].
  - destruct (p2p_loop_loopback_guard && bytes_eqb from self); cbn [snd proc_ops_of flat_map app]; [left; reflexivity|right; exists (GObs o); split; reflexivity].
  - destruct (p2p_loop_loopback_guard && bytes_eqb from self); cbn [snd proc_ops_of flat_map app]; [left; reflexivity|right; exists (GVaa b); split; reflexivity].
  - left. destruct (p2p_loop_loopback_guard && bytes_eqb from self); [reflexivity|]. destruct (G.n_gs g); [|reflexivity].
    destruct (G.process_obsreq _ _ _ _ _ _ _); reflexivity.
Qed.

Lemma gossip_obs_passes dq self g from o : bytes_eqb from self = false ->
  proc_ops_of (snd (G.loop_step recover keccak decode_hb dq disable self g (G.LRecv from (G.MObservation o)))) = [Obs o].
Proof. intros Hf. cbn [G.loop_step G.p2p_dispatch]. rewrite Hf, andb_false_r. reflexivity. Qed.

Notation lstep_pops i := (ReobsLoopBase.lstep_pops recover keccak (signs i) (owns i) gov_chain gov_addr decode_hb decodeq encq (selfs i) disable (watches i)).
Notation lstep_wf i := (ReobsLoopBase.lstep_wf recover keccak (signs i) (owns i) gov_chain gov_addr decode_hb decodeq encq (selfs i) disable (watches i)).

(* the System.net steps of one loop-network step hand node i exactly the processor inputs of that step, whatever else is on the wire *)
Lemma sim1_stable n x i o st : lres n x = Some (i, o) -> nth_error (x_nodes n) i = Some st ->
  Forall2 (rstable (ppool (x_pool n)) i) (sim1 n x) (pops (snd (nd_step i st o))).
Proof.
  intros Hr Hn. unfold Closure.sim1. rewrite Hr, Hn. fold (pops (snd (nd_step i st o))).
  destruct x as [j lo|j from k|j from w]; try apply rstable_ops.
  unfold lres in Hr. cbn [ReobsLoop.resolve] in Hr. destruct (nth_error (x_pool n) k) as [w|] eqn:Hk; [|discriminate]. inversion Hr; subst i o.
  unfold ReobsLoop.nd_step. rewrite (lstep_pops j). unfold ReobsLoop.gstep.
  destruct (gossip_ops (fun b => match decodeq b with Some _ => true | None => false end) (selfs j) (l_p2p st) from w) as [E|(gi & Hg & E)]; cbv zeta in E; rewrite E.
  - constructor.
  - cbn [map]. constructor; [|constructor]. intros nd extra. cbn [System.resolve pool]. rewrite (pidx_nth _ _ _ _ extra Hk Hg). reflexivity.
Qed.

(* ONE STEP: the projected network, run over the System.net steps of a loop-network step, ends in the projection of the loop
   network's next state, and puts out exactly what the processor events of the step record *)
Theorem sim_step n x : nrun (proj n) (sim1 n x) = (proj (fst (lnstep n x)), map snd (proc_of (snd (lnstep n x)))).
Proof.
  destruct (lres n x) as [[i o]|] eqn:Hr.
  2:{ rewrite (lnstep_idle_resolve n x Hr). unfold Closure.sim1. rewrite Hr. reflexivity. }
  destruct (nth_error (x_nodes n) i) as [st|] eqn:Hn.
  2:{ rewrite (lnstep_idle_node n x i o Hr Hn). unfold Closure.sim1. rewrite Hr, Hn. reflexivity. }
  rewrite (lnstep_unfold n x i o st Hr Hn). cbn [fst snd].
  pose proof (sim1_stable n x i o st Hr Hn) as F.
  destruct (lstep_wf i st o) as [_ P]. unfold pwf in P. fold (nd_step i st o) in P.
  unfold proj at 1.
  rewrite (nrun_ops i (ppool (x_pool n)) (sim1 n x) (pops (snd (nd_step i st o))) (l_proc st) (map l_proc (x_nodes n)) (ppool (x_pool n))); [|exists []; symmetry; apply app_nil_r|apply map_nth_error; exact Hn|exact F].
  rewrite P. cbn [fst snd]. unfold proj. cbn [x_nodes x_pool]. rewrite map_set_nth, ppool_app, wire_proj. reflexivity.
Qed.

Lemma nrun_app : forall a n b, nrun n (a ++ b) = let '(n1, o1) := nrun n a in let '(n2, o2) := nrun n1 b in (n2, o1 ++ o2).
Proof.
  induction a as [|x a IH]; intros n b; cbn [app System.nrun]; [destruct (nrun n b); reflexivity|].
  destruct (nstep n x) as [n1 o1]. rewrite IH. destruct (nrun n1 a) as [n2 o2]. destruct (nrun n2 b) as [n3 o3]. reflexivity.
Qed.
Lemma nrun_fold : forall xs n, fst (nrun n xs) = fold_left nstepf xs n.
Proof. induction xs as [|x xs IH]; intros n; [reflexivity|]. cbn [System.nrun fold_left]. destruct (nstep n x) as [n1 o1] eqn:E. cbn [fst]. rewrite <- IH. destruct (nrun n1 xs). reflexivity. Qed.

(* WHOLE HISTORIES: same per-node processor states, same wire, same outputs *)
Theorem refinement : forall xs n,
  fst (nrun (proj n) (sim n xs)) = proj (fst (lnrun n xs)) /\
  concat (snd (nrun (proj n) (sim n xs))) = louts (snd (lnrun n xs)).
Proof.
  induction xs as [|x xs IH]; intros n; [split; reflexivity|]. cbn [Closure.sim ReobsLoop.lnrun]. rewrite nrun_app, sim_step.
  specialize (IH (fst (lnstep n x))). destruct (lnstep n x) as [n1 e1]. cbn [fst snd] in *.
  destruct (nrun (proj n1) (sim n1 xs)) as [n2 o2]. destruct (lnrun n1 xs) as [n3 es]. cbn [fst snd] in *. destruct IH as [I1 I2].
  split; [exact I1|]. unfold louts. cbn [flat_map snd]. rewrite concat_app, I2, outs_concat. reflexivity.
Qed.

Lemma proj_init N : proj (lninit N) = ninit N.
Proof. unfold proj, lninit, ninit. cbn [x_nodes x_pool]. rewrite map_repeat'. reflexivity. Qed.

Lemma sim_app : forall a n b, sim n (a ++ b) = sim n a ++ sim (fst (lnrun n a)) b.
Proof.
  induction a as [|x a IH]; intros n b; [reflexivity|]. cbn [app Closure.sim ReobsLoop.lnrun]. rewrite IH, <- app_assoc.
  destruct (lnstep n x) as [n1 e1]. cbn [fst]. destruct (lnrun n1 a). reflexivity.
Qed.

(* ---- what kind of System.net steps a loop-network step amounts to *)
Definition lnop_wf (x : lnop) : Prop := match x with XLocal _ (LEnv (VSetGS g)) => ProcSpec.gs_wf g | _ => True end.

Lemma pops_kinds i st lo o' : In o' (pops (snd (lstep i st lo))) ->
  (forall g, o' = SetGS g -> lo = LEnv (VSetGS g)) /\ (o' = Cleanup -> lo = LCleanup).
Proof.
  rewrite (lstep_pops i). destruct lo as [t| |q| |from m| |c|e]; intros Hin.
  - destruct Hin as [<-|[]]. split; [intros g X|intros X]; discriminate X.
  - split; [|reflexivity]. intros g ->. cbn in Hin. destruct Hin as [X|[X|[X|[]]]]; discriminate X.
  - destruct Hin.
  - destruct Hin.
  - unfold proc_ops_of in Hin. apply in_flat_map in Hin as (y & _ & Hy). destruct y; [destruct Hy as [<-|[]]|destruct Hy as [<-|[]]|destruct Hy]; (split; [intros g X|intros X]; discriminate X).
  - destruct Hin.
  - destruct (snd (R.step (l_disp st) (R.Drain c))) as [c0| | | | | |[r|]]; try destruct Hin. apply in_map_iff in Hin as (m & <- & _). split; [intros g X|intros X]; discriminate X.
  - destruct Hin as [<-|[]]. destruct e; cbn [ReobsLoop.op_of_env]; (split; [intros g' X|intros X]; try discriminate X). inversion X; subst. reflexivity.
Qed.

Lemma sim1_props n x x' : In x' (sim1 n x) ->
  target x' = ltarget x /\ (lnop_wf x -> nop_wf x') /\ (lcalm x = true -> calm_nop x' = true) /\
  (lsetgs_free x = true -> forall j g, x' <> NEnv j (ESetGS g)).
Proof.
  unfold Closure.sim1. destruct (lres n x) as [[i o]|] eqn:Hr; [|intros []]. pose proof (lres_target n x i o Hr) as Ht.
  destruct (nth_error (x_nodes n) i) as [st|] eqn:Hn; [|intros []].
  assert (Hgen : forall lo, o = lo -> In x' (map (nop_of_op i) (map fst (proc_of (snd (nd_step i st lo))))) ->
            (lo = LCleanup -> lcalm x = false) -> (forall g, lo = LEnv (VSetGS g) -> x = XLocal i (LEnv (VSetGS g))) ->
            target x' = ltarget x /\ (lnop_wf x -> nop_wf x') /\ (lcalm x = true -> calm_nop x' = true) /\
            (lsetgs_free x = true -> forall j g, x' <> NEnv j (ESetGS g))).
  { intros lo -> Hin Hc Hs. apply in_map_iff in Hin as (o' & <- & Ho'). fold (pops (snd (nd_step i st lo))) in Ho'.
    destruct (pops_kinds i st lo o' Ho') as [K1 K2]. split; [rewrite Ht; destruct o'; reflexivity|]. split; [|split].
    - intros Hw. destruct o' as [g| | | | | | |]; try exact I. rewrite (Hs g (K1 g eq_refl)) in Hw. exact Hw.
    - intros Hcalm. destruct o' as [g| | | | | | |]; try reflexivity.
      + rewrite (Hs g (K1 g eq_refl)) in Hcalm. discriminate Hcalm.
      + rewrite (Hc (K2 eq_refl)) in Hcalm. discriminate Hcalm.
    - intros Hf j g X. destruct o' as [g'| | | | | | |]; try discriminate X. rewrite (Hs g' (K1 g' eq_refl)) in Hf. discriminate Hf. }
  destruct x as [j lo|j from k|j from w].
  - intros Hin. unfold lres in Hr. cbn [ReobsLoop.resolve] in Hr. injection Hr as E1 E2. subst j o. apply (Hgen lo eq_refl Hin).
    + intros ->. reflexivity.
    + intros g ->. reflexivity.
  - intros Hin. apply in_map_iff in Hin as (o' & <- & _). cbn [target ltarget]. rewrite <- Ht. cbn [ltarget]. repeat split; try reflexivity. intros _ j' g X. discriminate X.
  - intros Hin. unfold lres in Hr. cbn [ReobsLoop.resolve] in Hr. injection Hr as E1 E2. subst j o. apply (Hgen _ eq_refl Hin).
    + intros X. discriminate X.
    + intros g X. discriminate X.
Qed.

Lemma in_sim : forall xs n x', In x' (sim n xs) -> exists n' x, In x xs /\ In x' (sim1 n' x).
Proof.
  induction xs as [|x xs IH]; intros n x' Hin; [destruct Hin|]. cbn [Closure.sim] in Hin. apply in_app_or in Hin as [Hin|Hin].
  - exists n, x. split; [left; reflexivity|exact Hin].
  - destruct (IH _ _ Hin) as (n' & y & Hy & Hin'). exists n', y. split; [right; exact Hy|exact Hin'].
Qed.

Lemma sim_wf n xs : Forall lnop_wf xs -> Forall nop_wf (sim n xs).
Proof.
  intros Hw. apply Forall_forall. intros x' Hin. destruct (in_sim _ _ _ Hin) as (n' & x & Hx & Hin').
  destruct (sim1_props _ _ _ Hin') as (_ & W & _). apply W. rewrite Forall_forall in Hw. apply Hw. exact Hx.
Qed.

Lemma sim_calm n xs i : (forall x, In x xs -> ltarget x = i -> lcalm x = true) -> forall x', In x' (sim n xs) -> target x' = i -> calm_nop x' = true.
Proof.
  intros Hc x' Hin Ht. destruct (in_sim _ _ _ Hin) as (n' & x & Hx & Hin'). destruct (sim1_props _ _ _ Hin') as (T & _ & C & _).
  apply C. apply Hc; [exact Hx|congruence].
Qed.

(* ---- events: from the loop network to its projection and back *)
Lemma happens_sim_lift (Pl : lnet -> lnop -> Prop) (Pn : net -> nop -> Prop) :
  (forall n x, Pl n x -> happens nstepf Pn (proj n) (sim1 n x)) ->
  forall xs n, happens lnstepf Pl n xs -> happens nstepf Pn (proj n) (sim n xs).
Proof.
  intros Hl. induction xs as [|x xs IH]; intros n Hev; cbn [happens] in Hev; [contradiction|]. cbn [Closure.sim]. apply happens_app.
  destruct Hev as [Hp|Hev]; [left; apply Hl; exact Hp|]. right. rewrite <- nrun_fold, sim_step. cbn [fst]. apply IH. exact Hev.
Qed.

Lemma happens_sim_lower (Pn : net -> nop -> Prop) (Pl : lnet -> lnop -> Prop) :
  (forall n x, happens nstepf Pn (proj n) (sim1 n x) -> Pl n x) ->
  forall xs n, happens nstepf Pn (proj n) (sim n xs) -> happens lnstepf Pl n xs.
Proof.
  intros Hl. induction xs as [|x xs IH]; intros n Hev; cbn [Closure.sim] in Hev; [destruct Hev|]. cbn [happens]. apply happens_app in Hev.
  destruct Hev as [Hp|Hev]; [left; apply Hl; exact Hp|]. right. rewrite <- nrun_fold, sim_step in Hev. cbn [fst] in Hev. apply IH. exact Hev.
Qed.

Lemma happens_out (P : net -> nop -> Prop) (Q : nat -> list out -> Prop) :
  (forall n x, P n x -> Q (target x) (snd (nstep n x))) ->
  forall xs n, happens nstepf P n xs -> exists x outs, In x xs /\ In outs (snd (nrun n xs)) /\ Q (target x) outs.
Proof.
  intros HQ. induction xs as [|x xs IH]; intros n Hev; cbn [happens] in Hev; [contradiction|]. cbn [System.nrun].
  destruct Hev as [Hp|Hev].
  - exists x, (snd (nstep n x)). split; [left; reflexivity|]. split; [|apply HQ; exact Hp]. destruct (nstep n x) as [n1 o1]. destruct (nrun n1 xs). left. reflexivity.
  - destruct (IH _ Hev) as (y & outs & Hy & Ho & Hq). exists y, outs. split; [right; exact Hy|]. split; [|exact Hq].
    destruct (nstep n x) as [n1 o1]. cbn [fst] in Ho. destruct (nrun n1 xs). right. exact Ho.
Qed.

(* ================================================================== consequences for the loop network *)
(* C01 at the loop network: whatever any loop node stores after any history of the loop network is a quorum-valid VAA of a set
   that node learned (the sets handed to it by VSetGS steps) *)
Theorem lnet_store N xs i lst : Forall lnop_wf xs -> nth_error (x_nodes (fst (lnrun (lninit N) xs))) i = Some lst ->
  Forall (ProcSpec.stored_ok recover keccak (net_learned i (sim (lninit N) xs))) (db (l_proc lst)).
Proof.
  intros Hw Hn. apply (net_store recover keccak gov_chain gov_addr owns signs N (sim (lninit N) xs) i (l_proc lst)); [apply sim_wf; exact Hw|].
  rewrite <- proj_init. rewrite (proj1 (refinement xs (lninit N))). cbn [proj nodes]. apply map_nth_error. exact Hn.
Qed.

Hypothesis keccak_len : forall b, length (keccak b) = 32%nat.

(* the events of a recovery window, on the loop network *)
(* node i's own watcher takes the request at the head of its queue for chain c, its re-observation path answers [m], and the
   processor signs m *)
Definition lev_reobserved (i : nat) (m : msgpub) (n : lnet) (x : lnop) : Prop :=
  exists c st q r rest, x = XLocal i (LWatch c) /\ nth_error (x_nodes n) i = Some st /\
    R.find_queue (R.queues (l_disp st)) c = Some q /\ R.q_items q = r :: rest /\ watches i c r (l_now st) = [m] /\
    existsb is_sendobs (snd (Processor.step recover keccak (signs i) (owns i) gov_chain gov_addr (l_proc st) (LocalMsg m))) = true.
(* the network delivers to node i (relayed by any peer but i itself) the observation of digest h that node j put on the wire *)
Definition lev_delivered (i j : nat) (h : bytes) (n : lnet) (x : lnop) : Prop :=
  exists from k tx st, x = XDeliver i from k /\ bytes_eqb from (selfs i) = false /\ nth_error (x_nodes n) i = Some st /\
    nth_error (x_pool n) k = Some (WObs {| o_addr := owns j; o_hash := h; o_sig := signs j h; o_tx := tx |}).
(* node i's processor broadcasts a SignedVAAWithQuorum in this step *)
Definition lev_publishes (i : nat) (n : lnet) (x : lnop) : Prop :=
  ltarget x = i /\ exists u po outs, In (u, EProc po outs) (snd (lnstep n x)) /\ existsb is_bcast outs = true.

Lemma reobserved_sim i m n x : lev_reobserved i m n x ->
  happens nstepf (ev_observes recover keccak gov_chain gov_addr owns signs i m) (proj n) (sim1 n x).
Proof.
  intros (c & st & q & r & rest & -> & Hn & Hq & Hi & Hw & Hs).
  destruct (ReobsLoopBase.lstep_watch_feeds recover keccak (signs i) (owns i) gov_chain gov_addr decode_hb decodeq encq (selfs i) disable (watches i) st c q r rest Hq Hi) as [Ep _].
  unfold Closure.sim1, lres. cbn [ReobsLoop.resolve]. rewrite Hn. fold (pops (snd (nd_step i st (LWatch c)))). unfold ReobsLoop.nd_step. rewrite Ep, Hw.
  cbn [map nop_of_op happens]. left. split; [reflexivity|].
  rewrite (nstep_unfold recover keccak gov_chain gov_addr owns signs (proj n) (NEnv i (EMsg m)) i (LocalMsg m) (l_proc st) eq_refl); [exact Hs|].
  cbn [proj nodes]. apply map_nth_error. exact Hn.
Qed.

Lemma delivered_sim i j h n x : lev_delivered i j h n x -> happens nstepf (ev_delivered owns signs i j h) (proj n) (sim1 n x).
Proof.
  intros (from & k & tx & st & -> & Hf & Hn & Hk).
  unfold Closure.sim1, lres. cbn [ReobsLoop.resolve]. rewrite Hk, Hn. fold (pops (snd (nd_step i st (LGossip from (gmsg_of (WObs {| o_addr := owns j; o_hash := h; o_sig := signs j h; o_tx := tx |})))))).
  unfold ReobsLoop.nd_step. rewrite (lstep_pops i). unfold ReobsLoop.gstep. cbn [gmsg_of]. rewrite (gossip_obs_passes _ _ _ _ _ Hf).
  cbn [map happens]. left. exists (pidx (x_pool n) k), tx. split; [reflexivity|]. cbn [proj pool].
  pose proof (pidx_nth (x_pool n) k _ _ [] Hk eq_refl) as X. rewrite app_nil_r in X. exact X.
Qed.

Lemma publishes_lower i h n x : happens nstepf (ev_publishes recover keccak gov_chain gov_addr owns signs i h) (proj n) (sim1 n x) -> lev_publishes i n x.
Proof.
  intros Hev.
  destruct (happens_out (ev_publishes recover keccak gov_chain gov_addr owns signs i h) (fun t outs => t = i /\ existsb is_bcast outs = true)) with (xs := sim1 n x) (n := proj n)
    as (x' & outs & Hx' & Ho & Ht & Hb); [|exact Hev|].
  { intros n' y Hp. split; [|apply (ev_publishes_output recover keccak gov_chain gov_addr owns signs i h); exact Hp].
    destruct Hp as (st & o & _ & Hr & _). apply (resolve_target n' y i o Hr). }
  destruct (sim1_props _ _ _ Hx') as (T & _). split; [congruence|].
  rewrite sim_step in Ho. cbn [snd] in Ho. apply in_map_iff in Ho as ([po outs'] & E & Hin). cbn [snd] in E. subst outs'.
  unfold proc_of in Hin. apply in_flat_map in Hin as ([u e] & Hin & He). cbn [snd] in He. destruct e; try (destruct He; fail). destruct He as [He|[]]. inversion He; subst.
  exists u, po, outs. split; [exact Hin|exact Hb].
Qed.

(* RECOVERY AT THE NETWORK LEVEL (C14 o C02).  N loop nodes, adversarial network.  After ANY pre-history xs0, over ANY continuation
   xs in which node i gets no guardian-set change and no cleanup tick: G is in force at node i and i knows nothing about m (it MISSED
   the message); S is a set of >= quorum honest members of G containing i; at some step node i's OWN WATCHER answers a
   re-observation request with m and the processor signs it; for every other j in S the observation j put on the wire is delivered
   to i at some step (fair delivery; any order, duplication, interleaving with requests, adversarial items, other nodes' steps);
   i's own signature has looped back.  Then i's entry for m is submitted under G, and there is a step of the window at which
   node i's processor broadcasts a SignedVAAWithQuorum. *)
Theorem lnet_recovery N xs0 xs i G m (S : list nat) :
  (i < N)%nat -> Forall lnop_wf xs0 -> Forall lnop_wf xs ->
  let n0 := fst (lnrun (lninit N) xs0) in
  let n1 := fst (lnrun n0 xs) in
  let h := Processor.dg keccak (vaa_of_message 0 m) in
  (forall st0, nth_error (x_nodes n0) i = Some st0 -> cur (l_proc st0) = Some G /\ alookup h (agg (l_proc st0)) = None) -> ProcSpec.gs_wf G ->
  (forall x, In x xs -> ltarget x = i -> lcalm x = true) ->
  NoDup (map owns S) -> (forall j, In j S -> honest_member recover owns signs G j) ->
  go_quorum (Z.of_nat (length (keys G))) <= Z.of_nat (length S) -> In i S ->
  happens lnstepf (lev_reobserved i m) n0 xs ->
  (forall j, In j S -> j <> i -> happens lnstepf (lev_delivered i j h) n0 xs) ->
  (forall st, nth_error (x_nodes n1) i = Some st -> forall o, In o (loopq (l_proc st)) -> o_hash o <> h) ->
  (exists st e, nth_error (x_nodes n1) i = Some st /\ alookup h (agg (l_proc st)) = Some e /\
                our_vaa e <> None /\ gs_snap e = Some G /\ submitted e = true) /\
  happens lnstepf (lev_publishes i) n0 xs.
Proof.
  intros Hi Hw0 Hw. cbv zeta. intros Hst0 Hg Hcalm ND Hhon Hq HiS Hobs Hdel Hlq.
  set (n0 := fst (lnrun (lninit N) xs0)) in *. set (n1 := fst (lnrun n0 xs)) in *. set (h := Processor.dg keccak (vaa_of_message 0 m)) in *.
  assert (E0 : fst (nrun (ninit N) (sim (lninit N) xs0)) = proj n0) by (rewrite <- proj_init; apply (proj1 (refinement xs0 (lninit N)))).
  assert (E1 : fst (nrun (proj n0) (sim n0 xs)) = proj n1) by apply (proj1 (refinement xs n0)).
  assert (Hst0' : forall st0, nth_error (nodes (proj n0)) i = Some st0 -> cur st0 = Some G /\ alookup h (agg st0) = None).
  { intros st0 H. cbn [proj nodes] in H. rewrite nth_error_map in H. destruct (nth_error (x_nodes n0) i) as [lst|] eqn:E; [|discriminate]. inversion H; subst. apply Hst0. reflexivity. }
  assert (Hlq' : forall st, nth_error (nodes (proj n1)) i = Some st -> forall o, In o (loopq st) -> o_hash o <> h).
  { intros st H. cbn [proj nodes] in H. rewrite nth_error_map in H. destruct (nth_error (x_nodes n1) i) as [lst|] eqn:E; [|discriminate]. inversion H; subst. apply Hlq. reflexivity. }
  assert (Hobs' : happens nstepf (ev_observes recover keccak gov_chain gov_addr owns signs i m) (proj n0) (sim n0 xs))
    by (apply (happens_sim_lift (lev_reobserved i m)); [apply reobserved_sim|exact Hobs]).
  assert (Hdel' : forall j, In j S -> j <> i -> happens nstepf (ev_delivered owns signs i j h) (proj n0) (sim n0 xs))
    by (intros j Hj Hne; apply (happens_sim_lift (lev_delivered i j h)); [apply delivered_sim|exact (Hdel j Hj Hne)]).
  pose proof (sim_wf (lninit N) xs0 Hw0) as W0. pose proof (sim_wf n0 xs Hw) as W1. pose proof (sim_calm n0 xs i Hcalm) as C1.
  split.
  - pose proof (net_liveness recover keccak gov_chain gov_addr owns signs keccak_len N (sim (lninit N) xs0) (sim n0 xs) i G m S Hi W0 W1) as L. cbv zeta in L.
    rewrite E0, E1 in L. destruct (L Hst0' Hg C1 ND Hhon Hq HiS Hobs' Hdel' Hlq') as (st & e & Hn & He & Hv & Hs & Hsub).
    cbn [proj nodes] in Hn. rewrite nth_error_map in Hn. destruct (nth_error (x_nodes n1) i) as [lst|] eqn:E; [|discriminate]. inversion Hn; subst st.
    exists lst, e. repeat split; assumption.
  - pose proof (net_liveness_publishes recover keccak gov_chain gov_addr owns signs keccak_len N (sim (lninit N) xs0) (sim n0 xs) i G m S Hi W0 W1) as L. cbv zeta in L.
    rewrite E0, E1 in L. specialize (L Hst0' Hg C1 ND Hhon Hq HiS Hobs' Hdel' Hlq').
    apply (happens_sim_lower (ev_publishes recover keccak gov_chain gov_addr owns signs i h) (lev_publishes i)); [apply publishes_lower|exact L].
Qed.

(* what an honest observer puts on the loop network's wire when it signs a chain message handed over by its watcher's polling path:
   the observation item the fair-delivery premise speaks about *)
Lemma observer_item_on_wire n j m st : nth_error (x_nodes n) j = Some st ->
  existsb is_sendobs (snd (Processor.step recover keccak (signs j) (owns j) gov_chain gov_addr (l_proc st) (LocalMsg m))) = true ->
  In (WObs {| o_addr := owns j; o_hash := Processor.dg keccak (vaa_of_message 0 m); o_sig := signs j (Processor.dg keccak (vaa_of_message 0 m)); o_tx := m_tx m |})
     (x_pool (fst (lnstep n (XLocal j (LEnv (VMsg m)))))).
Proof.
  intros Hn Hs. rewrite (lnstep_unfold n (XLocal j (LEnv (VMsg m))) j (LEnv (VMsg m)) st eq_refl Hn). cbn [fst x_pool]. apply in_or_app. right.
  unfold ReobsLoop.nd_step. cbn [ReobsLoop.lstep ReobsLoop.op_of_env ReobsLoop.feed]. unfold ReobsLoop.pstep.
  pose proof (observer_emits keccak gov_chain gov_addr (signs j) (owns j) (l_proc st) m) as X. cbn [Processor.step] in Hs. specialize (X Hs).
  cbn [Processor.step]. destruct (Processor.handle_message keccak (signs j) (owns j) gov_chain gov_addr (l_proc st) m) as [p' outs]. cbn [snd flat_map app] in *.
  rewrite app_nil_r. unfold wire_of. cbn [snd]. apply in_flat_map. eexists. split; [exact X|left; reflexivity].
Qed.
End Refine.
