(* Extension X10: computed example histories (toy crypto oracles) on the guardian network of model/System.v: the equivocation witness
   and a liveness window with cleanup ticks.  Evaluated once here; props/C02.v restates them. *)
From Coq Require Import List ZArith Bool Lia.
From Coq Require Import Strings.Byte.
From WH Require Import lib.Bytes gen.Extracted model.Vaa model.Processor model.ProcSpec model.System model.PubLog.
From WH Require Import proofs.ProcC02Proofs proofs.SystemProofs proofs.SystemLiveProofs proofs.ClosureProofs3 proofs.ClosureProofs5 proofs.ClosureProofsEx0.
Import ListNotations.
Open Scope Z_scope.

(* ---------------------------------------------------------------- 3. equivocation by more than a third: two conflicting quorum VAAs *)
(* a hash that tells the two bodies apart (they differ in their last byte), the permissive recovery oracle: members 1 and 2 of a set
   of four "sign" two different digests for ONE message id; honest nodes 0 and 3 observed different contents for that id (e.g. through
   different RPC providers); each publishes a quorum VAA *)
Definition wx_keccak (b : bytes) : bytes := firstn 32 (rev b ++ repeat x00 32).
Definition wx_G : gset := {| keys := [qx_owns 0; qx_owns 1; qx_owns 2; qx_owns 3]; gidx := 3 |}.
Definition wx_m1 : msgpub := qx_msg.
Definition wx_m2 : msgpub := {| m_tx := [x07]; m_ts := 1700000000; m_tns := 0; m_nonce := 1; m_seq := 5; m_cl := 1;
                                m_echain := 2; m_tchain := 255; m_eaddr := repeat x02 32; m_payload := [x01; x03] |}.
Definition wx_d (m : msgpub) : bytes := Processor.dg wx_keccak (vaa_of_message 0 m).
Definition wx_ob (k : nat) (d : bytes) : obs := {| o_addr := qx_owns k; o_hash := d; o_sig := qx_signs k d; o_tx := [x07] |}.
Definition wx_xs : list nop :=
  [NEnv 0 (ESetGS wx_G); NEnv 3 (ESetGS wx_G); NEnv 0 (EMsg wx_m1); NEnv 3 (EMsg wx_m2); NLoop 0 0; NLoop 3 0;
   NAdv 0 (GObs (wx_ob 1 (wx_d wx_m1))); NAdv 0 (GObs (wx_ob 2 (wx_d wx_m1)));
   NAdv 3 (GObs (wx_ob 1 (wx_d wx_m2))); NAdv 3 (GObs (wx_ob 2 (wx_d wx_m2)))].
Definition wx_sig (k : nat) : sig := {| s_idx := Z.of_nat k; s_data := firstn 65 (qx_signs k []) |}.
Definition wx_v1 : vaa := set_sigs (vaa_of_message 3 wx_m1) [wx_sig 0; wx_sig 1; wx_sig 2].
Definition wx_v2 : vaa := set_sigs (vaa_of_message 3 wx_m2) [wx_sig 1; wx_sig 2; wx_sig 3].
Definition wx_pubs := pubs_of qx_recover wx_keccak 1 (repeat x00 32) qx_owns qx_signs.

Lemma wx_G_wf : ProcSpec.gs_wf wx_G.
Proof. split; [|cbn; lia]. repeat (constructor; [cbn; intuition discriminate|]). constructor. Qed.

Lemma ex_equivocation :
  Forall nop_wf wx_xs /\
  wx_pubs 0%nat (ninit 4) wx_xs = [marshal wx_v1] /\ wx_pubs 3%nat (ninit 4) wx_xs = [marshal wx_v2] /\
  Processor.id_of wx_v1 = Processor.id_of wx_v2 /\ Processor.dg wx_keccak wx_v1 <> Processor.dg wx_keccak wx_v2 /\
  (* members 1 and 2 - two of four, more than a third - have valid signatures in both: the hypothesis fails exactly for them *)
  signed_by qx_recover wx_keccak wx_v1 (qx_owns 1) /\ signed_by qx_recover wx_keccak wx_v2 (qx_owns 1) /\
  signed_by qx_recover wx_keccak wx_v1 (qx_owns 2) /\ signed_by qx_recover wx_keccak wx_v2 (qx_owns 2) /\
  ~ one_digest_per_id qx_recover wx_keccak (qx_owns 1) /\ ~ one_digest_per_id qx_recover wx_keccak (qx_owns 2) /\
  3 * Z.of_nat (length [qx_owns 1; qx_owns 2]) > Z.of_nat (length (keys wx_G)).
Proof.
  assert (Hne : Processor.dg wx_keccak wx_v1 <> Processor.dg wx_keccak wx_v2) by (vm_compute; discriminate).
  assert (S11 : signed_by qx_recover wx_keccak wx_v1 (qx_owns 1)) by (exists (wx_sig 1); split; [right; left; reflexivity|vm_compute; reflexivity]).
  assert (S21 : signed_by qx_recover wx_keccak wx_v2 (qx_owns 1)) by (exists (wx_sig 1); split; [left; reflexivity|vm_compute; reflexivity]).
  assert (S12 : signed_by qx_recover wx_keccak wx_v1 (qx_owns 2)) by (exists (wx_sig 2); split; [right; right; left; reflexivity|vm_compute; reflexivity]).
  assert (S22 : signed_by qx_recover wx_keccak wx_v2 (qx_owns 2)) by (exists (wx_sig 2); split; [right; left; reflexivity|vm_compute; reflexivity]).
  repeat apply conj; try assumption.
  - constructor; [exact wx_G_wf|constructor; [exact wx_G_wf|]]. repeat (constructor; [exact I|]). constructor.
  - vm_compute. reflexivity.
  - vm_compute. reflexivity.
  - reflexivity.
  - intros H. apply Hne. apply (H wx_v1 wx_v2 eq_refl S11 S21).
  - intros H. apply Hne. apply (H wx_v1 wx_v2 eq_refl S12 S22).
  - cbn. lia.
Qed.

(* ---------------------------------------------------------------- 4. a liveness window WITH cleanup ticks at the publishing node *)
(* two guardians, quorum 2.  Window at node 0: clock 10 s, both observe, a cleanup tick (nothing due), clock 45 s, a tick that SETTLES
   the entry, node 1's observation arrives, clock 350 s, a tick that RETRIES (re-sends the observation, requests re-observation),
   the own signature loops back: published *)
Definition tx_pre : list nop := [NEnv 0 (ESetGS qx_G); NEnv 1 (ESetGS qx_G)].
Definition tx_s : Z := 1000000000.
Definition tx_win : list nop :=
  [NEnv 0 (EClock (10 * tx_s)); NEnv 1 (EMsg qx_msg); NEnv 0 (EMsg qx_msg); NEnv 0 ECleanup; NEnv 0 (EClock (45 * tx_s)); NEnv 0 ECleanup;
   NDeliver 0 0; NEnv 0 (EClock (350 * tx_s)); NEnv 0 ECleanup; NLoop 0 0].
Definition tx_nstep := nstep qx_recover qx_keccak 1 (repeat x00 32) qx_owns qx_signs.
Definition tx_nrun := nrun qx_recover qx_keccak 1 (repeat x00 32) qx_owns qx_signs.

Lemma ex_liveness_with_ticks :
  let stp := fun n x => fst (tx_nstep n x) in
  let n0 := fst (tx_nrun (ninit 2) tx_pre) in
  let n1 := fst (tx_nrun n0 tx_win) in
  let h := Processor.dg qx_keccak (vaa_of_message 0 qx_msg) in
  Forall nop_wf tx_pre /\ Forall nop_wf tx_win /\
  (forall st0, nth_error (nodes n0) 0 = Some st0 -> cur st0 = Some qx_G /\ alookup h (agg st0) = None) /\ ProcSpec.gs_wf qx_G /\
  (forall x, In x tx_win -> target x = 0%nat -> steady_nop x = true) /\
  net_ticks_keep qx_recover qx_keccak 1 (repeat x00 32) qx_owns qx_signs 0 h n0 tx_win /\
  NoDup (map qx_owns [0; 1]%nat) /\ (forall j, In j [0; 1]%nat -> honest_member qx_recover qx_owns qx_signs qx_G j) /\
  go_quorum (Z.of_nat (length (keys qx_G))) <= Z.of_nat (length [0; 1]%nat) /\
  happens stp (ev_observes qx_recover qx_keccak 1 (repeat x00 32) qx_owns qx_signs 0 qx_msg) n0 tx_win /\
  happens stp (ev_delivered qx_owns qx_signs 0 1 h) n0 tx_win /\
  (forall st, nth_error (nodes n1) 0 = Some st -> forall o, In o (loopq st) -> o_hash o <> h) /\
  (* the three ticks of the window: nothing, settle, retry (a re-observation request and the re-sent observation go out) *)
  map (fun outs => length outs) (snd (tx_nrun n0 tx_win)) = [0; 2; 2; 0; 0; 0; 0; 0; 2; 2]%nat /\
  (exists st e, nth_error (nodes n1) 0 = Some st /\ alookup h (agg st) = Some e /\ submitted e = true /\ settled e = true /\ retries e = 1).
Proof.
  cbv zeta.
  split; [constructor; [exact qx_G_wf|constructor; [exact qx_G_wf|constructor]]|].
  split; [repeat (constructor; [exact I|]); constructor|].
  split; [intros st0 H; vm_compute in H; inversion H; subst st0; split; reflexivity|].
  split; [exact qx_G_wf|].
  split; [intros x Hx _; repeat (destruct Hx as [<-|Hx]; [reflexivity|]); destruct Hx|].
  split.
  { unfold net_ticks_keep, tx_win. cbn [always].
    assert (T : forall n, (forall st, nth_error (nodes n) 0 = Some st -> forall e, alookup (Processor.dg qx_keccak (vaa_of_message 0 qx_msg)) (agg st) = Some e ->
                  match cleanup_entry (clock st + 1) (in_db_of st e) (ckb st) e with CDelete => false | _ => true end = true) ->
                NEnv 0 ECleanup = NEnv 0 ECleanup -> forall st, nth_error (nodes n) 0 = Some st -> tick_keeps (Processor.dg qx_keccak (vaa_of_message 0 qx_msg)) st).
    { intros n Hn _ st Hst e He X. specialize (Hn st Hst e He). rewrite X in Hn. discriminate Hn. }
    repeat apply conj; try (intros X; discriminate X); try exact I; apply T; intros st Hst; vm_compute in Hst; inversion Hst; subst st;
      intros e He; vm_compute in He; inversion He; subst e; vm_compute; reflexivity. }
  split; [constructor; [intros [H|[]]; discriminate H|constructor; [intros []|constructor]]|].
  split; [exact qx_honest|].
  split; [vm_compute; discriminate|].
  split; [unfold tx_win; cbn [happens]; right; right; left; split; [reflexivity|vm_compute; reflexivity]|].
  split; [unfold tx_win; cbn [happens]; do 6 right; left; exists 0%nat, [x07]; split; [reflexivity|vm_compute; reflexivity]|].
  split; [intros st H; vm_compute in H; inversion H; subst st; intros o []|].
  split; [vm_compute; reflexivity|].
  eexists. eexists. split; [vm_compute; reflexivity|]. repeat split; vm_compute; reflexivity.
Qed.

(* ---------------------------------------------------------------- the agreement hypothesis is satisfiable by a non-trivial oracle *)
(* member hx_a has valid signatures over ONE digest only (hx_d0); every other address over anything *)
Definition hx_a : addr := qx_owns 0.
Definition hx_d0 : bytes := repeat x07 32.
Definition hx_recover (h s : bytes) : option bytes :=
  if bytes_eqb h hx_d0 || negb (bytes_eqb (firstn 20 s) hx_a) then Some (firstn 20 s) else None.
Lemma ex_one_digest_per_id keccak : one_digest_per_id hx_recover keccak hx_a.
Proof.
  assert (A : forall h s, Processor.rec hx_recover h s = Some hx_a -> h = hx_d0).
  { intros h s. unfold Processor.rec, recover_checked. destruct (_ && _)%nat; [|discriminate]. destruct (nth_error s 64); [|discriminate].
    destruct (_ <? _); [|discriminate]. unfold hx_recover. destruct (bytes_eqb_spec h hx_d0) as [->|_]; [reflexivity|]. cbn [orb].
    destruct (bytes_eqb_spec (firstn 20 s) hx_a) as [E|N]; cbn [negb]; [discriminate|]. intros X. inversion X. contradiction. }
  intros v1 v2 _ (s1 & _ & R1) (s2 & _ & R2). rewrite (A _ _ R1), (A _ _ R2). reflexivity.
Qed.
