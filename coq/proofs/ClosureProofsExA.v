(* Extension X10: computed example histories (toy crypto oracles) for the loop network and the EVM oracle inside the loop.
   Evaluated once here; props/C14.v restates them. *)
From Coq Require Import List ZArith Bool Lia.
From Coq Require Import Strings.Byte.
From WH Require Import lib.Bytes lib.EvmAbi gen.Extracted gen.ExtractedWiring gen.ExtractedP2P model.Vaa model.Processor model.ProcSpec model.System
     model.ReobsLoop model.Closure.
From WH Require Import proofs.ProcC02Proofs proofs.SystemProofs proofs.SystemLiveProofs proofs.ReobsLoopBase
     proofs.ClosureProofs1 proofs.ClosureProofs2 proofs.ClosureProofs3 proofs.ClosureProofs6 proofs.ClosureProofs8 proofs.ClosureProofsEx0.
From WH Require model.EvmLog proofs.EvmLogProofs.
Import ListNotations.
Open Scope Z_scope.

Definition qx_selfs (i : nat) : G.peerid := [byte_of_Z (Z.of_nat i + 9)].

(* ---------------------------------------------------------------- 1. recovery at the level of the loop network *)
(* two loop nodes; both learn the set; node 1 observes the message through its watcher's polling path (its observation is item 0 on
   the wire); node 0 MISSED it.  Window at node 0: a re-observation request for transaction 07 on chain 2 (posted and pumped: forwarded
   to the chain-2 queue, published), its watcher answers with the message and the processor signs; an adversarial item; node 1's
   observation is delivered; the own signature loops back: node 0 publishes *)
Definition qx_watches (i : nat) (c : Z) (r : R.req) (t : Z) : list msgpub := if (c =? 2) && bytes_eqb (R.r_tx r) [x07] then [qx_msg] else [].
Definition qx_req : R.req := {| R.r_chain := 2; R.r_tx := [x07] |}.
Definition qx_pre : list lnop := [XLocal 0 (LEnv (VSetGS qx_G)); XLocal 1 (LEnv (VSetGS qx_G)); XLocal 1 (LEnv (VMsg qx_msg))].
Definition qx_win : list lnop :=
  [XLocal 0 (LClock 1000); XLocal 0 (LAdmin qx_req); XLocal 0 LPump; XLocal 0 (LWatch 2); XAdv 0 [x05] (WVaa [x00]); XDeliver 0 [x05] 0;
   XLocal 0 (LEnv (VLoop 0))].
Definition qx_lnstep := lnstep qx_recover qx_keccak 1 (repeat x00 32) (fun _ => None) (fun _ => None) (fun _ => []) false qx_owns qx_signs qx_selfs qx_watches.
Definition qx_lnrun := lnrun qx_recover qx_keccak 1 (repeat x00 32) (fun _ => None) (fun _ => None) (fun _ => []) false qx_owns qx_signs qx_selfs qx_watches.

Lemma ex_lnet_recovery :
  let stp := fun n x => fst (qx_lnstep n x) in
  let n0 := fst (qx_lnrun (lninit 2) qx_pre) in
  let n1 := fst (qx_lnrun n0 qx_win) in
  let h := Processor.dg qx_keccak (vaa_of_message 0 qx_msg) in
  Forall lnop_wf qx_pre /\ Forall lnop_wf qx_win /\
  (forall st0, nth_error (x_nodes n0) 0 = Some st0 -> cur (l_proc st0) = Some qx_G /\ alookup h (agg (l_proc st0)) = None) /\ ProcSpec.gs_wf qx_G /\
  (forall x, In x qx_win -> ltarget x = 0%nat -> lcalm x = true) /\
  NoDup (map qx_owns [0; 1]%nat) /\ (forall j, In j [0; 1]%nat -> honest_member qx_recover qx_owns qx_signs qx_G j) /\
  go_quorum (Z.of_nat (length (keys qx_G))) <= Z.of_nat (length [0; 1]%nat) /\
  happens stp (lev_reobserved qx_recover qx_keccak 1 (repeat x00 32) qx_owns qx_signs qx_watches 0 qx_msg) n0 qx_win /\
  happens stp (lev_delivered qx_owns qx_signs qx_selfs 0 1 h) n0 qx_win /\
  (forall st, nth_error (x_nodes n1) 0 = Some st -> forall o, In o (loopq (l_proc st)) -> o_hash o <> h) /\
  (* ... and the conclusion, computed: the entry is submitted, the SignedVAAWithQuorum is on the wire of the loop network *)
  (exists st e, nth_error (x_nodes n1) 0 = Some st /\ alookup h (agg (l_proc st)) = Some e /\ submitted e = true) /\
  existsb (fun w => match w with WVaa _ => true | _ => false end) (x_pool n1) = true /\
  existsb (fun w => match w with WVaa _ => true | _ => false end) (x_pool n0) = false.
Proof.
  cbv zeta. repeat apply conj.
  - constructor; [exact qx_G_wf|constructor; [exact qx_G_wf|constructor; [exact I|constructor]]].
  - repeat (constructor; [exact I|]). constructor.
  - intros st0 H. vm_compute in H. inversion H; subst st0. split; reflexivity.
  - exact (proj1 qx_G_wf).
  - exact (proj2 qx_G_wf).
  - intros x Hx _. repeat (destruct Hx as [<-|Hx]; [reflexivity|]). destruct Hx.
  - constructor; [intros [H|[]]; discriminate H|constructor; [intros []|constructor]].
  - exact qx_honest.
  - vm_compute. discriminate.
  - unfold qx_win. cbn [happens]. right. right. right. left.
    eexists 2, _, _, qx_req, []. split; [reflexivity|]. split; [vm_compute; reflexivity|]. split; [vm_compute; reflexivity|].
    split; [reflexivity|]. split; [reflexivity|]. vm_compute. reflexivity.
  - unfold qx_win. cbn [happens]. right. right. right. right. right. left.
    eexists [x05], 0%nat, [x07], _. split; [reflexivity|]. split; [reflexivity|]. split; vm_compute; reflexivity.
  - intros st H. vm_compute in H. inversion H; subst st. intros o [].
  - eexists. eexists. split; [vm_compute; reflexivity|]. split; vm_compute; reflexivity.
  - vm_compute. reflexivity.
  - vm_compute. reflexivity.
Qed.

(* ---------------------------------------------------------------- 1b. the same recovery over a window WITH cleanup ticks at node 0 *)
(* clock 10 s: request, pump, the watcher answers, the processor signs; a cleanup step (nothing due); clock 45 s: a cleanup step that
   SETTLES the entry; node 1's observation is delivered; clock 350 s: a cleanup step that RETRIES (re-sends the observation, posts a
   re-observation request of its own, which the next pump publishes); the own signature loops back: published *)
Definition qy_s : Z := 1000000000.
Definition qy_win : list lnop :=
  [XLocal 0 (LClock (10 * qy_s)); XLocal 0 (LAdmin qx_req); XLocal 0 LPump; XLocal 0 (LWatch 2); XLocal 0 LCleanup; XLocal 0 (LClock (45 * qy_s));
   XLocal 0 LCleanup; XDeliver 0 [x05] 0; XLocal 0 (LClock (350 * qy_s)); XLocal 0 LCleanup; XLocal 0 LPump; XLocal 0 (LEnv (VLoop 0))].

Lemma ex_lnet_recovery_ticks :
  let stp := fun n x => fst (qx_lnstep n x) in
  let n0 := fst (qx_lnrun (lninit 2) qx_pre) in
  let n1 := fst (qx_lnrun n0 qy_win) in
  let h := Processor.dg qx_keccak (vaa_of_message 0 qx_msg) in
  Forall lnop_wf qy_win /\
  (forall x, In x qy_win -> ltarget x = 0%nat -> lsetgs_free x = true) /\
  lnet_ticks_keep qx_recover qx_keccak 1 (repeat x00 32) (fun _ => None) (fun _ => None) (fun _ => []) false qx_owns qx_signs qx_selfs qx_watches 0 h n0 qy_win /\
  happens stp (lev_reobserved qx_recover qx_keccak 1 (repeat x00 32) qx_owns qx_signs qx_watches 0 qx_msg) n0 qy_win /\
  happens stp (lev_delivered qx_owns qx_signs qx_selfs 0 1 h) n0 qy_win /\
  (forall st, nth_error (x_nodes n1) 0 = Some st -> forall o, In o (loopq (l_proc st)) -> o_hash o <> h) /\
  (exists st e, nth_error (x_nodes n1) 0 = Some st /\ alookup h (agg (l_proc st)) = Some e /\ submitted e = true /\ settled e = true /\ retries e = 1) /\
  existsb (fun w => match w with WVaa _ => true | _ => false end) (x_pool n1) = true /\
  (* the re-observation request of node 0 itself (posted by the retrying tick) is on the wire, next to the one that started the recovery *)
  length (filter (fun w => match w with WReq _ _ _ => true | _ => false end) (x_pool n1)) = 2%nat.
Proof.
  cbv zeta.
  split; [repeat (constructor; [exact I|]); constructor|].
  split; [intros x Hx _; repeat (destruct Hx as [<-|Hx]; [reflexivity|]); destruct Hx|].
  split.
  { unfold lnet_ticks_keep, qy_win. cbn [always].
    repeat apply conj; try (intros X; discriminate X); try exact I;
      intros _ st Hst; vm_compute in Hst; inversion Hst; subst st; intros e He X; vm_compute in He; inversion He; subst e; vm_compute in X; discriminate X. }
  split.
  { unfold qy_win. cbn [happens]. right. right. right. left.
    eexists 2, _, _, qx_req, []. split; [reflexivity|]. split; [vm_compute; reflexivity|]. split; [vm_compute; reflexivity|].
    split; [reflexivity|]. split; [reflexivity|]. vm_compute. reflexivity. }
  split.
  { unfold qy_win. cbn [happens]. do 7 right. left.
    eexists [x05], 0%nat, [x07], _. split; [reflexivity|]. split; [reflexivity|]. split; vm_compute; reflexivity. }
  split; [intros st H; vm_compute in H; inversion H; subst st; intros o []|].
  split; [eexists; eexists; split; [vm_compute; reflexivity|]; repeat split; vm_compute; reflexivity|].
  split; vm_compute; reflexivity.
Qed.

(* ---------------------------------------------------------------- 2. the EVM watcher inside the loop *)
Definition cx_watch := evm_watch (fun _ => cx_cfg) cx_node (fun _ _ _ => []).
Definition cx_run := lrun qx_recover qx_keccak (qx_signs 0) (qx_owns 0) 1 (repeat x00 32) (fun _ => None) (fun _ => None) (fun _ => []) [x09] false cx_watch.
Definition cx_H : list lop := [LEnv (VSetGS qx_G); LClock 1000; LAdmin {| R.r_chain := 2; R.r_tx := cx_tx |}; LPump; LWatch 2].

Lemma ex_evm_loop :
  In cx_m (cx_watch 2 {| R.r_chain := 2; R.r_tx := cx_tx |} 1000) /\
  (* inside the loop: the request is forwarded to the chain-2 queue, the EVM watcher answers with the message, the processor signs it *)
  existsb (fun e => match snd e with EWatch 2 _ [m] => true | _ => false end) (snd (cx_run linit cx_H)) = true /\
  existsb (fun e => match snd e with EProc (LocalMsg m) outs => existsb is_sendobs outs | _ => false end) (snd (cx_run linit cx_H)) = true.
Proof. vm_compute. repeat split; try reflexivity. left. reflexivity. Qed.
