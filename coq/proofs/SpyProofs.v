(* C20: proofs about model/Spy.v *)
From Coq Require Import List ZArith Lia Bool Arith.
From Coq Require Import Strings.Byte.
From WH Require Import lib.Bytes gen.Extracted model.Vaa model.Spy.
Import ListNotations.
Open Scope Z_scope.

(* ------------------------------------------------------------------ association-list facts *)
Lemma lookup_upd_same i f l : lookup i (upd i f l) = option_map f (lookup i l).
Proof.
  induction l as [|[j s] t IH]; [reflexivity|]. cbn [upd lookup].
  destruct (Z.eqb_spec i j) as [->|Hne]; cbn [lookup].
  - rewrite Z.eqb_refl. reflexivity.
  - destruct (Z.eqb_spec i j); [contradiction|]. exact IH.
Qed.

Lemma lookup_upd_other i j f l : i <> j -> lookup i (upd j f l) = lookup i l.
Proof.
  intros Hne. induction l as [|[k s] t IH]; [reflexivity|]. cbn [upd lookup].
  destruct (Z.eqb_spec j k) as [->|Hjk]; cbn [lookup].
  - destruct (Z.eqb_spec i k); [contradiction|reflexivity].
  - destruct (Z.eqb_spec i k); [reflexivity|exact IH].
Qed.

Lemma ids_upd i f l : map fst (upd i f l) = map fst l.
Proof.
  induction l as [|[j s] t IH]; [reflexivity|]. cbn [upd].
  destruct (i =? j); cbn [map fst]; [reflexivity|]. f_equal. exact IH.
Qed.

Lemma lookup_in i l s : lookup i l = Some s -> In i (map fst l).
Proof.
  induction l as [|[j x] t IH]; [discriminate|]. cbn [lookup map fst].
  destruct (Z.eqb_spec i j) as [->|Hne]; [left; reflexivity|]. intros H. right. apply IH. exact H.
Qed.

Lemma lookup_none i l : lookup i l = None <-> ~ In i (map fst l).
Proof.
  induction l as [|[j x] t IH]; [cbn; tauto|]. cbn [lookup map fst].
  destruct (Z.eqb_spec i j) as [->|Hne].
  - split; [discriminate|]. intros H. exfalso. apply H. left. reflexivity.
  - rewrite IH. cbn [In]. split; [intros H [E|E]; [congruence|contradiction]|tauto].
Qed.

Lemma lookup_some_in i l : In i (map fst l) -> exists s, lookup i l = Some s.
Proof.
  intros H. destruct (lookup i l) eqn:E; [eexists; reflexivity|]. apply lookup_none in E. contradiction.
Qed.

Lemma lookup_del_same i l : NoDup (map fst l) -> lookup i (del i l) = None.
Proof.
  induction l as [|[j s] t IH]; [reflexivity|]. cbn [del map fst]. intros Hnd. inversion Hnd as [|? ? Hni Hnd']; subst.
  destruct (Z.eqb_spec i j) as [->|Hne].
  - apply lookup_none. exact Hni.
  - cbn [lookup]. destruct (Z.eqb_spec i j); [contradiction|]. apply IH. exact Hnd'.
Qed.

Lemma lookup_del_other i j l : i <> j -> lookup i (del j l) = lookup i l.
Proof.
  intros Hne. induction l as [|[k s] t IH]; [reflexivity|]. cbn [del lookup].
  destruct (Z.eqb_spec j k) as [->|Hjk].
  - destruct (Z.eqb_spec i k); [contradiction|reflexivity].
  - cbn [lookup]. destruct (Z.eqb_spec i k); [reflexivity|exact IH].
Qed.

Lemma ids_del_incl j l : incl (map fst (del j l)) (map fst l).
Proof.
  induction l as [|[k s] t IH]; [intros x Hx; exact Hx|]. cbn [del].
  destruct (j =? k); cbn [map fst]; intros x Hx.
  - right. exact Hx.
  - destruct Hx as [E|Hx]; [left; exact E|right; apply IH; exact Hx].
Qed.

Lemma nodup_del j l : NoDup (map fst l) -> NoDup (map fst (del j l)).
Proof.
  induction l as [|[k s] t IH]; [intros H; exact H|]. cbn [del map fst]. intros Hnd. inversion Hnd as [|? ? Hni Hnd']; subst.
  destruct (j =? k); [exact Hnd'|]. cbn [map fst]. constructor; [|apply IH; exact Hnd'].
  intros Hin. apply Hni. apply (ids_del_incl j t). exact Hin.
Qed.

Lemma lookup_app_new i l j s : lookup i (l ++ [(j, s)]) = match lookup i l with Some x => Some x | None => if i =? j then Some s else None end.
Proof.
  induction l as [|[k x] t IH]; [reflexivity|]. cbn [app lookup]. destruct (i =? k); [reflexivity|exact IH].
Qed.

(* ------------------------------------------------------------------ the sends of one Publish *)
(* what the statement owes a subscription with filters [fs] for the bytes [b]: the bytes themselves when it has no filters;
   otherwise one copy per filter equal to the VAA's (emitter chain, emitter address) *)
Definition owes (fs : list sfilter) (b : bytes) : list bytes :=
  match fs with
  | [] => [b]
  | _ => match emitter_of b with
         | Some (c, a) => repeat b (length (filter (fmatch c a) fs))
         | None => []
         end
  end.

Definition zcount (i : id) (l : list id) : nat := count_occ Z.eq_dec l i.

Lemma zcount_repeat_same i n : zcount i (repeat i n) = n.
Proof. unfold zcount. induction n as [|n IH]; [reflexivity|]. cbn [repeat count_occ]. destruct (Z.eq_dec i i); [f_equal; exact IH|contradiction]. Qed.

Lemma zcount_repeat_other i j n : i <> j -> zcount i (repeat j n) = 0%nat.
Proof. intros Hne. unfold zcount. induction n as [|n IH]; [reflexivity|]. cbn [repeat count_occ]. destruct (Z.eq_dec j i); [congruence|exact IH]. Qed.

Lemma zcount_app i a b : zcount i (a ++ b) = (zcount i a + zcount i b)%nat.
Proof. unfold zcount. apply count_occ_app. Qed.

Lemma zcount_notin i l : ~ In i l -> zcount i l = 0%nat.
Proof. intros H. unfold zcount. apply count_occ_not_In. exact H. Qed.

Lemma plan_ids em l i : In i (fst (plan em l)) -> In i (map fst l).
Proof.
  induction l as [|[j s] t IH]; [cbn; tauto|]. cbn [plan map fst].
  destruct (copies em s) as [n|]; [|cbn; tauto].
  destruct (plan em t) as [p e] eqn:EP. cbn [fst] in *. intros H. apply in_app_or in H as [H|H].
  - left. apply repeat_spec in H. congruence.
  - right. apply IH. exact H.
Qed.

(* a decodable VAA: the iteration never stops early, and subscription i is sent exactly as many copies as the statement owes it,
   whatever the iteration order *)
Lemma plan_decodable c a l : NoDup (map fst l) ->
  snd (plan (Some (c, a)) l) = false /\
  forall i s, lookup i l = Some s ->
    zcount i (fst (plan (Some (c, a)) l)) = match s_filters s with [] => 1%nat | fs => length (filter (fmatch c a) fs) end.
Proof.
  induction l as [|[j x] t IH]; intros Hnd.
  - split; [reflexivity|]. intros i s H. discriminate.
  - cbn [map fst] in Hnd. inversion Hnd as [|? ? Hni Hnd']; subst. destruct (IH Hnd') as [IHe IHc]. cbn [plan].
    assert (Ec : copies (Some (c, a)) x = Some (match s_filters x with [] => 1%nat | fs => length (filter (fmatch c a) fs) end)).
    { unfold copies. destruct (s_filters x); reflexivity. }
    rewrite Ec. destruct (plan (Some (c, a)) t) as [p e] eqn:EP. cbn [fst snd] in *. split; [exact IHe|].
    intros i s. cbn [lookup]. destruct (Z.eqb_spec i j) as [->|Hne]; intros H.
    + inversion H; subst. rewrite zcount_app, zcount_repeat_same.
      rewrite (zcount_notin j p); [lia|]. intros Hin. apply Hni. apply (plan_ids (Some (c, a)) t). rewrite EP. exact Hin.
    + rewrite zcount_app, zcount_repeat_other by exact Hne. cbn [Nat.add]. apply IHc. exact H.
Qed.

(* bytes that do not decode: subscriptions without filters iterated before the first one with filters are sent one copy,
   nobody else anything; Publish returns the error iff some subscription has filters *)
Fixpoint before_filtered (l : list (id * sub)) : list id :=
  match l with
  | [] => []
  | (i, s) :: t => match s_filters s with [] => i :: before_filtered t | _ => [] end
  end.

Lemma plan_undecodable l :
  plan None l = (before_filtered l, existsb (fun p => match s_filters (snd p) with [] => false | _ => true end) l).
Proof.
  induction l as [|[j x] t IH]; [reflexivity|]. cbn [plan before_filtered existsb snd]. unfold copies.
  destruct (s_filters x); [|reflexivity]. rewrite IH. reflexivity.
Qed.

(* the iteration order enumerates the subscriptions *)
Lemma reorder_spec order : forall l r, reorder order l = Some r ->
  map fst r = order /\ forall i, In i order -> lookup i r = lookup i l.
Proof.
  induction order as [|i t IH]; intros l r H.
  - inversion H; subst. split; [reflexivity|]. intros i [].
  - cbn [reorder] in H. destruct (lookup i l) as [s|] eqn:EL; [|discriminate].
    destruct (reorder t l) as [r'|] eqn:ER; [|discriminate]. inversion H; subst. destruct (IH _ _ ER) as [Hm Hl].
    split; [cbn [map fst]; f_equal; exact Hm|]. intros k Hk. cbn [lookup].
    destruct (Z.eqb_spec k i) as [->|Hne]; [symmetry; exact EL|]. apply Hl. destruct Hk as [E|Hk]; [congruence|exact Hk].
Qed.

Lemma nodupb_spec l : nodupb l = true -> NoDup l.
Proof.
  induction l as [|x t IH]; [constructor|]. cbn [nodupb]. intros H. apply andb_true_iff in H as [H1 H2].
  constructor; [|apply IH; exact H2]. intros Hin. apply negb_true_iff in H1.
  assert (existsb (Z.eqb x) t = true); [|congruence]. apply existsb_exists. exists x. split; [exact Hin|apply Z.eqb_refl].
Qed.

Lemma reorder_covers order l r : nodupb order = true -> length order = length l -> NoDup (map fst l) -> reorder order l = Some r ->
  forall i s, lookup i l = Some s -> In i order.
Proof.
  intros Hnd Hlen Hndl Hr i s Hi. destruct (reorder_spec _ _ _ Hr) as [Hm Hl].
  assert (Hincl : incl order (map fst l)).
  { intros k Hk. specialize (Hl k Hk). assert (In k (map fst r)) by (rewrite Hm; exact Hk).
    apply lookup_some_in in H as [x Hx]. rewrite Hl in Hx. eapply lookup_in. exact Hx. }
  assert (Hincl' : incl (map fst l) order).
  { apply NoDup_length_incl; [apply nodupb_spec; exact Hnd|rewrite map_length; lia|exact Hincl]. }
  apply Hincl'. eapply lookup_in. exact Hi.
Qed.

Lemma nodup_snoc {A} (l : list A) x : NoDup l -> ~ In x l -> NoDup (l ++ [x]).
Proof.
  induction l as [|a t IH]; intros Hnd Hni; cbn [app]; [constructor; [intros []|constructor]|].
  inversion Hnd as [|? ? Ha Ht]; subst. constructor.
  - intros Hin. apply in_app_or in Hin as [Hin|[E|[]]]; [contradiction|]. apply Hni. left. symmetry. exact E.
  - apply IH; [exact Ht|]. intros Hin. apply Hni. right. exact Hin.
Qed.

Section SpyProofs.
Variable cap : nat.
Variable sel : bool.
Variable alen : nat.
Hypothesis cap_pos : (1 <= cap)%nat.

Notation step := (step cap sel alen).
Notation run := (run cap sel alen).

(* ------------------------------------------------------------------ well-formedness of reachable states *)
Definition plan_of (s : st) : list id := match pub s with Some (_, p, _) => p | None => [] end.

Definition wf (s : st) : Prop :=
  NoDup (map fst (subs s)) /\
  (forall i, In i (plan_of s) -> In i (map fst (subs s))) /\
  (forall i x, lookup i (subs s) = Some x ->
     (s_state x = Reading -> s_phase x = PSelect /\ s_got x = s_taken x) /\
     (s_state x = Stalled -> s_phase x <> PExit)).

Lemma wf_init : wf init.
Proof. split; [constructor|]. split; [intros i []|]. intros i x H. discriminate. Qed.

Ltac inv H := inversion H; subst; clear H.

(* the per-subscription clause is preserved by every way a step rewrites one subscription *)
Definition sub_ok (x : sub) : Prop :=
  (s_state x = Reading -> s_phase x = PSelect /\ s_got x = s_taken x) /\ (s_state x = Stalled -> s_phase x <> PExit).

Lemma wf_upd s i f : wf s -> (forall x, lookup i (subs s) = Some x -> sub_ok x -> sub_ok (f x)) ->
  forall pb rs, plan_of {| subs := upd i f (subs s); pub := pb; results := rs |} = plan_of s \/
                (forall k, In k (plan_of {| subs := upd i f (subs s); pub := pb; results := rs |}) -> In k (plan_of s)) ->
  wf {| subs := upd i f (subs s); pub := pb; results := rs |}.
Proof.
  intros (Hnd & Hpl & Hsub) Hf pb rs Hp. unfold wf. cbn [subs]. rewrite ids_upd. split; [exact Hnd|]. split.
  - intros k Hk. apply Hpl. destruct Hp as [Hp|Hp]; [rewrite <- Hp; exact Hk|apply Hp; exact Hk].
  - intros k x Hk. destruct (Z.eq_dec k i) as [->|Hne].
    + rewrite lookup_upd_same in Hk. destruct (lookup i (subs s)) as [x0|] eqn:E; [|discriminate]. cbn in Hk. inv Hk.
      apply (Hf x0 eq_refl). apply (Hsub i x0 E).
    + rewrite lookup_upd_other in Hk by exact Hne. apply (Hsub k x Hk).
Qed.

Lemma step_wf s e s' : wf s -> step s e = Some s' -> wf s'.
Proof.
  intros Hwf. pose proof Hwf as (Hnd & Hpl & Hsub). destruct e as [b order| | | |i|i|i|i rs|i|i]; cbn [Spy.step].
  - (* EPubStart *)
    destruct (pub s) as [[[? ?] ?]|] eqn:EP; [discriminate|].
    destruct (nodupb order && (length order =? length (subs s))%nat) eqn:EC; cbn [negb]; [|discriminate].
    destruct (reorder order (subs s)) as [l|] eqn:ER; [|discriminate].
    destruct (plan (emitter_of b) l) as [p err] eqn:EPL. intros H; inv H.
    split; [exact Hnd|]. split; [|exact Hsub]. unfold plan_of. cbn [pub subs]. intros k Hk.
    destruct (reorder_spec _ _ _ ER) as [Hm Hl].
    assert (In k (map fst l)) by (apply (plan_ids (emitter_of b)); rewrite EPL; exact Hk).
    rewrite Hm in H. specialize (Hl k H). assert (In k (map fst l)) as H' by (rewrite Hm; exact H).
    apply lookup_some_in in H' as [x Hx]. rewrite Hl in Hx. eapply lookup_in. exact Hx.
  - (* EPubSend *)
    destruct (pub s) as [[[b [|i rest]] err]|] eqn:EP; try discriminate.
    destruct (lookup i (subs s)) as [x|] eqn:EL; [|discriminate].
    destruct (length (s_chan x) <? cap)%nat; [|discriminate]. intros H; inv H.
    apply wf_upd; [exact Hwf| |].
    + intros x0 _ Hx0. exact Hx0.
    + right. unfold plan_of. cbn [pub]. rewrite EP. intros k Hk. right. exact Hk.
  - (* EPubSkipGone *)
    destruct sel; cbn [negb]; [|discriminate].
    destruct (pub s) as [[[b [|i rest]] err]|] eqn:EP; try discriminate.
    destruct (lookup i (subs s)) as [x|] eqn:EL; [|discriminate].
    destruct (s_state x); try discriminate. intros H; inv H.
    split; [exact Hnd|]. split; [|exact Hsub]. unfold plan_of in *. cbn [pub subs]. rewrite EP in Hpl. intros k Hk. apply Hpl. right. exact Hk.
  - (* EPubEnd *)
    destruct (pub s) as [[[b [|i rest]] err]|] eqn:EP; try discriminate. intros H; inv H.
    split; [exact Hnd|]. split; [|exact Hsub]. unfold plan_of. cbn [pub]. intros k [].
  - (* ERecv *)
    destruct (lookup i (subs s)) as [x|] eqn:EL; [|discriminate].
    destruct (recv x) as [x'|] eqn:ER; [|discriminate]. intros H; inv H. unfold set_subs.
    apply wf_upd; [exact Hwf| |left; reflexivity].
    intros x0 Hx0 [Hr Hs]. rewrite EL in Hx0. inv Hx0. unfold recv in ER.
    destruct (s_phase x0) eqn:EPH; try discriminate. destruct (s_chan x0) as [|m c]; [discriminate|].
    destruct (s_state x0) eqn:EST; inv ER; split; cbn; intros H; try discriminate.
    + split; [reflexivity|]. destruct (Hr eq_refl) as [_ ->]. reflexivity.
  - (* ENotice *)
    destruct (lookup i (subs s)) as [x|] eqn:EL; [|discriminate].
    assert (Hgo : s_state x = Gone -> Some (set_subs s (upd i (set_phase PExit) (subs s))) = Some s' -> wf s').
    { intros Hg H; inv H. unfold set_subs. apply wf_upd; [exact Hwf| |left; reflexivity].
      intros x0 Hx0 _. rewrite EL in Hx0. inv Hx0. split; cbn; intros H; congruence. }
    destruct (s_state x) eqn:EST; try discriminate. destruct (s_phase x); try discriminate; apply Hgo; reflexivity.
  - (* ERemove *)
    destruct (pub s) as [[[? ?] ?]|] eqn:EP; [discriminate|].
    destruct (lookup i (subs s)) as [x|] eqn:EL; [|discriminate].
    destruct (s_phase x); try discriminate. intros H; inv H. unfold set_subs, wf, plan_of. cbn [subs pub]. rewrite EP.
    split; [apply nodup_del; exact Hnd|]. split; [intros k []|].
    intros k x0 Hk. destruct (Z.eq_dec k i) as [->|Hne]; [rewrite lookup_del_same in Hk by exact Hnd; discriminate|].
    rewrite lookup_del_other in Hk by exact Hne. apply (Hsub k x0 Hk).
  - (* ESubscribe *)
    destruct (parse_filters alen rs) as [fs|]; [|intros H; inv H; exact Hwf].
    destruct (pub s) as [[[? ?] ?]|] eqn:EP; [discriminate|].
    destruct (lookup i (subs s)) as [x|] eqn:EL; [discriminate|]. intros H; inv H. unfold set_subs, wf, plan_of. cbn [subs pub]. rewrite EP.
    split.
    { rewrite map_app. cbn [map fst]. apply nodup_snoc; [exact Hnd|apply lookup_none; exact EL]. }
    split; [intros k []|]. intros k x0. rewrite lookup_app_new. destruct (lookup k (subs s)) as [y|] eqn:EK.
    + intros H; inv H. apply (Hsub k x0 EK).
    + destruct (k =? i); [|discriminate]. intros H; inv H. split; cbn; intros H; [split; reflexivity|discriminate].
  - (* EStall *)
    destruct (lookup i (subs s)) as [x|] eqn:EL; [|discriminate].
    destruct (s_state x) eqn:EST; try discriminate. intros H; inv H. unfold set_subs.
    apply wf_upd; [exact Hwf| |left; reflexivity].
    intros x0 Hx0 [Hr _]. rewrite EL in Hx0. inv Hx0. split; cbn; intros H; [discriminate|].
    destruct (Hr EST) as [-> _]. discriminate.
  - (* EDisconnect *)
    destruct (lookup i (subs s)) as [x|] eqn:EL; [|discriminate].
    assert (Hgo : Some (set_subs s (upd i (set_state Gone) (subs s))) = Some s' -> wf s').
    { intros H; inv H. unfold set_subs. apply wf_upd; [exact Hwf| |left; reflexivity].
      intros x0 _ _. split; cbn; intros H; discriminate. }
    destruct (s_state x); try discriminate; exact Hgo.
Qed.

Lemma run_wf evs : forall s s', wf s -> run evs s = Some s' -> wf s'.
Proof.
  induction evs as [|e t IH]; intros s s' Hwf H; cbn [Spy.run] in H; [inv H; exact Hwf|].
  destruct (step s e) as [s1|] eqn:E; [|discriminate]. eapply IH; [eapply step_wf; eassumption|exact H].
Qed.

(* ------------------------------------------------------------------ exact delivery *)
(* copies of the message of the Publish in progress that are still to be sent to subscription i *)
Definition pending (i : id) (s : st) : list bytes :=
  match pub s with Some (b, p, _) => repeat b (zcount i p) | None => [] end.

(* what a history owes subscription i, by the property statement alone: registered with filters fs it is owed nothing yet;
   every Publish(b) started while it is registered adds [owes fs b]; removal ends it *)
Definition track (i : id) (cur : option (list sfilter * list bytes)) (e : ev) : option (list sfilter * list bytes) :=
  match e with
  | ESubscribe j rs => if i =? j then match cur, parse_filters alen rs with None, Some fs => Some (fs, []) | _, _ => cur end else cur
  | ERemove j => if i =? j then None else cur
  | EPubStart b _ => match cur with Some (fs, acc) => Some (fs, acc ++ owes fs b) | None => None end
  | _ => cur
  end.
Definition owed_from (i : id) (cur : option (list sfilter * list bytes)) (evs : list ev) := fold_left (track i) evs cur.
Definition owed (i : id) (evs : list ev) := owed_from i None evs.

Definition decodable_ev (e : ev) : Prop := match e with EPubStart b _ => emitter_of b <> None | _ => True end.

Definition rel (i : id) (s : st) (cur : option (list sfilter * list bytes)) : Prop :=
  match lookup i (subs s) with
  | None => cur = None
  | Some x => exists acc, cur = Some (s_filters x, acc) /\ (s_state x <> Gone -> s_taken x ++ s_chan x ++ pending i s = acc)
  end.

Lemma zcount_cons_same i l : zcount i (i :: l) = S (zcount i l).
Proof. unfold zcount. cbn [count_occ]. destruct (Z.eq_dec i i); [reflexivity|contradiction]. Qed.
Lemma zcount_cons_other i j l : i <> j -> zcount i (j :: l) = zcount i l.
Proof. intros H. unfold zcount. cbn [count_occ]. destruct (Z.eq_dec j i); [congruence|reflexivity]. Qed.

Lemma repeat_snoc {A} (a : A) n : a :: repeat a n = repeat a n ++ [a].
Proof. induction n as [|n IH]; [reflexivity|]. cbn [repeat app]. f_equal. exact IH. Qed.

(* rel is insensitive to rewriting another subscription, or fields of i that it does not mention *)
Lemma rel_upd_other i j f s pb rs cur : i <> j -> pending i {| subs := upd j f (subs s); pub := pb; results := rs |} = pending i s ->
  rel i s cur -> rel i {| subs := upd j f (subs s); pub := pb; results := rs |} cur.
Proof.
  intros Hne Hp. unfold rel. cbn [subs]. rewrite lookup_upd_other by exact Hne.
  destruct (lookup i (subs s)); [|tauto]. intros (acc & Hc & Ha). exists acc. split; [exact Hc|]. rewrite Hp. exact Ha.
Qed.

Lemma step_rel i s e s' cur : wf s -> rel i s cur -> decodable_ev e -> step s e = Some s' -> rel i s' (track i cur e).
Proof.
  intros Hwf Hrel Hdec. pose proof Hwf as (Hnd & Hpl & Hsub).
  destruct e as [b order| | | |j|j|j|j rs|j|j]; cbn [Spy.step track].
  - (* EPubStart *)
    destruct (pub s) as [[[? ?] ?]|] eqn:EP; [discriminate|].
    destruct (nodupb order && (length order =? length (subs s))%nat) eqn:EC; cbn [negb]; [|discriminate].
    apply andb_true_iff in EC as [EC1 EC2]. apply Nat.eqb_eq in EC2.
    destruct (reorder order (subs s)) as [l|] eqn:ER; [|discriminate].
    destruct (plan (emitter_of b) l) as [p err] eqn:EPL. intros H; inv H.
    unfold rel in *. cbn [subs]. destruct (lookup i (subs s)) as [x|] eqn:EL.
    + destruct Hrel as (acc & -> & Ha). exists (acc ++ owes (s_filters x) b). split; [reflexivity|]. intros Hg.
      specialize (Ha Hg). unfold pending in *. cbn [pub]. rewrite EP in Ha. rewrite app_nil_r in Ha.
      rewrite <- Ha, <- app_assoc. do 2 f_equal.
      cbn [decodable_ev] in Hdec. destruct (emitter_of b) as [[c a]|] eqn:EM; [|contradiction].
      destruct (reorder_spec _ _ _ ER) as [Hm Hl].
      assert (Hin : In i order) by (eapply reorder_covers; eassumption).
      assert (Hndl : NoDup (map fst l)) by (rewrite Hm; apply nodupb_spec; exact EC1).
      destruct (plan_decodable c a l Hndl) as [_ Hcnt]. specialize (Hcnt i x). rewrite (Hl i Hin) in Hcnt. specialize (Hcnt EL).
      rewrite EPL in Hcnt. cbn [fst] in Hcnt. rewrite Hcnt. unfold owes. rewrite EM. destruct (s_filters x); reflexivity.
    + subst cur. reflexivity.
  - (* EPubSend *)
    destruct (pub s) as [[[b [|j rest]] err]|] eqn:EP; try discriminate.
    destruct (lookup j (subs s)) as [x|] eqn:EL; [|discriminate].
    destruct (length (s_chan x) <? cap)%nat; [|discriminate]. intros H; inv H.
    destruct (Z.eq_dec i j) as [->|Hne].
    + unfold rel in *. cbn [subs]. rewrite lookup_upd_same, EL in *. cbn [option_map].
      destruct Hrel as (acc & Hc & Ha). exists acc. split; [exact Hc|]. cbn [push_chan s_state s_taken s_chan]. intros Hg. specialize (Ha Hg).
      unfold pending in *. cbn [pub]. rewrite EP in Ha. rewrite zcount_cons_same in Ha. cbn [repeat] in Ha.
      rewrite <- Ha. rewrite <- !app_assoc. reflexivity.
    + apply rel_upd_other; [exact Hne| |exact Hrel]. unfold pending. cbn [pub]. rewrite EP. rewrite zcount_cons_other by exact Hne. reflexivity.
  - (* EPubSkipGone *)
    destruct sel; cbn [negb]; [|discriminate].
    destruct (pub s) as [[[b [|j rest]] err]|] eqn:EP; try discriminate.
    destruct (lookup j (subs s)) as [x|] eqn:EL; [|discriminate].
    destruct (s_state x) eqn:EST; try discriminate. intros H; inv H. unfold rel in *. cbn [subs].
    destruct (lookup i (subs s)) as [y|] eqn:ELi; [|exact Hrel]. destruct Hrel as (acc & Hc & Ha). exists acc. split; [exact Hc|]. intros Hg. specialize (Ha Hg).
    unfold pending in *. cbn [pub]. rewrite EP in Ha. destruct (Z.eq_dec i j) as [->|Hne].
    + rewrite EL in ELi. inv ELi. congruence.
    + rewrite zcount_cons_other in Ha by exact Hne. exact Ha.
  - (* EPubEnd *)
    destruct (pub s) as [[[b [|j rest]] err]|] eqn:EP; try discriminate. intros H; inv H. unfold rel in *. cbn [subs].
    destruct (lookup i (subs s)) as [y|]; [|exact Hrel]. destruct Hrel as (acc & Hc & Ha). exists acc. split; [exact Hc|]. intros Hg. specialize (Ha Hg).
    unfold pending in *. cbn [pub]. rewrite EP in Ha. cbn [zcount count_occ repeat] in Ha. exact Ha.
  - (* ERecv *)
    destruct (lookup j (subs s)) as [x|] eqn:EL; [|discriminate].
    destruct (recv x) as [x'|] eqn:ER; [|discriminate]. intros H; inv H. unfold set_subs.
    destruct (Z.eq_dec i j) as [->|Hne].
    + unfold rel in *. cbn [subs]. rewrite lookup_upd_same, EL in *. cbn [option_map].
      destruct Hrel as (acc & Hc & Ha). unfold recv in ER. destruct (s_phase x); try discriminate. destruct (s_chan x) as [|m c] eqn:ECH; [discriminate|].
      assert (Hp : pending j {| subs := upd j (fun _ => x') (subs s); pub := pub s; results := results s |} = pending j s) by reflexivity.
      rewrite Hp. destruct (s_state x) eqn:EST; injection ER as <-; cbn [s_filters s_state s_taken s_chan]; exists acc; (split; [exact Hc|]); intros Hg; try congruence;
        rewrite <- (Ha ltac:(discriminate)); rewrite <- !app_assoc; reflexivity.
    + apply rel_upd_other; [exact Hne|reflexivity|exact Hrel].
  - (* ENotice *)
    destruct (lookup j (subs s)) as [x|] eqn:EL; [|discriminate].
    assert (Hgo : Some (set_subs s (upd j (set_phase PExit) (subs s))) = Some s' -> rel i s' cur).
    { intros H; inv H. unfold set_subs. destruct (Z.eq_dec i j) as [->|Hne].
      - unfold rel in *. cbn [subs]. rewrite lookup_upd_same, EL in *. cbn [option_map set_phase s_filters s_state s_taken s_chan]. exact Hrel.
      - apply rel_upd_other; [exact Hne|reflexivity|exact Hrel]. }
    destruct (s_state x); try discriminate. destruct (s_phase x); try discriminate; exact Hgo.
  - (* ERemove *)
    destruct (pub s) as [[[? ?] ?]|] eqn:EP; [discriminate|].
    destruct (lookup j (subs s)) as [x|] eqn:EL; [|discriminate].
    destruct (s_phase x); try discriminate. intros H; inv H. unfold set_subs, rel in *. cbn [subs].
    destruct (Z.eqb_spec i j) as [->|Hne].
    + rewrite lookup_del_same by exact Hnd. reflexivity.
    + rewrite lookup_del_other by exact Hne. unfold pending in *. cbn [pub]. exact Hrel.
  - (* ESubscribe *)
    destruct (parse_filters alen rs) as [fs|] eqn:EPF.
    2:{ intros H; inv H. destruct (i =? j); [destruct cur|]; exact Hrel. }
    destruct (pub s) as [[[? ?] ?]|] eqn:EP; [discriminate|].
    destruct (lookup j (subs s)) as [x|] eqn:EL; [discriminate|]. intros H; inv H. unfold set_subs, rel in *. cbn [subs].
    rewrite lookup_app_new. destruct (Z.eqb_spec i j) as [->|Hne].
    + rewrite EL in *. subst cur. exists []. split; [reflexivity|]. intros _. unfold pending. cbn [pub]. rewrite EP. reflexivity.
    + destruct (lookup i (subs s)); [|exact Hrel]. unfold pending in *. cbn [pub]. exact Hrel.
  - (* EStall *)
    destruct (lookup j (subs s)) as [x|] eqn:EL; [|discriminate].
    destruct (s_state x) eqn:EST; try discriminate. intros H; inv H. unfold set_subs. destruct (Z.eq_dec i j) as [->|Hne].
    + unfold rel in *. cbn [subs]. rewrite lookup_upd_same, EL in *. cbn [option_map set_state s_filters s_state s_taken s_chan].
      destruct Hrel as (acc & Hc & Ha). exists acc. split; [exact Hc|]. intros _. apply Ha. congruence.
    + apply rel_upd_other; [exact Hne|reflexivity|exact Hrel].
  - (* EDisconnect *)
    destruct (lookup j (subs s)) as [x|] eqn:EL; [|discriminate].
    assert (Hgo : Some (set_subs s (upd j (set_state Gone) (subs s))) = Some s' -> rel i s' cur).
    { intros H; inv H. unfold set_subs. destruct (Z.eq_dec i j) as [->|Hne].
      - unfold rel in *. cbn [subs]. rewrite lookup_upd_same, EL in *. cbn [option_map set_state s_filters s_state s_taken s_chan].
        destruct Hrel as (acc & Hc & Ha). exists acc. split; [exact Hc|]. intros Hg. contradiction.
      - apply rel_upd_other; [exact Hne|reflexivity|exact Hrel]. }
    destruct (s_state x); try discriminate; exact Hgo.
Qed.

Lemma run_rel i evs : forall s s' cur, wf s -> rel i s cur -> Forall decodable_ev evs -> run evs s = Some s' -> rel i s' (owed_from i cur evs).
Proof.
  induction evs as [|e t IH]; intros s s' cur Hwf Hrel Hdec H; cbn [Spy.run] in H; [inv H; exact Hrel|].
  destruct (step s e) as [s1|] eqn:E; [|discriminate]. inversion Hdec as [|? ? Hd Hdt]; subst.
  unfold owed_from. cbn [fold_left]. apply (IH s1 s' (track i cur e)); [eapply step_wf; eassumption| |exact Hdt|exact H].
  eapply step_rel; eassumption.
Qed.

(* EXACT DELIVERY.  After any history of events from the empty server (any interleaving, any map iteration orders, stalls and
   disconnects anywhere) in which the published byte strings are decodable VAAs: whenever no Publish is in progress, every
   registered subscription whose client has not disconnected has taken out of its channel, or still holds in it, exactly what
   the statement owes it since its registration, in publish order; and a reading client has been handed all that was taken out. *)
Theorem exact_delivery evs s : run evs init = Some s -> Forall decodable_ev evs -> pub s = None ->
  forall i x, lookup i (subs s) = Some x -> s_state x <> Gone ->
    exists acc, owed i evs = Some (s_filters x, acc) /\ s_taken x ++ s_chan x = acc /\ (s_state x = Reading -> s_got x = s_taken x).
Proof.
  intros Hrun Hdec Hpub i x Hl Hg.
  assert (Hrel : rel i s (owed i evs)).
  { eapply run_rel; [apply wf_init| |exact Hdec|exact Hrun]. unfold rel. cbn. reflexivity. }
  unfold rel in Hrel. rewrite Hl in Hrel. destruct Hrel as (acc & Hc & Ha). exists acc. split; [exact Hc|].
  specialize (Ha Hg). unfold pending in Ha. rewrite Hpub, app_nil_r in Ha. split; [exact Ha|].
  intros Hr. pose proof (run_wf evs init s wf_init Hrun) as (_ & _ & Hsub). destruct (Hsub i x Hl) as [Hrd _]. apply Hrd. exact Hr.
Qed.

(* what is owed, spelled out: membership and multiplicity *)
Lemma owes_spec fs b c a : emitter_of b = Some (c, a) ->
  (In b (owes fs b) <-> fs = [] \/ exists f, In f fs /\ f_chain f = c /\ f_addr f = a) /\
  (forall m, In m (owes fs b) -> m = b) /\
  length (owes fs b) = match fs with [] => 1%nat | _ => length (filter (fmatch c a) fs) end.
Proof.
  intros EM. unfold owes. rewrite EM. destruct fs as [|f0 t].
  - split; [|split]; [|intros m [<-|[]]; reflexivity|reflexivity]. split; [left; reflexivity|intros _; left; reflexivity].
  - set (fs := f0 :: t). split; [|split].
    + split.
      * intros Hin. right. destruct (filter (fmatch c a) fs) as [|f l] eqn:EF; [cbn in Hin; contradiction|].
        assert (Hf : In f (filter (fmatch c a) fs)) by (rewrite EF; left; reflexivity).
        apply filter_In in Hf as [Hf Hm]. exists f. split; [exact Hf|]. unfold fmatch in Hm. apply andb_true_iff in Hm as [H1 H2].
        apply Z.eqb_eq in H1. apply bytes_eqb_eq in H2. tauto.
      * intros [Hc|(f & Hf & Hfc & Hfa)]; [discriminate|].
        assert (Hin : In f (filter (fmatch c a) fs)).
        { apply filter_In. split; [exact Hf|]. unfold fmatch. rewrite Hfc, Hfa, Z.eqb_refl, bytes_eqb_refl. reflexivity. }
        destruct (filter (fmatch c a) fs); [contradiction|]. left. reflexivity.
    + intros m Hm. apply repeat_spec in Hm. exact Hm.
    + rewrite repeat_length. reflexivity.
Qed.

(* ------------------------------------------------------------------ isolation: progress and termination *)
Definition phw (p : phase) : nat := match p with PSelect => 2 | PStuck => 1 | PExit => 0 end.
Definition stw (r : rstate) : nat := match r with Reading => 2 | Stalled => 1 | Gone => 0 end.
Definition subw (x : sub) : nat := 1 + length (s_chan x) + phw (s_phase x) + stw (s_state x).
Fixpoint sumw (l : list (id * sub)) : nat := match l with [] => 0 | (_, x) :: t => subw x + sumw t end.
Definition pubw (s : st) : nat := match pub s with Some (_, p, _) => 2 * length p + 1 | None => 0 end.
(* bounds the number of events (other than new publishes, registrations) that can still happen *)
Definition mu (s : st) : nat := pubw s + sumw (subs s).

Lemma sumw_upd i f l x : lookup i l = Some x -> (sumw (upd i f l) + subw x = sumw l + subw (f x))%nat.
Proof.
  induction l as [|[j y] t IH]; [discriminate|]. cbn [lookup upd]. destruct (Z.eqb_spec i j) as [->|Hne].
  - intros H; inv H. cbn [sumw]. lia.
  - intros H. specialize (IH H). cbn [sumw]. lia.
Qed.

Lemma sumw_del i l x : lookup i l = Some x -> (sumw (del i l) + subw x = sumw l)%nat.
Proof.
  induction l as [|[j y] t IH]; [discriminate|]. cbn [lookup del]. destruct (Z.eqb_spec i j) as [->|Hne].
  - intros H; inv H. cbn [sumw]. lia.
  - intros H. specialize (IH H). cbn [sumw]. lia.
Qed.

Definition quiet (e : ev) : bool := match e with EPubStart _ _ | ESubscribe _ _ => false | _ => true end.
Definition internal (e : ev) : bool :=
  match e with EPubSend | EPubSkipGone | EPubEnd | ERecv _ | ENotice _ | ERemove _ => true | _ => false end.
(* the goroutines' own events plus clients going away at arbitrary moments *)
Definition allowed (e : ev) : bool := match e with EPubStart _ _ | ESubscribe _ _ | EStall _ => false | _ => true end.

Lemma step_mu s e s' : step s e = Some s' -> quiet e = true -> (mu s' < mu s)%nat.
Proof.
  destruct e as [b order| | | |i|i|i|i rs|i|i]; cbn [Spy.step quiet]; try discriminate; intros H _.
  - destruct (pub s) as [[[b [|i rest]] err]|] eqn:EP; try discriminate.
    destruct (lookup i (subs s)) as [x|] eqn:EL; [|discriminate].
    destruct (length (s_chan x) <? cap)%nat; [|discriminate]. inv H. unfold mu, pubw. cbn [pub subs]. rewrite EP.
    pose proof (sumw_upd i (push_chan b) _ _ EL) as Hs. unfold subw in Hs. cbn [push_chan s_chan s_phase s_state] in Hs. rewrite app_length in Hs. cbn [length] in *. lia.
  - destruct sel; cbn [negb] in H; [|discriminate].
    destruct (pub s) as [[[b [|i rest]] err]|] eqn:EP; try discriminate.
    destruct (lookup i (subs s)) as [x|] eqn:EL; [|discriminate].
    destruct (s_state x); try discriminate. inv H. unfold mu, pubw. cbn [pub subs]. rewrite EP. cbn [length]. lia.
  - destruct (pub s) as [[[b [|i rest]] err]|] eqn:EP; try discriminate. inv H. unfold mu, pubw. cbn [pub subs]. rewrite EP. cbn [length]. lia.
  - destruct (lookup i (subs s)) as [x|] eqn:EL; [|discriminate].
    destruct (recv x) as [x'|] eqn:ER; [|discriminate]. inv H. unfold mu, pubw, set_subs. cbn [pub subs].
    pose proof (sumw_upd i (fun _ => x') _ _ EL) as Hs. unfold recv in ER. destruct (s_phase x) eqn:EPH; try discriminate.
    destruct (s_chan x) as [|m c] eqn:ECH; [discriminate|]. unfold subw in Hs. rewrite ECH, EPH in Hs.
    destruct (s_state x) eqn:EST; inv ER; cbn [s_chan s_phase s_state length phw stw] in Hs; lia.
  - destruct (lookup i (subs s)) as [x|] eqn:EL; [|discriminate].
    assert (Hgo : s_phase x <> PExit -> Some (set_subs s (upd i (set_phase PExit) (subs s))) = Some s' -> (mu s' < mu s)%nat).
    { intros Hp H0; inv H0. unfold mu, pubw, set_subs. cbn [pub subs].
      pose proof (sumw_upd i (set_phase PExit) _ _ EL) as Hs. unfold subw in Hs. cbn [set_phase s_chan s_phase s_state phw] in Hs.
      destruct (s_phase x); cbn [phw] in Hs; [lia|lia|contradiction]. }
    destruct (s_state x); try discriminate. destruct (s_phase x) eqn:EPH; try discriminate; apply Hgo; try exact H; discriminate.
  - destruct (pub s) as [[[? ?] ?]|] eqn:EP; [discriminate|].
    destruct (lookup i (subs s)) as [x|] eqn:EL; [|discriminate].
    destruct (s_phase x); try discriminate. inv H. unfold mu, pubw, set_subs. cbn [pub subs]. rewrite EP.
    pose proof (sumw_del i _ _ EL) as Hs. unfold subw in Hs. lia.
  - destruct (lookup i (subs s)) as [x|] eqn:EL; [|discriminate].
    destruct (s_state x) eqn:EST; try discriminate. inv H. unfold mu, pubw, set_subs. cbn [pub subs].
    pose proof (sumw_upd i (set_state Stalled) _ _ EL) as Hs. unfold subw in Hs. cbn [set_state s_chan s_phase s_state] in Hs. rewrite EST in Hs. cbn [stw] in Hs. lia.
  - destruct (lookup i (subs s)) as [x|] eqn:EL; [|discriminate].
    assert (Hgo : s_state x <> Gone -> Some (set_subs s (upd i (set_state Gone) (subs s))) = Some s' -> (mu s' < mu s)%nat).
    { intros Hp H0; inv H0. unfold mu, pubw, set_subs. cbn [pub subs].
      pose proof (sumw_upd i (set_state Gone) _ _ EL) as Hs. unfold subw in Hs. cbn [set_state s_chan s_phase s_state stw] in Hs.
      destruct (s_state x); cbn [stw] in Hs; [lia|lia|contradiction]. }
    destruct (s_state x) eqn:EST; try discriminate; apply Hgo; try exact H; discriminate.
Qed.

Definition no_stalled (s : st) : Prop := forall i x, lookup i (subs s) = Some x -> s_state x <> Stalled.

(* nothing left to do: Publish has returned, every registered subscription belongs to a reading client and its channel is
   empty (so every disconnected subscriber has been removed and every reading client has been handed what was queued) *)
Definition quiescent (s : st) : Prop :=
  pub s = None /\ forall i x, lookup i (subs s) = Some x -> s_state x = Reading /\ s_chan x = [].

Definition calm (x : sub) : bool := match s_state x, s_chan x with Reading, [] => true | _, _ => false end.
Definition quiescentb (s : st) : bool := match pub s with None => forallb (fun p => calm (snd p)) (subs s) | Some _ => false end.

Lemma in_lookup i x l : NoDup (map fst l) -> In (i, x) l -> lookup i l = Some x.
Proof.
  induction l as [|[j y] t IH]; [intros _ []|]. cbn [map fst lookup]. intros Hnd [E|Hin].
  - inv E. rewrite Z.eqb_refl. reflexivity.
  - inversion Hnd as [|? ? Hni Hnd']; subst. destruct (Z.eqb_spec i j) as [->|Hne].
    + exfalso. apply Hni. apply (in_map fst) in Hin. exact Hin.
    + apply IH; assumption.
Qed.

Lemma lookup_in_pair i x l : lookup i l = Some x -> In (i, x) l.
Proof.
  induction l as [|[j y] t IH]; [discriminate|]. cbn [lookup]. destruct (Z.eqb_spec i j) as [->|Hne].
  - intros H; inv H. left. reflexivity.
  - intros H. right. apply IH. exact H.
Qed.

Lemma quiescentb_spec s : NoDup (map fst (subs s)) -> (quiescentb s = true <-> quiescent s).
Proof.
  intros Hnd. unfold quiescentb, quiescent. destruct (pub s) as [p|].
  - split; [discriminate|intros [H _]; discriminate].
  - rewrite forallb_forall. split.
    + intros H. split; [reflexivity|]. intros i x Hl. specialize (H (i, x) (lookup_in_pair _ _ _ Hl)). cbn [snd] in H. unfold calm in H.
      destruct (s_state x); try discriminate. destruct (s_chan x); [split; reflexivity|discriminate].
    + intros [_ H] [i x] Hin. cbn [snd]. destruct (H i x (in_lookup _ _ _ Hnd Hin)) as [E1 E2]. unfold calm. rewrite E1, E2. reflexivity.
Qed.

Lemma forallb_false {A} (f : A -> bool) l : forallb f l = false -> exists a, In a l /\ f a = false.
Proof.
  induction l as [|a t IH]; [discriminate|]. cbn [forallb]. destruct (f a) eqn:E.
  - intros H. destruct (IH H) as (b & Hb & Hf). exists b. split; [right; exact Hb|exact Hf].
  - intros _. exists a. split; [left; reflexivity|exact E].
Qed.

(* PROGRESS: in a state without a stalled subscriber that is not quiescent, some goroutine can move *)
Lemma progress s : sel = true -> wf s -> no_stalled s -> quiescentb s = false -> exists e s', internal e = true /\ step s e = Some s'.
Proof.
  intros Hsel (Hnd & Hpl & Hsub) Hns Hq. unfold quiescentb in Hq. destruct (pub s) as [[[b p] err]|] eqn:EP.
  - destruct p as [|i rest].
    + exists EPubEnd. eexists. split; [reflexivity|]. cbn [Spy.step]. rewrite EP. reflexivity.
    + assert (Hin : In i (map fst (subs s))) by (apply Hpl; unfold plan_of; rewrite EP; left; reflexivity).
      apply lookup_some_in in Hin as [x EL]. destruct (length (s_chan x) <? cap)%nat eqn:EC.
      * exists EPubSend. eexists. split; [reflexivity|]. cbn [Spy.step]. rewrite EP, EL, EC. reflexivity.
      * apply Nat.ltb_ge in EC. destruct (s_state x) eqn:EST.
        -- destruct (Hsub i x EL) as [Hr _]. destruct (Hr EST) as [Hph _]. exists (ERecv i).
           destruct (s_chan x) as [|m c] eqn:ECH; [cbn [length] in EC; lia|]. eexists. split; [reflexivity|].
           cbn [Spy.step]. rewrite EL. unfold recv. rewrite Hph, ECH, EST. reflexivity.
        -- exfalso. exact (Hns i x EL EST).
        -- exists EPubSkipGone. eexists. split; [reflexivity|]. cbn [Spy.step]. rewrite Hsel, EP, EL, EST. reflexivity.
  - apply forallb_false in Hq as ([i x] & Hin & Hc). cbn [snd] in Hc. pose proof (in_lookup _ _ _ Hnd Hin) as EL. unfold calm in Hc.
    destruct (s_state x) eqn:EST.
    + destruct (s_chan x) as [|m c] eqn:ECH; [discriminate|]. destruct (Hsub i x EL) as [Hr _]. destruct (Hr EST) as [Hph _].
      exists (ERecv i). eexists. split; [reflexivity|]. cbn [Spy.step]. rewrite EL. unfold recv. rewrite Hph, ECH, EST. reflexivity.
    + exfalso. exact (Hns i x EL EST).
    + destruct (s_phase x) eqn:EPH.
      * exists (ENotice i). eexists. split; [reflexivity|]. cbn [Spy.step]. rewrite EL, EST, EPH. reflexivity.
      * exists (ENotice i). eexists. split; [reflexivity|]. cbn [Spy.step]. rewrite EL, EST, EPH. reflexivity.
      * exists (ERemove i). eexists. split; [reflexivity|]. cbn [Spy.step]. rewrite EP, EL, EPH. reflexivity.
Qed.

Lemma allowed_quiet e : allowed e = true -> quiet e = true.
Proof. destruct e; cbn; congruence. Qed.

Lemma no_stalled_upd s i f pb rs : no_stalled s -> (forall x, lookup i (subs s) = Some x -> s_state (f x) <> Stalled) ->
  no_stalled {| subs := upd i f (subs s); pub := pb; results := rs |}.
Proof.
  intros Hns Hf k x. cbn [subs]. destruct (Z.eq_dec k i) as [->|Hne].
  - rewrite lookup_upd_same. destruct (lookup i (subs s)) as [y|] eqn:E; [|discriminate]. cbn. intros H; inv H. apply Hf. reflexivity.
  - rewrite lookup_upd_other by exact Hne. apply Hns.
Qed.

Lemma step_no_stalled s e s' : wf s -> no_stalled s -> allowed e = true -> step s e = Some s' -> no_stalled s'.
Proof.
  intros (Hnd & _ & _) Hns. destruct e as [b order| | | |i|i|i|i rs|i|i]; cbn [Spy.step allowed]; try discriminate; intros _ H.
  - destruct (pub s) as [[[b [|i rest]] err]|] eqn:EP; try discriminate.
    destruct (lookup i (subs s)) as [x|] eqn:EL; [|discriminate].
    destruct (length (s_chan x) <? cap)%nat; [|discriminate]. inv H. apply no_stalled_upd; [exact Hns|].
    intros y Hy. cbn [push_chan s_state]. apply (Hns i y Hy).
  - destruct sel; cbn [negb] in H; [|discriminate].
    destruct (pub s) as [[[b [|i rest]] err]|] eqn:EP; try discriminate.
    destruct (lookup i (subs s)) as [x|] eqn:EL; [|discriminate].
    destruct (s_state x); try discriminate. inv H. exact Hns.
  - destruct (pub s) as [[[b [|i rest]] err]|] eqn:EP; try discriminate. inv H. exact Hns.
  - destruct (lookup i (subs s)) as [x|] eqn:EL; [|discriminate].
    destruct (recv x) as [x'|] eqn:ER; [|discriminate]. inv H. unfold set_subs. apply no_stalled_upd; [exact Hns|].
    intros y Hy. rewrite EL in Hy. inv Hy. unfold recv in ER. destruct (s_phase y); try discriminate. destruct (s_chan y); try discriminate.
    destruct (s_state y) eqn:EST; inv ER; cbn [s_state]; try discriminate. exfalso. exact (Hns i y EL EST).
  - destruct (lookup i (subs s)) as [x|] eqn:EL; [|discriminate].
    assert (Hgo : Some (set_subs s (upd i (set_phase PExit) (subs s))) = Some s' -> no_stalled s').
    { intros H0; inv H0. unfold set_subs. apply no_stalled_upd; [exact Hns|]. intros y Hy. cbn [set_phase s_state]. apply (Hns i y Hy). }
    destruct (s_state x); try discriminate. destruct (s_phase x); try discriminate; exact (Hgo H).
  - destruct (pub s) as [[[? ?] ?]|] eqn:EP; [discriminate|].
    destruct (lookup i (subs s)) as [x|] eqn:EL; [|discriminate].
    destruct (s_phase x); try discriminate. inv H. unfold set_subs. intros k y. cbn [subs].
    destruct (Z.eq_dec k i) as [->|Hne]; [rewrite lookup_del_same by exact Hnd; discriminate|].
    rewrite lookup_del_other by exact Hne. apply Hns.
  - destruct (lookup i (subs s)) as [x|] eqn:EL; [|discriminate].
    assert (Hgo : Some (set_subs s (upd i (set_state Gone) (subs s))) = Some s' -> no_stalled s').
    { intros H0; inv H0. unfold set_subs. apply no_stalled_upd; [exact Hns|]. intros y Hy. cbn [set_state s_state]. discriminate. }
    destruct (s_state x); try discriminate; exact (Hgo H).
Qed.

(* inevitability over all schedules: every maximal sequence of allowed events reaches a quiescent state *)
Inductive completes : st -> Prop :=
| c_done s : quiescent s -> completes s
| c_step s : (exists e s', internal e = true /\ step s e = Some s') ->
             (forall e s', allowed e = true -> step s e = Some s' -> completes s') -> completes s.

Lemma completes_bounded : sel = true -> forall n s, (mu s < n)%nat -> wf s -> no_stalled s -> completes s.
Proof.
  intros Hsel. induction n as [|n IH]; intros s Hmu Hwf Hns; [lia|].
  destruct (quiescentb s) eqn:EQ.
  - apply c_done. apply quiescentb_spec; [apply Hwf|exact EQ].
  - apply c_step; [apply progress; assumption|].
    intros e s' Ha Hstep. apply IH.
    + pose proof (step_mu _ _ _ Hstep (allowed_quiet _ Ha)). lia.
    + eapply step_wf; eassumption.
    + eapply step_no_stalled; eassumption.
Qed.

(* ISOLATION (for the code whose sends give up on a subscriber whose stream is done), under the hypothesis that no connected
   subscriber has stopped reading: from every reachable state — in particular with a Publish in progress and with disconnected
   subscribers whose channels are full — every schedule of the goroutines, with further clients disconnecting at arbitrary
   moments, reaches within [mu s] events a state where Publish has returned, every disconnected subscriber has been removed and
   every reading client has been handed everything queued for it. *)
Theorem isolation_no_stalled evs s : sel = true -> run evs init = Some s -> no_stalled s -> completes s.
Proof.
  intros Hsel Hrun Hns. apply (completes_bounded Hsel (S (mu s))); [lia| |exact Hns]. eapply run_wf; [apply wf_init|exact Hrun].
Qed.

(* ... and in such a state registration is possible (as it is whenever no Publish holds the mutex) *)
Lemma subscribe_enabled s i rs fs : pub s = None -> lookup i (subs s) = None -> parse_filters alen rs = Some fs ->
  step s (ESubscribe i rs) = Some (set_subs s (subs s ++ [(i, new_sub fs)])).
Proof. intros Hp Hl Hf. cbn [Spy.step]. rewrite Hf, Hp, Hl. reflexivity. Qed.

End SpyProofs.

(* ------------------------------------------------------------------ witnesses *)
(* A state in which nothing can move any more, except through the environment: *)
Definition dead (cap : nat) (sel : bool) (alen : nat) (s : st) : Prop :=
  pub s <> None /\
  (forall e, internal e = true -> step cap sel alen s e = None) /\
  (forall i rs fs, parse_filters alen rs = Some fs -> step cap sel alen s (ESubscribe i rs) = None) /\
  (forall b o, step cap sel alen s (EPubStart b o) = None).

Section StalledWitness.
Variable cap : nat.
Variable sel : bool.
Variable alen : nat.
Variable b : bytes.
Hypothesis cap_pos : (1 <= cap)%nat.

(* subscriber 1 stops reading (its goroutine sits in a resp.Send that never returns, k messages wait in its channel);
   subscriber 2 reads and has been handed all k+1 publishes so far *)
Definition wsub1 (k : nat) : sub :=
  {| s_filters := []; s_chan := repeat b k; s_state := Stalled; s_phase := PStuck; s_taken := [b]; s_got := [] |}.
Definition wsub2 (k : nat) : sub :=
  {| s_filters := []; s_chan := []; s_state := Reading; s_phase := PSelect; s_taken := repeat b (S k); s_got := repeat b (S k) |}.
Definition wstate (k : nat) : st := {| subs := [(1, wsub1 k); (2, wsub2 k)]; pub := None; results := repeat false (S k) |}.

Definition wprefix : list ev :=
  [ESubscribe 1 []; ESubscribe 2 []; EStall 1; EPubStart b [1; 2]; EPubSend; EPubSend; EPubEnd; ERecv 1; ERecv 2].
Definition wround : list ev := [EPubStart b [1; 2]; EPubSend; EPubSend; EPubEnd; ERecv 2].
Fixpoint wrounds (k : nat) : list ev := match k with O => [] | S k' => wrounds k' ++ wround end.
(* subscribe twice, 1 stops reading, then cap + 2 publishes: the last one never returns *)
Definition whistory : list ev := wprefix ++ wrounds cap ++ [EPubStart b [1; 2]; EPubSend].

Lemma run_app evs1 : forall evs2 s, run cap sel alen (evs1 ++ evs2) s =
  match run cap sel alen evs1 s with Some s' => run cap sel alen evs2 s' | None => None end.
Proof.
  induction evs1 as [|e t IH]; intros evs2 s; [reflexivity|]. cbn [app run].
  destruct (step cap sel alen s e); [apply IH|reflexivity].
Qed.

Lemma wprefix_run : run cap sel alen wprefix init = Some (wstate 0).
Proof.
  unfold wprefix. cbn [run step parse_filters pub subs init lookup app set_subs new_sub].
  cbn [lookup Z.eqb Pos.eqb upd s_state set_state new_sub].
  cbn [nodupb existsb Z.eqb Pos.eqb negb andb length Nat.eqb reorder lookup plan copies s_filters new_sub set_state repeat app pub subs results].
  destruct cap as [|c]; [lia|].
  cbn [lookup Z.eqb Pos.eqb s_chan set_state new_sub length Nat.ltb Nat.leb upd push_chan pub subs results app].
  cbn [recv s_phase s_chan s_state s_filters s_taken s_got set_state push_chan new_sub app lookup Z.eqb Pos.eqb upd set_subs subs pub results].
  reflexivity.
Qed.

Lemma run_cons e t s : run cap sel alen (e :: t) s = match step cap sel alen s e with Some s' => run cap sel alen t s' | None => None end.
Proof. reflexivity. Qed.

Lemma wround_run k : (k < cap)%nat -> run cap sel alen wround (wstate k) = Some (wstate (S k)).
Proof.
  intros Hk. unfold wround, wstate.
  assert (E : (k <? cap)%nat = true) by (apply Nat.ltb_lt; exact Hk).
  assert (E0 : (0 <? cap)%nat = true) by (apply Nat.ltb_lt; lia).
  rewrite run_cons.
  cbn [step pub subs results nodupb existsb Z.eqb Pos.eqb negb andb orb length Nat.eqb reorder lookup plan copies s_filters wsub1 wsub2 repeat app].
  rewrite run_cons. cbn [step pub subs results lookup Z.eqb Pos.eqb s_chan wsub1]. rewrite repeat_length, E.
  rewrite run_cons. cbn [step pub subs results lookup Z.eqb Pos.eqb upd s_chan wsub2 length]. rewrite E0.
  rewrite run_cons. cbn [step pub subs results].
  rewrite run_cons. cbn [step pub subs results lookup Z.eqb Pos.eqb upd recv push_chan s_phase s_chan s_state s_filters s_taken s_got wsub2 app set_subs].
  cbn [run]. unfold wsub1, wsub2, set_subs, push_chan. cbn [subs pub results s_filters s_chan s_state s_phase s_taken s_got app].
  rewrite <- !repeat_snoc. reflexivity.
Qed.

Lemma wrounds_run k : (k <= cap)%nat -> run cap sel alen (wrounds k) (wstate 0) = Some (wstate k).
Proof.
  induction k as [|k IH]; intros Hk; [reflexivity|]. cbn [wrounds]. rewrite run_app, IH by lia. apply wround_run. lia.
Qed.

(* the state reached: Publish holds the mutex and waits on the full channel of subscriber 1; the copy for reader 2 is never sent *)
Definition wdead : st :=
  {| subs := [(1, wsub1 cap); (2, wsub2 cap)]; pub := Some (b, [1; 2], false); results := repeat false (S cap) |}.

Lemma whistory_run : step cap sel alen wdead EPubSend = None /\
  run cap sel alen (wprefix ++ wrounds cap ++ [EPubStart b [1; 2]]) init = Some wdead.
Proof.
  split.
  - unfold wdead. cbn [step pub subs lookup Z.eqb Pos.eqb s_chan wsub1]. rewrite repeat_length, Nat.ltb_irrefl. reflexivity.
  - rewrite run_app, wprefix_run, run_app, wrounds_run by lia. unfold wstate, wdead.
    cbn [run step pub subs results nodupb existsb Z.eqb Pos.eqb negb andb orb length Nat.eqb reorder lookup plan copies s_filters wsub1 wsub2 repeat app].
    reflexivity.
Qed.

Lemma wdead_dead : dead cap sel alen wdead.
Proof.
  unfold dead, wdead. split; [discriminate|]. split; [|split].
  - intros e He. destruct e as [? ?| | | |i|i|i|? ?|?|?]; try discriminate He; cbn [step pub subs].
    + cbn [lookup Z.eqb Pos.eqb s_chan wsub1]. rewrite repeat_length, Nat.ltb_irrefl. reflexivity.
    + destruct sel; cbn [negb]; [|reflexivity]. cbn [lookup Z.eqb Pos.eqb s_state wsub1]. reflexivity.
    + reflexivity.
    + cbn [lookup]. destruct (i =? 1); [reflexivity|]. destruct (i =? 2); reflexivity.
    + cbn [lookup]. destruct (i =? 1); [reflexivity|]. destruct (i =? 2); reflexivity.
    + reflexivity.
  - intros i rs fs Hp. cbn [step pub]. rewrite Hp. reflexivity.
  - intros b0 o. reflexivity.
Qed.
End StalledWitness.

(* REFUTATION of isolation as the property states it (a connected subscriber that stops reading), for every channel capacity
   and whether or not sends give up on finished streams: a reachable state in which no goroutine can move, Publish holds the
   mutex forever, the copy owed to the reading subscriber 2 is never sent, and no registration or further publish can happen. *)
Theorem stalled_subscriber_blocks_everyone cap sel alen (b : bytes) : (1 <= cap)%nat ->
  exists evs s, run cap sel alen evs init = Some s /\ dead cap sel alen s /\
    (exists x, lookup 1 (subs s) = Some x /\ s_state x = Stalled) /\
    (exists x, lookup 2 (subs s) = Some x /\ s_state x = Reading /\ s_filters x = [] /\ In 2 (plan_of s)).
Proof.
  intros Hc. exists (wprefix b ++ wrounds b cap ++ [EPubStart b [1; 2]]), (wdead cap b).
  split; [apply whistory_run; exact Hc|]. split; [apply wdead_dead|]. split.
  - exists (wsub1 b cap). split; reflexivity.
  - exists (wsub2 b cap). repeat split. unfold plan_of, wdead. cbn. right. left. reflexivity.
Qed.

(* the code before the repair (sends never give up): a subscriber that DISCONNECTS while a Publish waits on its full channel
   deadlocks the server as well — its own removal needs the mutex that Publish holds *)
Definition gone_history (b : bytes) : list ev :=
  [ESubscribe 1 []; ESubscribe 2 []; EStall 1; EPubStart b [1; 2]; EPubSend; EPubSend; EPubEnd; ERecv 1; ERecv 2;
   EPubStart b [1; 2]; EPubSend; EPubSend; EPubEnd; ERecv 2; EPubStart b [1; 2]; EDisconnect 1; ENotice 1].

Lemma gone_subscriber_deadlock_without_select :
  exists s, run 1 false 32 (gone_history [x01]) init = Some s /\ dead 1 false 32 s /\
            (exists x, lookup 1 (subs s) = Some x /\ s_state x = Gone /\ s_phase x = PExit) /\ no_stalled s.
Proof.
  eexists. split; [vm_compute; reflexivity|]. split; [|split].
  - unfold dead. split; [discriminate|]. split; [|split].
    + intros e He. destruct e as [? ?| | | |i|i|i|? ?|?|?]; try discriminate He; cbn [step pub subs]; try reflexivity.
      * cbn [lookup]. destruct (i =? 1); [reflexivity|]. destruct (i =? 2); reflexivity.
      * cbn [lookup]. destruct (i =? 1); [reflexivity|]. destruct (i =? 2); reflexivity.
    + intros i rs fs Hp. cbn [step pub]. rewrite Hp. reflexivity.
    + intros b0 o. reflexivity.
  - eexists. split; [reflexivity|]. split; reflexivity.
  - intros i x. cbn [subs lookup]. destruct (i =? 1); [intros H; inversion H; discriminate|].
    destruct (i =? 2); [intros H; inversion H; discriminate|discriminate].
Qed.

(* the same history with the repaired send: the state reached has no stalled subscriber, so by [isolation_no_stalled] it completes *)
Lemma gone_subscriber_completes_with_select :
  exists s, run 1 true 32 (gone_history [x01]) init = Some s /\ completes 1 true 32 s.
Proof.
  eexists. split; [vm_compute; reflexivity|].
  eapply (isolation_no_stalled 1 true 32 (le_n 1) (gone_history [x01])); [reflexivity|vm_compute; reflexivity|].
  intros i x. cbn [subs lookup]. destruct (i =? 1); [intros H; inversion H; discriminate|].
  destruct (i =? 2); [intros H; inversion H; discriminate|discriminate].
Qed.
