(* Extension X10, part 7: C09's tick liveness restated on the composed Alephium pipeline (model/AlphPipeline.v: the watcher over events
   that carry their RAW data, conversions applied where the Go code applies them), as a corollary of the refinement
   (proofs/AlphPipelineBase.v [sim_step] / [sim_final]) - report X2 carried it over "only through sim_step". *)
From Coq Require Import List ZArith Bool Lia Arith.
From Coq Require Import Strings.Byte.
From WH Require Import lib.Bytes gen.Extracted gen.ExtractedAlphPipe model.Vaa model.AlphPipeline proofs.AlphPipelineRead proofs.AlphPipelineBase.
From WH Require model.AlphConv model.AlphWatcher proofs.AlphWatcherBase.
Import ListNotations.
Open Scope Z_scope.

(* the raw event u is pending in the block with hash blk *)
Definition xpending_in (P : list xpblock) (blk : Z) (u : xuevent) : Prop :=
  exists b, In b P /\ xpb_hash b = blk /\ In u (xpb_evs b).

Lemma xpending_abs P blk u : xpending_in P blk u -> WB.pending_in (map abs_pblock P) blk (abs_u u).
Proof.
  intros (b & Hb & Hh & Hu). exists (abs_pblock b). split; [apply in_map; exact Hb|]. split; [exact Hh|]. cbn [abs_pblock W.pb_evs]. apply in_map. exact Hu.
Qed.

(* the header invariant / header-consistency of the raw model are those of the abstraction *)
Definition xInvH (H : Z -> W.header) (s : xstate) : Prop := WB.InvH H (abs_state s).
Definition xokH (H : Z -> W.header) (o : xop) : Prop := WB.okH H (abs_op o).

Lemma xInvH_init H from0 : xInvH H (xinit from0).
Proof. unfold xInvH. rewrite abs_init. apply WB.Inv_init. Qed.

Lemma xInvH_final c H : forall ops s, xInvH H s -> Forall (xokH H) ops -> xInvH H (xfinal c s ops).
Proof.
  induction ops as [|o ops IH]; intros s HI Hok; [exact HI|]. inversion Hok as [|? ? H1 H2]; subst. cbn [xfinal]. apply IH; [|exact H2].
  unfold xInvH. pose proof (sim_step c s o) as E. pose proof (WB.step_InvH (abs_cfg c) H (abs_state s) (abs_op o) HI H1) as X. rewrite E in X. exact X.
Qed.

(* PENDING EVENTS, on raw data: a raw event pending in a block whose header is H blk, whose conversion names the token bridge as
   sender, is handed to the signer at the first height tick at which its converted message is confirmed (depth and hold time from the
   converted consistency level) and its block is reported main-chain - whatever happened in between - provided the watcher was not
   terminated by a node API error.  What is handed over has the abstraction of [mkxfwd] of exactly this event with that header:
   same event identity, same converted message, same header, same attested token info *)
Theorem pipeline_pending_forwarded_when_final c H pre s height now mc hd blk u :
  xInvH H s -> Forall (xokH H) pre -> xokH H (XTick height now mc hd) ->
  x_dead (fst (xstep c (xfinal c s pre) (XTick height now mc hd))) = false ->
  xpending_in (x_pending s) blk u -> C.w_sender (xu_msg u) = xc_bridge c ->
  (forall h' n' mc' hd', In (XTick h' n' mc' hd') pre -> xconfirmed (xc_mainnet c) (xu_msg u) (H blk) n' h' = false) ->
  xconfirmed (xc_mainnet c) (xu_msg u) (H blk) now height = true -> mc blk = Some true ->
  exists f, In f (xo_fwd (snd (xstep c (xfinal c s pre) (XTick height now mc hd)))) /\
            abs_fwd f = abs_fwd (mkxfwd (xu_ev u) (xu_msg u) (xu_chain u) (H blk)).
Proof.
  intros HI Hpre Hok Hd Hp Hs Hnc Hc Hm.
  pose proof (WB.pending_forwarded_when_final (abs_cfg c) H (map abs_op pre) (abs_state s) height now mc hd blk (abs_u u)) as L.
  rewrite sim_final in L. change (W.OTick height now mc hd) with (abs_op (XTick height now mc hd)) in L. rewrite sim_step in L. cbn [fst snd] in L.
  assert (X : In (W.mkfwd (abs_u u) (H blk)) (W.o_fwd (abs_out (snd (xstep c (xfinal c s pre) (XTick height now mc hd)))))).
  { apply L.
    - exact HI.
    - apply Forall_forall. intros o Ho. apply in_map_iff in Ho as (xo & <- & Hxo). rewrite Forall_forall in Hpre. apply (Hpre xo Hxo).
    - exact Hok.
    - exact Hd.
    - cbn [abs_state W.w_pending]. apply xpending_abs. exact Hp.
    - cbn [abs_u W.u_msg abs_msg W.m_sender abs_cfg W.c_bridge]. rewrite Hs. reflexivity.
    - intros h' n' mc' hd' Hin. apply in_map_iff in Hin as (xo & E & Hxo). destruct xo; cbn [abs_op] in E; try discriminate E. inversion E; subst.
      cbn [abs_cfg W.c_mainnet abs_u W.u_msg]. rewrite sim_confirmed. eapply Hnc. exact Hxo.
    - cbn [abs_cfg W.c_mainnet abs_u W.u_msg]. rewrite sim_confirmed. exact Hc.
    - exact Hm. }
  cbn [abs_out W.o_fwd] in X. apply in_map_iff in X as (f & Ef & Hf). exists f. split; [exact Hf|]. rewrite Ef, abs_fwd_mk. reflexivity.
Qed.
