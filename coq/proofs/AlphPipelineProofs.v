(* C09 for the composed pipeline (model.AlphPipeline): per-event independence through the conversion step with the REAL
   rejection predicate (`unfit`: wrong event index, or ToWormholeMessage rejects the raw fields), the page is never aborted,
   GetTokenInfo never panics on raw answers, and the raw stream is partitioned into batches exactly once (composition with
   C09's partition theorem through the simulation).  Depends on the extracted page-loop exit test, the treatment of
   unconvertible events and the nil tests of GetTokenInfo (as AlphWatcherProofs does); the guard-independent part is in
   AlphPipelineBase. *)
From Coq Require Import List ZArith Bool Lia Arith.
From Coq Require Import Strings.Byte.
From WH Require Import lib.Bytes gen.Extracted gen.ExtractedAlphPipe model.Vaa model.AlphPipeline proofs.AlphPipelineRead proofs.AlphPipelineBase.
From WH Require model.AlphConv model.AlphWatcher proofs.AlphConvProofs proofs.AlphWatcherBase proofs.AlphWatcherProofs.
Import ListNotations.
Open Scope Z_scope.

Module WP := AlphWatcherProofs.

(* ================================================================== 3. per-event independence through the conversion step *)
Lemma xshape_test_same : forall rs i, xshape_test rs i i <> XShPanic.
Proof.
  intros rs i. unfold xshape_test. destruct (nth i rs XFailed) as [|rets] eqn:E; cbn [xsucceeded negb]; [discriminate|].
  destruct rets as [|v [|w t]]; discriminate.
Qed.

Lemma xget_token_info_no_panic : forall id a, xget_token_info id a <> XTiPanic.
Proof.
  intros id a. unfold xget_token_info. destruct (bytes_eqb id alph_token_id); [discriminate|].
  destruct a as [|rs]; [discriminate|]. destruct (negb (Nat.eqb (length rs) 3)); [discriminate|].
  rewrite WP.tokinfo_tests_own.
  pose proof (xshape_test_same rs 0) as P0. pose proof (xshape_test_same rs 1) as P1. pose proof (xshape_test_same rs 2) as P2.
  destruct (xshape_test rs 0 0); try discriminate; try congruence.
  destruct (xshape_test rs 1 1); try discriminate; try congruence.
  destruct (xshape_test rs 2 2); try discriminate; try congruence.
  destruct (C.to_bytevec v); [|discriminate]. destruct (C.to_bytevec v0); [|discriminate]. destruct (C.to_uint8 v1); discriminate.
Qed.

Lemma xvalidate_attest_no_panic : forall w a, xvalidate_attest w a <> XVaPanic.
Proof.
  intros w a. unfold xvalidate_attest. destruct (C.parse_attest_token (C.w_payload w)) as [ti|]; [|discriminate].
  pose proof (xget_token_info_no_panic (C.t_id ti) a) as P.
  destruct (xget_token_info (C.t_id ti) a) as [t| |]; try discriminate; try congruence.
  destruct (xtokinfo_eqb ti t); discriminate.
Qed.

(* contribution of one event of the stream to the batch: decided by its own raw fields and the answer about the token it names *)
Definition xkeep1 (a : xmc_ans) (e : xevent) : list xuevent := match xclassify a e with XKeep u => [u] | _ => [] end.
Fixpoint xkeep_from (tok : Z -> xmc_ans) (idx : Z) (evs : list xevent) : list xuevent :=
  match evs with [] => [] | e :: t => xkeep1 (tok idx) e ++ xkeep_from tok (idx + 1) t end.

Lemma xclassify_cases : forall a e, xclassify a e = XSkip \/ exists u, xclassify a e = XKeep u.
Proof.
  intros a e. unfold xclassify. rewrite WP.unconv_skipped. destruct (xto_unconfirmed e) as [w|]; [|left; reflexivity].
  destruct (xis_attest w).
  - pose proof (xvalidate_attest_no_panic w a) as P. destruct (xvalidate_attest w a); try congruence; [right; eexists; reflexivity|left; reflexivity].
  - right. eexists. reflexivity.
Qed.

(* handleUnconfirmedEvents never aborts a page and never panics, whatever the fields of its events are *)
Lemma xhandle_unconfirmed_spec : forall tok evs idx, xhandle_unconfirmed tok idx evs = XHuOk (xkeep_from tok idx evs).
Proof.
  intros tok evs. induction evs as [|e t IH]; intro idx; cbn [xhandle_unconfirmed xkeep_from]; [reflexivity|].
  unfold xkeep1. destruct (xclassify_cases (tok idx) e) as [H | [u H]]; rewrite H, IH; reflexivity.
Qed.

Lemma xkeep_from_app : forall tok a b idx,
  xkeep_from tok idx (a ++ b) = xkeep_from tok idx a ++ xkeep_from tok (idx + Z.of_nat (length a)) b.
Proof.
  intros tok a. induction a as [|e t IH]; intros b idx.
  - cbn [app xkeep_from length]. f_equal. lia.
  - cbn [app xkeep_from length]. rewrite IH, <- app_assoc. do 3 f_equal. lia.
Qed.

Lemma xkeep_from_one_event : forall tok a e b idx,
  xkeep_from tok idx (a ++ e :: b) =
  xkeep_from tok idx a ++ xkeep1 (tok (idx + Z.of_nat (length a))) e ++ xkeep_from tok (idx + Z.of_nat (length a) + 1) b.
Proof. intros. rewrite xkeep_from_app. cbn [xkeep_from]. reflexivity. Qed.

(* the REAL rejection predicate: the event index is not the WormholeMessage index, or ToWormholeMessage rejects the fields *)
Lemma xkeep1_unfit : forall a e, unfit e -> xkeep1 a e = [].
Proof. intros a e H. unfold xkeep1, xclassify. rewrite (unfit_unconv e H), WP.unconv_skipped. reflexivity. Qed.

Theorem xkeep_from_unfit_transparent : forall tok a e b idx, unfit e ->
  xkeep_from tok idx (a ++ e :: b) = xkeep_from tok idx a ++ xkeep_from tok (idx + Z.of_nat (length a) + 1) b.
Proof. intros. rewrite xkeep_from_one_event, xkeep1_unfit by assumption. reflexivity. Qed.

(* a page with an unfit event in it: no message for it, the page is not aborted, and the others are kept exactly as without it *)
Theorem unfit_event_page : forall tok a e b idx, unfit e ->
  xhandle_unconfirmed tok idx (a ++ e :: b) = XHuOk (xkeep_from tok idx a ++ xkeep_from tok (idx + Z.of_nat (length a) + 1) b).
Proof. intros. rewrite xhandle_unconfirmed_spec, xkeep_from_unfit_transparent by assumption. reflexivity. Qed.

(* a fitting event that is not an attestation is kept with exactly its conversion, whatever its sender *)
Lemma xkeep1_fit_plain : forall a e w, x_index e = alph_wm_event_index -> C.to_wormhole_message (x_fields e) (x_txid e) = C.COk w ->
  xis_attest w = false -> xkeep1 a e = [ {| xu_ev := e; xu_msg := w; xu_chain := None |} ].
Proof.
  intros a e w Hi Hc A. unfold xkeep1, xclassify, xto_unconfirmed, conv. rewrite Hi, Z.eqb_refl, Hc, A. reflexivity.
Qed.

Lemma xkeep1_fit_attest : forall a e w, x_index e = alph_wm_event_index -> C.to_wormhole_message (x_fields e) (x_txid e) = C.COk w ->
  xis_attest w = true ->
  xkeep1 a e = match xvalidate_attest w a with XVaOk t => [ {| xu_ev := e; xu_msg := w; xu_chain := Some t |} ] | _ => [] end.
Proof.
  intros a e w Hi Hc A. unfold xkeep1, xclassify, xto_unconfirmed, conv. rewrite Hi, Z.eqb_refl, Hc, A.
  destruct (xvalidate_attest w a); reflexivity.
Qed.

(* every element of a batch is the conversion of the event it stems from *)
Lemma xkeep1_in : forall a e u, In u (xkeep1 a e) ->
  xu_ev u = e /\ x_index e = alph_wm_event_index /\ C.to_wormhole_message (x_fields e) (x_txid e) = C.COk (xu_msg u).
Proof.
  intros a e u. unfold xkeep1, xclassify. destruct (xto_unconfirmed e) as [w|] eqn:T.
  - apply xto_unconfirmed_some in T as [T1 T2]. destruct (xis_attest w).
    + destruct (xvalidate_attest w a); cbn [In]; try tauto. intros [<-|[]]. cbn [xu_ev xu_msg]. auto.
    + cbn [In]. intros [<-|[]]. cbn [xu_ev xu_msg]. auto.
  - rewrite WP.unconv_skipped. cbn [In]. tauto.
Qed.

(* ---- the stream is partitioned into batches (composition with C09's partition theorem) *)
Section XPartition.
Variable c : xcfg.
Variable log : list xevent.      (* the governance contract's event stream, raw *)
Variable T : Z -> xmc_ans.       (* the node's metadata answer for the event at each stream index *)

Definition gseg (s : Z) (n : nat) : list xevent := firstn n (skipn (Z.to_nat s) log).
Definition xloglen : Z := Z.of_nat (length log).

Lemma gseg_length : forall s n, 0 <= s -> s + Z.of_nat n <= xloglen -> length (gseg s n) = n.
Proof. intros s n Hs H. unfold gseg, xloglen in *. rewrite firstn_length, skipn_length. lia. Qed.

Lemma gseg_app : forall s n m, 0 <= s -> gseg s (n + m) = gseg s n ++ gseg (s + Z.of_nat n) m.
Proof.
  intros s n m Hs. unfold gseg. replace (Z.to_nat (s + Z.of_nat n)) with (Z.to_nat s + n)%nat by lia.
  rewrite WP.skipn_plus. apply WP.firstn_plus_skip.
Qed.

Lemma gseg_abs : forall s n, map abs_event (gseg s n) = WP.seg (map abs_event log) s n.
Proof. intros s n. unfold gseg, WP.seg. rewrite skipn_map, firstn_map. reflexivity. Qed.

Definition xwb_pages (pg : nat -> Z -> xpage_ans) (count : Z) : Prop :=
  forall k s, 0 <= s <= xloglen -> exists n : nat,
    pg k s = XPage (gseg s n) (s + Z.of_nat n) /\ s + Z.of_nat n <= xloglen /\ (s < count -> (0 < n)%nat).

Lemma xpage_loop_wb : forall pg tok count, xwb_pages pg count ->
  forall fuel k cur acc, 0 <= cur <= xloglen -> (Z.to_nat (count - cur) < fuel)%nat ->
  exists from' j, xpage_loop pg tok fuel k cur count acc =
                  XPBatch from' (acc ++ xkeep_from tok cur (gseg cur (Z.to_nat (from' - cur)))) (k + j)
    /\ count <= from' /\ cur <= from' <= xloglen.
Proof.
  intros pg tok count WB. induction fuel as [|f IH]; intros k cur acc Hc Hf; [lia|].
  destruct (WB k cur Hc) as (n & Hp & Hl & Hn).
  cbn [xpage_loop]. rewrite Hp, xhandle_unconfirmed_spec, WP.page_exit_ge.
  destruct (cur + Z.of_nat n >=? count) eqn:E.
  - exists (cur + Z.of_nat n), 1%nat. replace (Z.to_nat (cur + Z.of_nat n - cur)) with n by lia.
    replace (k + 1)%nat with (S k) by lia. repeat apply conj; try reflexivity; try lia.
  - assert (Hlt : cur + Z.of_nat n < count) by lia. assert (Hn' : (0 < n)%nat) by (apply Hn; lia).
    destruct (IH (S k) (cur + Z.of_nat n) (acc ++ xkeep_from tok cur (gseg cur n))) as (from' & j & Hr & H1 & H2); [lia|lia|].
    exists from', (S j). rewrite Hr. repeat apply conj; try lia.
    f_equal; [|lia]. rewrite <- app_assoc. f_equal.
    replace (Z.to_nat (from' - cur)) with (n + Z.to_nat (from' - (cur + Z.of_nat n)))%nat by lia.
    rewrite gseg_app by lia. rewrite xkeep_from_app. rewrite gseg_length by lia. reflexivity.
Qed.

Lemma xkeep_from_ext : forall tok evs idx, (forall i, tok i = T i) -> xkeep_from tok idx evs = xkeep_from T idx evs.
Proof.
  intros tok evs. induction evs as [|e t IH]; intros idx H; cbn [xkeep_from]; [reflexivity|]. rewrite H, IH by exact H. reflexivity.
Qed.

Definition xfine (o : xop) : Prop :=
  match o with
  | XPoll cn pg tok => exists count, cn = Some count /\ xwb_pages pg count /\ (forall i, tok i = T i)
  | XTick _ _ mc hd => (forall b, mc b <> None) /\ (forall b, hd b <> None)
  | XHeightErr => False
  | _ => True
  end.

Lemma gseg_zero : forall s, gseg s 0 = [].
Proof. reflexivity. Qed.

(* one step: fromIndex only grows, and the batch is exactly the kept events of stream[from .. from') *)
Lemma xstep_batch : forall s o, 0 <= x_from s <= xloglen -> xfine o ->
  let s' := fst (xstep c s o) in
  x_from s <= x_from s' <= xloglen /\
  xo_batch (snd (xstep c s o)) = xkeep_from T (x_from s) (gseg (x_from s) (Z.to_nat (x_from s' - x_from s))).
Proof.
  intros s o Hf Hfine.
  assert (Same : forall w x, x_from w = x_from s -> xo_batch x = [] ->
            x_from s <= x_from w <= xloglen /\ xo_batch x = xkeep_from T (x_from s) (gseg (x_from s) (Z.to_nat (x_from w - x_from s)))).
  { intros w x E B. rewrite E, Z.sub_diag, B. cbn [Z.to_nat]. rewrite gseg_zero. cbn [xkeep_from]. split; [lia|reflexivity]. }
  cbv zeta. unfold xstep. destruct (x_dead s); [apply Same; reflexivity|].
  destruct o as [cn pg tok| |height now mc hd|r|]; cbn [xfine] in Hfine.
  - destruct Hfine as (count & -> & WB & Ht). destruct (x_inflight s) as [l0|]; [apply Same; reflexivity|].
    unfold xpoll. destruct (count =? x_from s); [apply Same; reflexivity|].
    destruct (xpage_loop_wb pg tok count WB (W.poll_fuel (x_from s) count) 0%nat (x_from s) [] Hf) as (from' & j & Hr & H1 & H2).
    + unfold W.poll_fuel. lia.
    + rewrite Hr. cbn [fst snd x_from xo_batch app]. rewrite (xkeep_from_ext tok) by exact Ht. split; [lia|reflexivity].
  - destruct (x_inflight s); apply Same; reflexivity.
  - destruct (xprocess_blocks (xc_mainnet c) height now mc hd (x_pending s)) as [[p' conf]|]; [|apply Same; reflexivity].
    destruct (xhandle_confirmed (xc_bridge c) conf) as [f err]. apply Same; reflexivity.
  - destruct (xreobserve c r) as [f fl]. destruct fl; apply Same; reflexivity.
  - destruct Hfine.
Qed.

Lemma xpartition : forall ops s, 0 <= x_from s <= xloglen -> Forall xfine ops ->
  x_from s <= x_from (xfinal c s ops) <= xloglen /\
  xbatches c s ops = xkeep_from T (x_from s) (gseg (x_from s) (Z.to_nat (x_from (xfinal c s ops) - x_from s))).
Proof.
  induction ops as [|o t IH]; intros s Hf Hfine; cbn [xfinal xbatches].
  - rewrite Z.sub_diag. cbn [Z.to_nat]. rewrite gseg_zero. cbn [xkeep_from]. split; [lia|reflexivity].
  - inversion Hfine as [|o' t' Ho Ht]; subst. destruct (xstep_batch s o Hf Ho) as [S1 S2]. cbv zeta in S1.
    destruct (IH (fst (xstep c s o)) ltac:(lia) Ht) as [J1 J2]. split; [lia|].
    rewrite S2, J2.
    set (f0 := x_from s) in *. set (f1 := x_from (fst (xstep c s o))) in *. set (f2 := x_from (xfinal c (fst (xstep c s o)) t)) in *.
    replace (Z.to_nat (f2 - f0)) with (Z.to_nat (f1 - f0) + Z.to_nat (f2 - f1))%nat by lia.
    rewrite gseg_app by lia. rewrite xkeep_from_app. rewrite gseg_length by (unfold xloglen in *; lia).
    replace (f0 + Z.of_nat (Z.to_nat (f1 - f0))) with f1 by lia. reflexivity.
Qed.

(* the abstraction of an error-free raw history is an error-free abstract history *)
Lemma abs_wb_pages : forall pg count, xwb_pages pg count -> WP.wb_pages (map abs_event log) (abs_pg pg) count.
Proof.
  intros pg count WB k s Hs. unfold WP.loglen in Hs. rewrite map_length in Hs. destruct (WB k s Hs) as (n & Hp & Hl & Hn).
  exists n. unfold abs_pg. rewrite Hp. cbn [abs_page]. rewrite gseg_abs. unfold WP.loglen. rewrite map_length. auto.
Qed.

Lemma abs_fine : forall o, xfine o -> WP.fine (map abs_event log) (abs_tok_fn T) (abs_op o).
Proof.
  intros o H. destruct o as [cn pg tok| |height now mc hd|r|]; cbn [abs_op WP.fine]; try exact I; try exact H.
  destruct H as (count & -> & WB & Ht). exists count. repeat apply conj; [reflexivity|apply abs_wb_pages; exact WB|].
  intro i. unfold abs_tok_fn. rewrite Ht. reflexivity.
Qed.

Lemma all_quiet_flags : forall ops s, WP.all_quiet (abs_cfg c) (abs_state s) (map abs_op ops) ->
  Forall (fun x => xo_flag x = W.FNone) (fst (xrun c s ops)).
Proof.
  induction ops as [|o t IH]; intros s H; cbn [xrun map WP.all_quiet] in *; [constructor|].
  rewrite sim_step in H. cbn [fst snd abs_out W.o_flag] in H. destruct H as (H1 & _ & H3).
  destruct (xstep c s o) as [s' x] eqn:E. cbn [fst snd] in *. specialize (IH s' H3). destruct (xrun c s' t) as [xs s'']. cbn [fst] in *.
  constructor; assumption.
Qed.

(* EVERY error-free history of the composed watcher: it never terminates, no step reports Fatal / Spin / Panic, and the
   batches handed to the event loop are - in order, each exactly once - the conversions of the FITTING events of
   stream[from0 .. from_final) (attestations: those whose metadata matches); unfit events contribute nothing *)
Theorem pipeline_partition : forall ops from0, 0 <= from0 <= xloglen -> Forall xfine ops ->
  x_dead (xfinal c (xinit from0) ops) = false /\ Forall (fun x => xo_flag x = W.FNone) (fst (xrun c (xinit from0) ops)) /\
  from0 <= x_from (xfinal c (xinit from0) ops) <= xloglen /\
  xbatches c (xinit from0) ops = xkeep_from T from0 (gseg from0 (Z.to_nat (x_from (xfinal c (xinit from0) ops) - from0))).
Proof.
  intros ops from0 Hf Hfine.
  assert (HA : Forall (WP.fine (map abs_event log) (abs_tok_fn T)) (map abs_op ops)).
  { apply Forall_forall. intros o' Ho. apply in_map_iff in Ho as (o & <- & Ho). apply abs_fine. rewrite Forall_forall in Hfine. apply Hfine. exact Ho. }
  assert (Hf' : 0 <= W.w_from (abs_state (xinit from0)) <= WP.loglen (map abs_event log)).
  { unfold WP.loglen. rewrite map_length. exact Hf. }
  destruct (WP.partition_all_histories (abs_cfg c) (map abs_event log) (abs_tok_fn T) (map abs_op ops) (abs_state (xinit from0))
              (WB.Inv_init _ _ _ from0) eq_refl Hf' HA) as (D & Q & _ & _).
  rewrite sim_final in D. destruct (xpartition ops (xinit from0) Hf Hfine) as [P1 P2].
  repeat apply conj; [exact D|apply all_quiet_flags; exact Q|exact (proj1 P1)|exact (proj2 P1)|exact P2].
Qed.

End XPartition.
