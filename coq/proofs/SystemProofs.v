(* Proofs about model/System.v: the network of guardian nodes, by lifting the single-node invariants of the processor model
   (ProcC01Proofs / ProcC02Proofs) and composing them with the codec (C05), the store (C12), the quorum arithmetic (C07), the
   explorer gate (C19), the contract layouts (C04) and the spy's Publish plan (C20). *)
From Coq Require Import List ZArith Lia Bool Arith.
From Coq Require Import Strings.Byte.
From WH Require Import lib.Bytes gen.Extracted gen.ExtractedWiring model.Vaa model.Processor model.ProcSpec model.System
     proofs.VaaProofs proofs.QuorumProofs proofs.ProcessorProofs proofs.ProcC01Proofs proofs.ProcC02Proofs.
From WH Require model.Db model.Explorer model.Spy model.Contracts lib.Layout
     proofs.DbProofs proofs.ExplorerProofs proofs.SpyProofs proofs.LayoutProofs.
Import ListNotations.
Open Scope Z_scope.

(* ================================================================== 0. the wiring the composition assumes is the wiring of node.go *)
Lemma wiring_matches : system_wiring = extracted_wiring.
Proof. reflexivity. Qed.
Lemma consumers_match : system_consumers = extracted_consumers.
Proof. reflexivity. Qed.

(* ================================================================== 1. lists *)
Lemma nth_error_set_nth_same {A} (l : list A) : forall i a x, nth_error l i = Some a -> nth_error (set_nth i x l) i = Some x.
Proof.
  induction l as [|b l IH]; intros [|i] a x H; cbn [set_nth nth_error] in *; try discriminate; [reflexivity|].
  eapply IH. exact H.
Qed.
Lemma nth_error_set_nth_other {A} (l : list A) : forall i j x, j <> i -> nth_error (set_nth i x l) j = nth_error l j.
Proof.
  induction l as [|b l IH]; intros [|i] [|j] x H; cbn [set_nth nth_error]; try reflexivity; try congruence.
  apply IH. congruence.
Qed.
Lemma length_set_nth {A} (l : list A) : forall i x, length (set_nth i x l) = length l.
Proof. induction l as [|b l IH]; intros [|i] x; cbn [set_nth length]; try reflexivity. rewrite IH. reflexivity. Qed.
Lemma nth_error_repeat {A} (a : A) : forall n i x, nth_error (repeat a n) i = Some x -> x = a.
Proof. induction n as [|n IH]; intros [|i] x H; cbn [repeat nth_error] in H; try discriminate; [congruence|eapply IH; exact H]. Qed.

(* ================================================================== 2. the network: lifting the single-node invariant *)
(* guardian sets as the chain delivers them (distinct keys, at most 256): the only constraint on a network history *)
Definition nop_wf (x : nop) : Prop := match x with NEnv _ (ESetGS g) => ProcSpec.gs_wf g | _ => True end.

(* the sets node i was given by its watchers in the history, newest first *)
Definition learn1 (i : nat) (L : list gset) (x : nop) : list gset :=
  match x with NEnv j (ESetGS g) => if (j =? i)%nat then g :: L else L | _ => L end.
Definition net_learned (i : nat) (xs : list nop) : list gset := fold_left (learn1 i) xs [].

Section Net.
Variable recover : bytes -> bytes -> option bytes.
Variable keccak : bytes -> bytes.
Variable gov_chain : Z.
Variable gov_addr : bytes.
Variable owns : nat -> addr.
Variable signs : nat -> bytes -> bytes.

Notation rec := (Processor.rec recover).
Notation dg := (Processor.dg keccak).
Notation qvalid := (ProcSpec.qvalid recover keccak).
Notation Inv1 := (ProcC01Proofs.Inv1 recover keccak).
Notation node_step := (System.node_step recover keccak gov_chain gov_addr owns signs).
Notation node_run := (System.node_run recover keccak gov_chain gov_addr owns signs).
Notation nstep := (System.nstep recover keccak gov_chain gov_addr owns signs).
Notation nrun := (System.nrun recover keccak gov_chain gov_addr owns signs).
Notation trace := (System.trace recover keccak gov_chain gov_addr owns signs).
Notation origin_of_node i := (ProcSpec.origin_of keccak (signs i) (owns i) gov_chain gov_addr).

(* per node: the ghost log of what it observed / was injected, and the sets it learned *)
Definition ghost := nat -> list origin * list gset.
Definition ghost0 : ghost := fun _ => ([], []).
Definition gupd (G : ghost) (i : nat) (st : pstate) (o : op) : ghost :=
  fun j => if (j =? i)%nat then (origin_of_node i st o ++ fst (G i), ProcSpec.learned_after (snd (G i)) o) else G j.

(* network-level C01: every output of every step of every node, in every network history *)
Fixpoint net_steps_c01 (n : net) (G : ghost) (xs : list nop) : Prop :=
  match xs with
  | [] => True
  | x :: t =>
    match resolve n x with
    | Some (i, o) =>
      match nth_error (nodes n) i with
      | Some st => Forall (ProcSpec.out_c01 recover keccak (fst (G i)) (snd (G i)) st o) (snd (nstep n x)) /\
                   net_steps_c01 (fst (nstep n x)) (gupd G i st o) t
      | None => net_steps_c01 n G t
      end
    | None => net_steps_c01 n G t
    end
  end.

Definition NetInv (G : ghost) (n : net) : Prop :=
  forall i st, nth_error (nodes n) i = Some st -> Inv1 (fst (G i)) (snd (G i)) st.

Lemma resolve_wf n x i o : nop_wf x -> resolve n x = Some (i, o) -> ProcSpec.op_wf o.
Proof.
  destruct x as [j e|j k|j g|j k]; cbn [resolve nop_wf]; intros Hw H.
  - inversion H; subst. destruct e; cbn [op_of_env ProcSpec.op_wf]; try exact I. exact Hw.
  - destruct (nth_error (pool n) k) as [g|]; [|discriminate]. inversion H; subst. destruct g; exact I.
  - inversion H; subst. destruct g; exact I.
  - inversion H; subst. exact I.
Qed.

Lemma nstep_unfold n x i o st : resolve n x = Some (i, o) -> nth_error (nodes n) i = Some st ->
  nstep n x = ({| nodes := set_nth i (fst (node_step i st o)) (nodes n); pool := pool n ++ flat_map gossip_of (snd (node_step i st o)) |},
               snd (node_step i st o)).
Proof. intros Hr Hn. unfold System.nstep. rewrite Hr, Hn. destruct (node_step i st o) as [st' outs]. reflexivity. Qed.

Lemma nstep_idle_resolve n x : resolve n x = None -> nstep n x = (n, []).
Proof. intros Hr. unfold System.nstep. rewrite Hr. reflexivity. Qed.
Lemma nstep_idle_node n x i o : resolve n x = Some (i, o) -> nth_error (nodes n) i = None -> nstep n x = (n, []).
Proof. intros Hr Hn. unfold System.nstep. rewrite Hr, Hn. reflexivity. Qed.

Lemma netinv_step G n x i o st : NetInv G n -> nop_wf x -> resolve n x = Some (i, o) -> nth_error (nodes n) i = Some st ->
  NetInv (gupd G i st o) (fst (nstep n x)) /\
  Forall (ProcSpec.out_c01 recover keccak (fst (G i)) (snd (G i)) st o) (snd (nstep n x)).
Proof.
  intros HI Hw Hr Hn. rewrite (nstep_unfold n x i o st Hr Hn). cbn [fst snd nodes].
  destruct (step_c01 recover keccak (signs i) (owns i) gov_chain gov_addr (fst (G i)) (snd (G i)) st o (HI i st Hn) (resolve_wf n x i o Hw Hr)) as [H1 H2].
  split; [|exact H2].
  intros j stj Hj. cbn [nodes] in Hj. unfold gupd. destruct (Nat.eqb_spec j i) as [->|Hne].
  - rewrite (nth_error_set_nth_same _ _ _ _ Hn) in Hj. inversion Hj; subst stj. cbn [fst snd]. exact H1.
  - rewrite nth_error_set_nth_other in Hj by exact Hne. apply HI. exact Hj.
Qed.

Theorem net_c01_from : forall xs n G, NetInv G n -> Forall nop_wf xs -> net_steps_c01 n G xs.
Proof.
  induction xs as [|x xs IH]; intros n G HI Hw; cbn [net_steps_c01]; [exact I|].
  inversion Hw as [|? ? Hw1 Hw2]; subst.
  destruct (resolve n x) as [[i o]|] eqn:Hr; [|apply IH; assumption].
  destruct (nth_error (nodes n) i) as [st|] eqn:Hn; [|apply IH; assumption].
  destruct (netinv_step G n x i o st HI Hw1 Hr Hn) as [H1 H2]. split; [exact H2|]. apply IH; assumption.
Qed.

Lemma netinv_init N : NetInv ghost0 (ninit N).
Proof. intros i st H. cbn [ninit nodes] in H. apply nth_error_repeat in H. subst st. apply init_inv1. Qed.

Theorem net_c01 N xs : Forall nop_wf xs -> net_steps_c01 (ninit N) ghost0 xs.
Proof. apply net_c01_from. apply netinv_init. Qed.

(* ---- the state after a network history: every node satisfies its invariant w.r.t. the sets IT learned *)
Definition LInv (L : nat -> list gset) (n : net) : Prop :=
  forall i st, nth_error (nodes n) i = Some st -> exists O, Inv1 O (L i) st.

Lemma learned_after_resolve n x i o j L : resolve n x = Some (i, o) ->
  (if (j =? i)%nat then ProcSpec.learned_after L o else L) = learn1 j L x.
Proof.
  destruct x as [i' e|i' k|i' g|i' k]; cbn [resolve learn1]; intros H.
  - inversion H; subst. rewrite (Nat.eqb_sym j i). destruct e; cbn [op_of_env ProcSpec.learned_after]; destruct (i =? j)%nat; reflexivity.
  - destruct (nth_error (pool n) k) as [g|]; [|discriminate]. inversion H; subst. destruct g; cbn; destruct (j =? i)%nat; reflexivity.
  - inversion H; subst. destruct g; cbn; destruct (j =? i)%nat; reflexivity.
  - inversion H; subst. cbn. destruct (j =? i)%nat; reflexivity.
Qed.

Lemma learn1_nochange_unresolved n x j L : resolve n x = None -> learn1 j L x = L.
Proof. destruct x as [i' e|i' k|i' g|i' k]; cbn [resolve learn1]; try discriminate; reflexivity. Qed.

Lemma linv_mono_learn j L x : incl L (learn1 j L x).
Proof. destruct x as [i [g| | | |]| | |]; cbn [learn1]; try apply incl_refl. destruct (i =? j)%nat; [apply incl_tl|]; apply incl_refl. Qed.

Lemma Inv1_mono_L O L L' st : incl L L' -> Forall ProcSpec.gs_wf L' -> Inv1 O L st -> Inv1 O L' st.
Proof.
  intros HL Hwf [H1 H2 H3 H4]. constructor.
  - eapply Forall_impl; [|exact H1]. intros p. apply eok_mono; [apply incl_refl|exact HL].
  - eapply Forall_impl; [|exact H2]. intros p. apply stored_ok_mono. exact HL.
  - intros g Hg. apply HL. apply H3. exact Hg.
  - exact Hwf.
Qed.

Lemma learn1_wf j L x : nop_wf x -> Forall ProcSpec.gs_wf L -> Forall ProcSpec.gs_wf (learn1 j L x).
Proof. destruct x as [i [g| | | |]| | |]; cbn [learn1 nop_wf]; intros Hw HL; try exact HL. destruct (i =? j)%nat; [constructor; assumption|exact HL]. Qed.

Lemma linv_step L n x : LInv L n -> nop_wf x -> LInv (fun j => learn1 j (L j) x) (fst (nstep n x)).
Proof.
  intros HI Hw.
  assert (Hidle : LInv (fun j => learn1 j (L j) x) n).
  { intros j st Hj. destruct (HI j st Hj) as [O HO]. exists O. eapply Inv1_mono_L; [apply linv_mono_learn| |exact HO].
    apply learn1_wf; [exact Hw|]. apply (J_wf _ _ _ _ _ HO). }
  destruct (resolve n x) as [[i o]|] eqn:Hr; [|rewrite (nstep_idle_resolve n x Hr); exact Hidle].
  destruct (nth_error (nodes n) i) as [st|] eqn:Hn; [|rewrite (nstep_idle_node n x i o Hr Hn); exact Hidle].
  rewrite (nstep_unfold n x i o st Hr Hn). cbn [fst nodes].
  intros j stj Hj. cbn [nodes] in Hj. destruct (Nat.eq_dec j i) as [->|Hne].
  - rewrite (nth_error_set_nth_same _ _ _ _ Hn) in Hj. inversion Hj; subst stj.
    destruct (HI i st Hn) as [O HO].
    destruct (step_c01 recover keccak (signs i) (owns i) gov_chain gov_addr O (L i) st o HO (resolve_wf n x i o Hw Hr)) as [H1 _].
    eexists. rewrite <- (learned_after_resolve n x i o i (L i) Hr), Nat.eqb_refl. exact H1.
  - rewrite nth_error_set_nth_other in Hj by exact Hne. apply Hidle. exact Hj.
Qed.

Lemma linv_run : forall xs L n, LInv L n -> Forall nop_wf xs ->
  LInv (fun j => fold_left (learn1 j) xs (L j)) (fst (nrun n xs)).
Proof.
  induction xs as [|x xs IH]; intros L n HI Hw; cbn [System.nrun fold_left]; [exact HI|].
  inversion Hw as [|? ? Hw1 Hw2]; subst.
  pose proof (linv_step L n x HI Hw1) as H1. destruct (nstep n x) as [n1 o1]. cbn [fst] in H1.
  specialize (IH _ n1 H1 Hw2). destruct (nrun n1 xs) as [n2 os]. cbn [fst] in *. exact IH.
Qed.

Theorem net_reachable_inv N xs i st : Forall nop_wf xs -> nth_error (nodes (fst (nrun (ninit N) xs))) i = Some st ->
  exists O, Inv1 O (net_learned i xs) st.
Proof.
  intros Hw Hn.
  assert (H0 : LInv (fun _ => []) (ninit N)).
  { intros j stj Hj. cbn [ninit nodes] in Hj. apply nth_error_repeat in Hj. subst stj. exists []. apply init_inv1. }
  exact (linv_run xs _ _ H0 Hw i st Hn).
Qed.

(* what every node persists after any network history *)
Theorem net_store N xs i st : Forall nop_wf xs -> nth_error (nodes (fst (nrun (ninit N) xs))) i = Some st ->
  Forall (ProcSpec.stored_ok recover keccak (net_learned i xs)) (db st).
Proof. intros Hw Hn. destruct (net_reachable_inv N xs i st Hw Hn) as [O HO]. apply (J_db _ _ _ _ _ HO). Qed.

(* ---- projection: what happens to node i in a network history is a single-node history of the processor model *)
Lemma nstep_nodes_length n x : length (nodes (fst (nstep n x))) = length (nodes n).
Proof.
  unfold System.nstep. destruct (resolve n x) as [[i o]|]; [|reflexivity].
  destruct (nth_error (nodes n) i) as [st|]; [|reflexivity].
  destruct (node_step i st o) as [st' outs]. cbn [fst nodes]. apply length_set_nth.
Qed.

Theorem projection : forall xs n i st, nth_error (nodes n) i = Some st ->
  nth_error (nodes (fst (nrun n xs))) i = Some (fst (node_run i st (ops_of i (trace n xs)))).
Proof.
  induction xs as [|x xs IH]; intros n i st Hn; cbn [System.nrun System.trace]; [exact Hn|].
  assert (Hstep : forall st1 tr, nth_error (nodes (fst (nstep n x))) i = Some st1 ->
            fst (node_run i st (ops_of i tr)) = fst (node_run i st1 (ops_of i (trace (fst (nstep n x)) xs))) ->
            nth_error (nodes (fst (let '(n1, o1) := nstep n x in let '(n2, os) := nrun n1 xs in (n2, o1 :: os)))) i =
            Some (fst (node_run i st (ops_of i tr)))).
  { intros st1 tr H1 H2. specialize (IH (fst (nstep n x)) i st1 H1). destruct (nstep n x) as [n1 o1]. cbn [fst] in *.
    destruct (nrun n1 xs) as [n2 os]. cbn [fst] in *. rewrite IH, H2. reflexivity. }
  destruct (resolve n x) as [[j o]|] eqn:Hr.
  2:{ apply (Hstep st); [rewrite (nstep_idle_resolve n x Hr); exact Hn|reflexivity]. }
  destruct (nth_error (nodes n) j) as [stj|] eqn:Hj.
  2:{ assert (Hlt : (j <? length (nodes n))%nat = false) by (apply Nat.ltb_ge; apply nth_error_None; exact Hj). rewrite Hlt.
      apply (Hstep st); [rewrite (nstep_idle_node n x j o Hr Hj); exact Hn|reflexivity]. }
  assert (Hlt : (j <? length (nodes n))%nat = true) by (apply Nat.ltb_lt; apply nth_error_Some; congruence). rewrite Hlt.
  destruct (Nat.eq_dec j i) as [->|Hne].
  - rewrite Hn in Hj. inversion Hj; subst stj.
    apply (Hstep (fst (node_step i st o))).
    + rewrite (nstep_unfold n x i o st Hr Hn). cbn [fst nodes]. apply (nth_error_set_nth_same _ _ _ _ Hn).
    + unfold ops_of. cbn [filter fst]. rewrite Nat.eqb_refl. cbn [map snd]. unfold System.node_run, System.node_step. cbn [Processor.run].
      destruct (Processor.step recover keccak (signs i) (owns i) gov_chain gov_addr st o) as [st1 out1]. cbn [fst].
      destruct (Processor.run recover keccak (signs i) (owns i) gov_chain gov_addr st1 _) as [st2 outs]. reflexivity.
  - apply (Hstep st).
    + rewrite (nstep_unfold n x j o stj Hr Hj). cbn [fst nodes]. rewrite nth_error_set_nth_other by congruence. exact Hn.
    + unfold ops_of. cbn [filter fst]. destruct (Nat.eqb_spec j i); [contradiction|]. reflexivity.
Qed.

Lemma trace_wf : forall xs n, Forall nop_wf xs -> Forall (fun p => ProcSpec.op_wf (snd p)) (trace n xs).
Proof.
  induction xs as [|x xs IH]; intros n Hw; cbn [System.trace]; [constructor|].
  inversion Hw as [|? ? Hw1 Hw2]; subst.
  destruct (resolve n x) as [[j o]|] eqn:Hr; [|apply IH; exact Hw2].
  destruct (j <? length (nodes n))%nat; [|apply IH; exact Hw2].
  constructor; [exact (resolve_wf n x j o Hw1 Hr)|apply IH; exact Hw2].
Qed.

Lemma ops_of_wf i tr : Forall (fun p => ProcSpec.op_wf (snd p)) tr -> Forall ProcSpec.op_wf (ops_of i tr).
Proof.
  unfold ops_of. induction tr as [|p tr IH]; intros H; cbn [filter map]; [constructor|].
  inversion H; subst. destruct (fst p =? i)%nat; cbn [map]; [constructor; [assumption|]|]; apply IH; assumption.
Qed.

(* node i's state after a network history from the initial network = its state after its own projected history *)
Lemma nth_error_repeat_lt {A} (a : A) : forall n i, (i < n)%nat -> nth_error (repeat a n) i = Some a.
Proof. induction n as [|n IH]; intros i Hi; [lia|]. destruct i as [|i]; cbn [repeat nth_error]; [reflexivity|apply IH; lia]. Qed.

Theorem projection_init N xs i : (i < N)%nat ->
  nth_error (nodes (fst (nrun (ninit N) xs))) i = Some (fst (node_run i init (ops_of i (trace (ninit N) xs)))).
Proof. intros Hi. apply projection. cbn [ninit nodes]. apply nth_error_repeat_lt. exact Hi. Qed.

Theorem projected_wf n xs i : Forall nop_wf xs -> Forall ProcSpec.op_wf (ops_of i (trace n xs)).
Proof. intros Hw. apply ops_of_wf. apply trace_wf. exact Hw. Qed.
End Net.

(* ================================================================== 3. served = stored (C01 o C12) *)
Lemma vid_of_id_of v : vid_of (Processor.id_of v) = Db.id_of v.
Proof. reflexivity. Qed.

Lemma db_store_get d : forall k b, Db.get (db_store d) k = Some b -> exists i, In (i, b) d /\ Db.key (vid_of i) = k.
Proof.
  induction d as [|[i0 b0] d IH]; intros k b H; cbn [db_store fold_right] in H; [discriminate|].
  fold (db_store d) in H. cbn [fst snd] in H. rewrite DbProofs.get_put in H.
  destruct (bytes_eqb_spec (Db.key (vid_of i0)) k) as [E|_].
  - inversion H; subst. exists i0. split; [left; reflexivity|reflexivity].
  - destruct (IH k b H) as (i & Hin & Hk). exists i. split; [right; exact Hin|exact Hk].
Qed.

Lemma db_store_sorted d : DbProofs.sorted (db_store d).
Proof. induction d as [|p d IH]; cbn [db_store fold_right]; [constructor|]. apply DbProofs.sorted_put. exact IH. Qed.

(* exactly the lookup of the processor model, when the identifiers are representable (key rendering injective) *)
Lemma vid_of_inj i j : vid_of i = vid_of j -> i = j.
Proof. destruct i as [[[c1 a1] t1] s1], j as [[[c2 a2] t2] s2]. cbn [vid_of]. intros H. inversion H. reflexivity. Qed.

Lemma db_store_get_exact d i : Forall (fun p => DbProofs.idwf (vid_of (fst p))) d -> DbProofs.idwf (vid_of i) ->
  Db.get (db_store d) (Db.key (vid_of i)) = dlookup i d.
Proof.
  intros F Hi. induction d as [|[i0 b0] d IH]; [reflexivity|].
  inversion F as [|? ? H0 F']; subst. cbn [fst] in H0. cbn [db_store fold_right dlookup]. fold (db_store d). cbn [fst snd].
  rewrite DbProofs.get_put, (DbProofs.key_eqb _ _ H0 Hi).
  destruct (Processor.id_eqb i i0) eqn:E.
  - apply ProcessorProofs.id_eqb_eq in E. subst i0. rewrite DbProofs.id_eqb_refl. reflexivity.
  - destruct (DbProofs.id_eqb (vid_of i0) (vid_of i)) eqn:E2; [|apply IH; exact F'].
    apply DbProofs.id_eqb_eq in E2. apply vid_of_inj in E2. subst i0.
    assert (Processor.id_eqb i i = true) by (apply ProcessorProofs.id_eqb_eq; reflexivity). congruence.
Qed.

Section Served.
Variable recover : bytes -> bytes -> option bytes.
Variable keccak : bytes -> bytes.
Variable gov_chain : Z.
Variable gov_addr : bytes.
Variable owns : nat -> addr.
Variable signs : nat -> bytes -> bytes.
Notation nrun := (System.nrun recover keccak gov_chain gov_addr owns signs).
Notation qvalid := (ProcSpec.qvalid recover keccak).

(* whatever the public RPC of any node returns, after any network history, for any request, is the wire form of a VAA that
   carries a valid quorum of a guardian set that node learned from chain, stored under the key the request renders to *)
Theorem served_is_quorum_valid N xs i st ec ahex tc sq b : Forall nop_wf xs ->
  nth_error (nodes (fst (nrun (ninit N) xs))) i = Some st ->
  serve st ec ahex tc sq = Db.ROk b ->
  exists a v g, Db.decode_emitter ahex = Some a /\ b = marshal v /\
    Db.key (Db.id_of v) = Db.key (Db.rpc_id ec a tc sq) /\
    (DbProofs.idwf (Db.id_of v) -> 0 <= sq -> Db.id_of v = Db.rpc_id ec a tc sq) /\
    In g (net_learned i xs) /\ qvalid v (keys g).
Proof.
  intros Hw Hn Hs. unfold serve, Db.rpc_get_signed_vaa in Hs.
  destruct (Db.decode_emitter ahex) as [a|] eqn:Ea; [|discriminate].
  unfold Db.get_signed_vaa_bytes in Hs. destruct (Db.get (db_store (db st)) _) as [b'|] eqn:Eg; [|discriminate].
  inversion Hs; subst b'. destruct (db_store_get _ _ _ Eg) as (id & Hin & Hk).
  pose proof (net_store recover keccak gov_chain gov_addr owns signs N xs i st Hw Hn) as F. rewrite Forall_forall in F.
  destruct (F _ Hin) as (v & g & H1 & H2 & H3 & H4). cbn [fst snd] in H1, H2. subst id.
  exists a, v, g. split; [reflexivity|]. split; [exact H1|]. rewrite vid_of_id_of in Hk. split; [exact Hk|]. split; [|split; assumption].
  intros Hv Hsq. apply DbProofs.key_inj; [exact Hv| |exact Hk].
  unfold Db.decode_emitter in Ea. destruct (Db.unhex ahex) as [a'|]; [|discriminate].
  destruct (Nat.eqb_spec (length a') 32) as [Hl|]; [|discriminate]. inversion Ea; subst a'.
  unfold DbProofs.idwf, Db.rpc_id, Db.chain16. cbn [Db.i_ec Db.i_ea Db.i_tc Db.i_seq].
  repeat split; try exact Hl; try exact Hsq; apply Z.mod_pos_bound; lia.
Qed.
End Served.

(* ================================================================== 4. agreement / equivocation resistance (C01 o C07) *)
Section Agreement.
Variable recover : bytes -> bytes -> option bytes.
Variable keccak : bytes -> bytes.
Notation rec := (Processor.rec recover).
Notation dg := (Processor.dg keccak).
Notation qvalid := (ProcSpec.qvalid recover keccak).

(* "a has a valid signature in v over v's own digest" — no cryptographic meaning attached: [recover] is arbitrary *)
Definition signed_by (v : vaa) (a : addr) : Prop := exists s, In s (sigs v) /\ rec (dg v) (s_data s) = Some a.

Lemma forall2_signed (P : sig -> addr -> Prop) : forall ss l, Forall2 P ss l -> forall a, In a l -> exists s, In s ss /\ P s a.
Proof.
  induction 1 as [|s a ss l Hs _ IH]; intros a' Hin; [destruct Hin|].
  destruct Hin as [<-|Hin]; [exists s; split; [left; reflexivity|exact Hs]|].
  destruct (IH a' Hin) as (s' & H1 & H2). exists s'. split; [right; exact H1|exact H2].
Qed.

(* any two quorum-valid VAAs of one guardian set — whatever their bodies — were signed by a common set of more than a third of
   the guardians *)
Theorem two_quorums_share_signers v1 v2 K : qvalid v1 K -> qvalid v2 K ->
  exists common : list addr, NoDup common /\ incl common K /\ 3 * Z.of_nat (length common) > Z.of_nat (length K) /\
    forall a, In a common -> signed_by v1 a /\ signed_by v2 a.
Proof.
  intros Q1 Q2.
  destruct (qvalid_distinct_members recover keccak v1 K Q1) as (l1 & N1 & I1 & G1 & F1).
  destruct (qvalid_distinct_members recover keccak v2 K Q2) as (l2 & N2 & I2 & G2 & F2).
  rewrite go_quorum_spec in G1, G2 by lia.
  exists (inter bytes_eqb l1 l2). split; [apply NoDup_filter; exact N2|]. split.
  { intros a Ha. apply filter_In in Ha as [Ha _]. apply I2. exact Ha. }
  split; [exact (quorums_intersect bytes_eqb bytes_eqb_spec K l1 l2 N1 N2 I1 I2 G1 G2)|].
  intros a Ha. apply filter_In in Ha as [Ha2 Ha1]. apply (QuorumProofs.memb_In bytes_eqb bytes_eqb_spec) in Ha1. split.
  - exact (forall2_signed _ _ _ F1 a Ha1).
  - exact (forall2_signed _ _ _ F2 a Ha2).
Qed.

Lemma incl_or_witness (l f : list addr) : incl l f \/ exists a, In a l /\ ~ In a f.
Proof.
  induction l as [|a l IH]; [left; intros x []|].
  destruct (in_dec bytes_eq_dec a f) as [Ha|Ha]; [|right; exists a; split; [left; reflexivity|exact Ha]].
  destruct IH as [IH|(b & Hb & Hn)]; [left; intros x [<-|Hx]; [exact Ha|apply IH; exact Hx]|right; exists b; split; [right; exact Hb|exact Hn]].
Qed.

(* equivocation resistance without a cryptographic assumption: if at most a third of the set is "faulty" and no other member has
   valid signatures over two different digests (this is where honesty of the signer AND unforgeability enter — as a hypothesis
   about [recover], not as an axiom), then two quorum-valid VAAs of that set have the same digest *)
Theorem no_conflicting_quorums v1 v2 K (faulty : list addr) : qvalid v1 K -> qvalid v2 K ->
  3 * Z.of_nat (length faulty) <= Z.of_nat (length K) ->
  (forall a, In a K -> ~ In a faulty -> signed_by v1 a -> signed_by v2 a -> dg v1 = dg v2) ->
  dg v1 = dg v2.
Proof.
  intros Q1 Q2 Hf Hh. destruct (two_quorums_share_signers v1 v2 K Q1 Q2) as (c & Nc & Ic & Hc & Hs).
  destruct (incl_or_witness c faulty) as [Hi|(a & Ha & Hn)].
  - pose proof (NoDup_incl_length Nc Hi). lia.
  - destruct (Hs a Ha) as [S1 S2]. apply (Hh a); [apply Ic; exact Ha|exact Hn|exact S1|exact S2].
Qed.

(* two guardians that observed the SAME chain message build the same unsigned VAA up to the set index they name: same body, same
   digest, same identifier; under the same set the VAAs they publish differ in the signature section only *)
Lemma same_message_same_vaa m i j sgi sgj :
  let vi := set_sigs (vaa_of_message i m) sgi in let vj := set_sigs (vaa_of_message j m) sgj in
  body vi = body vj /\ dg vi = dg vj /\ Processor.id_of vi = Processor.id_of vj /\ (i = j -> set_sigs vi [] = set_sigs vj []).
Proof. cbv zeta. repeat apply conj; try reflexivity. intros ->. reflexivity. Qed.

Theorem honest_publications_agree m g sgi sgj :
  let vi := set_sigs (vaa_of_message (gidx g) m) sgi in let vj := set_sigs (vaa_of_message (gidx g) m) sgj in
  qvalid vi (keys g) -> qvalid vj (keys g) ->
  body vi = body vj /\ dg vi = dg vj /\ Processor.id_of vi = Processor.id_of vj /\ set_sigs vi [] = set_sigs vj [] /\
  exists common : list addr, NoDup common /\ incl common (keys g) /\ 3 * Z.of_nat (length common) > Z.of_nat (length (keys g)) /\
    forall a, In a common -> signed_by vi a /\ signed_by vj a.
Proof.
  cbv zeta. intros Q1 Q2. repeat apply conj; try reflexivity. exact (two_quorums_share_signers _ _ _ Q1 Q2).
Qed.
End Agreement.

(* what the ghost log records for a chain observation: the VAA built from the message's fields and the index of the set in force *)
Lemma origin_of_chain_form keccak sign own gc ga st o v snap :
  In (v, snap, true) (ProcSpec.origin_of keccak sign own gc ga st o) ->
  exists m g, o = LocalMsg m /\ cur st = Some g /\ v = vaa_of_message (gidx g) m /\ snap = Some g.
Proof.
  destruct o as [g0|t|m|v0|ob|k|b|]; cbn [ProcSpec.origin_of]; intros Hin; try (destruct Hin; fail).
  - destruct (cur st) as [g|]; [|destruct Hin]. destruct (snd _); [destruct Hin|]. destruct Hin as [E|[]]. inversion E; subst. exists m, g. repeat split.
  - destruct Hin as [E|[]]. inversion E.
Qed.

(* ================================================================== 5. downstream acceptance chain *)
Section Downstream.
Variable recover : bytes -> bytes -> option bytes.
Variable keccak : bytes -> bytes.
Notation qvalid := (ProcSpec.qvalid recover keccak).

Lemma qvalid_wf v K : qvalid v K -> (length K <= 255)%nat -> wf (set_sigs v []) -> wf v.
Proof.
  intros Hq HK Hwf. destruct (qvalid_sigs_wf recover keccak v K Hq HK) as [Hsw Hsn].
  destruct Hwf as [w1 w2 w3 w4 w5 w6 w7 w8 w9 w10 w11 w12 w13].
  cbn [set_sigs version gsidx sigs ts tns nonce echain tchain eaddr seq cl payload] in *. constructor; assumption.
Qed.

(* (ii) the explorer: the bytes a guardian publishes pass main.go's decode and Push's gate against the set the VAA names *)
Theorem explorer_accepts_published chain qcap est v g :
  qvalid v (keys g) -> gsidx v = gidx g -> wf v ->
  explorer_knows (Explorer.p_gs est) g ->
  ~ In (Explorer.key_of v) (Explorer.p_seen est) -> (length (Explorer.p_queue est) < qcap)%nat ->
  explorer_ingest recover keccak chain qcap est (marshal v) =
  ({| Explorer.p_gs := Explorer.p_gs est; Explorer.p_seen := Explorer.key_of v :: Explorer.p_seen est;
      Explorer.p_queue := Explorer.p_queue est ++ [(v, marshal v)] |}, Some Explorer.PEnqueued).
Proof.
  intros Hq Hidx W [Hle Hnth] Hns Hlen. unfold explorer_ingest. rewrite (DbProofs.unmarshal_marshal v W).
  unfold Explorer.push. cbn [fst]. unfold Explorer.get. rewrite Hidx.
  rewrite (proj2 (Z.leb_le _ _) Hle), Hnth. cbn [Explorer.g_keys].
  assert (Hv : Explorer.verify_vaa (recover_checked recover) keccak v (Some (keys g)) = None).
  { apply ExplorerProofs.verify_vaa_ok. exists (keys g). split; [reflexivity|].
    destruct Hq as [Hacc Hn].
    assert (Hpos : 1 <= go_quorum (Z.of_nat (length (keys g)))) by (apply go_quorum_pos; lia).
    split; [intros E; rewrite E in Hn; cbn [length] in Hn; lia|]. split; [exact Hn|].
    apply verify_sigs_iff. exact Hacc. }
  rewrite Hv. unfold Explorer.dedup_apply. rewrite (ExplorerProofs.seenb_false _ _ Hns).
  unfold Explorer.enqueue. rewrite (proj2 (Nat.ltb_lt _ _) Hlen). reflexivity.
Qed.

(* (iii) the contracts: both parsers read the fields the Go serializer wrote, hash the same pre-image (the body), and their
   signature-count tests pass for the size of that set *)
Theorem contracts_accept_published v K : qvalid v K -> wf v ->
  Contracts.sol_parse (marshal v) =
    Some {| Contracts.sv_header := Contracts.go_header_fields v; Contracts.sv_sigs := map Contracts.go_sig_fields (sigs v);
            Contracts.sv_body := Contracts.go_body_fields v; Contracts.sv_payload := payload v; Contracts.sv_hashed := body v |} /\
  sol_accepts_count (length K) (marshal v) = true /\
  Contracts.ral_parse (marshal v) =
    Some {| Contracts.rv_gsidx := gsidx v; Contracts.rv_numsigs := Z.of_nat (length (sigs v));
            Contracts.rv_sig_records := map (fun s => (s_idx s, s_data s)) (sigs v); Contracts.rv_hashed := body v;
            Contracts.rv_echain := echain v; Contracts.rv_tchain := tchain v; Contracts.rv_eaddr := eaddr v; Contracts.rv_seq := seq v;
            Contracts.rv_payload := payload v |} /\
  ral_accepts_count (length K) (marshal v) = true.
Proof.
  intros Hq W. destruct (qvalid_passes_contract_quorum recover keccak v K Hq) as [Hs Hr].
  pose proof (LayoutProofs.sol_parse_marshal v (wf_version v W) (wf_nsigs v W) (wf_sigs v W) (wf_ea v W)) as Ps.
  pose proof (LayoutProofs.ral_parse_marshal v W) as Pr.
  split; [exact Ps|]. split; [unfold sol_accepts_count; rewrite Ps; cbn [Contracts.sv_sigs]; rewrite map_length; exact Hs|].
  split; [exact Pr|]. unfold ral_accepts_count. rewrite Pr. cbn [Contracts.rv_numsigs]. exact Hr.
Qed.

(* (iv) the spy: Publish(bytes) sends to exactly the subscriptions without filters or with a filter equal to the VAA's emitter,
   whatever the iteration order over the subscription map, and returns no error *)
Theorem spy_delivers_to_matching v subs : wf v -> NoDup (map fst subs) ->
  snd (spy_plan subs (marshal v)) = false /\
  forall i s, Spy.lookup i subs = Some s -> (In i (fst (spy_plan subs (marshal v))) <-> spy_matches v s).
Proof.
  intros W ND. unfold spy_plan, Spy.emitter_of. rewrite (DbProofs.unmarshal_marshal v W).
  destruct (SpyProofs.plan_decodable (echain v) (eaddr v) subs ND) as [He Hc]. split; [exact He|].
  intros i s Hl. specialize (Hc i s Hl). unfold SpyProofs.zcount in Hc.
  rewrite (count_occ_In Z.eq_dec), Hc. unfold spy_matches. destruct (Spy.s_filters s) as [|f0 t] eqn:Ef.
  - split; [intros _; left; reflexivity|intros _; lia].
  - split.
    + intros Hpos. right. destruct (filter (Spy.fmatch (echain v) (eaddr v)) (f0 :: t)) as [|f l] eqn:EF; [cbn [length] in Hpos; lia|].
      assert (Hf : In f (filter (Spy.fmatch (echain v) (eaddr v)) (f0 :: t))) by (rewrite EF; left; reflexivity).
      apply filter_In in Hf as [Hf Hm]. exists f. split; [exact Hf|]. unfold Spy.fmatch in Hm. apply andb_true_iff in Hm as [H1 H2].
      apply Z.eqb_eq in H1. apply bytes_eqb_eq in H2. split; assumption.
    + intros [Hc0|(f & Hf & Hfc & Hfa)]; [discriminate|].
      assert (Hin : In f (filter (Spy.fmatch (echain v) (eaddr v)) (f0 :: t))).
      { apply filter_In. split; [exact Hf|]. unfold Spy.fmatch. rewrite Hfc, Hfa, Z.eqb_refl, bytes_eqb_refl. reflexivity. }
      destruct (filter _ (f0 :: t)); [destruct Hin|cbn [length]; lia].
Qed.
End Downstream.
