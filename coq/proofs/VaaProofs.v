(* Proofs about the VAA codec model: C05 (round trips), C04 (body layout, injectivity), C06 (verification iff). *)
From Coq Require Import List ZArith Lia Bool Arith.
From Coq Require Import Strings.Byte.
From WH Require Import lib.Bytes gen.Extracted model.Vaa.
Import ListNotations.
Open Scope Z_scope.

(* ------------------------------------------------------------------ reads *)
Lemma rd_app n e a b : length a = n -> rd n e (a ++ b) = Ok (a, b).
Proof. intros H. unfold rd. rewrite take_app by assumption. reflexivity. Qed.

Lemma rd_be n e x b : rd n e (be n x ++ b) = Ok (be n x, b).
Proof. apply rd_app, be_length. Qed.

Lemma rd_inv n e l a r : rd n e l = Ok (a, r) -> l = a ++ r /\ length a = n.
Proof. unfold rd. destruct (take n l) as [[a' r']|] eqn:E; [|discriminate].
  intros H; inversion H; subst. apply take_inv; assumption. Qed.

Lemma parse_sigs_enc ss rest : Forall wf_sig ss ->
  parse_sigs (length ss) (flat_map enc_sig ss ++ rest) = Ok (ss, rest).
Proof.
  induction ss as [|s ss IH]; intros H; [reflexivity|].
  inversion H as [|? ? [Hi Hd] Hss]; subst.
  cbn [length parse_sigs flat_map]. unfold enc_sig at 1. rewrite <- !app_assoc.
  rewrite rd_be. rewrite (rd_app 65) by assumption. rewrite IH by assumption.
  rewrite unbe_be_small by exact Hi. destruct s; reflexivity.
Qed.

Lemma body_length v : length (body v) = (21 + length (eaddr v) + length (payload v))%nat.
Proof. unfold body. rewrite !app_length, !be_length. lia. Qed.

Lemma marshal_length v :
  length (marshal v) = (6 + length (flat_map enc_sig (sigs v)) + length (body v))%nat.
Proof. unfold marshal. rewrite !app_length, !be_length. lia. Qed.

Lemma sigs_enc_length ss : Forall wf_sig ss -> length (flat_map enc_sig ss) = (66 * length ss)%nat.
Proof.
  induction ss as [|s ss IH]; intros H; [reflexivity|]. inversion H as [|? ? [_ Hd] Hss]; subst.
  cbn [flat_map length]. rewrite app_length. unfold enc_sig at 1. rewrite app_length, be_length, Hd, IH by assumption. lia.
Qed.

(* ------------------------------------------------------------------ C05 (a): decode (encode v) = v *)
Lemma min_len_le_59 : (vaa_min_len <= 59)%nat.
Proof. vm_compute. repeat constructor. Qed.

Theorem unmarshal_marshal_nocap v : wf v -> unmarshal_with None (marshal v) = Ok v.
Proof.
  intros W. destruct W as [wf_version0 Wgs Wns Wsigs Wts wf_tns0 Wno Wec Wtc Wea Wseq Wcl Wpl]. unfold unmarshal_with.
  rewrite marshal_length, body_length.
  destruct (payload v) as [|p0 pl] eqn:EP; [contradiction|].
  pose proof min_len_le_59 as Hm.
  destruct (Nat.ltb_spec (6 + length (flat_map enc_sig (sigs v)) + (21 + length (eaddr v) + length (p0 :: pl))) vaa_min_len) as [Hl|Hl];
    [cbn [length] in Hl; lia|].
  unfold marshal, body.
  rewrite rd_be. rewrite unbe_be_small by (rewrite wf_version0; unfold rng; vm_compute; split; [discriminate|reflexivity]).
  rewrite wf_version0, Z.eqb_refl. cbn [negb].
  rewrite rd_be, rd_be.
  rewrite unbe_be_small by (unfold rng; cbn; lia). rewrite Nat2Z.id.
  rewrite parse_sigs_enc by assumption.
  rewrite !rd_be. rewrite (rd_app 32) by assumption. rewrite !rd_be.
  rewrite !unbe_be_small by assumption.
  rewrite EP. rewrite <- EP, <- wf_version0, <- wf_tns0. destruct v; reflexivity.
Qed.

Lemma parse_sigs_inv n : forall l ss r, parse_sigs n l = Ok (ss, r) ->
  l = flat_map enc_sig ss ++ r /\ length ss = n /\ Forall wf_sig ss.
Proof.
  induction n as [|n IH]; intros l ss r H; cbn [parse_sigs] in H.
  - inversion H; subst. repeat split; constructor.
  - destruct (rd 1 ESigIndex l) as [[i l1]|] eqn:E1; [|discriminate].
    destruct (rd 65 ESig l1) as [[d l2]|] eqn:E2; [|discriminate].
    destruct (parse_sigs n l2) as [[ss' l3]|] eqn:E3; [|discriminate].
    inversion H; subst. apply rd_inv in E1 as [-> Li]. apply rd_inv in E2 as [-> Ld].
    apply IH in E3 as (-> & Ln & Hf).
    split; [|split].
    + cbn [flat_map]. unfold enc_sig. cbn [s_idx s_data]. rewrite (be_unbe_n 1 i Li). rewrite <- !app_assoc. reflexivity.
    + cbn. lia.
    + constructor; [|assumption]. split; cbn [s_idx s_data]; [|assumption].
      unfold rng. apply unbe_range. assumption.
Qed.

(* ------------------------------------------------------------------ C05 (b),(c): accepted input re-encodes to itself, is well formed *)
Theorem marshal_unmarshal_nocap data v : unmarshal_with None data = Ok v -> marshal v = data /\ wf v.
Proof.
  unfold unmarshal_with. destruct (Nat.ltb_spec (length data) vaa_min_len) as [|Hlen]; [discriminate|].
  destruct (rd 1 ETooShort data) as [[ver l0]|] eqn:E0; [|discriminate].
  destruct (Z.eqb_spec (unbe ver) vaa_version) as [Hv|]; cbn [negb]; [|discriminate].
  destruct (rd 4 EGsIndex l0) as [[gi l1]|] eqn:E1; [|discriminate].
  destruct (rd 1 ESigLen l1) as [[ns l2]|] eqn:E2; [|discriminate].
  destruct (parse_sigs (Z.to_nat (unbe ns)) l2) as [[ss l3]|] eqn:E3; [|discriminate].
  destruct (rd 4 ETimestamp l3) as [[t l4]|] eqn:E4; [|discriminate].
  destruct (rd 4 ENonce l4) as [[no l5]|] eqn:E5; [|discriminate].
  destruct (rd 2 EEChain l5) as [[ec l6]|] eqn:E6; [|discriminate].
  destruct (rd 2 ETChain l6) as [[tc l7]|] eqn:E7; [|discriminate].
  destruct (rd 32 EEAddr l7) as [[ea l8]|] eqn:E8; [|discriminate].
  destruct (rd 8 ESeq l8) as [[sq l9]|] eqn:E9; [|discriminate].
  destruct (rd 1 ECL l9) as [[c l10]|] eqn:E10; [|discriminate].
  destruct l10 as [|p0 pl] eqn:EP; [discriminate|]. intros H; inversion H; subst v; clear H.
  apply rd_inv in E0 as [-> L0]. apply rd_inv in E1 as [-> L1]. apply rd_inv in E2 as [-> L2].
  apply parse_sigs_inv in E3 as (-> & Ln & Hf).
  apply rd_inv in E4 as [-> L4]. apply rd_inv in E5 as [-> L5]. apply rd_inv in E6 as [-> L6].
  apply rd_inv in E7 as [-> L7]. apply rd_inv in E8 as [-> L8]. apply rd_inv in E9 as [-> L9].
  apply rd_inv in E10 as [-> L10].
  split.
  - unfold marshal, body; cbn [version gsidx sigs ts nonce echain tchain eaddr seq cl payload].
    rewrite (be_unbe_n 1 ver L0), (be_unbe_n 4 gi L1), (be_unbe_n 4 t L4), (be_unbe_n 4 no L5),
            (be_unbe_n 2 ec L6), (be_unbe_n 2 tc L7), (be_unbe_n 8 sq L9), (be_unbe_n 1 c L10).
    rewrite Ln. rewrite Z2Nat.id by apply unbe_nonneg. rewrite (be_unbe_n 1 ns L2).
    reflexivity.
  - constructor; cbn [version gsidx sigs ts tns nonce echain tchain eaddr seq cl payload]; auto;
      try (apply unbe_range; assumption).
    + rewrite Ln. pose proof (unbe_range 1 ns L2) as R. cbn in R. lia.
    + discriminate.
Qed.

(* the decoder with a fixed buffer of c bytes loses data: witness for every c >= 1 *)
Definition long_payload_vaa (c : nat) : vaa :=
  {| version := vaa_version; gsidx := 0; sigs := []; ts := 5; tns := 0; nonce := 0; echain := 2; tchain := 255;
     eaddr := repeat x00 32; seq := 1; cl := 1; payload := repeat x07 (S c) |}.

(* ------------------------------------------------------------------ C04: the signing body *)
Lemma app_inv_len {A} (a a' b b' : list A) : length a = length a' -> a ++ b = a' ++ b' -> a = a' /\ b = b'.
Proof.
  revert a'; induction a as [|x a IH]; intros [|y a'] L E; cbn in *; try discriminate; [split; auto|].
  inversion E; subst. destruct (IH a' ltac:(lia) H1) as [-> ->]. split; reflexivity.
Qed.

Lemma be_eq_mod n x y : be n x = be n y -> x mod 256 ^ Z.of_nat n = y mod 256 ^ Z.of_nat n.
Proof. intros E. rewrite <- !unbe_be, E. reflexivity. Qed.

(* two VAAs with the same signing body agree on every body field (as they appear on the wire) *)
Theorem body_inj v1 v2 : length (eaddr v1) = 32%nat -> length (eaddr v2) = 32%nat -> body v1 = body v2 ->
  ts v1 mod 2 ^ 32 = ts v2 mod 2 ^ 32 /\ nonce v1 mod 2 ^ 32 = nonce v2 mod 2 ^ 32 /\
  echain v1 mod 2 ^ 16 = echain v2 mod 2 ^ 16 /\ tchain v1 mod 2 ^ 16 = tchain v2 mod 2 ^ 16 /\
  eaddr v1 = eaddr v2 /\ seq v1 mod 2 ^ 64 = seq v2 mod 2 ^ 64 /\ cl v1 mod 2 ^ 8 = cl v2 mod 2 ^ 8 /\
  payload v1 = payload v2.
Proof.
  intros A1 A2. unfold body. intros E.
  apply app_inv_len in E as [E1 E]; [|rewrite !be_length; reflexivity].
  apply app_inv_len in E as [E2 E]; [|rewrite !be_length; reflexivity].
  apply app_inv_len in E as [E3 E]; [|rewrite !be_length; reflexivity].
  apply app_inv_len in E as [E4 E]; [|rewrite !be_length; reflexivity].
  apply app_inv_len in E as [E5 E]; [|congruence].
  apply app_inv_len in E as [E6 E]; [|rewrite !be_length; reflexivity].
  apply app_inv_len in E as [E7 E]; [|rewrite !be_length; reflexivity].
  apply be_eq_mod in E1, E2, E3, E4, E6, E7.
  change (256 ^ Z.of_nat 4) with (2 ^ 32) in *. change (256 ^ Z.of_nat 2) with (2 ^ 16) in *.
  change (256 ^ Z.of_nat 8) with (2 ^ 64) in *. change (256 ^ Z.of_nat 1) with (2 ^ 8) in *.
  repeat split; assumption.
Qed.

(* for in-range field values "agree on the wire" is plain equality *)
Corollary body_inj_wf v1 v2 : wf v1 -> wf v2 -> body v1 = body v2 ->
  ts v1 = ts v2 /\ nonce v1 = nonce v2 /\ echain v1 = echain v2 /\ tchain v1 = tchain v2 /\
  eaddr v1 = eaddr v2 /\ seq v1 = seq v2 /\ cl v1 = cl v2 /\ payload v1 = payload v2.
Proof.
  intros W1 W2 E. destruct W1 as [? ? ? ? ? ? ? ? ? wf_ea0 ? ? ?], W2 as [? ? ? ? ? ? ? ? ? wf_ea1 ? ? ?].
  destruct (body_inj v1 v2 wf_ea0 wf_ea1 E) as (H1 & H2 & H3 & H4 & H5 & H6 & H7 & H8).
  unfold rng in *.
  change (256 ^ Z.of_nat 4) with (2 ^ 32) in *. change (256 ^ Z.of_nat 2) with (2 ^ 16) in *.
  change (256 ^ Z.of_nat 8) with (2 ^ 64) in *. change (256 ^ Z.of_nat 1) with (2 ^ 8) in *.
  rewrite !Z.mod_small in * by assumption. repeat split; assumption.
Qed.

(* the body ignores version, set index, signatures and the sub-second part of the timestamp *)
Definition same_body_fields (v1 v2 : vaa) : Prop :=
  ts v1 = ts v2 /\ nonce v1 = nonce v2 /\ echain v1 = echain v2 /\ tchain v1 = tchain v2 /\
  eaddr v1 = eaddr v2 /\ seq v1 = seq v2 /\ cl v1 = cl v2 /\ payload v1 = payload v2.

Theorem body_indep v1 v2 : same_body_fields v1 v2 -> body v1 = body v2.
Proof. intros (H1 & H2 & H3 & H4 & H5 & H6 & H7 & H8). unfold body. congruence. Qed.

(* where the body sits in the wire form: offset 6 + 66 * #signatures, up to the end *)
Theorem body_offset v : Forall wf_sig (sigs v) ->
  slice (marshal v) (6 + 66 * length (sigs v)) (length (marshal v)) = Some (body v).
Proof.
  intros Hs. unfold marshal.
  set (hdr := be 1 (version v) ++ be 4 (gsidx v) ++ be 1 (Z.of_nat (length (sigs v))) ++ flat_map enc_sig (sigs v)).
  assert (Hl : length hdr = (6 + 66 * length (sigs v))%nat).
  { unfold hdr. rewrite !app_length, !be_length, sigs_enc_length by assumption. lia. }
  replace (be 1 (version v) ++ be 4 (gsidx v) ++ be 1 (Z.of_nat (length (sigs v))) ++ flat_map enc_sig (sigs v) ++ body v)
    with (hdr ++ body v) by (unfold hdr; rewrite <- !app_assoc; reflexivity).
  rewrite <- Hl. apply slice_to_end.
Qed.

(* fixed offsets of the fields inside the body *)
Lemma slice_at (pre m post : bytes) (from to : nat) :
  length pre = from -> (from + length m = to)%nat -> slice (pre ++ m ++ post) from to = Some m.
Proof. intros <- <-. apply slice_app_mid. Qed.

Ltac peel k := rewrite (slice_skip _ _ _ _ k) by (rewrite ?be_length; first [assumption|reflexivity|lia]); cbn [Nat.sub].

Theorem body_field_offsets v : length (eaddr v) = 32%nat ->
  slice (body v) 0 4 = Some (be 4 (ts v)) /\
  slice (body v) 4 8 = Some (be 4 (nonce v)) /\
  slice (body v) 8 10 = Some (be 2 (echain v)) /\
  slice (body v) 10 12 = Some (be 2 (tchain v)) /\
  slice (body v) 12 44 = Some (eaddr v) /\
  slice (body v) 44 52 = Some (be 8 (seq v)) /\
  slice (body v) 52 53 = Some (be 1 (cl v)) /\
  slice (body v) 53 (length (body v)) = Some (payload v).
Proof.
  intros Ha. rewrite body_length, Ha. unfold body.
  repeat apply conj.
  - apply slice_head, be_length.
  - peel 4%nat. apply slice_head, be_length.
  - peel 4%nat. peel 4%nat. apply slice_head, be_length.
  - peel 4%nat. peel 4%nat. peel 2%nat. apply slice_head, be_length.
  - peel 4%nat. peel 4%nat. peel 2%nat. peel 2%nat. apply slice_head, Ha.
  - peel 4%nat. peel 4%nat. peel 2%nat. peel 2%nat. peel 32%nat. apply slice_head, be_length.
  - peel 4%nat. peel 4%nat. peel 2%nat. peel 2%nat. peel 32%nat. peel 8%nat. apply slice_head, be_length.
  - peel 4%nat. peel 4%nat. peel 2%nat. peel 2%nat. peel 32%nat. peel 8%nat. peel 1%nat.
    apply slice_all. lia.
Qed.

(* header fields and the i-th signature record in the wire form *)
Theorem header_offsets v :
  slice (marshal v) 0 1 = Some (be 1 (version v)) /\
  slice (marshal v) 1 5 = Some (be 4 (gsidx v)) /\
  slice (marshal v) 5 6 = Some (be 1 (Z.of_nat (length (sigs v)))).
Proof.
  unfold marshal. repeat apply conj.
  - apply (slice_at []); [reflexivity|rewrite be_length; reflexivity].
  - apply (slice_at (be 1 (version v))); [apply be_length|rewrite be_length; reflexivity].
  - rewrite (app_assoc (be 1 (version v))).
    apply slice_at; [rewrite app_length, !be_length; reflexivity|rewrite be_length; reflexivity].
Qed.

Lemma flat_map_split {A B} (f : A -> list B) l1 x l2 : flat_map f (l1 ++ x :: l2) = flat_map f l1 ++ f x ++ flat_map f l2.
Proof. rewrite flat_map_app. cbn [flat_map]. reflexivity. Qed.

Theorem sig_record_offset v l1 s l2 : sigs v = l1 ++ s :: l2 -> Forall wf_sig (sigs v) ->
  let off := (6 + 66 * length l1)%nat in
  slice (marshal v) off (off + 1) = Some (be 1 (s_idx s)) /\
  slice (marshal v) (off + 1) (off + 66) = Some (s_data s).
Proof.
  intros E F off.
  set (pre := be 1 (version v) ++ be 4 (gsidx v) ++ be 1 (Z.of_nat (length (sigs v))) ++ flat_map enc_sig l1).
  assert (EM : marshal v = pre ++ be 1 (s_idx s) ++ s_data s ++ (flat_map enc_sig l2 ++ body v)).
  { unfold marshal, pre. rewrite E at 2. rewrite flat_map_split. unfold enc_sig at 2. rewrite <- !app_assoc. reflexivity. }
  rewrite E in F. apply Forall_app in F as [F1 F2]. inversion F2 as [|? ? [Hi Hd] F3]; subst.
  assert (Hp : length pre = off).
  { unfold pre, off. rewrite !app_length, !be_length, sigs_enc_length by assumption. lia. }
  rewrite EM. split.
  - rewrite (slice_skip _ _ _ _ off) by (first [assumption|lia]).
    replace (off - off)%nat with 0%nat by lia. replace (off + 1 - off)%nat with 1%nat by lia.
    apply slice_head, be_length.
  - rewrite (slice_skip _ _ _ _ off) by (first [assumption|lia]).
    replace (off + 1 - off)%nat with 1%nat by lia. replace (off + 66 - off)%nat with 66%nat by lia.
    rewrite (slice_skip _ _ _ _ 1%nat) by (rewrite ?be_length; first [reflexivity|lia]). cbn [Nat.sub].
    apply slice_head, Hd.
Qed.

(* ------------------------------------------------------------------ C06: verification accepts exactly ... *)
Section VerifyProofs.
Variable recover : bytes -> bytes -> option bytes.

Fixpoint increasing (last : Z) (l : list Z) : Prop :=
  match l with [] => True | x :: t => last < x /\ increasing x t end.

Definition signer_ok (h : bytes) (addrs : list bytes) (s : sig) : Prop :=
  s_idx s < Z.of_nat (length addrs) /\
  exists a, recover h (s_data s) = Some a /\ nth_error addrs (Z.to_nat (s_idx s)) = Some a.

Definition signers (h : bytes) (ss : list sig) : list (option bytes) := map (fun s => recover h (s_data s)) ss.

Lemma existsb_bytes a l : existsb (bytes_eqb a) l = true <-> In a l.
Proof.
  rewrite existsb_exists. split.
  - intros (x & Hx & E). apply bytes_eqb_eq in E. subst. assumption.
  - intros H. exists a. split; [assumption|apply bytes_eqb_refl].
Qed.

Lemma verify_loop_spec h addrs : forall ss last seen,
  verify_loop recover h addrs last seen ss = true <->
  (increasing last (map s_idx ss) /\ Forall (signer_ok h addrs) ss /\ NoDup (signers h ss) /\
   forall a, In (Some a) (signers h ss) -> ~ In a seen).
Proof.
  induction ss as [|s t IH]; intros last seen; cbn [verify_loop map increasing signers].
  - split; [intros _; repeat split; try constructor; intros a []|reflexivity].
  - destruct (Z.leb_spec (Z.of_nat (length addrs)) (s_idx s)) as [Hge|Hlt].
    { split; [discriminate|]. intros (_ & F & _). inversion F as [|? ? [Hc _] _]; subst. lia. }
    destruct (Z.leb_spec (s_idx s) last) as [Hle|Hgt].
    { split; [discriminate|]. intros ((Hc & _) & _). lia. }
    destruct (recover h (s_data s)) as [a|] eqn:ER.
    2:{ split; [discriminate|]. intros (_ & F & _). inversion F as [|? ? [_ (a & Ha & _)] _]; subst. congruence. }
    destruct (nth_error addrs (Z.to_nat (s_idx s))) as [a'|] eqn:EN.
    2:{ split; [discriminate|]. intros (_ & F & _). inversion F as [|? ? [_ (a0 & _ & Ha)] _]; subst. congruence. }
    destruct (bytes_eqb_spec a a') as [<-|Hne]; cbn [negb].
    2:{ split; [discriminate|]. intros (_ & F & _). inversion F as [|? ? [_ (a0 & Ha0 & Ha)] _]; subst. congruence. }
    destruct (existsb (bytes_eqb a) seen) eqn:ES.
    { split; [discriminate|]. intros (_ & _ & _ & D). apply existsb_bytes in ES. exfalso. apply (D a); [left; reflexivity|assumption]. }
    assert (Hns : ~ In a seen) by (intros Hc; apply existsb_bytes in Hc; congruence).
    rewrite IH. fold (signers h t). split.
    + intros (I & F & N & D). split; [split; assumption|]. split.
      { constructor; [|assumption]. split; [assumption|]. exists a. split; assumption. }
      split.
      { constructor; [|assumption]. intros Hin. apply (D a Hin). apply in_or_app. right. left. reflexivity. }
      intros b [Hb|Hb]; [inversion Hb; subst; assumption|]. intros Hc. apply (D b Hb). apply in_or_app. left. assumption.
    + intros ((_ & I) & F & N & D). inversion F as [|? ? _ F']; subst. inversion N as [|? ? Hn N']; subst.
      split; [assumption|]. split; [assumption|]. split; [assumption|].
      intros b Hb Hc. apply in_app_or in Hc as [Hc|[Hc|[]]].
      * apply (D b); [right; assumption|assumption].
      * subst b. apply Hn. exact Hb.
Qed.

(* pigeonhole: strictly increasing indices in (last, n) — at most n - last - 1 of them *)
Lemma increasing_length l : forall last n, increasing last l -> Forall (fun x => x < n) l -> Z.of_nat (length l) <= Z.max 0 (n - last - 1).
Proof.
  induction l as [|x t IH]; intros last n I F; cbn [length]; [lia|].
  destruct I as [Hx I]. inversion F as [|? ? Hn F']; subst.
  specialize (IH x n I F'). lia.
Qed.

Definition accepts (h : bytes) (addrs : list bytes) (ss : list sig) : Prop :=
  increasing (-1) (map s_idx ss) /\ Forall (signer_ok h addrs) ss /\ NoDup (signers h ss).

Variable keccak : bytes -> bytes.

Theorem verify_sigs_iff v addrs :
  verify_sigs recover keccak v addrs = true <-> accepts (digest keccak v) addrs (sigs v).
Proof.
  unfold verify_sigs, accepts.
  destruct (Nat.ltb_spec (length addrs) (length (sigs v))) as [Hlt|Hge].
  - split; [discriminate|]. intros (I & F & _). exfalso.
    assert (F' : Forall (fun x => x < Z.of_nat (length addrs)) (map s_idx (sigs v))).
    { apply Forall_map. eapply Forall_impl; [|exact F]. intros s [Hs _]. exact Hs. }
    pose proof (increasing_length _ _ _ I F') as L. rewrite map_length in L. lia.
  - rewrite verify_loop_spec. split; [intros (I & F & N & _); auto|].
    intros (I & F & N). repeat split; try assumption. intros a _ [].
Qed.

(* when the address list has no repeats, distinct signers already follow from increasing indices *)
Lemma increasing_lt last l : increasing last l -> Forall (fun x => last < x) l.
Proof.
  revert last; induction l as [|x t IH]; intros last I; constructor.
  - apply I.
  - destruct I as [Hx I]. eapply Forall_impl; [|apply IH; exact I]. cbn. intros; lia.
Qed.

Theorem nodup_addrs_signers_distinct h addrs ss : NoDup addrs ->
  increasing (-1) (map s_idx ss) -> Forall (signer_ok h addrs) ss -> NoDup (signers h ss).
Proof.
  intros ND. assert (HL : -1 <= -1) by lia. revert HL. generalize (-1) at 2 3.
  induction ss as [|s t IH]; intros last HL I F; cbn [signers map]; [constructor|].
  destruct I as [Hs I]. inversion F as [|? ? [Hb (a & Ha & Hn)] F']; subst.
  constructor; [|eapply (IH (s_idx s)); [lia|eassumption|eassumption]].
  intros Hin. apply in_map_iff in Hin as (s' & Hs' & Hin').
  pose proof (increasing_lt _ _ I) as L. rewrite Forall_forall in L.
  assert (s_idx s < s_idx s') by (apply L, in_map; assumption).
  rewrite Forall_forall in F'. destruct (F' s' Hin') as [Hb' (a' & Ha' & Hn')].
  assert (a' = a) by congruence. subst a'.
  pose proof (proj1 (NoDup_nth_error addrs) ND (Z.to_nat (s_idx s)) (Z.to_nat (s_idx s'))) as Inj.
  assert (Z.to_nat (s_idx s) = Z.to_nat (s_idx s')); [|lia].
  apply Inj; [apply nth_error_Some; congruence|congruence].
Qed.

(* consequences named in the property: duplicating or swapping entries of any list makes it fail *)
Corollary accepts_no_dup_entry h addrs l1 s l2 l3 : ~ accepts h addrs (l1 ++ s :: l2 ++ s :: l3).
Proof.
  intros (_ & _ & N). unfold signers in N. rewrite map_app in N. cbn [map] in N. rewrite map_app in N. cbn [map] in N.
  apply NoDup_remove_2 in N. apply N. apply in_or_app. right. apply in_or_app. right. left. reflexivity.
Qed.

Lemma increasing_app_inv last l1 x l2 : increasing last (l1 ++ x :: l2) -> increasing x l2 /\ last < x.
Proof.
  revert last; induction l1 as [|y l1 IH]; intros last I; cbn in I.
  - tauto.
  - destruct I as [Hy I]. destruct (IH y I). split; [assumption|lia].
Qed.

Corollary accepts_sorted h addrs l1 s1 l2 s2 l3 : accepts h addrs (l1 ++ s1 :: l2 ++ s2 :: l3) -> s_idx s1 < s_idx s2.
Proof.
  intros (I & _ & _). rewrite map_app in I. cbn [map] in I. rewrite map_app in I. cbn [map] in I.
  apply increasing_app_inv in I as [I _]. apply increasing_app_inv in I as [_ I]. exact I.
Qed.

Corollary accepts_in_set h addrs ss s : accepts h addrs ss -> In s ss ->
  exists a, recover h (s_data s) = Some a /\ In a addrs.
Proof.
  intros (_ & F & _) Hin. rewrite Forall_forall in F. destruct (F s Hin) as [_ (a & Ha & Hn)].
  exists a. split; [assumption|]. eapply nth_error_In; eassumption.
Qed.
End VerifyProofs.
