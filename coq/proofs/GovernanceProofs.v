(* Proofs about model/Governance.v (C15). *)
From Coq Require Import Strings.String.
From Coq Require Import List ZArith Lia Bool Arith.
From Coq Require Import Strings.Byte.
From WH Require Import lib.Bytes lib.Ralph gen.Extracted gen.ExtractedGov model.Vaa model.AlphConv proofs.AlphConvProofs model.Governance.
Import ListNotations.
Import ExtractedGov.GoPay ExtractedGov.RalGov.
Open Scope Z_scope.

(* ------------------------------------------------------------------ the envelope *)
Definition envelope_ok (c : gcfg) (e : genv) (v : vaa) : Prop :=
  version v = vaa_version /\ sigs v = [] /\ gsidx v = e_gsi e /\ ts v = e_ts e /\ tns v = 0 /\ nonce v = e_nonce e /\
  echain v = g_chain c /\ tchain v = e_tchain e /\ eaddr v = g_addr c /\ seq v = e_seq e /\ cl v = 32.

Lemma create_envelope c e p : envelope_ok c e (create_governance_vaa c e p) /\ payload (create_governance_vaa c e p) = p.
Proof. unfold envelope_ok. repeat apply conj; reflexivity. Qed.

Lemma with_payload_ok c e o v : with_payload c e o = GOk v -> exists p, o = Some p /\ v = create_governance_vaa c e p.
Proof. unfold with_payload. destruct o as [p|]; [|discriminate]. intros H. inversion H. exists p. auto. Qed.

Lemma with_payload_no_panic c e o : o <> None -> with_payload c e o <> GPanic.
Proof. unfold with_payload. destruct o; [discriminate|contradiction]. Qed.

(* ------------------------------------------------------------------ evaluation of the generated Ralph code *)
Lemma r_slice_eq p pre m post lo hi : p = pre ++ m ++ post -> Z.of_nat (length pre) = lo -> Z.of_nat (length pre + length m) = hi ->
  r_slice (Some (RB p)) (Some (RZ lo)) (Some (RZ hi)) = Some (RB m).
Proof. intros ->. apply r_slice_mid. Qed.

Lemma rassert_true k : rassert (Some (RBool true)) k = k.
Proof. reflexivity. Qed.
Lemma rlet_some v k : rlet (Some v) k = k v.
Proof. reflexivity. Qed.

Lemma len_app (a b : bytes) : length (a ++ b) = (length a + length b)%nat.
Proof. apply app_length. Qed.

(* normalise the lengths that occur in side conditions *)
Ltac lens := unfold bytes in *; repeat (rewrite ?app_length, ?be_length, ?repeat_length in * );
  change (length go_CoreModule) with 32%nat in *; change (length go_TokenBridgeModule) with 32%nat in *; cbn [length] in *; try lia;
  try (repeat match goal with x := _ |- _ => subst x end; lia).

(* ------------------------------------------------------------------ module / action check (parseAndVerifyGovernanceVAAGeneric) *)
Lemma generic_passes M A rest module action gc ga tseq v :
  payload v = M ++ A ++ rest -> length M = 32%nat ->
  module = Some (RZ (unbe M)) -> action = Some (RB A) -> length A = 1%nat ->
  echain v = gc -> eaddr v = ga -> tseq <= seq v ->
  ral_generic module action gc ga tseq v =
  Some ([RZ (seq v); RZ (tchain v); RB (payload v)], []).
Proof.
  intros Hp LM -> -> LA Hc Ha Hs. unfold ral_generic, ral_parseAndVerifyGovernanceVAAGeneric, r_var, r_num.
  rewrite r_eq_Z, Hc, Z.eqb_refl, rassert_true.
  rewrite r_eq_B, Ha, bytes_eqb_refl, rassert_true.
  unfold r_ge, r_cmp. replace (seq v >=? tseq) with true by (symmetry; apply Z.geb_le; lia). rewrite rassert_true.
  rewrite (r_slice_eq (payload v) [] M (A ++ rest) 0 32) by (try exact Hp; cbn [length]; lia).
  rewrite (r_u256from_ok 32 M LM), r_eq_Z, Z.eqb_refl, rassert_true.
  rewrite (r_slice_eq (payload v) M A rest 32 33) by (try exact Hp; lia).
  rewrite r_eq_B, bytes_eqb_refl, rassert_true. reflexivity.
Qed.

(* the module constants of the two contract files are the numbers the Go module byte strings denote *)
Lemma core_module_agrees : ral_module_gov = Some (RZ (unbe go_CoreModule)) /\ length go_CoreModule = 32%nat.
Proof. split; reflexivity. Qed.
Lemma tb_module_agrees : ral_module_tb = Some (RZ (unbe go_TokenBridgeModule)) /\ length go_TokenBridgeModule = 32%nat.
Proof. split; reflexivity. Qed.

(* ------------------------------------------------------------------ hex strings *)
Lemma hex_decode_len s b : hex_decode s = Some b -> Z.of_nat (length s) = 2 * Z.of_nat (length b).
Proof. intros H. apply hex_decode_inv in H as [H _]. lia. Qed.

(* ------------------------------------------------------------------ UpdateMessageFee / submitSetMessageFee *)
Lemma parse_message_fee b p tc : length b = 32%nat -> ser_UpdateMessageFee b = Some p ->
  p = go_CoreModule ++ [x03] ++ b /\
  ral_submitSetMessageFee (RZ tc) (RB p) (RZ tc) =
  Some ([], [("fee"%string, RZ (unbe b)); ("messageFee"%string, RZ (unbe b))]).
Proof.
  intros L H.
  assert (Hp : p = (go_CoreModule ++ [x03] ++ b)%list) by (unfold ser_UpdateMessageFee in H; change (be 1 3) with [x03] in H; congruence).
  clear H. split; [exact Hp|].
  assert (Lp : Z.of_nat (length p) = 65) by (rewrite Hp; lens).
  unfold ral_submitSetMessageFee, r_var, r_num.
  rewrite r_eq_Z, Z.eqb_refl, rassert_true.
  rewrite (r_slice_eq p (go_CoreModule ++ [x03]) b [] 33 65)
    by (try (rewrite Hp, app_nil_r, <- app_assoc; reflexivity); lens).
  rewrite (r_u256from_ok 32 b L), rlet_some.
  rewrite r_size_ok, Lp, r_eq_Z. change (65 =? 65) with true. rewrite rassert_true. reflexivity.
Qed.

(* ------------------------------------------------------------------ TransferFee / submitTransferFees *)
Lemma parse_transfer_fee a r p tc chainId : length a = 32%nat -> length r = 32%nat -> ser_TransferFee a r = Some p ->
  tc = chainId \/ tc = 0 ->
  p = go_CoreModule ++ [x04] ++ a ++ r /\
  ral_submitTransferFees (RZ tc) (RB p) (RZ chainId) =
  Some ([], [("amount"%string, RZ (unbe a)); ("recipient"%string, RB r)]).
Proof.
  intros La Lr H Ht.
  assert (Hp : p = (go_CoreModule ++ [x04] ++ a ++ r)%list) by (unfold ser_TransferFee in H; change (be 1 4) with [x04] in H; congruence).
  clear H. split; [exact Hp|].
  assert (Lp : Z.of_nat (length p) = 97) by (rewrite Hp; lens).
  unfold ral_submitTransferFees, r_var, r_num.
  rewrite !r_eq_Z. unfold r_or.
  replace ((tc =? chainId) || (tc =? 0)) with true
    by (symmetry; apply orb_true_iff; destruct Ht as [->| ->]; [left|right]; apply Z.eqb_refl).
  rewrite rassert_true.
  rewrite (r_slice_eq p (go_CoreModule ++ [x04]) a r 33 65) by (try (rewrite Hp, <- app_assoc; reflexivity); lens).
  rewrite (r_u256from_ok 32 a La), rlet_some.
  rewrite (r_slice_eq p (go_CoreModule ++ [x04] ++ a) r [] 65 97)
    by (try (rewrite Hp, app_nil_r, <- !app_assoc; reflexivity); lens).
  rewrite rlet_some, r_size_ok, Lp, r_eq_Z. change (97 =? 97) with true. rewrite rassert_true. reflexivity.
Qed.

(* ------------------------------------------------------------------ GuardianSetUpgrade / submitNewGuardianSet *)
Lemma concat_length20 (keys : list bytes) : Forall (fun k => length k = 20%nat) keys -> length (concat keys) = (20 * length keys)%nat.
Proof.
  induction keys as [|k keys IH]; intros F; [reflexivity|]. cbn [concat length]. rewrite app_length, (Forall_inv F), (IH (Forall_inv_tail F)). lia.
Qed.

Lemma parse_guardian_set keys idx p tc chainId cur :
  Forall (fun k => length k = 20%nat) keys -> (0 < length keys <= 255)%nat -> 0 <= idx < 4294967296 -> idx = cur + 1 ->
  ser_GuardianSetUpgrade keys idx = Some p -> tc = chainId \/ tc = 0 ->
  p = go_CoreModule ++ [x02] ++ be 4 idx ++ be 1 (Z.of_nat (length keys)) ++ concat keys /\
  ral_submitNewGuardianSet (RZ tc) (RB p) (RZ chainId) (RZ cur) =
  Some ([], [("newGuardianSetIndex"%string, RZ idx); ("newGuardianSetSize"%string, RZ (Z.of_nat (length keys)));
             ("payloadSize"%string, RZ (38 + Z.of_nat (length keys) * 20)); ("guardianSetIndexes[1]"%string, RZ idx);
             ("guardianSets[1]"%string, RB (be 1 (Z.of_nat (length keys)) ++ concat keys))]).
Proof.
  intros F Ln Hi Hcur H Ht. set (n := Z.of_nat (length keys)) in *.
  assert (Hp : p = (go_CoreModule ++ [x02] ++ be 4 idx ++ be 1 n ++ concat keys)%list)
    by (subst n; unfold ser_GuardianSetUpgrade in H; change (be 1 2) with [x02] in H; congruence).
  clear H. split; [exact Hp|].
  pose proof (concat_length20 keys F) as Lc.
  assert (Lp : Z.of_nat (length p) = 38 + n * 20) by (rewrite Hp; lens).
  unfold ral_submitNewGuardianSet, r_var, r_num.
  rewrite !r_eq_Z. unfold r_or.
  replace ((tc =? chainId) || (tc =? 0)) with true
    by (symmetry; apply orb_true_iff; destruct Ht as [->| ->]; [left|right]; apply Z.eqb_refl).
  rewrite rassert_true.
  rewrite (r_slice_eq p (go_CoreModule ++ [x02]) (be 4 idx) (be 1 n ++ concat keys) 33 37) by (try (rewrite Hp, <- app_assoc; reflexivity); lens).
  rewrite (r_u256from_be 4 idx) by (change (256 ^ Z.of_nat 4) with 4294967296; lia). rewrite rlet_some.
  rewrite (r_add_ok cur 1) by (unfold u256_max; lia). rewrite r_eq_Z.
  replace (idx =? cur + 1) with true by (symmetry; apply Z.eqb_eq; exact Hcur). rewrite rassert_true.
  rewrite (r_slice_eq p (go_CoreModule ++ [x02] ++ be 4 idx) (be 1 n) (concat keys) 37 38) by (try (rewrite Hp, <- !app_assoc; reflexivity); lens).
  rewrite (r_u256from_be 1 n) by (change (256 ^ Z.of_nat 1) with 256; lia). rewrite rlet_some.
  unfold r_gt, r_cmp. replace (n >? 0) with true by (symmetry; apply Z.gtb_lt; lia). rewrite rassert_true.
  rewrite (r_mul_ok n 20) by (unfold u256_max; lia). rewrite (r_add_ok 38 (n * 20)) by (unfold u256_max; lia). rewrite rlet_some.
  rewrite r_size_ok, Lp, r_eq_Z, Z.eqb_refl, rassert_true, rlet_some.
  rewrite (r_slice_eq p (go_CoreModule ++ [x02] ++ be 4 idx) (be 1 n ++ concat keys) [] 37 (38 + n * 20))
    by (try (rewrite Hp, app_nil_r, <- !app_assoc; reflexivity); lens).
  rewrite rlet_some. reflexivity.
Qed.

(* ------------------------------------------------------------------ TokenBridgeRegisterChain / parseAndVerifyRegisterChain *)
Lemma parse_register_chain module ch ea p tc L :
  (length module <= 32)%nat -> 0 <= ch < 65536 -> length ea = 32%nat ->
  ser_TokenBridgeRegisterChain module ch ea = Some p -> tc = L \/ tc = 0 -> ch <> L ->
  p = (repeat x00 (32 - length module) ++ module) ++ [x01] ++ be 2 ch ++ ea /\
  ral_parseAndVerifyRegisterChain (RZ tc) (RB p) (RZ L) =
  Some ([RZ ch; RB ea], [("remoteChainId"%string, RZ ch); ("remoteTokenBridgeId"%string, RB ea)]).
Proof.
  intros Lm Hc Le H Ht Hne. set (M := (repeat x00 (32 - length module) ++ module)%list).
  assert (LM : length M = 32%nat) by (unfold M; rewrite app_length, repeat_length; lia).
  assert (Hp : p = (M ++ [x01] ++ be 2 ch ++ ea)%list).
  { unfold ser_TokenBridgeRegisterChain in H. destruct (32 <? Z.of_nat (length module)); [discriminate|].
    change (be 1 1) with [x01] in H. unfold M. rewrite <- app_assoc. congruence. }
  clear H. split; [exact Hp|].
  assert (Lp : Z.of_nat (length p) = 67) by (rewrite Hp; lens).
  unfold ral_parseAndVerifyRegisterChain, r_var, r_num.
  rewrite !r_eq_Z. unfold r_or.
  replace ((tc =? L) || (tc =? 0)) with true
    by (symmetry; apply orb_true_iff; destruct Ht as [->| ->]; [left|right]; apply Z.eqb_refl).
  rewrite rassert_true.
  rewrite (r_slice_eq p (M ++ [x01]) (be 2 ch) ea 33 35) by (try (rewrite Hp, <- app_assoc; reflexivity); lens).
  rewrite (r_u256from_be 2 ch) by (change (256 ^ Z.of_nat 2) with 65536; lia). rewrite rlet_some.
  unfold r_ne. rewrite r_eq_Z. replace (ch =? L) with false by (symmetry; apply Z.eqb_neq; exact Hne).
  cbn [r_not negb]. rewrite rassert_true.
  rewrite (r_slice_eq p (M ++ [x01] ++ be 2 ch) ea [] 35 67) by (try (rewrite Hp, app_nil_r, <- !app_assoc; reflexivity); lens).
  rewrite rlet_some, r_size_ok, Lp, r_eq_Z. change (67 =? 67) with true. rewrite rassert_true, !rlet_some. reflexivity.
Qed.

(* ------------------------------------------------------------------ TokenBridgeDestroyContracts / destroyUnexecutedSequenceContracts *)
Lemma flat_map_be8_length (seqs : list Z) : length (flat_map (be 8) seqs) = (8 * length seqs)%nat.
Proof. induction seqs as [|s t IH]; [reflexivity|]. cbn [flat_map length]. rewrite app_length, be_length, IH. lia. Qed.

Lemma parse_destroy ec seqs p tc :
  0 <= ec < 65536 -> 0 < Z.of_nat (length seqs) <= 65535 ->
  ser_TokenBridgeDestroyContracts ec seqs = Some p ->
  p = go_TokenBridgeModule ++ [xf0] ++ be 2 ec ++ be 2 (Z.of_nat (length seqs)) ++ flat_map (be 8) seqs /\
  ral_destroyUnexecutedSequenceContracts (RZ tc) (RB p) (RZ tc) =
  Some ([], [("remoteChainIdBytes"%string, RB (be 2 ec)); ("length"%string, RZ (Z.of_nat (length seqs)));
             ("payloadSize"%string, RZ (37 + Z.of_nat (length seqs) * 8)); ("paths"%string, RB (flat_map (be 8) seqs))]).
Proof.
  intros He Ln H. set (n := Z.of_nat (length seqs)) in *.
  assert (Hp : p = (go_TokenBridgeModule ++ [xf0] ++ be 2 ec ++ be 2 n ++ flat_map (be 8) seqs)%list)
    by (subst n; unfold ser_TokenBridgeDestroyContracts in H; change (be 1 240) with [xf0] in H; congruence).
  clear H. split; [exact Hp|].
  pose proof (flat_map_be8_length seqs) as Lf.
  assert (Lp : Z.of_nat (length p) = 37 + n * 8) by (rewrite Hp; lens).
  unfold ral_destroyUnexecutedSequenceContracts, r_var, r_num.
  rewrite r_eq_Z, Z.eqb_refl, rassert_true.
  rewrite (r_slice_eq p (go_TokenBridgeModule ++ [xf0]) (be 2 ec) (be 2 n ++ flat_map (be 8) seqs) 33 35)
    by (try (rewrite Hp, <- app_assoc; reflexivity); lens).
  rewrite rlet_some.
  rewrite (r_slice_eq p (go_TokenBridgeModule ++ [xf0] ++ be 2 ec) (be 2 n) (flat_map (be 8) seqs) 35 37)
    by (try (rewrite Hp, <- !app_assoc; reflexivity); lens).
  rewrite (r_u256from_be 2 n) by (change (256 ^ Z.of_nat 2) with 65536; lia). rewrite rlet_some.
  unfold r_gt, r_cmp. replace (n >? 0) with true by (symmetry; apply Z.gtb_lt; lia). rewrite rassert_true.
  rewrite (r_mul_ok n 8) by (unfold u256_max; lia). rewrite (r_add_ok 37 (n * 8)) by (unfold u256_max; lia). rewrite rlet_some.
  rewrite r_size_ok, Lp, r_eq_Z, Z.eqb_refl, rassert_true.
  rewrite (r_slice_eq p (go_TokenBridgeModule ++ [xf0] ++ be 2 ec ++ be 2 n) (flat_map (be 8) seqs) [] 37 (37 + n * 8))
    by (try (rewrite Hp, app_nil_r, <- !app_assoc; reflexivity); lens).
  rewrite rlet_some. reflexivity.
Qed.

(* the 8-byte big-endian groups of [paths] are the requested sequences *)
Fixpoint u64s (fuel : nat) (l : bytes) : list Z :=
  match fuel with O => [] | S f => match l with [] => [] | _ => unbe (firstn 8 l) :: u64s f (skipn 8 l) end end.
Lemma u64s_flat_map seqs : Forall (fun s => 0 <= s < 18446744073709551616) seqs -> u64s (length seqs) (flat_map (be 8) seqs) = seqs.
Proof.
  induction seqs as [|s t IH]; intros F; [reflexivity|]. cbn [flat_map length u64s].
  destruct (be 8 s ++ flat_map (be 8) t) as [|x r] eqn:E.
  - apply (f_equal (@length byte)) in E. rewrite app_length, be_length in E. discriminate.
  - rewrite <- E. rewrite firstn_app, be_length, Nat.sub_diag, firstn_O, app_nil_r.
    rewrite (firstn_all2 (be 8 s)) by (rewrite be_length; lia).
    rewrite skipn_app, be_length, Nat.sub_diag, skipn_O, (skipn_all2 (be 8 s)) by (rewrite be_length; lia). cbn [app].
    rewrite unbe_be_small by (pose proof (Forall_inv F) as Hs; cbn beta in Hs; change (256 ^ Z.of_nat 8) with 18446744073709551616; lia).
    rewrite (IH (Forall_inv_tail F)). reflexivity.
Qed.

(* ------------------------------------------------------------------ UpdateMinimalConsistencyLevel *)
Lemma parse_min_level l p tc : 0 <= l < 256 -> ser_TokenBridgeUpdateMinimalConsistencyLevel l = Some p ->
  p = go_TokenBridgeModule ++ [xf1] ++ be 1 l /\
  ral_updateMinimalConsistencyLevel (RZ tc) (RB p) (RZ tc) =
  Some ([], [("consistencyLevel"%string, RZ l); ("minimalConsistencyLevel"%string, RZ l)]).
Proof.
  intros Hl H.
  assert (Hp : p = (go_TokenBridgeModule ++ [xf1] ++ be 1 l)%list)
    by (unfold ser_TokenBridgeUpdateMinimalConsistencyLevel in H; change (be 1 241) with [xf1] in H; congruence).
  clear H. split; [exact Hp|].
  assert (Lp : Z.of_nat (length p) = 34) by (rewrite Hp; lens).
  unfold ral_updateMinimalConsistencyLevel, r_var, r_num.
  rewrite r_eq_Z, Z.eqb_refl, rassert_true, r_size_ok, Lp, r_eq_Z. change (34 =? 34) with true. rewrite rassert_true.
  rewrite (r_slice_eq p (go_TokenBridgeModule ++ [xf1]) (be 1 l) [] 33 34) by (try (rewrite Hp, app_nil_r, <- app_assoc; reflexivity); lens).
  rewrite (r_u256from_be 1 l) by (change (256 ^ Z.of_nat 1) with 256; lia). rewrite !rlet_some. reflexivity.
Qed.

(* ------------------------------------------------------------------ UpdateRefundAddress *)
Lemma parse_refund a p tc : Z.of_nat (length a) <= 65535 -> ser_TokenBridgeUpdateRefundAddress a = Some p ->
  p = go_TokenBridgeModule ++ [xf2] ++ be 2 (Z.of_nat (length a)) ++ a /\
  ral_updateRefundAddress (RZ tc) (RB p) (RZ tc) =
  Some ([], [("addressSize"%string, RZ (Z.of_nat (length a))); ("payloadSize"%string, RZ (35 + Z.of_nat (length a)));
             ("newRefundAddress"%string, RB a); ("refundAddress"%string, RB a)]).
Proof.
  intros La H. set (n := Z.of_nat (length a)) in *.
  assert (Hp : p = (go_TokenBridgeModule ++ [xf2] ++ be 2 n ++ a)%list)
    by (subst n; unfold ser_TokenBridgeUpdateRefundAddress in H; change (be 1 242) with [xf2] in H; congruence).
  clear H. split; [exact Hp|].
  assert (Lp : Z.of_nat (length p) = 35 + n) by (rewrite Hp; lens).
  unfold ral_updateRefundAddress, r_var, r_num.
  rewrite r_eq_Z, Z.eqb_refl, rassert_true.
  rewrite (r_slice_eq p (go_TokenBridgeModule ++ [xf2]) (be 2 n) a 33 35) by (try (rewrite Hp, <- app_assoc; reflexivity); lens).
  rewrite (r_u256from_be 2 n) by (change (256 ^ Z.of_nat 2) with 65536; lia). rewrite rlet_some.
  rewrite (r_add_ok 35 n) by (unfold u256_max; lia). rewrite rlet_some.
  rewrite r_size_ok, Lp, r_eq_Z, Z.eqb_refl, rassert_true.
  rewrite (r_slice_eq p (go_TokenBridgeModule ++ [xf2] ++ be 2 n) a [] 35 (35 + n)) by (try (rewrite Hp, app_nil_r, <- !app_assoc; reflexivity); lens).
  cbn [r_addr]. rewrite !rlet_some. reflexivity.
Qed.

(* ------------------------------------------------------------------ parseContractUpgrade (both upgrade kinds) *)
(* short form: 2-byte code length, code *)
Lemma parse_upgrade_short pre code p : length pre = 33%nat -> Z.of_nat (length code) <= 65535 ->
  p = pre ++ be 2 (Z.of_nat (length code)) ++ code ->
  exists env, ral_parseContractUpgrade (RB p) = Some ([RB code; RB []; RB []; RB []], env).
Proof.
  intros Lpre Lc Hp. set (n := Z.of_nat (length code)) in *.
  assert (Lp : Z.of_nat (length p) = 35 + n) by (rewrite Hp; lens).
  unfold ral_parseContractUpgrade, r_var, r_num, r_hex.
  rewrite (r_slice_eq p pre (be 2 n) code 33 35) by (try exact Hp; lens).
  rewrite (r_u256from_be 2 n) by (change (256 ^ Z.of_nat 2) with 65536; lia). rewrite rlet_some.
  rewrite (r_add_ok 35 n) by (unfold u256_max; lia). rewrite rlet_some.
  rewrite (r_slice_eq p (pre ++ be 2 n) code [] 35 (35 + n)) by (try (rewrite Hp, app_nil_r, <- app_assoc; reflexivity); lens).
  rewrite rlet_some, r_size_ok, Lp, rlet_some, r_eq_Z, Z.eqb_refl. cbn [rif]. rewrite !rlet_some. eexists. reflexivity.
Qed.

(* long form: code, previous state hash, encoded immutable and mutable fields *)
Lemma parse_upgrade_long pre code hash imm mut p : length pre = 33%nat -> length hash = 32%nat ->
  Z.of_nat (length code) <= 65535 -> Z.of_nat (length imm) <= 65535 -> Z.of_nat (length mut) <= 65535 ->
  p = pre ++ be 2 (Z.of_nat (length code)) ++ code ++ hash ++ be 2 (Z.of_nat (length imm)) ++ imm ++ be 2 (Z.of_nat (length mut)) ++ mut ->
  exists env, ral_parseContractUpgrade (RB p) = Some ([RB code; RB hash; RB imm; RB mut], env).
Proof.
  intros Lpre Lh Lc Li Lm Hp.
  set (n := Z.of_nat (length code)) in *. set (ni := Z.of_nat (length imm)) in *. set (nm := Z.of_nat (length mut)) in *.
  assert (Lp : Z.of_nat (length p) = 35 + n + 32 + 2 + ni + 2 + nm) by (rewrite Hp; lens).
  unfold ral_parseContractUpgrade, r_var, r_num, r_hex.
  rewrite (r_slice_eq p pre (be 2 n) (code ++ hash ++ be 2 ni ++ imm ++ be 2 nm ++ mut) 33 35) by (try exact Hp; lens).
  rewrite (r_u256from_be 2 n) by (change (256 ^ Z.of_nat 2) with 65536; lia). rewrite rlet_some.
  rewrite (r_add_ok 35 n) by (unfold u256_max; lia). rewrite rlet_some.
  rewrite (r_slice_eq p (pre ++ be 2 n) code (hash ++ be 2 ni ++ imm ++ be 2 nm ++ mut) 35 (35 + n))
    by (try (rewrite Hp, <- app_assoc; reflexivity); lens).
  rewrite rlet_some, r_size_ok, Lp, rlet_some, r_eq_Z.
  replace (35 + n + 32 + 2 + ni + 2 + nm =? 35 + n) with false by (symmetry; apply Z.eqb_neq; lia). cbn [rif].
  rewrite (r_add_ok (35 + n) 32) by (unfold u256_max; lia).
  rewrite (r_slice_eq p (pre ++ be 2 n ++ code) hash (be 2 ni ++ imm ++ be 2 nm ++ mut) (35 + n) (35 + n + 32))
    by (try (rewrite Hp, <- !app_assoc; reflexivity); lens).
  rewrite !rlet_some.
  rewrite (r_add_ok (35 + n + 32) 2) by (unfold u256_max; lia).
  rewrite (r_slice_eq p (pre ++ be 2 n ++ code ++ hash) (be 2 ni) (imm ++ be 2 nm ++ mut) (35 + n + 32) (35 + n + 32 + 2))
    by (try (rewrite Hp, <- !app_assoc; reflexivity); lens).
  rewrite (r_u256from_be 2 ni) by (change (256 ^ Z.of_nat 2) with 65536; lia). rewrite !rlet_some.
  rewrite (r_add_ok (35 + n + 32 + 2) ni) by (unfold u256_max; lia).
  rewrite (r_slice_eq p (pre ++ be 2 n ++ code ++ hash ++ be 2 ni) imm (be 2 nm ++ mut) (35 + n + 32 + 2) (35 + n + 32 + 2 + ni))
    by (try (rewrite Hp, <- !app_assoc; reflexivity); lens).
  rewrite !rlet_some.
  rewrite (r_add_ok (35 + n + 32 + 2 + ni) 2) by (unfold u256_max; lia).
  rewrite (r_slice_eq p (pre ++ be 2 n ++ code ++ hash ++ be 2 ni ++ imm) (be 2 nm) mut (35 + n + 32 + 2 + ni) (35 + n + 32 + 2 + ni + 2))
    by (try (rewrite Hp, <- !app_assoc; reflexivity); lens).
  rewrite (r_u256from_be 2 nm) by (change (256 ^ Z.of_nat 2) with 65536; lia). rewrite !rlet_some.
  rewrite (r_add_ok (35 + n + 32 + 2 + ni + 2) nm) by (unfold u256_max; lia).
  rewrite (r_slice_eq p (pre ++ be 2 n ++ code ++ hash ++ be 2 ni ++ imm ++ be 2 nm) mut [] (35 + n + 32 + 2 + ni + 2) (35 + n + 32 + 2 + ni + 2 + nm))
    by (try (rewrite Hp, app_nil_r, <- !app_assoc; reflexivity); lens).
  rewrite !rlet_some, r_eq_Z, Z.eqb_refl, rassert_true, ?rlet_some. eexists. reflexivity.
Qed.

(* the two entry points hand the payload to parseContractUpgrade and return its four results *)
Lemma upgrade_entry_gov p tc rets env : ral_parseContractUpgrade (RB p) = Some (rets, env) -> length rets = 4%nat ->
  exists a b c d, rets = [a; b; c; d] /\
  ral_submitContractUpgrade (RZ tc) (RB p) (RZ tc) =
  Some ([], [("newCode"%string, a); ("prevStateHash"%string, b); ("newEncodedImmutableFields"%string, c); ("newEncodedMutableFields"%string, d)]).
Proof.
  intros H L. destruct rets as [|a [|b [|c [|d [|x r]]]]]; try discriminate L. exists a, b, c, d. split; [reflexivity|].
  unfold ral_submitContractUpgrade, r_var. rewrite r_eq_Z, Z.eqb_refl, rassert_true, rlet_some, H. reflexivity.
Qed.
Lemma upgrade_entry_tb p tc rets env : ral_parseContractUpgrade (RB p) = Some (rets, env) -> length rets = 4%nat ->
  exists a b c d, rets = [a; b; c; d] /\
  ral_upgradeContract (RZ tc) (RB p) (RZ tc) =
  Some ([], [("newCode"%string, a); ("prevStateHash"%string, b); ("newEncodedImmutableFields"%string, c); ("newEncodedMutableFields"%string, d)]).
Proof.
  intros H L. destruct rets as [|a [|b [|c [|d [|x r]]]]]; try discriminate L. exists a, b, c, d. split; [reflexivity|].
  unfold ral_upgradeContract, r_var. rewrite r_eq_Z, Z.eqb_refl, rassert_true, rlet_some, H. reflexivity.
Qed.

(* ------------------------------------------------------------------ guardian keys *)
Lemma bytes_to_address_length b : length (bytes_to_address b) = 20%nat.
Proof.
  unfold bytes_to_address. destruct (Nat.ltb_spec 20 (length b)) as [H|H].
  - rewrite skipn_length. lia.
  - rewrite app_length, repeat_length. lia.
Qed.

Lemma hex_decode_go_total : forall s : bytes, Nat.even (length s) = true -> forallb is_hex_char s = true ->
  exists b, hex_decode_go s = (b, true).
Proof.
  intros s. induction s as [| a | a c t IH] using pair_ind; intros E F.
  - exists []. reflexivity.
  - discriminate E.
  - rewrite hex_decode_go_cons2. cbn [forallb] in F. apply andb_prop in F as [Fa F]. apply andb_prop in F as [Fc Ft].
    unfold is_hex_char in Fa, Fc. destruct (hex_val a) as [x|]; [|discriminate]. destruct (hex_val c) as [y|]; [|discriminate].
    destruct (IH E Ft) as [b Hb]. rewrite Hb. eexists. reflexivity.
Qed.

(* an accepted key string is 40 hex digits after an optional 0x / 0X, and the address is what they denote *)
Lemma hex_address_denotes g : is_hex_address g = true ->
  let digits := if has_0x g then skipn 2 g else g in
  length digits = 40%nat /\ hex_decode digits = Some (hex_to_address g) /\ length (hex_to_address g) = 20%nat.
Proof.
  unfold is_hex_address. cbv zeta. set (d := if has_0x g then skipn 2 g else g).
  intros H. apply andb_prop in H as [L H]. apply Nat.eqb_eq in L. unfold is_hex in H. apply andb_prop in H as [E F].
  destruct (hex_decode_go_total d E F) as [b Hb].
  assert (Lb : length b = 20%nat) by (apply hex_decode_go_ok_inv in Hb as [Hl _]; lia).
  split; [exact L|]. unfold hex_to_address, from_hex. fold d. rewrite L. change (Nat.odd 40) with false. cbv iota.
  rewrite Hb. cbn [fst]. unfold bytes_to_address. rewrite Lb. cbn [Nat.ltb Nat.leb Nat.sub repeat app].
  split; [|exact Lb]. unfold hex_decode. rewrite Hb. reflexivity.
Qed.

Lemma gs_loop_spec : forall todo done addrs, gs_loop todo done = GOk addrs ->
  addrs = done ++ map hex_to_address todo /\ Forall (fun g => is_hex_address g = true) todo.
Proof.
  induction todo as [|g rest IH]; intros done addrs H.
  - cbn [gs_loop] in H. inversion H. rewrite app_nil_r. split; [reflexivity|constructor].
  - cbn [gs_loop] in H. destruct (is_hex_address g) eqn:E; cbn [negb] in H; [|discriminate].
    destruct (existsb _ _); [discriminate|]. apply IH in H as [H1 H2]. split.
    + rewrite H1, <- app_assoc. reflexivity.
    + constructor; assumption.
Qed.

Lemma gs_loop_no_panic : forall todo done, gs_loop todo done <> GPanic.
Proof.
  induction todo as [|g rest IH]; intros done; cbn [gs_loop]; [discriminate|].
  destruct (negb (is_hex_address g)); [discriminate|]. destruct (existsb _ _); [discriminate|]. apply IH.
Qed.

Lemma NoDup_snoc {A} (l : list A) a : NoDup l -> ~ In a l -> NoDup (l ++ [a]).
Proof.
  induction l as [|x l IH]; intros N H; [constructor; [intros []|constructor]|].
  inversion N as [|? ? Hx Nl]; subst. cbn [app]. constructor.
  - intros Hin. apply in_app_or in Hin as [Hin|[Hin|[]]]; [contradiction|]. subst. apply H. left. reflexivity.
  - apply IH; [exact Nl|]. intros Hin. apply H. right. exact Hin.
Qed.

(* accepted keys are pairwise different and none is the zero address *)
Lemma gs_loop_distinct : forall todo done addrs, gs_loop todo done = GOk addrs -> NoDup done -> ~ In zero_address done ->
  NoDup addrs /\ ~ In zero_address addrs.
Proof.
  induction todo as [|g rest IH]; intros done addrs H N Z.
  - cbn [gs_loop] in H. inversion H; subst. auto.
  - cbn [gs_loop] in H. destruct (negb (is_hex_address g)); [discriminate|].
    destruct (existsb _ _) eqn:E; [discriminate|].
    assert (Hn : forall x, In x (done ++ repeat zero_address (length (g :: rest))) -> hex_to_address g <> x).
    { intros x Hx Heq. assert (existsb (bytes_eqb (hex_to_address g)) (done ++ repeat zero_address (length (g :: rest))) = true); [|congruence].
      apply existsb_exists. exists x. split; [exact Hx|]. apply bytes_eqb_eq. exact Heq. }
    apply IH in H; [exact H| |].
    + apply NoDup_snoc; [exact N|]. intros Hin. apply (Hn (hex_to_address g)); [apply in_or_app; left; exact Hin|reflexivity].
    + intros Hin. apply in_app_or in Hin as [Hin|[Hin|[]]]; [contradiction|].
      apply (Hn zero_address); [apply in_or_app; right; left; reflexivity|exact Hin].
Qed.

(* ------------------------------------------------------------------ request -> VAA -> contract, per kind *)
(* the governance contract configured with the node's governance emitter passes the module / action check for every
   expected sequence not above the VAA's *)
Definition accepted_by (module action : rv) (c : gcfg) (e : genv) (v : vaa) : Prop :=
  forall tseq, tseq <= e_seq e -> exists r, ral_generic module action (g_chain c) (g_addr c) tseq v = Some r.

Lemma accepted_create c e p M A rest module action :
  p = M ++ A ++ rest -> length M = 32%nat -> module = Some (RZ (unbe M)) -> action = Some (RB A) -> length A = 1%nat ->
  accepted_by module action c e (create_governance_vaa c e p).
Proof.
  intros Hp LM Hm Ha LA tseq Hs. eexists.
  apply (generic_passes M A rest module action (g_chain c) (g_addr c) tseq (create_governance_vaa c e p)); try assumption; try reflexivity.
Qed.

Lemma len_eqb_false (s : bytes) k : negb (len s =? k) = false -> len s = k.
Proof. intros H. apply negb_false_iff, Z.eqb_eq in H. exact H. Qed.

Lemma message_fee_spec c e fee v : conv_message_fee c e fee = GOk v ->
  envelope_ok c e v /\ exists b, hex_decode fee = Some b /\ length b = 32%nat /\
    payload v = go_CoreModule ++ [x03] ++ b /\
    accepted_by ral_module_gov ral_action_submitSetMessageFee c e v /\
    ral_submitSetMessageFee (RZ (tchain v)) (RB (payload v)) (RZ (e_tchain e)) =
    Some ([], [("fee"%string, RZ (unbe b)); ("messageFee"%string, RZ (unbe b))]).
Proof.
  unfold conv_message_fee. destruct (negb (len fee =? go_adm_fee_len)) eqn:G1; [discriminate|]. apply len_eqb_false in G1.
  destruct (hex_decode fee) as [b|] eqn:D; [|discriminate]. intros H. apply with_payload_ok in H as (p & S & ->).
  pose proof (hex_decode_len _ _ D) as L. unfold len in G1. change go_adm_fee_len with 64 in G1.
  assert (Lb : length b = 32%nat) by lia.
  destruct (create_envelope c e p) as [E P]. rewrite P. destruct (parse_message_fee b p (e_tchain e) Lb S) as [Hp R].
  split; [exact E|]. exists b. repeat apply conj; try assumption; try reflexivity.
  apply (accepted_create c e p go_CoreModule [x03] b); try reflexivity. exact Hp.
Qed.

Lemma transfer_fee_spec c e amount recipient v chainId : conv_transfer_fee c e amount recipient = GOk v ->
  e_tchain e = chainId \/ e_tchain e = 0 ->
  envelope_ok c e v /\ exists a r, hex_decode amount = Some a /\ hex_decode recipient = Some r /\ length a = 32%nat /\ length r = 32%nat /\
    payload v = go_CoreModule ++ [x04] ++ a ++ r /\
    accepted_by ral_module_gov ral_action_submitTransferFees c e v /\
    ral_submitTransferFees (RZ (tchain v)) (RB (payload v)) (RZ chainId) =
    Some ([], [("amount"%string, RZ (unbe a)); ("recipient"%string, RB r)]).
Proof.
  unfold conv_transfer_fee. destruct (negb (len amount =? go_adm_amount_len)) eqn:G1; [discriminate|]. apply len_eqb_false in G1.
  destruct (negb (len recipient =? go_adm_recipient_len)) eqn:G2; [discriminate|]. apply len_eqb_false in G2.
  destruct (hex_decode amount) as [a|] eqn:Da; [|discriminate]. destruct (hex_decode recipient) as [r|] eqn:Dr; [|discriminate].
  intros H Ht. apply with_payload_ok in H as (p & S & ->).
  pose proof (hex_decode_len _ _ Da) as La. pose proof (hex_decode_len _ _ Dr) as Lr. unfold len in G1, G2.
  change go_adm_amount_len with 64 in G1. change go_adm_recipient_len with 64 in G2.
  assert (La' : length a = 32%nat) by lia. assert (Lr' : length r = 32%nat) by lia.
  destruct (create_envelope c e p) as [E P]. rewrite P.
  destruct (parse_transfer_fee a r p (e_tchain e) chainId La' Lr' S Ht) as [Hp R].
  split; [exact E|]. exists a, r. repeat apply conj; try assumption; try reflexivity.
  apply (accepted_create c e p go_CoreModule [x04] (a ++ r)); try reflexivity. exact Hp.
Qed.

Lemma map_length20 gs : Forall (fun k => length k = 20%nat) (map hex_to_address gs).
Proof. induction gs as [|g gs IH]; [constructor|]. cbn [map]. constructor; [apply bytes_to_address_length|exact IH]. Qed.

Lemma guardian_set_spec c e guardians v chainId : conv_guardian_set c e guardians = GOk v ->
  0 <= e_gsi e -> e_gsi e + 1 < 4294967296 -> e_tchain e = chainId \/ e_tchain e = 0 ->
  let keys := map hex_to_address guardians in
  envelope_ok c e v /\ (0 < length guardians <= 19)%nat /\
  Forall (fun g => is_hex_address g = true) guardians /\ NoDup keys /\ ~ In zero_address keys /\
  payload v = go_CoreModule ++ [x02] ++ be 4 (e_gsi e + 1) ++ be 1 (Z.of_nat (length keys)) ++ concat keys /\
  accepted_by ral_module_gov ral_action_submitNewGuardianSet c e v /\
  ral_submitNewGuardianSet (RZ (tchain v)) (RB (payload v)) (RZ chainId) (RZ (e_gsi e)) =
  Some ([], [("newGuardianSetIndex"%string, RZ (e_gsi e + 1)); ("newGuardianSetSize"%string, RZ (Z.of_nat (length keys)));
             ("payloadSize"%string, RZ (38 + Z.of_nat (length keys) * 20)); ("guardianSetIndexes[1]"%string, RZ (e_gsi e + 1));
             ("guardianSets[1]"%string, RB (be 1 (Z.of_nat (length keys)) ++ concat keys))]).
Proof.
  unfold conv_guardian_set. change go_adm_gs_empty with 0. change go_adm_gs_max with 19.
  destruct (Z.eqb_spec (Z.of_nat (length guardians)) 0) as [G1|G1]; [discriminate|].
  destruct (Z.gtb_spec (Z.of_nat (length guardians)) 19) as [G2|G2]; [discriminate|].
  destruct (gs_loop guardians []) as [addrs|x|] eqn:GL; try discriminate.
  intros H H0 Hi Ht. cbv zeta. apply with_payload_ok in H as (p & S & ->).
  destruct (gs_loop_spec _ _ _ GL) as [Ha Fh]. cbn [app] in Ha. subst addrs.
  destruct (gs_loop_distinct _ _ _ GL (NoDup_nil _) (fun x => x)) as [ND NZ].
  unfold go_adm_new_index in S. rewrite Z.mod_small in S by lia.
  destruct (create_envelope c e p) as [E P]. rewrite P.
  assert (Ln : (0 < length (map hex_to_address guardians) <= 255)%nat) by (rewrite map_length; lia).
  destruct (parse_guardian_set (map hex_to_address guardians) (e_gsi e + 1) p (e_tchain e) chainId (e_gsi e) (map_length20 guardians) Ln
              ltac:(lia) eq_refl S Ht) as [Hp R].
  split; [exact E|]. split; [lia|]. repeat apply conj; try assumption; try reflexivity.
  apply (accepted_create c e p go_CoreModule [x02] (be 4 (e_gsi e + 1) ++ be 1 (Z.of_nat (length (map hex_to_address guardians))) ++ concat (map hex_to_address guardians)));
    try reflexivity. exact Hp.
Qed.

Lemma min_level_spec c e level v : conv_min_level c e level = GOk v -> 0 <= level ->
  envelope_ok c e v /\ level <= 255 /\
  payload v = go_TokenBridgeModule ++ [xf1] ++ be 1 level /\
  accepted_by ral_module_tb ral_action_updateMinimalConsistencyLevel c e v /\
  ral_updateMinimalConsistencyLevel (RZ (tchain v)) (RB (payload v)) (RZ (e_tchain e)) =
  Some ([], [("consistencyLevel"%string, RZ level); ("minimalConsistencyLevel"%string, RZ level)]).
Proof.
  unfold conv_min_level. change go_adm_level_max with 255. destruct (Z.gtb_spec level 255) as [G|G]; [discriminate|].
  intros H H0. apply with_payload_ok in H as (p & S & ->). rewrite Z.mod_small in S by lia.
  destruct (create_envelope c e p) as [E P]. rewrite P.
  destruct (parse_min_level level p (e_tchain e) ltac:(lia) S) as [Hp R].
  repeat apply conj; try assumption; try reflexivity.
  apply (accepted_create c e p go_TokenBridgeModule [xf1] (be 1 level)); try reflexivity. exact Hp.
Qed.

Lemma refund_spec c e address v : conv_refund c e address = GOk v ->
  envelope_ok c e v /\ exists a, hex_decode address = Some a /\ Z.of_nat (length a) <= 65535 /\
  payload v = go_TokenBridgeModule ++ [xf2] ++ be 2 (Z.of_nat (length a)) ++ a /\
  accepted_by ral_module_tb ral_action_updateRefundAddress c e v /\
  ral_updateRefundAddress (RZ (tchain v)) (RB (payload v)) (RZ (e_tchain e)) =
  Some ([], [("addressSize"%string, RZ (Z.of_nat (length a))); ("payloadSize"%string, RZ (35 + Z.of_nat (length a)));
             ("newRefundAddress"%string, RB a); ("refundAddress"%string, RB a)]).
Proof.
  unfold conv_refund. destruct (hex_decode address) as [a|] eqn:D; [|discriminate].
  change go_adm_refund_max with 65535. unfold len. destruct (Z.gtb_spec (Z.of_nat (length a)) 65535) as [G|G]; [discriminate|].
  intros H. apply with_payload_ok in H as (p & S & ->).
  destruct (create_envelope c e p) as [E P]. rewrite P.
  destruct (parse_refund a p (e_tchain e) G S) as [Hp R].
  split; [exact E|]. exists a. repeat apply conj; try assumption; try reflexivity.
  apply (accepted_create c e p go_TokenBridgeModule [xf2] (be 2 (Z.of_nat (length a)) ++ a)); try reflexivity. exact Hp.
Qed.

Lemma destroy_spec c e ec seqs v : conv_destroy c e ec seqs = GOk v -> 0 <= ec -> seqs <> [] ->
  envelope_ok c e v /\ ec <= 65535 /\ Z.of_nat (length seqs) <= 65535 /\
  payload v = go_TokenBridgeModule ++ [xf0] ++ be 2 ec ++ be 2 (Z.of_nat (length seqs)) ++ flat_map (be 8) seqs /\
  accepted_by ral_module_tb ral_action_destroyUnexecutedSequenceContracts c e v /\
  ral_destroyUnexecutedSequenceContracts (RZ (tchain v)) (RB (payload v)) (RZ (e_tchain e)) =
  Some ([], [("remoteChainIdBytes"%string, RB (be 2 ec)); ("length"%string, RZ (Z.of_nat (length seqs)));
             ("payloadSize"%string, RZ (37 + Z.of_nat (length seqs) * 8)); ("paths"%string, RB (flat_map (be 8) seqs))]).
Proof.
  unfold conv_destroy. change go_adm_echain_max with 65535. change go_adm_seqs_max with 65535.
  destruct (Z.gtb_spec ec 65535) as [G1|G1]; [discriminate|].
  destruct (Z.gtb_spec (Z.of_nat (length seqs)) 65535) as [G2|G2]; [discriminate|].
  intros H H0 Hne. apply with_payload_ok in H as (p & S & ->). rewrite Z.mod_small in S by lia.
  destruct (create_envelope c e p) as [E P]. rewrite P.
  assert (Ln : 0 < Z.of_nat (length seqs) <= 65535) by (destruct seqs; [contradiction|cbn [length] in *; lia]).
  destruct (parse_destroy ec seqs p (e_tchain e) ltac:(lia) Ln S) as [Hp R].
  repeat apply conj; try assumption; try reflexivity.
  apply (accepted_create c e p go_TokenBridgeModule [xf0] (be 2 ec ++ be 2 (Z.of_nat (length seqs)) ++ flat_map (be 8) seqs)); try reflexivity. exact Hp.
Qed.

(* the operator names the module of the two token-bridge requests; [padded] is the 32-byte field the serializer writes *)
Definition padded (module : bytes) : bytes := repeat x00 (32 - length module) ++ module.

Lemma register_chain_spec c e module ch emitter v L : conv_register_chain c e module ch emitter = GOk v -> 0 <= ch ->
  e_tchain e = L \/ e_tchain e = 0 -> ch <> L ->
  envelope_ok c e v /\ ch <= 65535 /\ (length module <= 32)%nat /\ exists ea, hex_decode emitter = Some ea /\ length ea = 32%nat /\
  payload v = padded module ++ [x01] ++ be 2 ch ++ ea /\
  (unbe (padded module) = unbe go_TokenBridgeModule -> accepted_by ral_module_tb ral_action_parseAndVerifyRegisterChain c e v) /\
  ral_parseAndVerifyRegisterChain (RZ (tchain v)) (RB (payload v)) (RZ L) =
  Some ([RZ ch; RB ea], [("remoteChainId"%string, RZ ch); ("remoteTokenBridgeId"%string, RB ea)]).
Proof.
  unfold conv_register_chain. change go_adm_chain_max with 65535. change go_adm_module_max with 32. change go_adm_emitter_len with 32.
  destruct (Z.gtb_spec ch 65535) as [G1|G1]; [discriminate|]. unfold len.
  destruct (Z.gtb_spec (Z.of_nat (length module)) 32) as [G2|G2]; [discriminate|].
  destruct (hex_decode emitter) as [ea|] eqn:D; [|discriminate].
  destruct (Z.eqb_spec (Z.of_nat (length ea)) 32) as [G3|G3]; cbn [negb]; [|discriminate].
  intros H H0 Ht Hne. apply with_payload_ok in H as (p & S & ->). rewrite Z.mod_small in S by lia.
  destruct (create_envelope c e p) as [E P]. rewrite P.
  destruct (parse_register_chain module ch ea p (e_tchain e) L ltac:(lia) ltac:(lia) ltac:(lia) S Ht Hne) as [Hp R].
  split; [exact E|]. split; [lia|]. split; [lia|]. exists ea. repeat apply conj; try assumption; try reflexivity; try lia.
  intros Hm. apply (accepted_create c e p (padded module) [x01] (be 2 ch ++ ea)); try reflexivity; try exact Hp.
  - unfold padded. rewrite app_length, repeat_length. lia.
  - rewrite Hm. reflexivity.
Qed.

Lemma padded_token_bridge : padded (str "TokenBridge") = go_TokenBridgeModule.
Proof. reflexivity. Qed.

(* the two upgrade kinds: the requested blob follows module and action unchanged; parseContractUpgrade then returns the
   parts of a blob in either of its two forms *)
Lemma contract_upgrade_spec c e payload_hex v : conv_contract_upgrade c e payload_hex = GOk v ->
  envelope_ok c e v /\ exists blob, hex_decode payload_hex = Some blob /\
  payload v = go_CoreModule ++ [x01] ++ blob /\
  accepted_by ral_module_gov ral_action_submitContractUpgrade c e v.
Proof.
  unfold conv_contract_upgrade. destruct (hex_decode payload_hex) as [blob|] eqn:D; [|discriminate].
  intros H. apply with_payload_ok in H as (p & S & ->).
  destruct (create_envelope c e p) as [E P]. rewrite P.
  assert (Hp : p = (go_CoreModule ++ [x01] ++ blob)%list) by (unfold ser_ContractUpgrade in S; change (be 1 1) with [x01] in S; congruence).
  split; [exact E|]. exists blob. repeat apply conj; try assumption; try reflexivity.
  apply (accepted_create c e p go_CoreModule [x01] blob); try reflexivity. exact Hp.
Qed.

Lemma bridge_upgrade_spec c e module payload_hex v : conv_bridge_upgrade c e module payload_hex = GOk v ->
  envelope_ok c e v /\ (length module <= 32)%nat /\ exists blob, hex_decode payload_hex = Some blob /\
  payload v = padded module ++ [x02] ++ blob /\
  (unbe (padded module) = unbe go_TokenBridgeModule -> accepted_by ral_module_tb ral_action_upgradeContract c e v).
Proof.
  unfold conv_bridge_upgrade. change go_adm_upg_module_max with 32. unfold len.
  destruct (Z.gtb_spec (Z.of_nat (length module)) 32) as [G|G]; [discriminate|].
  destruct (hex_decode payload_hex) as [blob|] eqn:D; [|discriminate].
  intros H. apply with_payload_ok in H as (p & S & ->).
  destruct (create_envelope c e p) as [E P]. rewrite P.
  assert (Hp : p = (padded module ++ [x02] ++ blob)%list).
  { unfold ser_TokenBridgeUpgradeContract in S. destruct (32 <? Z.of_nat (length module)); [discriminate|].
    change (be 1 2) with [x02] in S. unfold padded. rewrite <- app_assoc. congruence. }
  split; [exact E|]. split; [lia|]. exists blob. repeat apply conj; try assumption; try reflexivity.
  intros Hm. apply (accepted_create c e p (padded module) [x02] blob); try reflexivity; try exact Hp.
  - unfold padded. rewrite app_length, repeat_length. lia.
  - rewrite Hm. reflexivity.
Qed.

(* ------------------------------------------------------------------ no request panics *)
Lemma conv_no_panic c e p : conv c e p <> GPanic.
Proof.
  destruct p as [g|f|a r|p|m ch ea|m p|ec sq|l|a|]; cbn [conv].
  - unfold conv_guardian_set. destruct (_ =? _); [discriminate|]. destruct (_ >? _); [discriminate|].
    destruct (gs_loop g []) as [addrs|x|] eqn:GL; [|discriminate|exfalso; exact (gs_loop_no_panic _ _ GL)].
    apply with_payload_no_panic. discriminate.
  - unfold conv_message_fee. destruct (negb _); [discriminate|]. destruct (hex_decode f); [|discriminate].
    apply with_payload_no_panic. discriminate.
  - unfold conv_transfer_fee. destruct (negb _); [discriminate|]. destruct (negb _); [discriminate|].
    destruct (hex_decode a); [|discriminate]. destruct (hex_decode r); [|discriminate]. apply with_payload_no_panic. discriminate.
  - unfold conv_contract_upgrade. destruct (hex_decode p); [|discriminate]. apply with_payload_no_panic. discriminate.
  - unfold conv_register_chain. destruct (_ >? _); [discriminate|]. change go_adm_module_max with 32. unfold len.
    destruct (Z.gtb_spec (Z.of_nat (length m)) 32) as [G|G]; [discriminate|].
    destruct (hex_decode ea); [|discriminate]. destruct (negb _); [discriminate|]. apply with_payload_no_panic.
    unfold ser_TokenBridgeRegisterChain. destruct (Z.ltb_spec 32 (Z.of_nat (length m))); [lia|discriminate].
  - unfold conv_bridge_upgrade. change go_adm_upg_module_max with 32. unfold len.
    destruct (Z.gtb_spec (Z.of_nat (length m)) 32) as [G|G]; [discriminate|].
    destruct (hex_decode p); [|discriminate]. apply with_payload_no_panic.
    unfold ser_TokenBridgeUpgradeContract. destruct (Z.ltb_spec 32 (Z.of_nat (length m))); [lia|discriminate].
  - unfold conv_destroy. destruct (_ >? _); [discriminate|]. destruct (_ >? _); [discriminate|]. apply with_payload_no_panic. discriminate.
  - unfold conv_min_level. destruct (_ >? _); [discriminate|]. apply with_payload_no_panic. discriminate.
  - unfold conv_refund. destruct (hex_decode a); [|discriminate]. destruct (_ >? _); [discriminate|]. apply with_payload_no_panic. discriminate.
  - change go_adm_unset_panics with false. discriminate.
Qed.

(* ------------------------------------------------------------------ InjectGovernanceVAA *)
Section InjectProofs.
Variable keccak : bytes -> bytes.

Lemma inject_loop_spec c ts gsi : forall msgs sent digs sent' r,
  inject_loop keccak c ts gsi msgs sent digs = (sent', r) ->
  r <> IPanic /\
  exists new, sent' = sent ++ new /\
    Forall2 (fun m v => gm_tchain m <= 65535 /\ conv c (env_of ts gsi m) (gm_payload m) = GOk v) (firstn (length new) msgs) new /\
    (forall ds, r = IOk ds -> ds = digs ++ map (digest keccak) new /\ length new = length msgs).
Proof.
  induction msgs as [|m rest IH]; intros sent digs sent' r H.
  - cbn [inject_loop] in H. inversion H; subst. split; [discriminate|]. exists [].
    split; [symmetry; apply app_nil_r|]. split; [constructor|]. intros ds Hd. inversion Hd; subst. split; [symmetry; apply app_nil_r|reflexivity].
  - cbn [inject_loop] in H. change go_adm_target_max with 65535 in H.
    destruct (Z.gtb_spec (gm_tchain m) 65535) as [G|G].
    { inversion H; subst. split; [discriminate|]. exists []. split; [symmetry; apply app_nil_r|]. split; [constructor|]. intros ds Hd; discriminate. }
    destruct (conv c (env_of ts gsi m) (gm_payload m)) as [v|x|] eqn:C.
    + apply IH in H as (Hn & new & Hs & F & D). split; [exact Hn|]. exists (v :: new). rewrite Hs, <- app_assoc. split; [reflexivity|].
      split; [cbn [length firstn]; constructor; [split; [lia|exact C]|exact F]|].
      intros ds Hd. destruct (D ds Hd) as [D1 D2]. rewrite D1, <- app_assoc. cbn [map length app]. split; [reflexivity|lia].
    + inversion H; subst. split; [discriminate|]. exists []. split; [symmetry; apply app_nil_r|]. split; [constructor|]. intros ds Hd; discriminate.
    + exfalso. exact (conv_no_panic _ _ _ C).
Qed.

Lemma inject_spec c ts gsi msgs sent r : inject keccak c ts gsi msgs = (sent, r) ->
  r <> IPanic /\
  Forall2 (fun m v => gm_tchain m <= 65535 /\ conv c (env_of ts gsi m) (gm_payload m) = GOk v) (firstn (length sent) msgs) sent /\
  (forall ds, r = IOk ds -> ds = map (digest keccak) sent /\ length sent = length msgs).
Proof.
  intros H. apply inject_loop_spec in H as (Hn & new & Hs & F & D). cbn [app] in Hs. subst new.
  split; [exact Hn|]. split; [exact F|]. exact D.
Qed.
End InjectProofs.
