(* C03, observation half: handleObservation (model.Processor.handle_obs) changes nothing and emits nothing unless the
   observation carries a signature that recovers to the address it claims and that address belongs to the applicable
   guardian set; a valid one is recorded under exactly that address; and over every history of processor operations the
   aggregation state only ever holds authenticated signatures of members of a guardian set the node had installed.
   For EVERY recover / keccak / sign function.  Imports only the model (not ProcessorProofs). *)
From Coq Require Import List ZArith Lia Bool Arith.
From Coq Require Import Strings.Byte.
From WH Require Import lib.Bytes gen.Extracted model.Vaa model.Processor.
Import ListNotations.
Open Scope Z_scope.

Lemma oa_alookup_In {V} k (m : list (bytes * V)) v : alookup k m = Some v -> In (k, v) m.
Proof.
  induction m as [|[k' v'] m IH]; cbn [alookup]; [discriminate|].
  destruct (bytes_eqb_spec k k') as [->|Hn]; [intros E; inversion E; left; reflexivity|intros H; right; auto].
Qed.

Lemma oa_In_aremove {V} k (m : list (bytes * V)) x : In x (aremove k m) -> In x m.
Proof. unfold aremove. intros H. apply filter_In in H as [H _]. exact H. Qed.

Lemma oa_In_aset {V} k (v : V) m x : In x (aset k v m) -> x = (k, v) \/ In x m.
Proof. unfold aset. intros [E|H]; [left; auto|right; eapply oa_In_aremove; exact H]. Qed.

Lemma oa_alookup_aset_same {V} k (v : V) m : alookup k (aset k v m) = Some v.
Proof. unfold aset. cbn [alookup]. rewrite bytes_eqb_refl. reflexivity. Qed.

Lemma oa_memb_In a l : memb a l = true <-> In a l.
Proof.
  unfold memb. rewrite existsb_exists. split.
  - intros (x & Hx & E). apply bytes_eqb_eq in E. subst x. exact Hx.
  - intros H. exists a. split; [exact H|apply bytes_eqb_refl].
Qed.

Section O.
Variable recover : bytes -> bytes -> option bytes.
Variable keccak : bytes -> bytes.
Variable sign : bytes -> bytes.
Variable own : addr.
Variable gov_chain : Z.
Variable gov_addr : bytes.

Notation rec := (Processor.rec recover).
Notation step := (Processor.step recover keccak sign own gov_chain gov_addr).
Notation run := (Processor.run recover keccak sign own gov_chain gov_addr).
Notation handle_obs := (Processor.handle_obs recover).
Notation handle_message := (Processor.handle_message keccak sign own gov_chain gov_addr).
Notation broadcast_signature := (Processor.broadcast_signature keccak own).

(* the guardian set handleObservation checks membership against: the snapshot stored with the node's own observation of that
   digest, else the current set *)
Definition applicable_set (st : pstate) (h : bytes) : option gset :=
  match alookup h (agg st) with
  | Some e => match gs_snap e with Some g => Some g | None => cur st end
  | None => cur st
  end.

Definition obs_valid (st : pstate) (o : obs) (a : addr) (g : gset) : Prop :=
  rec (o_hash o) (o_sig o) = Some a /\ a = bytes_to_address (o_addr o) /\
  applicable_set st (o_hash o) = Some g /\ In a (keys g).

Lemma applicable_unfold st h :
  match match alookup h (agg st) with
        | Some e' => match gs_snap e' with Some g => Some g | None => cur st end
        | None => cur st end with Some g => Some g | None => None end = applicable_set st h.
Proof. unfold applicable_set. destruct (alookup h (agg st)) as [e|]; [destruct (gs_snap e); [reflexivity|]|]; destruct (cur st); reflexivity. Qed.

(* everything that is not a valid member signature is dropped: same state, no output *)
Lemma obs_invalid_no_effect st o : (~ exists a g, obs_valid st o a g) -> handle_obs st o = (st, []).
Proof.
  intros Hn. unfold Processor.handle_obs.
  destruct (rec (o_hash o) (o_sig o)) as [pk|] eqn:Er; [|reflexivity].
  destruct (bytes_eqb_spec (bytes_to_address (o_addr o)) pk) as [Hpk|]; cbn [negb]; [|reflexivity].
  change (match alookup (o_hash o) (agg st) with
          | Some e' => match gs_snap e' with Some g => Some g | None => cur st end
          | None => cur st end) with (applicable_set st (o_hash o)).
  destruct (applicable_set st (o_hash o)) as [g|] eqn:Eg; [|reflexivity].
  destruct (memb (bytes_to_address (o_addr o)) (keys g)) eqn:Em; cbn [negb]; [|reflexivity].
  exfalso. apply Hn. exists pk, g. split; [exact Er|]. split; [auto|]. split; [exact Eg|].
  apply oa_memb_In in Em. rewrite <- Hpk. exact Em.
Qed.

Lemma obs_effect_only_if_valid st o : handle_obs st o <> (st, []) -> exists a g, obs_valid st o a g.
Proof.
  intros Hne. unfold Processor.handle_obs in Hne.
  destruct (rec (o_hash o) (o_sig o)) as [pk|] eqn:Er; [|contradiction].
  destruct (bytes_eqb_spec (bytes_to_address (o_addr o)) pk) as [Hpk|]; cbn [negb] in Hne; [|contradiction].
  change (match alookup (o_hash o) (agg st) with
          | Some e' => match gs_snap e' with Some g => Some g | None => cur st end
          | None => cur st end) with (applicable_set st (o_hash o)) in Hne.
  destruct (applicable_set st (o_hash o)) as [g|] eqn:Eg; [|contradiction].
  destruct (memb (bytes_to_address (o_addr o)) (keys g)) eqn:Em; cbn [negb] in Hne; [|contradiction].
  exists pk, g. split; [exact Er|]. split; [auto|]. split; [exact Eg|]. apply oa_memb_In in Em. rewrite <- Hpk. exact Em.
Qed.

(* the shape of the state after a valid observation: only the entry of that digest changes, and it holds the signature under a *)
Lemma handle_obs_valid_shape st o a g : obs_valid st o a g ->
  exists e1 outs, handle_obs st o = ({| cur := cur st; agg := aset (o_hash o) e1 (agg st); db := db (fst (handle_obs st o));
                                       loopq := loopq st; clock := clock st |}, outs) /\
                  exists e0, esigs e1 = aset a (o_sig o) (esigs e0) /\ gs_snap e1 = gs_snap e0 /\
                             (alookup (o_hash o) (agg st) = Some e0 \/ (alookup (o_hash o) (agg st) = None /\ e0 = new_entry (clock st))).
Proof.
  intros (Hr & Ha & Hg & Hin). unfold Processor.handle_obs. rewrite Hr.
  rewrite <- Ha, bytes_eqb_refl. cbn [negb].
  change (match alookup (o_hash o) (agg st) with
          | Some e' => match gs_snap e' with Some g => Some g | None => cur st end
          | None => cur st end) with (applicable_set st (o_hash o)).
  rewrite Hg. apply oa_memb_In in Hin. rewrite Hin. cbn [negb].
  set (e0 := match alookup (o_hash o) (agg st) with Some e' => e' | None => new_entry (clock st) end).
  assert (He0 : alookup (o_hash o) (agg st) = Some e0 \/ (alookup (o_hash o) (agg st) = None /\ e0 = new_entry (clock st))).
  { unfold e0. destruct (alookup (o_hash o) (agg st)); [left; reflexivity|right; split; reflexivity]. }
  set (e1 := set_esigs e0 (aset a (o_sig o) (esigs e0))).
  destruct (assemble (keys g) 0 (esigs e1)) as [sg|].
  - destruct (our_vaa e1) as [v|].
    + destruct (_ && negb (submitted e1)).
      * destruct sg as [|s0 sg].
        { exists e1. eexists. split; [reflexivity|]. exists e0. auto. }
        { exists (set_submitted e1). eexists. split; [reflexivity|]. exists e0. auto. }
      * exists e1. eexists. split; [reflexivity|]. exists e0. auto.
    + exists e1. eexists. split; [reflexivity|]. exists e0. auto.
  - exists e1. eexists. split; [reflexivity|]. exists e0. auto.
Qed.

Lemma obs_valid_recorded st o a g : obs_valid st o a g ->
  exists e', alookup (o_hash o) (agg (fst (handle_obs st o))) = Some e' /\ alookup a (esigs e') = Some (o_sig o).
Proof.
  intros Hv. destruct (handle_obs_valid_shape st o a g Hv) as (e1 & outs & E & e0 & Hs & _). rewrite E. cbn [fst agg].
  exists e1. split; [apply oa_alookup_aset_same|]. rewrite Hs. apply oa_alookup_aset_same.
Qed.

(* ------------------------------------------------------------------ histories *)
Definition sig_authentic (L : list gset) (h : bytes) (p : addr * bytes) : Prop :=
  rec h (snd p) = Some (fst p) /\ exists g, In g L /\ In (fst p) (keys g).

Definition entry_auth (L : list gset) (p : bytes * entry) : Prop :=
  (forall g, gs_snap (snd p) = Some g -> In g L) /\ Forall (sig_authentic L (fst p)) (esigs (snd p)).

Record AInv (L : list gset) (st : pstate) : Prop := {
  AI_cur : forall g, cur st = Some g -> In g L;
  AI_agg : Forall (entry_auth L) (agg st) }.

Lemma entry_auth_mono L L' p : incl L L' -> entry_auth L p -> entry_auth L' p.
Proof.
  intros HL [H1 H2]. split; [intros g Hg; apply HL; auto|].
  eapply Forall_impl; [|exact H2]. intros x [Hx (g & Hg1 & Hg2)]. split; [exact Hx|]. exists g. auto.
Qed.

Lemma Forall_aremove' {V} (P : bytes * V -> Prop) k m : Forall P m -> Forall P (aremove k m).
Proof. intros H. apply Forall_forall. intros x Hx. apply oa_In_aremove in Hx. rewrite Forall_forall in H. auto. Qed.

Lemma Forall_aset' {V} (P : bytes * V -> Prop) k v m : P (k, v) -> Forall P m -> Forall P (aset k v m).
Proof. intros H1 H2. unfold aset. constructor; [assumption|apply Forall_aremove'; assumption]. Qed.

Lemma lookup_auth L st h e : AInv L st -> alookup h (agg st) = Some e -> entry_auth L (h, e).
Proof. intros [_ F] Hl. apply oa_alookup_In in Hl. rewrite Forall_forall in F. exact (F _ Hl). Qed.

Lemma handle_obs_ainv L st o : AInv L st -> AInv L (fst (handle_obs st o)).
Proof.
  intros HI.
  assert (D : (exists a g, obs_valid st o a g) \/ handle_obs st o = (st, [])).
  { destruct (rec (o_hash o) (o_sig o)) as [pk|] eqn:Er.
    2:{ right. apply obs_invalid_no_effect. intros (a & g & H1 & _). rewrite Er in H1. discriminate. }
    destruct (bytes_eqb_spec pk (bytes_to_address (o_addr o))) as [Hpk|Hpk].
    2:{ right. apply obs_invalid_no_effect. intros (a & g & H1 & H2 & _). rewrite Er in H1. inversion H1. congruence. }
    destruct (applicable_set st (o_hash o)) as [g|] eqn:Eg.
    2:{ right. apply obs_invalid_no_effect. intros (a & g & _ & _ & H3 & _). rewrite Eg in H3. discriminate. }
    destruct (memb pk (keys g)) eqn:Em.
    - left. exists pk, g. split; [exact Er|]. split; [exact Hpk|]. split; [exact Eg|]. apply oa_memb_In. exact Em.
    - right. apply obs_invalid_no_effect. intros (a & g' & H1 & _ & H3 & H4). rewrite Er in H1. inversion H1; subst a.
      rewrite Eg in H3. inversion H3; subst g'. apply oa_memb_In in H4. congruence. }
  destruct D as [(a & g & Hv)|E]; [|rewrite E; exact HI].
  destruct (handle_obs_valid_shape st o a g Hv) as (e1 & outs & E & e0 & Hs & Hsnap & He0). rewrite E. cbn [fst].
  destruct HI as [Ic Ia]. constructor; cbn [cur agg]; [exact Ic|].
  assert (Hcur : forall g', cur st = Some g' -> In g' L) by exact Ic.
  assert (He0a : entry_auth L (o_hash o, e0)).
  { destruct He0 as [Hl|[_ ->]].
    - apply oa_alookup_In in Hl. rewrite Forall_forall in Ia. exact (Ia _ Hl).
    - split; cbn [snd fst new_entry gs_snap esigs]; [discriminate|constructor]. }
  destruct Hv as (Hr & Haddr & Hg & Hin).
  assert (HgL : In g L).
  { unfold applicable_set in Hg. destruct (alookup (o_hash o) (agg st)) as [e|] eqn:El.
    - destruct (gs_snap e) as [g'|] eqn:Es; [|auto]. inversion Hg; subst g'.
      apply oa_alookup_In in El. rewrite Forall_forall in Ia. destruct (Ia _ El) as [H1 _]. cbn [snd] in H1. auto.
    - auto. }
  apply Forall_aset'; [|exact Ia].
  destruct He0a as [H1 H2]. cbn [fst snd] in *. split; cbn [fst snd].
  - rewrite Hsnap. exact H1.
  - rewrite Hs. apply Forall_aset'; [|exact H2]. split; cbn [fst snd]; [exact Hr|]. exists g. auto.
Qed.

Lemma broadcast_ainv L st v s tx chain : AInv L st -> AInv L (fst (broadcast_signature st v s tx chain)).
Proof.
  intros [Ic Ia]. unfold Processor.broadcast_signature. cbn [fst]. constructor; cbn [cur agg]; [exact Ic|].
  apply Forall_aset'; [|exact Ia].
  set (d := Processor.dg keccak v).
  destruct (alookup d (agg st)) as [e|] eqn:El.
  - apply oa_alookup_In in El. rewrite Forall_forall in Ia. destruct (Ia _ El) as [H1 H2]. cbn [fst snd] in *.
    split; cbn [fst snd set_own gs_snap esigs]; [intros g Hg; auto|exact H2].
  - split; cbn [fst snd set_own new_entry gs_snap esigs]; [intros g Hg; auto|constructor].
Qed.

Lemma handle_message_cases st m :
  fst (handle_message st m) = st \/
  exists v s tx chain, fst (handle_message st m) = fst (broadcast_signature st v s tx chain).
Proof.
  unfold Processor.handle_message.
  destruct (cur st) as [g|]; [|left; reflexivity].
  destruct (bytes_eqb _ gov_addr && _); [left; reflexivity|].
  destruct (dlookup _ (db st)) as [vb|]; [|right; eauto].
  destruct (unmarshal vb) as [ex|].
  - destruct (_ <? _); [left; reflexivity|right; eauto].
  - destruct proc_stored_unmarshal_failure_panics; [left; reflexivity|right; eauto].
Qed.

Lemma cleanup_entry_keeps now indb ck e e' o : cleanup_entry now indb ck e = CKeep e' o -> esigs e' = esigs e /\ gs_snap e' = gs_snap e.
Proof.
  unfold cleanup_entry.
  repeat match goal with
         | |- context [if ?c then _ else _] => destruct c
         | |- context [match our_msg e with _ => _ end] => destruct (our_msg e)
         end; intros E; inversion E; subst; split; reflexivity.
Qed.

Lemma cleanup_all_auth L st now l : Forall (entry_auth L) l -> Forall (entry_auth L) (fst (cleanup_all st now l)).
Proof.
  induction l as [|[h e] l IH]; intros F; cbn [cleanup_all]; [constructor|].
  inversion F as [|? ? He F']; subst. specialize (IH F').
  destruct (cleanup_all st now l) as [t' o']. cbn [fst] in IH.
  destruct (cleanup_entry now _ _ e) as [e' o| |] eqn:Ec; cbn [fst].
  - constructor; [|exact IH]. apply cleanup_entry_keeps in Ec as [E1 E2]. destruct He as [H1 H2]. cbn [fst snd] in *.
    split; cbn [fst snd]; [rewrite E2; exact H1|rewrite E1; exact H2].
  - exact IH.
  - constructor; assumption.
Qed.

Definition learned_after (L : list gset) (o : op) : list gset := match o with SetGS g => g :: L | _ => L end.
Fixpoint learned (L : list gset) (ops : list op) : list gset :=
  match ops with [] => L | o :: t => learned (learned_after L o) t end.

Lemma step_ainv L st o : AInv L st -> AInv (learned_after L o) (fst (step st o)).
Proof.
  intros HI. pose proof HI as [Ic Ia].
  destruct o as [g|t|m|v|ob|k|b|]; cbn [Processor.step learned_after].
  - cbn [fst]. constructor; cbn [cur agg].
    + intros g' E; inversion E; left; reflexivity.
    + eapply Forall_impl; [|exact Ia]. intros p. apply entry_auth_mono. intros x Hx; right; exact Hx.
  - cbn [fst]. constructor; cbn [cur agg]; auto.
  - destruct (handle_message_cases st m) as [E|(v & s & tx & ch & E)]; rewrite E; [exact HI|apply broadcast_ainv; exact HI].
  - unfold Processor.handle_injection. apply broadcast_ainv; exact HI.
  - apply handle_obs_ainv; exact HI.
  - destruct (nth_error (loopq st) k) as [ob|]; [|exact HI]. apply handle_obs_ainv. constructor; cbn [cur agg]; auto.
  - unfold Processor.handle_inbound.
    repeat match goal with
           | |- context [if ?c then _ else _] => destruct c
           | |- context [match unmarshal b with _ => _ end] => destruct (unmarshal b)
           | |- context [match cur st with _ => _ end] => destruct (cur st) eqn:?
           | |- context [match dlookup ?i ?d with _ => _ end] => destruct (dlookup i d)
           end; cbn [fst]; try exact HI.
    constructor; cbn [cur agg]; auto; intros g' Hg'; apply Ic; congruence.
  - unfold Processor.handle_cleanup. pose proof (cleanup_all_auth L st (clock st + 1) (agg st) Ia) as H.
    destruct (cleanup_all st (clock st + 1) (agg st)) as [a o]. cbn [fst] in *. constructor; cbn [with_agg cur agg]; auto.
Qed.

Lemma run_ainv : forall ops L st, AInv L st -> AInv (learned L ops) (fst (run st ops)).
Proof.
  induction ops as [|o ops IH]; intros L st HI; cbn [Processor.run learned]; [exact HI|].
  pose proof (step_ainv L st o HI) as H1. destruct (step st o) as [st1 out1]. cbn [fst] in H1.
  specialize (IH _ st1 H1). destruct (run st1 ops) as [st2 outs]. cbn [fst] in *. exact IH.
Qed.

Lemma learned_spec ops : forall L g, In g (learned L ops) -> In g L \/ In (SetGS g) ops.
Proof.
  induction ops as [|o ops IH]; intros L g; cbn [learned]; [auto|].
  intros H. apply IH in H as [H|H]; [|right; right; exact H].
  destruct o; cbn [learned_after] in H; auto. destruct H as [->|H]; [right; left; reflexivity|auto].
Qed.

(* for every history of processor operations from the initial state: whatever signature sits in the aggregation state under
   digest h and address a is a signature over h that recovers to a, and a is a key of a guardian set the history installed *)
Theorem agg_only_authenticated ops h e a s :
  In (h, e) (agg (fst (run init ops))) -> In (a, s) (esigs e) ->
  rec h s = Some a /\ exists g, In (SetGS g) ops /\ In a (keys g).
Proof.
  intros He Hs.
  assert (HI : AInv [] init) by (constructor; cbn; [discriminate|constructor]).
  pose proof (run_ainv ops [] init HI) as [_ F]. rewrite Forall_forall in F. destruct (F _ He) as [_ F2].
  cbn [fst snd] in F2. rewrite Forall_forall in F2. destruct (F2 _ Hs) as [H1 (g & Hg1 & Hg2)]. cbn [fst snd] in *.
  split; [exact H1|]. exists g. split; [|exact Hg2]. apply learned_spec in Hg1 as [[]|H]; exact H.
Qed.
End O.
