(* Extension X8 (C10): proofs about model/EvmLog.v.
   A. the generated values (ABI layout, event id = Keccak-256 of the signature = the topic constant of by_transaction.go, the
      MessagePublication / pendingKey literals, PadAddress);
   B. what UnpackLog does with ANY raw log, in closed form (decode_log_closed_form) and its corollaries: malformed data yields
      an error, padding bytes do not matter, the payload is a slice of the data;
   C. decode (sol_emit x) = x;
   D. the watcher over raw content refines model/EvmWatcher.v (abstraction commutes with every step), provenance of every
      pending entry, end-to-end fidelity on both paths, malformed logs. *)
From Coq Require Import List ZArith Bool Lia Arith Strings.Byte.
From WH Require Import lib.Bytes lib.EvmAbi lib.Keccak gen.Extracted gen.ExtractedEvmLog model.EvmWatcher model.EvmLog proofs.EvmWatcherProofs.
Import ListNotations.
Open Scope Z_scope.

(* ================================================================== A. the generated values *)
Definition lmp_nonindexed : list (afld * aty) := [(FTarget, TUint 16); (FSeq, TUint 64); (FNonce, TUint 32); (FPayload, TBytes); (FCl, TUint 8)].
Lemma abi_nonindexed : args_of false evm_abi_lmp = lmp_nonindexed.
Proof. reflexivity. Qed.
Lemma abi_indexed : args_of true evm_abi_lmp = [(FSender, TAddress)].
Proof. reflexivity. Qed.
Lemma abi_no_padding_check : evm_abi_uint_checks_padding = false.
Proof. reflexivity. Qed.
Lemma abi_empty_data_skips : evm_abi_empty_data_skips_unpack = true.
Proof. reflexivity. Qed.
(* the contract's declaration is the one of the ABI the watcher decodes with, and the emit statement passes the values in that order *)
Lemma sol_decl_is_abi : sol_lmp_decl = evm_abi_lmp.
Proof. reflexivity. Qed.
Lemma sol_emit_args_match : sol_lmp_emit_args = map (fun x : ainput => fst (fst x)) sol_lmp_decl.
Proof. reflexivity. Qed.
(* abigen's event ID (Keccak-256 of the signature built from the ABI JSON) is the constant by_transaction.go filters with *)
Lemma lmp_id_is_keccak : evm_abi_lmp_id = keccak256 evm_abi_lmp_sig.
Proof. vm_compute. reflexivity. Qed.
Lemma lmp_id_is_topic : unbe evm_abi_lmp_id = evm_lmp_topic.
Proof. vm_compute. reflexivity. Qed.
Lemma lmp_id_length : length evm_abi_lmp_id = 32%nat.
Proof. vm_compute. reflexivity. Qed.
Lemma sol_id_is_abi_id : sol_lmp_id = evm_abi_lmp_id.
Proof. vm_compute. reflexivity. Qed.

Lemma msg_of_log_spec : forall chain tx bh bt e,
  evm_msg_of_log chain tx bh bt e =
  mkXMsg tx (to_i64 bt) (x_nonce e) (x_seq e) chain (to_u16 (x_target e)) (evm_pad_address (x_sender e)) (x_payload e) (x_cl e).
Proof. reflexivity. Qed.
Lemma msg_of_rcpt_log_spec : forall chain tx bh bt e,
  evm_msg_of_rcpt_log chain tx bh bt e =
  mkXMsg tx (to_i64 bt) (x_nonce e) (x_seq e) chain (to_u16 (x_target e)) (evm_pad_address (x_sender e)) (x_payload e) (x_cl e).
Proof. reflexivity. Qed.
Lemma key_of_log_spec : forall m tx bh e, evm_key_of_log m tx bh e = mkXKey (xm_tx m) bh (xm_em m) (xm_seq m).
Proof. reflexivity. Qed.
Lemma pad_address_spec : forall a, length a = 20%nat -> evm_pad_address a = repeat x00 12 ++ a.
Proof.
  intros a H. unfold evm_pad_address, copy32, left_pad. rewrite H.
  change (32 - 20)%nat with 12%nat.
  assert (L : length (repeat x00 12 ++ a) = 32%nat) by (rewrite app_length, repeat_length, H; reflexivity).
  rewrite L. change (32 - 32)%nat with 0%nat. cbn [repeat]. rewrite app_nil_r.
  rewrite <- L. apply firstn_all.
Qed.

(* ================================================================== helpers on byte strings *)
Lemma blen_app : forall a b, blen (a ++ b) = blen a + blen b.
Proof. intros a b. unfold blen. rewrite app_length. lia. Qed.
Lemma blen_nonneg : forall a, 0 <= blen a.
Proof. intro a. unfold blen. lia. Qed.
Lemma blen_be : forall n x, blen (be n x) = Z.of_nat n.
Proof. intros n x. unfold blen. rewrite be_length. reflexivity. Qed.

Lemma sub_at : forall pre x post i n, blen pre = i -> length x = n -> sub (pre ++ x ++ post) i n = x.
Proof.
  intros pre x post i n Hi Hn. unfold sub. subst i. unfold blen. rewrite Nat2Z.id.
  rewrite skipn_app, skipn_all, Nat.sub_diag. cbn [app skipn].
  rewrite firstn_app, Hn. subst n. rewrite Nat.sub_diag, firstn_all. cbn [firstn]. apply app_nil_r.
Qed.
Lemma sub_prefix : forall x post n, (n <= length x)%nat -> sub (x ++ post) 0 n = firstn n x.
Proof.
  intros x post n H. unfold sub. cbn [Z.to_nat skipn]. rewrite firstn_app.
  replace (n - length x)%nat with 0%nat by lia. cbn [firstn]. apply app_nil_r.
Qed.
Lemma sub_whole : forall x n, length x = n -> sub x 0 n = x.
Proof. intros x n H. unfold sub. cbn [Z.to_nat skipn]. subst n. apply firstn_all. Qed.

Lemma be_app : forall k n x, be (n + k) x = be n (x / 256 ^ Z.of_nat k) ++ be k x.
Proof.
  induction k as [|k IH]; intros n x.
  - rewrite Nat.add_0_r. cbn [be Z.of_nat]. rewrite Z.pow_0_r, Z.div_1_r. symmetry. apply app_nil_r.
  - rewrite Nat.add_succ_r. cbn [be]. rewrite IH. rewrite <- app_assoc.
    rewrite Nat2Z.inj_succ, Z.pow_succ_r by lia. rewrite Z.div_div by (try lia; apply Z.pow_pos_nonneg; lia).
    rewrite (Z.mul_comm 256). reflexivity.
Qed.
Lemma skipn_be : forall k n x, skipn n (be (n + k) x) = be k x.
Proof.
  intros k n x. rewrite be_app. rewrite skipn_app, be_length, Nat.sub_diag. rewrite skipn_all2 by (rewrite be_length; lia). reflexivity.
Qed.
Lemma low_bytes_of_word : forall k x, (k <= 32)%nat -> 0 <= x < 256 ^ Z.of_nat k -> unbe (skipn (32 - k) (be 32 x)) = x.
Proof.
  intros k x Hk Hx. replace 32%nat with ((32 - k) + k)%nat at 2 by lia. rewrite skipn_be. apply unbe_be_small. exact Hx.
Qed.

Lemma unbe_acc_split : forall l acc, unbe_acc l acc = acc * 256 ^ Z.of_nat (length l) + unbe l.
Proof.
  induction l as [|b l IH]; intro acc.
  - unfold unbe. cbn. lia.
  - unfold unbe. cbn [unbe_acc length]. rewrite (IH (acc * 256 + Z_of_byte b)), (IH (0 * 256 + Z_of_byte b)).
    rewrite Nat2Z.inj_succ, Z.pow_succ_r by lia. ring.
Qed.
Lemma enc_split : forall b, enc b = 256 ^ Z.of_nat (length b) + unbe b.
Proof.
  intro b. unfold enc. unfold unbe at 1. cbn [unbe_acc]. rewrite unbe_acc_split. change (Z_of_byte x01) with 1. ring.
Qed.
Lemma enc_inj : forall a b, enc a = enc b -> a = b.
Proof.
  intros a b H. rewrite !enc_split in H.
  pose proof (unbe_nonneg a) as A0. pose proof (unbe_bound a) as A1. pose proof (unbe_nonneg b) as B0. pose proof (unbe_bound b) as B1.
  assert (L : length a = length b).
  { destruct (lt_eq_lt_dec (length a) (length b)) as [[Hl|He]|Hl]; [exfalso|exact He|exfalso].
    - assert (256 ^ Z.of_nat (S (length a)) <= 256 ^ Z.of_nat (length b)) by (apply Z.pow_le_mono_r; lia).
      rewrite Nat2Z.inj_succ, Z.pow_succ_r in * by lia. lia.
    - assert (256 ^ Z.of_nat (S (length b)) <= 256 ^ Z.of_nat (length a)) by (apply Z.pow_le_mono_r; lia).
      rewrite Nat2Z.inj_succ, Z.pow_succ_r in * by lia. lia. }
  rewrite L in H. assert (U : unbe a = unbe b) by lia.
  rewrite <- (be_unbe a), <- (be_unbe b), L, U. reflexivity.
Qed.
Lemma enc_eqb : forall a b, (enc a =? enc b) = bytes_eqb a b.
Proof.
  intros a b. destruct (bytes_eqb_spec a b) as [->|N]; [apply Z.eqb_refl|]. apply Z.eqb_neq. intro H. apply N. apply enc_inj. exact H.
Qed.
Lemma unbe_inj_len : forall a b, length a = length b -> unbe a = unbe b -> a = b.
Proof. intros a b L U. rewrite <- (be_unbe a), <- (be_unbe b), L, U. reflexivity. Qed.

(* ================================================================== B. UnpackLog in closed form *)
(* the static words of the data: the LOW bytes of word i, whatever the other bytes of the word are *)
Definition word_lo (d : bytes) (i : Z) (k : nat) : Z := unbe (skipn (32 - k) (sub d (32 * i) 32)).
Definition lmp_fields (d : bytes) (start len : Z) (t1 : bytes) : xev :=
  mkXev (skipn 12 (sub t1 0 32)) (word_lo d 0 2) (word_lo d 1 8) (word_lo d 2 4) (sub d start (Z.to_nat len)) (word_lo d 4 1).
Definition zero_event (t1 : bytes) : xev := mkXev (skipn 12 (sub t1 0 32)) 0 0 0 [] 0.

Definition topics_tail (ts : list bytes) (k : bytes -> xev) : dres xev :=
  match ts with
  | [t1] => if 32 >? blen t1 then DErr DShort else DOk (k t1)
  | _ => DErr DTopics
  end.

Definition decode_closed (r : rawlog) : dres xev :=
  match rl_topics r with
  | [] => DPanic
  | t0 :: ts =>
    if negb (bytes_eqb t0 evm_abi_lmp_id) then DErr DSig
    else if (length (rl_data r) =? 0)%nat then topics_tail ts zero_event
    else
      let d := rl_data r in
      if blen d <? 128 then DErr DShort
      else match length_prefix d (sub d 96 32) with
           | DErr e => DErr e
           | DPanic => DPanic
           | DOk (start, len) => if blen d <? 160 then DErr DShort else topics_tail ts (lmp_fields d start len)
           end
  end.

Lemma read_uint_spec : forall bits w, read_uint bits w = DOk (VNum (unbe (skipn (32 - Z.to_nat (bits / 8)) w))).
Proof. intros bits w. unfold read_uint. rewrite abi_no_padding_check. reflexivity. Qed.

Lemma unpack_lmp : forall d,
  unpack_values lmp_nonindexed 0 d =
  if blen d <? 128 then DErr DShort
  else match length_prefix d (sub d 96 32) with
       | DErr e => DErr e
       | DPanic => DPanic
       | DOk (start, len) =>
         if blen d <? 160 then DErr DShort
         else DOk [(FTarget, VNum (word_lo d 0 2)); (FSeq, VNum (word_lo d 1 8)); (FNonce, VNum (word_lo d 2 4));
                   (FPayload, VBytes (sub d start (Z.to_nat len))); (FCl, VNum (word_lo d 4 1))]
       end.
Proof.
  intro d. unfold lmp_nonindexed. cbn [unpack_values]. unfold to_go_type. rewrite !read_uint_spec.
  change (0 + 32 + 32 + 32 + 32) with 128. change (0 + 32 + 32 + 32) with 96. change (0 + 32 + 32) with 64. change (0 + 32) with 32.
  unfold word_lo. change (32 * 0) with 0. change (32 * 1) with 32. change (32 * 2) with 64. change (32 * 4) with 128.
  change (Z.to_nat (16 / 8)) with 2%nat. change (Z.to_nat (64 / 8)) with 8%nat. change (Z.to_nat (32 / 8)) with 4%nat. change (Z.to_nat (8 / 8)) with 1%nat.
  destruct (Z.ltb_spec (blen d) 128) as [H128|H128].
  - destruct (Z.gtb_spec 32 (blen d)); [reflexivity|].
    destruct (Z.gtb_spec 64 (blen d)); [reflexivity|].
    destruct (Z.gtb_spec 96 (blen d)); [reflexivity|].
    destruct (Z.gtb_spec 128 (blen d)); [reflexivity|lia].
  - destruct (Z.gtb_spec 32 (blen d)); [lia|].
    destruct (Z.gtb_spec 64 (blen d)); [lia|].
    destruct (Z.gtb_spec 96 (blen d)); [lia|].
    destruct (Z.gtb_spec 128 (blen d)); [lia|].
    destruct (length_prefix d (sub d 96 32)) as [[start len]|e|]; try reflexivity.
    destruct (Z.ltb_spec (blen d) 160); destruct (Z.gtb_spec (128 + 32) (blen d)); try lia; reflexivity.
Qed.

Lemma parse_topics_lmp : forall ts,
  parse_topics [(FSender, TAddress)] ts =
  match ts with
  | [t1] => if 32 >? blen t1 then DErr DShort else DOk [(FSender, VBytes (skipn 12 (sub t1 0 32)))]
  | _ => DErr DTopics
  end.
Proof.
  intros [|t1 [|t2 ts]]; unfold parse_topics; cbn [length Nat.eqb negb parse_topics_go]; try reflexivity.
  unfold to_go_type. change (0 + 32) with 32. destruct (32 >? blen t1); reflexivity.
Qed.

(* THEOREM B: what BoundContract.UnpackLog returns for ANY raw log *)
Theorem decode_log_closed_form : forall r, decode_log r = decode_closed r.
Proof.
  intro r. unfold decode_log, decode_closed. destruct (rl_topics r) as [|t0 ts]; [reflexivity|].
  destruct (negb (bytes_eqb t0 evm_abi_lmp_id)); [reflexivity|].
  rewrite abi_empty_data_skips, abi_nonindexed, abi_indexed. cbn [andb].
  rewrite parse_topics_lmp.
  destruct (length (rl_data r) =? 0)%nat.
  - unfold topics_tail. destruct ts as [|t1 [|t2 ts]]; try reflexivity. destruct (32 >? blen t1); reflexivity.
  - rewrite unpack_lmp. destruct (blen (rl_data r) <? 128); [reflexivity|].
    destruct (length_prefix (rl_data r) (sub (rl_data r) 96 32)) as [[start len]|e|]; try reflexivity.
    destruct (blen (rl_data r) <? 160); [reflexivity|].
    unfold topics_tail. destruct ts as [|t1 [|t2 ts]]; try reflexivity. destruct (32 >? blen t1); reflexivity.
Qed.

(* what a successful decoding says about the log *)
Theorem decode_ok_inv : forall r e, decode_log r = DOk e ->
  exists t1, rl_topics r = [evm_abi_lmp_id; t1] /\ 32 <= blen t1 /\
    ((rl_data r = [] /\ e = zero_event t1) \/
     (exists start len, 160 <= blen (rl_data r) /\ length_prefix (rl_data r) (sub (rl_data r) 96 32) = DOk (start, len) /\
        e = lmp_fields (rl_data r) start len t1)).
Proof.
  intros r e H. rewrite decode_log_closed_form in H. unfold decode_closed in H.
  destruct (rl_topics r) as [|t0 ts]; [discriminate H|].
  destruct (bytes_eqb_spec t0 evm_abi_lmp_id) as [->|N]; [|discriminate H]. cbn [negb] in H.
  assert (T : forall k, topics_tail ts k = DOk e -> exists t1, ts = [t1] /\ 32 <= blen t1 /\ e = k t1).
  { intros k Hk. unfold topics_tail in Hk. destruct ts as [|t1 [|t2 ts']]; try discriminate Hk.
    destruct (Z.gtb_spec 32 (blen t1)); [discriminate Hk|]. injection Hk as <-. exists t1. repeat apply conj; [reflexivity|lia|reflexivity]. }
  destruct (length (rl_data r) =? 0)%nat eqn:E0.
  - apply T in H. destruct H as [t1 [-> [L ->]]]. exists t1. repeat apply conj; try reflexivity; try exact L.
    left. split; [|reflexivity]. apply Nat.eqb_eq in E0. destruct (rl_data r); [reflexivity|discriminate E0].
  - destruct (Z.ltb_spec (blen (rl_data r)) 128); [discriminate H|].
    destruct (length_prefix (rl_data r) (sub (rl_data r) 96 32)) as [[start len]|e'|] eqn:LP; try discriminate H.
    destruct (Z.ltb_spec (blen (rl_data r)) 160); [discriminate H|].
    apply T in H. destruct H as [t1 [-> [L ->]]]. exists t1. repeat apply conj; try reflexivity; try exact L.
    right. exists start, len. repeat apply conj; [lia|reflexivity|reflexivity].
Qed.

(* the bounds go-ethereum checks before it slices the payload out of the data *)
Lemma length_prefix_ok_inv : forall d w start len, length_prefix d w = DOk (start, len) ->
  start = unbe w + 32 /\ len = unbe (sub d (unbe w) 32) /\ start + len <= blen d /\ 0 <= len.
Proof.
  intros d w start len H. unfold length_prefix in H.
  destruct (Z.gtb_spec (unbe w + 32) (blen d)); [discriminate H|].
  destruct (two63 <=? unbe w + 32); [discriminate H|].
  replace (unbe w + 32 - 32) with (unbe w) in H by lia.
  destruct (two63 <=? unbe w + 32 + unbe (sub d (unbe w) 32)); [discriminate H|].
  destruct (Z.gtb_spec (unbe w + 32 + unbe (sub d (unbe w) 32)) (blen d)); [discriminate H|].
  injection H as <- <-. repeat apply conj; try reflexivity; [lia|apply unbe_nonneg].
Qed.

(* malformed data: no event, hence (D) no message *)
Theorem decode_short_data : forall r, (0 < length (rl_data r))%nat -> blen (rl_data r) < 160 -> forall e, decode_log r <> DOk e.
Proof.
  intros r H0 H e He. apply decode_ok_inv in He. destruct He as [t1 [_ [_ [[E _]|[start [len [L _]]]]]]].
  - rewrite E in H0. cbn in H0. lia.
  - lia.
Qed.
Theorem decode_offset_out_of_range : forall r, (0 < length (rl_data r))%nat ->
  unbe (sub (rl_data r) 96 32) + 32 > blen (rl_data r) -> forall e, decode_log r <> DOk e.
Proof.
  intros r H0 H e He. apply decode_ok_inv in He. destruct He as [t1 [_ [_ [[E _]|[start [len [_ [LP _]]]]]]]].
  - rewrite E in H0. cbn in H0. lia.
  - apply length_prefix_ok_inv in LP. destruct LP as [-> [_ [B L]]]. lia.
Qed.
Theorem decode_length_out_of_range : forall r, (0 < length (rl_data r))%nat ->
  let off := unbe (sub (rl_data r) 96 32) in
  off + 32 + unbe (sub (rl_data r) off 32) > blen (rl_data r) -> forall e, decode_log r <> DOk e.
Proof.
  intros r H0 off H e He. apply decode_ok_inv in He. destruct He as [t1 [_ [_ [[E _]|[start [len [_ [LP _]]]]]]]].
  - rewrite E in H0. cbn in H0. lia.
  - apply length_prefix_ok_inv in LP. destruct LP as [-> [-> [B L]]]. subst off. lia.
Qed.
Theorem decode_wrong_topic_count : forall r, length (rl_topics r) <> 2%nat -> forall e, decode_log r <> DOk e.
Proof.
  intros r H e He. apply decode_ok_inv in He. destruct He as [t1 [T _]]. rewrite T in H. apply H. reflexivity.
Qed.
Theorem decode_no_topics_panics : forall r, rl_topics r = [] -> decode_log r = DPanic.
Proof. intros r H. unfold decode_log. rewrite H. reflexivity. Qed.
Theorem decode_other_signature : forall r t0 ts, rl_topics r = t0 :: ts -> t0 <> evm_abi_lmp_id -> decode_log r = DErr DSig.
Proof.
  intros r t0 ts H N. unfold decode_log. rewrite H. destruct (bytes_eqb_spec t0 evm_abi_lmp_id) as [E|_]; [contradiction|reflexivity].
Qed.

(* ================================================================== C. decode (sol_emit x) = x *)
Definition in_range (a : xev) : Prop :=
  length (x_sender a) = 20%nat /\ 0 <= x_target a < 65536 /\ 0 <= x_seq a < 18446744073709551616 /\ 0 <= x_nonce a < 4294967296 /\
  0 <= x_cl a < 256 /\ blen (x_payload a) < two63 - 256.

Lemma sol_data_spec : forall a,
  sol_data a = be 32 (x_target a) ++ be 32 (x_seq a) ++ be 32 (x_nonce a) ++ be 32 160 ++ be 32 (x_cl a) ++
               be 32 (blen (x_payload a)) ++ pad_to_word (x_payload a).
Proof.
  intro a. unfold sol_data, sol_params. cbv [sol_lmp_decl sol_lmp_emit_args combine map filter negb fst snd sol_value].
  cbn [enc_args enc_tail enc_head length Z.of_nat]. unfold blen. cbn [length app]. rewrite !app_nil_r.
  change (32 * Z.of_nat 5) with 160. change (Z.of_nat 0) with 0. change (160 + 0 + 0 + 0) with 160.
  rewrite <- !app_assoc. reflexivity.
Qed.
Lemma sol_topics_spec : forall a, sol_topics a = [evm_abi_lmp_id; left_pad 32 (x_sender a)].
Proof. intro a. unfold sol_topics, sol_params. rewrite sol_id_is_abi_id. reflexivity. Qed.

Lemma pad_to_word_length : forall b, (length b <= length (pad_to_word b))%nat.
Proof. intro b. unfold pad_to_word. rewrite app_length. lia. Qed.

Theorem decode_sol_emit : forall contract a bh num tx, in_range a -> decode_log (sol_emit contract a bh num tx) = DOk a.
Proof.
  intros contract a bh num tx [Hs [Ht [Hq [Hn [Hc Hp]]]]].
  rewrite decode_log_closed_form. unfold decode_closed, sol_emit. cbn [rl_topics rl_data].
  rewrite sol_topics_spec. rewrite bytes_eqb_refl. cbn [negb].
  set (d := sol_data a).
  assert (D : d = be 32 (x_target a) ++ be 32 (x_seq a) ++ be 32 (x_nonce a) ++ be 32 160 ++ be 32 (x_cl a) ++
                  be 32 (blen (x_payload a)) ++ pad_to_word (x_payload a)) by apply sol_data_spec.
  pose proof (pad_to_word_length (x_payload a)) as PL.
  assert (BL : blen d = 192 + blen (pad_to_word (x_payload a))).
  { rewrite D. rewrite !blen_app, !blen_be. lia. }
  assert (PLz : blen (x_payload a) <= blen (pad_to_word (x_payload a))) by (unfold blen; lia).
  pose proof (blen_nonneg (x_payload a)) as P0.
  assert (LN : (length d =? 0)%nat = false).
  { apply Nat.eqb_neq. intro E. unfold blen in BL. rewrite E in BL. lia. }
  rewrite LN.
  destruct (Z.ltb_spec (blen d) 128); [lia|].
  (* the words *)
  assert (W0 : sub d 0 32 = be 32 (x_target a)).
  { rewrite D. apply (sub_at [] (be 32 (x_target a))); [reflexivity|apply be_length]. }
  assert (W1 : sub d 32 32 = be 32 (x_seq a)).
  { rewrite D. apply (sub_at (be 32 (x_target a))); [apply blen_be|apply be_length]. }
  assert (W2 : sub d 64 32 = be 32 (x_nonce a)).
  { rewrite D. rewrite (app_assoc (be 32 (x_target a))). apply sub_at; [rewrite blen_app, !blen_be; reflexivity|apply be_length]. }
  assert (W3 : sub d 96 32 = be 32 160).
  { rewrite D. rewrite (app_assoc (be 32 (x_target a))), (app_assoc (_ ++ _)). apply sub_at; [rewrite !blen_app, !blen_be; reflexivity|apply be_length]. }
  assert (W4 : sub d 128 32 = be 32 (x_cl a)).
  { rewrite D. rewrite (app_assoc (be 32 (x_target a))), (app_assoc (_ ++ _)), (app_assoc (_ ++ _)).
    apply sub_at; [rewrite !blen_app, !blen_be; reflexivity|apply be_length]. }
  assert (W5 : sub d 160 32 = be 32 (blen (x_payload a))).
  { rewrite D. rewrite (app_assoc (be 32 (x_target a))), (app_assoc (_ ++ _)), (app_assoc (_ ++ _)), (app_assoc (_ ++ _)).
    apply sub_at; [rewrite !blen_app, !blen_be; reflexivity|apply be_length]. }
  assert (W6 : sub d 192 (length (x_payload a)) = x_payload a).
  { rewrite D. rewrite (app_assoc (be 32 (x_target a))), (app_assoc (_ ++ _)), (app_assoc (_ ++ _)), (app_assoc (_ ++ _)), (app_assoc (_ ++ _)).
    unfold pad_to_word. apply sub_at; [rewrite !blen_app, !blen_be; reflexivity|reflexivity]. }
  assert (U160 : unbe (be 32 160) = 160) by (apply unbe_be_small; cbn; lia).
  assert (P256 : 256 ^ Z.of_nat 32 > two63) by (vm_compute; reflexivity).
  assert (ULen : unbe (be 32 (blen (x_payload a))) = blen (x_payload a)) by (apply unbe_be_small; unfold two63 in *; lia).
  assert (LP : length_prefix d (sub d 96 32) = DOk (192, blen (x_payload a))).
  { unfold length_prefix. rewrite W3, U160. change (160 + 32) with 192. change (192 - 32) with 160. rewrite W5, ULen.
    destruct (Z.gtb_spec 192 (blen d)); [lia|].
    destruct (Z.leb_spec two63 192); [unfold two63 in *; lia|].
    destruct (Z.leb_spec two63 (192 + blen (x_payload a))); [unfold two63 in *; lia|].
    destruct (Z.gtb_spec (192 + blen (x_payload a)) (blen d)); [lia|reflexivity]. }
  rewrite LP. destruct (Z.ltb_spec (blen d) 160); [lia|].
  unfold topics_tail.
  assert (TL : length (left_pad 32 (x_sender a)) = 32%nat).
  { unfold left_pad. rewrite app_length, repeat_length, Hs. reflexivity. }
  destruct (Z.gtb_spec 32 (blen (left_pad 32 (x_sender a)))) as [G|_]; [unfold blen in G; rewrite TL in G; lia|].
  f_equal. unfold lmp_fields, word_lo.
  change (32 * 0) with 0. change (32 * 1) with 32. change (32 * 2) with 64. change (32 * 4) with 128.
  rewrite W0, W1, W2, W4. unfold blen. rewrite Nat2Z.id, W6.
  rewrite (sub_whole _ 32 TL).
  replace (skipn 12 (left_pad 32 (x_sender a))) with (x_sender a).
  2:{ unfold left_pad. rewrite Hs. change (32 - 20)%nat with 12%nat. rewrite skipn_app, repeat_length, Nat.sub_diag.
      rewrite skipn_all2 by (rewrite repeat_length; lia). reflexivity. }
  rewrite (low_bytes_of_word 2), (low_bytes_of_word 8), (low_bytes_of_word 4), (low_bytes_of_word 1); try lia;
    try (change (256 ^ Z.of_nat 2) with 65536); try (change (256 ^ Z.of_nat 8) with 18446744073709551616);
    try (change (256 ^ Z.of_nat 4) with 4294967296); try (change (256 ^ Z.of_nat 1) with 256); try assumption.
  destruct a; reflexivity.
Qed.

(* ================================================================== D. the watcher over raw content *)
Lemma length_prefix_never_panics : forall d w, length_prefix d w <> DPanic.
Proof.
  intros d w. unfold length_prefix.
  destruct (unbe w + 32 >? blen d); [discriminate|]. destruct (two63 <=? unbe w + 32); [discriminate|].
  destruct (two63 <=? _); [discriminate|]. destruct (_ >? blen d); discriminate.
Qed.
Lemma decode_panic_iff : forall r, decode_log r = DPanic <-> rl_topics r = [].
Proof.
  intro r. split; [|apply decode_no_topics_panics].
  rewrite decode_log_closed_form. unfold decode_closed. destruct (rl_topics r) as [|t0 ts]; [reflexivity|]. intro H. exfalso.
  assert (T : forall k, topics_tail ts k <> DPanic).
  { intros k. unfold topics_tail. destruct ts as [|t1 [|t2 ts']]; try discriminate. destruct (32 >? blen t1); discriminate. }
  destruct (negb (bytes_eqb t0 evm_abi_lmp_id)); [discriminate H|].
  destruct (length (rl_data r) =? 0)%nat; [exact (T _ H)|].
  destruct (blen (rl_data r) <? 128); [discriminate H|].
  pose proof (length_prefix_never_panics (rl_data r) (sub (rl_data r) 96 32)) as NP.
  destruct (length_prefix (rl_data r) (sub (rl_data r) 96 32)) as [[start len]|e|]; [|discriminate H|exact (NP eq_refl)].
  destruct (blen (rl_data r) <? 160); [discriminate H|exact (T _ H)].
Qed.

(* ---------------------------------------------------------------- abstraction is injective *)
Lemma abs_key_inj : forall a b, abs_key a = abs_key b -> a = b.
Proof.
  intros [a1 a2 a3 a4] [b1 b2 b3 b4]. unfold abs_key. cbn [xk_tx xk_bh xk_em xk_seq]. intro H. injection H as H1 H2 H3 H4.
  apply enc_inj in H1, H2, H3. subst. reflexivity.
Qed.
Lemma abs_msg_inj : forall a b, abs_msg a = abs_msg b -> a = b.
Proof.
  intros [a1 a2 a3 a4 a5 a6 a7 a8 a9] [b1 b2 b3 b4 b5 b6 b7 b8 b9]. unfold abs_msg.
  cbn [xm_tx xm_ts xm_nonce xm_seq xm_chain xm_target xm_em xm_payload xm_cl]. intro H. injection H as H1 H2 H3 H4 H5 H6 H7 H8 H9.
  apply enc_inj in H1, H7, H8. subst. reflexivity.
Qed.
Lemma key_eqb_abs : forall a b, key_eqb (abs_key a) (abs_key b) = xkey_eqb a b.
Proof.
  intros a b. unfold key_eqb, xkey_eqb, abs_key. cbn [k_tx k_bh k_em k_seq]. rewrite !enc_eqb. reflexivity.
Qed.

(* ---------------------------------------------------------------- the per-head scan *)
Lemma scan_entry_abs : forall wait safe n a k p,
  let r := scan_entry wait safe n a (abs_key k) (scan_view p) in
  scan_entry wait safe n a (abs_key k) (abs_pm p) = (fst r, map abs_out (map (lift_out k p) (snd r))).
Proof.
  intros wait safe n a k p. cbv zeta. rewrite !scan_entry_verdict.
  assert (V : verdict_at wait safe n a (abs_key k) (abs_pm p) = verdict_at wait safe n a (abs_key k) (scan_view p)) by reflexivity.
  rewrite V. destruct (verdict_at wait safe n a (abs_key k) (scan_view p)); reflexivity.
Qed.

Lemma xscan_abs : forall wait safe n orc l,
  abs_state (fst (xscan wait safe n orc l)) = fst (scan wait safe n orc (abs_state l)) /\
  map abs_out (snd (xscan wait safe n orc l)) = snd (scan wait safe n orc (abs_state l)).
Proof.
  intros wait safe n orc. induction l as [|[k p] t [IH1 IH2]]; [split; reflexivity|].
  cbn [xscan abs_state map scan fst snd]. fold (abs_state t).
  rewrite (scan_entry_abs wait safe n (orc (abs_key k)) k p). cbn [fst snd].
  split.
  - destruct (fst (scan_entry wait safe n (orc (abs_key k)) (abs_key k) (scan_view p))); cbn [abs_state map fst snd]; rewrite <- IH1; reflexivity.
  - rewrite map_app, IH2. reflexivity.
Qed.

Lemma xremove_abs : forall k l, abs_state (xremove k l) = remove_key (abs_key k) (abs_state l).
Proof.
  intros k. induction l as [|[k' p] t IH]; [reflexivity|].
  cbn [xremove abs_state map remove_key fst snd]. rewrite key_eqb_abs. destruct (xkey_eqb k k'); [exact IH|].
  cbn [abs_state map fst snd]. fold (abs_state (xremove k t)). rewrite IH. reflexivity.
Qed.
Lemma xinsert_abs : forall k p l, abs_state (xinsert k p l) = insert (abs_key k) (abs_pm p) (abs_state l).
Proof. intros k p l. unfold xinsert, insert. cbn [abs_state map fst snd]. fold (abs_state (xremove k l)). rewrite xremove_abs. reflexivity. Qed.

(* ---------------------------------------------------------------- both literals are `msg_of` of the abstract model: THE place where the
   field-by-field content of the generated literals enters *)
Lemma log_msg_abs : forall c r t e, abs_msg (xmsg_of_log c r t e) = msg_of (abs_cfg c) (abs_ev r e) (to_i64 t).
Proof. reflexivity. Qed.
Lemma rcpt_msg_abs : forall c l t e,
  abs_msg (evm_msg_of_rcpt_log (xc_chain c) (rl_tx l) (rl_bh l) t e) = msg_of (abs_cfg c) (abs_ev l e) (to_i64 t).
Proof. reflexivity. Qed.
Lemma log_key_abs : forall c r t e, abs_key (xkey_of_log c r t e) = key_of (abs_ev r e).
Proof. reflexivity. Qed.
Lemma log_pm_abs : forall c r t e, abs_pm (xpm_of_log c r t e) = pm_of (abs_cfg c) (abs_ev r e) (to_i64 t).
Proof. reflexivity. Qed.

(* ---------------------------------------------------------------- re-observation *)
Definition abs_loop (x : option (option (list xmsg))) : option (option (list msg)) := option_map (option_map (map abs_msg)) x.
Lemma xlog_loop_abs : forall c t ls acc,
  abs_loop (xlog_loop c t ls acc) = log_loop (abs_cfg c) (to_i64 t) (map (option_map abs_rlog) ls) (map abs_msg acc).
Proof.
  intros c t. induction ls as [|[l|] r IH]; intro acc.
  - cbn [xlog_loop map log_loop abs_loop option_map]. rewrite map_rev. reflexivity.
  - cbn [xlog_loop map option_map log_loop]. cbn [abs_rlog l_addr l_topic0 l_ev abs_cfg c_contract].
    rewrite enc_eqb.
    destruct (evm_reobs_checks_address && negb (bytes_eqb (rl_addr l) (xc_contract c))); [apply IH|].
    destruct (rl_topics l) as [|t0 ts] eqn:ET; [reflexivity|].
    destruct (evm_reobs_checks_topic && negb (unbe t0 =? evm_lmp_topic)); [apply IH|].
    destruct (decode_log l) as [e|x|] eqn:ED.
    + rewrite IH. cbn [map]. rewrite rcpt_msg_abs. reflexivity.
    + reflexivity.
    + apply decode_panic_iff in ED. rewrite ED in ET. discriminate ET.
  - cbn [xlog_loop map option_map log_loop]. apply IH.
Qed.

Definition abs_txres (x : xtxres) : txres :=
  match x with XTxErr => TxErr | XTxPanic => TxPanic | XTxOk blk ms => TxOk blk (map abs_msg ms) end.
Lemma xevents_abs : forall c rc bt,
  abs_txres (xevents_for_tx c rc bt) = events_for_tx (abs_cfg c) (option_map abs_rcpt rc) (option_map to_i64 bt).
Proof.
  intros c [r|] bt; [|reflexivity]. cbn [xevents_for_tx option_map events_for_tx abs_rcpt r_status r_logs r_blk].
  destruct (evm_reobs_checks_status && negb (evm_reobs_status_ok (xr_status r))); [reflexivity|].
  destruct bt as [t|]; [|reflexivity]. cbn [option_map].
  pose proof (xlog_loop_abs c t (xr_logs r) []) as L. cbn [map] in L. rewrite <- L.
  destruct (xlog_loop c t (xr_logs r) []) as [[ms|]|]; cbn [abs_loop option_map]; try reflexivity.
  destruct (xr_blk r); reflexivity.
Qed.

Lemma xreobserve_abs : forall c hb ha rc bt,
  map abs_out (xreobserve c hb ha rc bt) = reobserve (abs_cfg c) hb ha (option_map abs_rcpt rc) (option_map to_i64 bt).
Proof.
  intros c hb ha rc bt. unfold xreobserve, reobserve.
  destruct (if evm_reobs_head_first then hb else ha) as [hd|]; [|reflexivity].
  rewrite <- xevents_abs. destruct (xevents_for_tx c rc bt) as [| |blk ms]; cbn [abs_txres]; try reflexivity.
  induction ms as [|m ms IH]; [reflexivity|].
  cbn [flat_map map]. rewrite map_app, IH. f_equal.
  cbn [abs_cfg c_wait].
  assert (CL : m_cl (abs_msg m) = xm_cl m) by reflexivity. rewrite CL.
  destruct (evm_reobs_zero_head_guard && (u64 hd =? 0)); [reflexivity|].
  destruct (evm_reobs_depth_reached _ _); reflexivity.
Qed.

(* ---------------------------------------------------------------- one step, whole histories: REFINEMENT *)
Lemma panic_op_spec : forall c s, step (abs_cfg c) s (panic_op c) = (s, [Panic]).
Proof.
  intros c s. unfold panic_op. cbn [step]. f_equal. unfold reobserve.
  assert (E : events_for_tx (abs_cfg c) (Some (mkRcpt 1 (Some 0) [Some (mkRLog (enc (xc_contract c)) None None)])) (Some 0) = TxPanic).
  { cbn [events_for_tx r_status r_logs r_blk].
    assert (S1 : evm_reobs_status_ok 1 = true) by (apply reobs_status_ok_spec; reflexivity). rewrite S1. rewrite andb_false_r.
    cbn [log_loop l_addr abs_cfg c_contract]. rewrite Z.eqb_refl. rewrite andb_false_r. cbn [l_topic0]. reflexivity. }
  rewrite E. destruct evm_reobs_head_first; reflexivity.
Qed.

Theorem xstep_refines : forall c s o,
  abs_state (fst (xstep c s o)) = fst (step (abs_cfg c) (abs_state s) (abs_op c o)) /\
  map abs_out (snd (xstep c s o)) = snd (step (abs_cfg c) (abs_state s) (abs_op c o)).
Proof.
  intros c s [r bt|n safe orc|hb ha rc bt].
  - cbn [xstep abs_op]. destruct (decode_log r) as [e|x|].
    + destruct bt as [t|]; cbn [option_map step fst snd map abs_out]; [|split; reflexivity].
      rewrite xinsert_abs, log_key_abs, log_pm_abs. split; reflexivity.
    + cbn [step fst snd map abs_out]. split; reflexivity.
    + rewrite panic_op_spec. split; reflexivity.
  - cbn [xstep abs_op step abs_cfg c_wait]. apply xscan_abs.
  - cbn [xstep abs_op step fst snd]. split; [reflexivity|apply xreobserve_abs].
Qed.

Theorem xrun_refines : forall c ops s,
  abs_state (fst (xrun c s ops)) = fst (run (abs_cfg c) (abs_state s) (map (abs_op c) ops)) /\
  map (map abs_out) (snd (xrun c s ops)) = snd (run (abs_cfg c) (abs_state s) (map (abs_op c) ops)).
Proof.
  intros c. induction ops as [|o t IH]; intro s; [split; reflexivity|].
  cbn [xrun map run fst snd]. destruct (xstep_refines c s o) as [A B]. rewrite <- A, <- B.
  destruct (IH (fst (xstep c s o))) as [C D]. rewrite <- C, <- D. split; reflexivity.
Qed.

(* ---------------------------------------------------------------- provenance of the pending entries *)
Definition xprov (c : xcfg) (hist : list xop) (s : xpending) : Prop :=
  forall k p, In (k, p) s -> exists r t e, In (XLog r (Some t)) hist /\ decode_log r = DOk e /\ k = xkey_of_log c r t e /\ p = xpm_of_log c r t e.

Lemma xremove_sub : forall k x l, In x (xremove k l) -> In x l.
Proof.
  intros k x. induction l as [|[k' p] t IH]; [intros []|]. cbn [xremove]. destruct (xkey_eqb k k').
  - intro H. right. apply IH. exact H.
  - intros [H|H]; [left; exact H|right; apply IH; exact H].
Qed.
Lemma xscan_sub : forall wait safe n orc l x, In x (fst (xscan wait safe n orc l)) -> In x l.
Proof.
  intros wait safe n orc. induction l as [|[k p] t IH]; intros x; [intros []|].
  cbn [xscan fst]. destruct (fst (scan_entry _ _ _ _ _ _)).
  - intros [H|H]; [left; exact H|right; apply IH; exact H].
  - intro H. right. apply IH. exact H.
Qed.
Lemma xprov_step : forall c hist s o, xprov c hist s -> xprov c (hist ++ [o]) (fst (xstep c s o)).
Proof.
  intros c hist s o P k p Hin.
  assert (W : In (k, p) s -> exists r t e, In (XLog r (Some t)) (hist ++ [o]) /\ decode_log r = DOk e /\ k = xkey_of_log c r t e /\ p = xpm_of_log c r t e).
  { intro H. destruct (P k p H) as [r [t [e [H1 H2]]]]. exists r, t, e. split; [apply in_or_app; left; exact H1|exact H2]. }
  destruct o as [r bt|n safe orc|hb ha rc bt].
  - cbn [xstep] in Hin. destruct (decode_log r) as [e|x|] eqn:ED; cbn [fst] in Hin; try (apply W; exact Hin).
    destruct bt as [t|]; cbn [fst] in Hin; [|apply W; exact Hin].
    destruct Hin as [Hin|Hin].
    + injection Hin as <- <-. exists r, t, e. repeat apply conj; try reflexivity; [apply in_or_app; right; left; reflexivity|exact ED].
    + apply W. apply xremove_sub in Hin. exact Hin.
  - cbn [xstep] in Hin. apply W. apply xscan_sub in Hin. exact Hin.
  - cbn [xstep fst] in Hin. apply W. exact Hin.
Qed.
Lemma xprov_run : forall c ops hist s, xprov c hist s -> xprov c (hist ++ ops) (fst (xrun c s ops)).
Proof.
  intros c. induction ops as [|o t IH]; intros hist s P.
  - rewrite app_nil_r. exact P.
  - cbn [xrun fst]. replace (hist ++ o :: t) with ((hist ++ [o]) ++ t) by (rewrite <- app_assoc; reflexivity).
    apply IH. apply xprov_step. exact P.
Qed.
Lemma xprov_init : forall c ops, xprov c ops (fst (xrun c [] ops)).
Proof. intros c ops. apply (xprov_run c ops [] []). intros k p []. Qed.

(* ---------------------------------------------------------------- END-TO-END FIDELITY, subscription path *)
Lemma xscan_confirmed_inv : forall wait safe n orc l k m, In (XConfirmed k m) (snd (xscan wait safe n orc l)) ->
  exists p, In (k, p) l /\ m = xp_msg p /\
    In (Confirmed (abs_key k) (p_msg (scan_view p))) (snd (scan_entry wait safe n (orc (abs_key k)) (abs_key k) (scan_view p))).
Proof.
  intros wait safe n orc. induction l as [|[k' p'] t IH]; intros k m H; [destruct H|].
  cbn [xscan snd] in H. apply in_app_or in H. destruct H as [H|H].
  - apply in_map_iff in H. destruct H as [o [Ho Hin]].
    rewrite scan_entry_verdict in Hin.
    destruct o; cbn [lift_out] in Ho; try discriminate Ho. injection Ho as <- <-.
    pose proof Hin as Hin'. apply confirmed_in_result in Hin'. destruct Hin' as [_ [-> ->]].
    exists p'. repeat apply conj; [left; reflexivity|reflexivity|]. rewrite scan_entry_verdict. exact Hin.
  - destruct (IH k m H) as [p [A B]]. exists p. split; [right; exact A|exact B].
Qed.

(* the message a parsed log stands for, field by field *)
Definition message_of_log (chain : Z) (r : rawlog) (bt : Z) (e : xev) : xmsg :=
  mkXMsg (rl_tx r) (to_i64 bt) (x_nonce e) (x_seq e) chain (to_u16 (x_target e)) (evm_pad_address (x_sender e)) (x_payload e) (x_cl e).
Definition key_of_raw (r : rawlog) (e : xev) : xkey := mkXKey (rl_tx r) (rl_bh r) (evm_pad_address (x_sender e)) (x_seq e).

Theorem forwarded_is_log_content : forall c hist n safe orc k m,
  In (XConfirmed k m) (snd (xstep c (fst (xrun c [] hist)) (XHead n safe orc))) ->
  exists r t e,
    In (XLog r (Some t)) hist /\ decode_log r = DOk e /\
    m = message_of_log (xc_chain c) r t e /\ k = key_of_raw r e /\
    u64 (rl_num r + evm_expected (xc_wait c) safe (x_cl e)) <= u64 n /\
    orc (abs_key k) = mkAns (Some (1, enc (rl_bh r))) ENone.
Proof.
  intros c hist n safe orc k m H. cbn [xstep] in H. apply xscan_confirmed_inv in H. destruct H as [p [Hin [-> HC]]].
  destruct (xprov_init c hist k p Hin) as [r [t [e [H1 [H2 [-> ->]]]]]].
  exists r, t, e. repeat apply conj; try reflexivity; try assumption.
  - assert (S : In (Confirmed (abs_key (xkey_of_log c r t e)) (p_msg (scan_view (xpm_of_log c r t e))))
                   (snd (step (mkCfg (xc_wait c) 0 0) [(abs_key (xkey_of_log c r t e), scan_view (xpm_of_log c r t e))] (OHead n safe orc)))).
    { cbn [step scan c_wait snd]. rewrite app_nil_r. exact HC. }
    apply scan_step_safe in S. destruct S as [p' [[E|[]] [_ [D _]]]]. injection E as <-. exact D.
  - assert (S : In (Confirmed (abs_key (xkey_of_log c r t e)) (p_msg (scan_view (xpm_of_log c r t e))))
                   (snd (step (mkCfg (xc_wait c) 0 0) [(abs_key (xkey_of_log c r t e), scan_view (xpm_of_log c r t e))] (OHead n safe orc)))).
    { cbn [step scan c_wait snd]. rewrite app_nil_r. exact HC. }
    apply scan_step_safe in S. destruct S as [p' [_ [_ [_ A]]]]. exact A.
Qed.

(* the pending key is a function of the log alone (not of the block time, the configuration or the state), and distinct
   (tx, block hash, emitter, sequence) give distinct keys of the abstract model *)
Theorem pending_key_of_log : forall c r t e, xkey_of_log c r t e = key_of_raw r e.
Proof. reflexivity. Qed.

(* ---------------------------------------------------------------- END-TO-END FIDELITY, re-observation path *)
Lemma in_map_option : forall (A B : Type) (f : A -> B) l y, In (Some y) (map (option_map f) l) -> exists x, In (Some x) l /\ y = f x.
Proof.
  intros A B f. induction l as [|[a|] t IH]; intros y H; [destruct H| |].
  - cbn [map option_map] in H. destruct H as [H|H].
    + injection H as <-. exists a. split; [left; reflexivity|reflexivity].
    + destruct (IH y H) as [x [X1 X2]]. exists x. split; [right; exact X1|exact X2].
  - cbn [map option_map] in H. destruct H as [H|H]; [discriminate H|].
    destruct (IH y H) as [x [X1 X2]]. exists x. split; [right; exact X1|exact X2].
Qed.

Theorem reobserved_is_log_content : forall c hb ha rc bt m,
  In (XReobserved m) (xreobserve c hb ha rc bt) ->
  exists hd r t blk l e,
    hb = Some hd /\ rc = Some r /\ xr_status r = 1 /\ bt = Some t /\ xr_blk r = Some blk /\
    In (Some l) (xr_logs r) /\ rl_addr l = xc_contract c /\ (exists t1, rl_topics l = [evm_abi_lmp_id; t1]) /\ decode_log l = DOk e /\
    m = message_of_log (xc_chain c) l t e /\
    u64 hd <> 0 /\ u64 (u64 blk + (if xc_wait c then x_cl e else 0)) <= u64 hd.
Proof.
  intros c hb ha rc bt m H.
  assert (A : In (Reobserved (abs_msg m)) (reobserve (abs_cfg c) hb ha (option_map abs_rcpt rc) (option_map to_i64 bt))).
  { rewrite <- xreobserve_abs. apply (in_map abs_out _ _ H). }
  apply reobserve_safe in A.
  destruct A as [hd [r' [t' [blk [l' [e' [A1 [A2 [A3 [A4 [A5 [A6 [A7 [A8 [A9 [A10 [A11 A12]]]]]]]]]]]]]]]]].
  destruct rc as [r|]; [|discriminate A2]. cbn [option_map] in A2. injection A2 as <-.
  destruct bt as [t|]; [|discriminate A4]. cbn [option_map] in A4. injection A4 as <-.
  cbn [abs_rcpt r_status r_blk r_logs] in A3, A5, A6.
  apply in_map_option in A6. destruct A6 as [l [L1 ->]].
  unfold abs_rlog in A7, A8, A9. cbn [l_addr l_topic0 l_ev abs_cfg c_contract] in A7, A8, A9.
  apply enc_inj in A7.
  destruct (decode_log l) as [e| |] eqn:ED; try discriminate A9. injection A9 as <-.
  rewrite <- rcpt_msg_abs in A10. apply abs_msg_inj in A10.
  pose proof (decode_ok_inv l e ED) as [t1 [T _]].
  exists hd, r, t, blk, l, e. repeat apply conj; try reflexivity; try assumption.
  all: try (exists t1; exact T).
  all: try exact A12.
Qed.

(* ---------------------------------------------------------------- malformed logs *)
(* subscription path: the subscription ends, Run returns, w.pending is exactly what it was *)
Theorem malformed_log_on_subscription : forall c s r bt x, decode_log r = DErr x -> xstep c s (XLog r bt) = (s, [XDied]).
Proof. intros c s r bt x H. cbn [xstep]. rewrite H. reflexivity. Qed.
Theorem topicless_log_on_subscription : forall c s r bt, rl_topics r = [] -> xstep c s (XLog r bt) = (s, [XPanic]).
Proof. intros c s r bt H. cbn [xstep]. rewrite (decode_no_topics_panics r H). reflexivity. Qed.

(* re-observation path: one core-contract LogMessagePublished log that does not unpack, and the whole request forwards nothing *)
Lemma xlog_loop_bad : forall c t l x ls acc,
  In (Some l) ls -> rl_addr l = xc_contract c -> (exists t0 ts, rl_topics l = t0 :: ts /\ unbe t0 = evm_lmp_topic) -> decode_log l = DErr x ->
  forall ms, xlog_loop c t ls acc <> Some (Some ms).
Proof.
  intros c t l x. induction ls as [|[l'|] r IH]; intros acc Hin Ha Ht Hd ms; [destruct Hin| |].
  - cbn [xlog_loop]. destruct Hin as [E|Hin].
    + injection E as ->. rewrite Ha, bytes_eqb_refl. cbn [negb]. rewrite andb_false_r.
      destruct Ht as [t0 [ts [T U]]]. rewrite T, U, Z.eqb_refl. cbn [negb]. rewrite andb_false_r. rewrite Hd. discriminate.
    + destruct (evm_reobs_checks_address && negb (bytes_eqb (rl_addr l') (xc_contract c))); [apply IH; assumption|].
      destruct (rl_topics l') as [|t0 ts]; [discriminate|].
      destruct (evm_reobs_checks_topic && negb (unbe t0 =? evm_lmp_topic)); [apply IH; assumption|].
      destruct (decode_log l'); [apply IH; assumption|discriminate|discriminate].
  - cbn [xlog_loop]. destruct Hin as [E|Hin]; [discriminate E|]. apply IH; assumption.
Qed.
Theorem malformed_log_in_receipt : forall c hb ha r bt l x,
  In (Some l) (xr_logs r) -> rl_addr l = xc_contract c -> (exists ts, rl_topics l = evm_abi_lmp_id :: ts) -> decode_log l = DErr x ->
  forall m, ~ In (XReobserved m) (xreobserve c hb ha (Some r) bt).
Proof.
  intros c hb ha r bt l x Hin Ha [ts Ht] Hd m H.
  unfold xreobserve in H. destruct (if evm_reobs_head_first then hb else ha) as [hd|]; [|destruct H].
  cbn [xevents_for_tx] in H.
  destruct (evm_reobs_checks_status && negb (evm_reobs_status_ok (xr_status r))); [destruct H|].
  destruct bt as [t|]; [|destruct H].
  pose proof (xlog_loop_bad c t l x (xr_logs r) [] Hin Ha (ex_intro _ evm_abi_lmp_id (ex_intro _ ts (conj Ht lmp_id_is_topic))) Hd) as NB.
  destruct (xlog_loop c t (xr_logs r) []) as [[ms|]|].
  - exfalso. exact (NB ms eq_refl).
  - destruct H.
  - destruct H as [H|[]]. discriminate H.
Qed.

(* ---------------------------------------------------------------- the message of a log the contract emitted, in plain terms *)
Lemma to_u16_small : forall x, 0 <= x < 65536 -> to_u16 x = x.
Proof. intros x H. unfold to_u16. apply Z.mod_small. exact H. Qed.
Lemma to_i64_small : forall x, 0 <= x < two63 -> to_i64 x = x.
Proof.
  intros x H. unfold to_i64, two63 in *. rewrite Z.mod_small by lia. cbv zeta.
  destruct (Z.ltb_spec x 9223372036854775808); [reflexivity|lia].
Qed.
Theorem emitted_message_fields : forall chain contract a bh num tx bt, in_range a -> 0 <= bt < two63 ->
  decode_log (sol_emit contract a bh num tx) = DOk a /\
  message_of_log chain (sol_emit contract a bh num tx) bt a =
    mkXMsg tx bt (x_nonce a) (x_seq a) chain (x_target a) (repeat x00 12 ++ x_sender a) (x_payload a) (x_cl a) /\
  key_of_raw (sol_emit contract a bh num tx) a = mkXKey tx bh (repeat x00 12 ++ x_sender a) (x_seq a).
Proof.
  intros chain contract a bh num tx bt R Hbt. split; [apply decode_sol_emit; exact R|].
  destruct R as [Hs [Ht _]]. unfold message_of_log, key_of_raw, sol_emit. cbn [rl_tx rl_bh].
  rewrite (pad_address_spec _ Hs), (to_u16_small _ Ht), (to_i64_small _ Hbt). split; reflexivity.
Qed.
