(* Computed example histories of the composed re-observation loop (toy crypto oracles): the witness that "every five minutes" is
   false for the composition, the satisfiability of the cadence theorem's hypotheses, a recovery.  Evaluated once here (vm_compute);
   props/C14.v restates them. *)
From Coq Require Import List ZArith Bool Lia.
From Coq Require Import Strings.Byte.
From WH Require Import lib.Bytes gen.Extracted gen.ExtractedWiring gen.ExtractedP2P model.Vaa model.Processor model.ProcSpec model.ReobsLoop
     proofs.ProcC02Proofs proofs.SystemLiveProofs proofs.ReobsLoopBase proofs.ReobsLoopProofs.
Import ListNotations.
Open Scope Z_scope.

(* ---------------------------------------------------------------- computed: a node that missed the message recovers through the loop *)
Definition rx_own : addr := repeat x01 20.
Definition rx_recover (h s : bytes) : option bytes := Some (firstn 20 s).
Definition rx_keccak (b : bytes) : bytes := repeat x00 32.
Definition rx_sign (d : bytes) : bytes := rx_own ++ repeat x00 45.
Definition rx_msg : msgpub := {| m_tx := [x07]; m_ts := 1700000000; m_tns := 0; m_nonce := 1; m_seq := 5; m_cl := 1;
                                 m_echain := 2; m_tchain := 255; m_eaddr := repeat x02 32; m_payload := [x01; x02] |}.
Definition rx_peer : addr := repeat x03 20.
Definition rx_G : gset := {| keys := [rx_own; rx_peer] ; gidx := 3 |}.
Definition rx_watch (c : Z) (r : Reobserve.req) (t : Z) : list msgpub := if (c =? 2) && bytes_eqb (Reobserve.r_tx r) [x07] then [rx_msg] else [].
Definition rx_run := lrun rx_recover rx_keccak rx_sign rx_own 1 (repeat x00 32) (fun _ => None) (fun _ => None) (fun _ => []) [x09] false rx_watch.
(* the node learns the set; a request for transaction 07 on chain 2 arrives (here: posted locally and pumped), is forwarded; the
   watcher answers with the message; the peer's observation arrives by gossip; the own signature loops back: published *)
Definition rx_H0 : list lop := [LEnv (VSetGS rx_G)].
Definition rx_H : list lop :=
  [LClock 1000; LAdmin {| Reobserve.r_chain := 2; Reobserve.r_tx := [x07] |}; LPump; LWatch 2;
   LGossip [x05] (P2PVerify.MObservation {| o_addr := rx_peer; o_hash := repeat x00 32; o_sig := rx_peer ++ repeat x00 45; o_tx := [x07] |}); LEnv (VLoop 0)].
Lemma ex_recovery_computed :
  let st0 := fst (rx_run linit rx_H0) in let tr := snd (rx_run st0 rx_H) in
  map (fun e => match snd e with EDisp _ _ x => x | _ => Reobserve.Purged end) (filter (fun e => match snd e with EDisp _ _ _ => true | _ => false end) tr)
    = [Reobserve.Forward 2; Reobserve.Drained (Some {| Reobserve.r_chain := 2; Reobserve.r_tx := [x07] |})] /\
  existsb (fun e => match snd e with EWatch 2 _ [m] => true | _ => false end) tr = true /\
  existsb (fun e => match snd e with EProc (Loopback 0) outs => existsb is_bcast outs | _ => false end) tr = true /\
  forallb calm (pops tr) = true /\ alookup (repeat x00 32) (agg (l_proc st0)) = None /\ cur (l_proc st0) = Some rx_G.
Proof. vm_compute. repeat split; reflexivity. Qed.


(* ---------------------------------------------------------------- a computed history of the composed node (toy crypto oracles) *)
Definition lx_own : addr := repeat x01 20.
Definition lx_recover (h s : bytes) : option bytes := Some (firstn 20 s).
Definition lx_keccak (b : bytes) : bytes := repeat x00 32.
Definition lx_sign (d : bytes) : bytes := lx_own ++ repeat x00 45.
Definition lx_msg : msgpub := {| m_tx := [x07]; m_ts := 1700000000; m_tns := 0; m_nonce := 1; m_seq := 5; m_cl := 1;
                                 m_echain := 2; m_tchain := 255; m_eaddr := repeat x02 32; m_payload := [x01; x02] |}.
Definition lx_G : gset := {| keys := [lx_own; repeat x03 20]; gidx := 3 |}.       (* two guardians: the node alone never has quorum *)
Definition lx_sec : Z := 1000000000.
Definition lx_run := lrun lx_recover lx_keccak lx_sign lx_own 1 (repeat x00 32) (fun _ => None) (fun _ => None) (fun _ => []) [x09] false (fun _ _ _ => []).
Definition lx_states := lstates lx_recover lx_keccak lx_sign lx_own 1 (repeat x00 32) (fun _ => None) (fun _ => None) (fun _ => []) [x09] false (fun _ _ _ => []).
(* every 30 s: the clock, the purge ticker at multiples of 7 min, the cleanup ticker, p2p's request goroutine, the watcher *)
Fixpoint lx_ticks (n : nat) (t : Z) : list lop :=
  match n with
  | O => []
  | S k => (LClock t :: (if (t / lx_sec) mod 420 =? 0 then [LPurge] else []) ++ [LCleanup; LPump; LWatch 2]) ++ lx_ticks k (t + 30 * lx_sec)
  end.
Definition lx_H : list lop := [LEnv (VSetGS lx_G); LEnv (VMsg lx_msg); LEnv (VLoop 0)] ++ lx_ticks 121 (30 * lx_sec).
Definition lx_requests (tr : list tev) : list (Z * Z) :=      (* (second, 0 forwarded / 1 duplicate / 2 full / 3 unknown) *)
  flat_map (fun e => match snd e with
                     | EDisp _ (Reobserve.Req _ t) x => [(t / lx_sec, match x with Reobserve.Forward _ => 0 | Reobserve.DropDup => 1 | Reobserve.DropFull => 2 | _ => 3 end)]
                     | _ => [] end) tr.

(* THE NAIVE EXPECTATION "a re-observation every five minutes" IS FALSE FOR THE COMPOSITION: the pending message is retried every
   5 minutes for an hour (12 requests), the watcher sees 3 of them: at 5, 25 and 45 minutes (gaps of 20 min <= B = 23.5 min) *)
Lemma ex_every_five_minutes_is_false :
  lx_requests (snd (lx_run linit lx_H)) =
  [(300, 0); (600, 1); (900, 1); (1200, 1); (1500, 0); (1800, 1); (2100, 1); (2400, 1); (2700, 0); (3000, 1); (3300, 1); (3600, 1)].
Proof. vm_compute. reflexivity. Qed.

(* the hypotheses of C14_loop_cadence hold for that history with t = 5 min (first forward): invariant, empty cache, monotone clock,
   pending at every cleanup tick in (5 min, 28.5 min], the purge tick at 21 min, a cleanup tick every 30 s, request goroutine keeping
   up, no overflow - and the conclusion: a forward in (5 min, 28.5 min] (it is the one at 25 min) *)
Definition lx_h : bytes := repeat x00 32.
Definition lx_H2 : list lop := [LEnv (VSetGS lx_G); LEnv (VMsg lx_msg); LEnv (VLoop 0)] ++ lx_ticks 58 (30 * lx_sec).    (* the first 29 minutes of lx_H *)
Lemma ex_cadence_hypotheses_satisfiable :
  let t := 300 * lx_sec in
  LInv linit /\ ReobserveProofs.cache_wf (l_disp linit) /\ ReobserveProofs.known (l_disp linit) (2 mod 65536) /\
  lmono (l_now linit) lx_H2 /\ l_now linit <= t /\
  (forall s, In (s, LCleanup) (lx_states linit lx_H2) -> t < l_now s <= t + loop_bound -> pending_at s lx_h 2 [x07]) /\
  (exists s, In (s, LPurge) (lx_states linit lx_H2) /\ t + reobs_window < l_now s <= t + reobs_window + reobs_period) /\
  (forall a, t + reobs_window < a <= t + reobs_window + reobs_period + proc_retry_ns ->
     exists s, In (s, LCleanup) (lx_states linit lx_H2) /\ a < l_now s <= a + proc_tick_ns) /\
  drained lx_recover lx_keccak lx_sign lx_own 1 (repeat x00 32) (fun _ => None) (fun _ => None) (fun _ => []) [x09] false (fun _ _ _ => []) linit lx_H2 /\
  (forall u r, ~ In (u, EPost r Reobserve.PostErrChanFull) (snd (lx_run linit lx_H2))) /\
  (forall u s r f, Reobserve.key_of r = key_of_msg 2 [x07] -> ~ In (u, EDisp s (Reobserve.Req r f) Reobserve.DropFull) (snd (lx_run linit lx_H2))) /\
  exists u s r f x, In (u, EDisp s (Reobserve.Req r f) (Reobserve.Forward x)) (snd (lx_run linit lx_H2)) /\ Reobserve.key_of r = key_of_msg 2 [x07] /\ t < f <= t + loop_bound.
Proof.
  cbv zeta.
  assert (Hst : exists l, l = lx_states linit lx_H2) by (eexists; reflexivity). destruct Hst as (states & Est).
  assert (Htr : exists l, l = snd (lx_run linit lx_H2)) by (eexists; reflexivity). destruct Htr as (tr & Etr).
  assert (P5 : forall s, In (s, LCleanup) states -> 300 * lx_sec < l_now s <= 300 * lx_sec + loop_bound -> pending_at s lx_h 2 [x07]).
  { assert (Hb : forallb (fun so => implb (is_cleanup (snd so) && (300 * lx_sec <? l_now (fst so)) && (l_now (fst so) <=? 300 * lx_sec + loop_bound))
                                         (pending_atb (fst so) lx_h 2 [x07])) states = true) by (rewrite Est; vm_compute; reflexivity).
    intros s Hin [A B]. pose proof (forallb_states _ _ Hb _ Hin) as X. cbn [fst snd is_cleanup andb] in X.
    apply Z.ltb_lt in A. apply Z.leb_le in B. rewrite A, B in X. apply pending_atb_sound. exact X. }
  assert (P6 : exists s, In (s, LPurge) states /\ 300 * lx_sec + reobs_window < l_now s <= 300 * lx_sec + reobs_window + reobs_period).
  { assert (Hb : existsb (fun so => is_purge (snd so) && (300 * lx_sec + reobs_window <? l_now (fst so)) && (l_now (fst so) <=? 300 * lx_sec + reobs_window + reobs_period)) states = true)
      by (rewrite Est; vm_compute; reflexivity).
    apply existsb_exists in Hb as ([s o] & Hin & X). cbn [fst snd] in X. apply andb_prop in X as [X C]. apply andb_prop in X as [A Bq].
    destruct o; try discriminate A. exists s. split; [exact Hin|]. split; [apply Z.ltb_lt; exact Bq|apply Z.leb_le; exact C]. }
  assert (P7 : forall a, 300 * lx_sec + reobs_window < a <= 300 * lx_sec + reobs_window + reobs_period + proc_retry_ns ->
                 exists s, In (s, LCleanup) states /\ a < l_now s <= a + proc_tick_ns).
  { assert (Hb : allz (fun k => existsb (fun so => is_cleanup (snd so) && (l_now (fst so) =? k * (30 * lx_sec))) states) 33 25 = true) by (rewrite Est; vm_compute; reflexivity).
    intros a Ha. set (q := a / (30 * lx_sec)). pose proof (Z.div_mod a (30 * lx_sec) ltac:(discriminate)) as Hd. pose proof (Z.mod_pos_bound a (30 * lx_sec) ltac:(reflexivity)) as Hm.
    fold q in Hd. unfold reobs_window, reobs_period, proc_retry_ns, proc_tick_ns, lx_sec in *.
    assert (Hq : 33 <= q + 1 < 33 + Z.of_nat 25) by (cbn [Z.of_nat]; lia).
    pose proof (allz_sound _ _ _ Hb (q + 1) Hq) as X. cbn beta in X. apply existsb_exists in X as ([s o] & Hin & Y). cbn [fst snd] in Y. apply andb_prop in Y as [A Bq].
    destruct o; try discriminate A. apply Z.eqb_eq in Bq. exists s. split; [exact Hin|]. rewrite Bq. lia. }
  assert (P8a : forall s t0, In (s, LClock t0) states -> l_sendq s = []).
  { assert (Hb : forallb (fun so => implb (is_clock (snd so)) (match l_sendq (fst so) with [] => true | _ => false end)) states = true) by (rewrite Est; vm_compute; reflexivity).
    intros s t0 Hin. pose proof (forallb_states _ _ Hb _ Hin) as X. cbn [fst snd is_clock implb] in X. destruct (l_sendq s); [reflexivity|discriminate]. }
  assert (P9 : forallb (fun e => match snd e with EPost _ Reobserve.PostErrChanFull => false | EDisp _ _ Reobserve.DropFull => false | _ => true end) tr = true) by (rewrite Etr; vm_compute; reflexivity).
  assert (P10 : existsb (fun e => match snd e with EDisp _ (Reobserve.Req r f) (Reobserve.Forward _) => (fst (Reobserve.key_of r) =? 2) && bytes_eqb (snd (Reobserve.key_of r)) [x07] && (300 * lx_sec <? f) && (f <=? 300 * lx_sec + loop_bound) | _ => false end) tr = true)
    by (rewrite Etr; vm_compute; reflexivity).
  subst states tr.
  split; [exact linit_inv|]. split; [constructor|]. split; [vm_compute; discriminate|]. split; [apply lmonob_sound; vm_compute; reflexivity|]. split; [vm_compute; discriminate|].
  split; [exact P5|]. split; [exact P6|]. split; [exact P7|]. split; [split; [exact P8a|vm_compute; reflexivity]|].
  split; [intros u r Hin; pose proof (forallb_states _ _ P9 _ Hin) as X; discriminate X|].
  split; [intros u s r f _ Hin; pose proof (forallb_states _ _ P9 _ Hin) as X; discriminate X|].
  apply existsb_exists in P10 as ([u e] & Hin & X). cbn [snd] in X. destruct e as [| | |s o x|]; try discriminate X. destruct o as [r f| |]; try discriminate X. destruct x; try discriminate X.
  apply andb_prop in X as [X D]. apply andb_prop in X as [X C]. apply andb_prop in X as [A Bq].
  exists u, s, r, f, c. split; [exact Hin|]. split; [|split; [apply Z.ltb_lt; exact C|apply Z.leb_le; exact D]].
  apply Z.eqb_eq in A. apply bytes_eqb_eq in Bq. unfold key_of_msg. destruct (Reobserve.key_of r) as [kc kt]. cbn [fst snd] in *. subst. reflexivity.
Qed.


